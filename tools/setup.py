#!/venv/bin/python
"""MANIFEST.setup_cmd: build the whole Coq development from clean (full .vo build), offline."""
import sys, os, subprocess
from pathlib import Path
V = Path(__file__).resolve().parent.parent
sys.path.insert(0, str(V)); sys.path.insert(0, "/repo")
os.environ.setdefault("PYTHONHASHSEED", "0")
from vlib import core
import importlib
# regenerate every translated source first (they are not committed)
fail = 0
for f in sorted((V / "translate").glob("*.py")):
    if f.stem.startswith("_"):
        continue
    try:
        importlib.import_module("translate." + f.stem).emit()
    except Exception as ex:
        print("translator", f.stem, "failed:", ex); fail = 1
ok, log = core.coq_make(None, timeout=3000)
print(log[-3000:])
sys.exit(0 if ok and not fail else 1)
