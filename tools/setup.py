#!/venv/bin/python
"""MANIFEST.setup_cmd: build the Coq development from clean (full .vo build), offline.
Fatal: a translator or a build failure affecting a CLAIMED property (tools/claims.json ready=true).
Files of properties still under construction are built too but only reported."""
import sys, os, json, importlib
from pathlib import Path
V = Path(__file__).resolve().parent.parent
sys.path.insert(0, str(V)); sys.path.insert(0, "/repo")
os.environ.setdefault("PYTHONHASHSEED", "0")
from vlib import core
claims = json.loads((V / "tools" / "claims.json").read_text())
ready = [k for k, v in claims.items() if isinstance(v, dict) and v.get("ready")]
fail = 0
targets = []
for pid in ready:
    plug = importlib.import_module("props." + pid)
    for t in getattr(plug, "TRANSLATORS", []):
        try:
            importlib.import_module("translate." + t).emit()
        except Exception as ex:
            print("translator", t, "failed:", ex); fail = 1
    pf = getattr(plug, "PROPS", f"Props/{pid}.v")
    targets += [f + "o" for f in ([pf] if isinstance(pf, str) else pf)]
# translators of unclaimed properties: best effort
for f in sorted((V / "translate").glob("*.py")):
    if not f.stem.startswith("_"):
        try:
            importlib.import_module("translate." + f.stem).emit()
        except Exception as ex:
            print("(unclaimed) translator", f.stem, "failed:", ex)
ok, log = core.coq_make(sorted(set(targets)), timeout=3000)
print(log[-2500:])
ok2, log2 = core.coq_make(None, timeout=3000)
if not ok2:
    print("NOTE: full build has failures outside the claimed properties:\n" + log2[-1500:])
sys.exit(0 if ok and not fail else 1)
