#!/usr/bin/env python3
"""tools/trialbatch.py <slots> <ID:mutantdir[:extraIDs]>...  — run tools/trial.sh for many mutants, <slots> at a time;
append one JSON line per mutant to /work/trials.jsonl and print a table."""
import json, subprocess, sys, re, time
from concurrent.futures import ThreadPoolExecutor
from queue import Queue
slots = int(sys.argv[1]); jobs = sys.argv[2:]
free = Queue()
import os
for i in range(slots): free.put(f"b{os.getpid()}_{i}")
def one(job):
    parts = job.split(":"); pid, d = parts[0], parts[1]; ids = [pid] + (parts[2].split(",") if len(parts) > 2 else [])
    s = free.get()
    t0 = time.time()
    try:
        demo = f"{d}/demo.py"
        import os
        if not os.path.exists(demo): demo = "-"
        p = subprocess.run(["/verif/tools/trial.sh", s, f"{d}/patch.diff", demo] + ids, capture_output=True, text=True, timeout=7200)
        out = p.stdout + p.stderr
    except Exception as ex:
        out = repr(ex)
    finally:
        free.put(s)
    r = dict(job=job, pid=pid, dir=d, wall=round(time.time() - t0), out=out[-3000:],
             demo_clean=(re.search(r"demo without patch: exit (\d+)", out) or [None, None])[1],
             demo_patched=(re.search(r"demo with patch: exit (\d+)", out) or [None, None])[1],
             rcs=re.findall(r"^(C\d+) rc=(\d+)", out, re.M), violations=re.findall(r"^VIOLATION.*$", out, re.M)[:4],
             detail=re.findall(r"^  [a-zA-Z].*$", out, re.M)[:4])
    open("/work/trials.jsonl", "a").write(json.dumps(r) + "\n")
    caught = any(rc != "0" for _, rc in r["rcs"])
    conc = any("no-failing-input-found" not in v for v in r["violations"])
    print(f"{job}: demo {r['demo_clean']}/{r['demo_patched']} checks {r['rcs']} {'CAUGHT' if caught else 'MISSED'}{' concrete' if conc else ''} {r['wall']}s :: {(r['detail'] or [''])[0][:160]}", flush=True)
with ThreadPoolExecutor(max_workers=slots) as ex:
    list(ex.map(one, jobs))
