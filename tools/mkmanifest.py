#!/usr/bin/env python3
"""Generate /verif/MANIFEST.json from tools/claims.json (one entry per property) — a property is listed under
`checks` only when its entry has "ready": true; all others go to not_applicable with their reason."""
import json
from pathlib import Path
V = Path(__file__).resolve().parent.parent
claims = json.loads((V / "tools" / "claims.json").read_text())
ids = [json.loads(l)["id"] for l in (V / "properties.jsonl").read_text().splitlines() if l.strip()]
checks, na = [], []
for pid in ids:
    c = claims.get(pid, {})
    if c.get("ready"):
        checks.append(dict(
            property_id=pid,
            quick_cmd=f"./check {pid} --tier quick",
            thorough_cmd=f"./check {pid} --tier thorough",
            evidence_file=f"evidence/{pid}.json",
            replay_cmd_template=f"./check {pid} --replay {{path}}",
            engine="coq-proof+correspondence",
            level_claimed=dict(category=c.get("category", "proof"), text=c["text"], design_ref=c.get("design_ref", "DESIGN.md section 4 " + pid)),
            level_note=c["note"],
            technique=c.get("technique", "machine-checked proof in Coq 8.16 over an executable model tied to the code by differential correspondence"),
        ))
    else:
        na.append(dict(property_id=pid, reason=c.get("reason", "check not built yet in this round (model/tie under construction); not claimed rather than claimed at a weaker technique")))
m = dict(
    version=1,
    setup_cmd="cd /verif && /venv/bin/python tools/setup.py",
    hooks=dict(guard="PYBADS_VERIF", enable="environment variable PYBADS_VERIF=1 (set by ./check); the probe in BADS.optimize is additionally inert unless the harness attaches self._verif_probe",
               baseline_off_cmd="cd /repo && env -u PYBADS_VERIF /venv/bin/python -m pytest -ra -q -p no:cacheprovider --timeout=900 --continue-on-collection-errors",
               source_commits=claims.get("_hook_commits", []), add_only=True),
    engines=[dict(name="coq-proof+correspondence", path="check", serves_properties=[c["property_id"] for c in checks],
                  kind_free_text="Coq 8.16.1 theorems over executable Gallina models (coq/Model, coq/Proofs, coq/Props); models tied to /repo on every run by fail-closed Python-ast translators (translate/) and by differential correspondence evaluated with vm_compute (harness/, vlib/)")],
    checks=checks,
    notes="See DESIGN.md. known_findings.json lists recorded findings and repaired defects (fix: commits in /repo).",
    not_applicable=na,
)
(V / "MANIFEST.json").write_text(json.dumps(m, indent=1) + "\n")
print(f"{len(checks)} checks, {len(na)} not claimed")
