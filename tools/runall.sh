#!/bin/bash
# run every check of a tier sequentially on the current tree; one summary line per property
tier=${1:-quick}; shift
props=${@:-C01 C02 C03 C04 C05 C06 C07 C08 C09 C10 C11 C12 C13 C14 C15 C16 C17 C18 C19 C20}
cd "$(dirname "$0")/.."
mkdir -p .cache/logs
for p in $props; do
  s=$(date +%s)
  ./check $p --tier $tier > .cache/logs/$p.$tier.log 2>&1; rc=$?
  e=$(date +%s)
  echo "$p rc=$rc wall=$((e-s))s $(grep -E '^(OK|VIOLATION|KNOWN-FINDING)' .cache/logs/$p.$tier.log | tr '\n' ';' | cut -c1-300)"
done
