#!/bin/bash
# Re-check every compiled Props module (and everything it depends on) with Coq's independent checker and list the axioms.
cd "$(dirname "$0")/../coq" && timeout 7200 coqchk -silent -o -Q . PV $(ls Props/*.vo | sed 's/Props\//PV.Props./;s/\.vo//' | tr '\n' ' ')
