#!/usr/bin/env python3
"""Rewrite the block between <!-- MUTANTS:BEGIN --> and <!-- MUTANTS:END --> of DESIGN.md from seeded/*/meta.json."""
import json, re
from pathlib import Path
V = Path(__file__).resolve().parent.parent
rows, summ = [], {}
for d in sorted((V / "seeded").iterdir()):
    f = d / "meta.json"
    if not f.exists():
        continue
    m = json.loads(f.read_text())
    pid = m.get("property", d.name[:3])
    org = m.get("origin", "")
    kind = "independent" if org.startswith("independent") else ("revert of a fix" if "revers" in org or "revert" in d.name else "builder")
    st = m.get("status") or ("caught" if m.get("caught_by") else "?")
    s = summ.setdefault(pid, dict(n=0, ind=0, missed=0, noinput=0))
    s["n"] += 1; s["ind"] += kind == "independent"; s["missed"] += st.startswith("MISSED"); s["noinput"] += "no-failing" in st
    cb = re.sub(r"\s+", " ", str(m.get("caught_by", "")))[:170].replace("|", "/")
    rows.append(f"| `{d.name}` | {kind} | {st} | {cb} |")
head = "| property | seeded changes | of which independent | missed | caught without a concrete input |\n|---|---|---|---|---|\n"
head += "\n".join(f"| {p} | {s['n']} | {s['ind']} | {s['missed']} | {s['noinput']} |" for p, s in sorted(summ.items()))
body = head + "\n\n| change (seeded/…) | origin | verdict of the quick check | what caught it |\n|---|---|---|---|\n" + "\n".join(rows)
p = V / "DESIGN.md"
t = p.read_text()
t2 = re.sub(r"<!-- MUTANTS:BEGIN -->.*<!-- MUTANTS:END -->", "<!-- MUTANTS:BEGIN -->\n" + body.replace("\\", "\\\\") + "\n<!-- MUTANTS:END -->", t, flags=re.S)
p.write_text(t2)
print(len(rows), "rows")
