#!/usr/bin/env python3
"""tools/keepmutant.py <ID> <srcdir> <name> [<caught_by>] — copy an independently produced mutant (patch.diff, demo.py, notes.md)
into seeded/<ID>-ind-<name>/ with meta.json.  The verdict (caught / concrete / detail) is taken from the LAST matching line of
/work/trials.jsonl unless <caught_by> is given."""
import json, shutil, sys
from pathlib import Path
pid, src, name = sys.argv[1:4]
caught = sys.argv[4] if len(sys.argv) > 4 else None
src = Path(src); dst = Path("/verif/seeded") / f"{pid}-ind-{name}"
dst.mkdir(parents=True, exist_ok=True)
for f in ("patch.diff", "demo.py", "notes.md"):
    if (src / f).exists():
        shutil.copy(src / f, dst / f)
trial = None
for line in open("/work/trials.jsonl"):
    r = json.loads(line)
    if r["dir"] == str(src) and r["pid"] == pid:
        trial = r
status = "not run"
if trial:
    bad = any(rc != "0" for _, rc in trial["rcs"])
    conc = any("no-failing-input-found" not in v for v in trial["violations"])
    status = ("caught, concrete replay" if conc else "caught, no-failing-input-found") if bad else "MISSED"
    if caught is None:
        caught = "; ".join(d.strip()[:220] for d in trial["detail"][:2]) or status
notes = (src / "notes.md").read_text() if (src / "notes.md").exists() else ""
(dst / "meta.json").write_text(json.dumps(dict(property=pid, origin="independent sub-agent given only the property text and a scratch worktree of /repo",
    what_it_needs_to_manifest=notes[:900], status=status, caught_by=caught,
    demo_exit_codes=dict(unchanged=trial and trial["demo_clean"], patched=trial and trial["demo_patched"]),
    command=f"tools/trial.sh lead seeded/{pid}-ind-{name}/patch.diff seeded/{pid}-ind-{name}/demo.py {pid}",
    confirmed_by_lead="patch applies to /repo HEAD in a scratch worktree; demo exits 0 without and non-zero with the patch; quick check run against the patched tree (tools/trial.sh)"), indent=1))
print(dst, status)
