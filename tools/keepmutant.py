#!/usr/bin/env python3
"""tools/keepmutant.py <ID> <srcdir> <name> <caught_by> [<needs>] — copy an independently produced mutant (patch.diff, demo.py, notes.md) into seeded/<ID>-<name>/ with meta.json"""
import json, shutil, sys
from pathlib import Path
pid, src, name, caught = sys.argv[1:5]
needs = sys.argv[5] if len(sys.argv) > 5 else ""
src = Path(src); dst = Path("/verif/seeded") / f"{pid}-{name}"
dst.mkdir(parents=True, exist_ok=True)
for f in ("patch.diff", "demo.py", "notes.md"):
    if (src / f).exists():
        shutil.copy(src / f, dst / f)
notes = (src / "notes.md").read_text()[:1500] if (src / "notes.md").exists() else ""
(dst / "meta.json").write_text(json.dumps(dict(property=pid, origin="independent sub-agent given only the property text and a scratch worktree of /repo",
    what_it_needs_to_manifest=needs or notes[:600], caught_by=caught,
    command=f"tools/trymutant.sh seeded/{pid}-{name}/patch.diff seeded/{pid}-{name}/demo.py {pid}",
    confirmed_by_lead="patch applies to /repo HEAD in a scratch worktree; demo exits 0 without and non-zero with the patch; check run against the patched tree"), indent=1))
print(dst)
