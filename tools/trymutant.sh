#!/bin/bash
# usage: tools/trymutant.sh <patch.diff> <demo.py|-> <ID> [more IDs]   — applies the patch in the lead's scratch worktree of /repo, runs the demo
# (must fail with the patch and pass without) and the given checks against the patched tree.  Never touches /repo.
set -u
P=$1; DEMO=$2; shift 2
W=/work/lead-repo
git -C $W checkout -q --detach $(git -C /repo rev-parse HEAD) && git -C $W reset -q --hard && git -C $W clean -fdq
if [ "$DEMO" != "-" ]; then
  (cd $(dirname $DEMO) && PYTHONPATH=$W timeout 600 /venv/bin/python $DEMO >/dev/null 2>&1); echo "demo without patch: exit $?"
fi
git -C $W apply $P || { echo "PATCH DOES NOT APPLY"; exit 2; }
if [ "$DEMO" != "-" ]; then
  (cd $(dirname $DEMO) && PYTHONPATH=$W timeout 600 /venv/bin/python $DEMO >/dev/null 2>&1); echo "demo with patch: exit $?"
fi
for ID in "$@"; do
  (cd /verif && VERIF_REPO=$W VERIF_NOEVIDENCE=1 ./check $ID --tier quick 2>&1 | grep -v "Warn\|^  \"\"\"" | grep "VIOLATION\|^OK\|KNOWN\|^  [a-z]" | cut -c1-260 | head -6)
done
git -C $W reset -q --hard; git -C $W clean -fdq
