#!/bin/bash
# usage: tools/trial.sh <slot> <patch.diff> <demo.py|-> <ID> [more IDs]
# Concurrent-safe mutant trial: works in a private copy of /verif (/work/trial/<slot>/verif, rsynced incl. built .vo)
# and a private worktree of /repo (/work/trial/<slot>/repo).  Never touches /repo or /verif.
set -u
SLOT=$1; P=$(readlink -f $2); DEMO=$3; shift 3
[ "$DEMO" != "-" ] && DEMO=$(readlink -f $DEMO)
T=/work/trial/$SLOT; mkdir -p $T
rsync -a --delete --exclude .git --exclude '.cache' --exclude 'coq/gen/cases_*' --exclude 'coq/.build.lock' /verif/ $T/verif/
mkdir -p $T/verif/.cache
W=$T/repo
if [ ! -d $W ]; then git -C /repo worktree add -q --detach $W >/dev/null 2>&1; fi
git -C $W checkout -q --detach $(git -C /repo rev-parse HEAD) && git -C $W reset -q --hard && git -C $W clean -fdq
if [ "$DEMO" != "-" ]; then
  (cd $(dirname $DEMO) && PYTHONPATH=$W timeout 900 /venv/bin/python $DEMO >/dev/null 2>&1); echo "demo without patch: exit $?"
fi
git -C $W apply $P || { echo "PATCH DOES NOT APPLY"; exit 2; }
if [ "$DEMO" != "-" ]; then
  (cd $(dirname $DEMO) && PYTHONPATH=$W timeout 900 /venv/bin/python $DEMO >/dev/null 2>&1); echo "demo with patch: exit $?"
fi
for ID in "$@"; do
  (cd $T/verif && VERIF_REPO=$W VERIF_NOEVIDENCE=1 ./check $ID --tier ${TIER:-quick} > $T/$ID.log 2>&1; echo "$ID rc=$?"; grep -E "^(VIOLATION|OK |KNOWN)|^  [A-Za-z0-9:_@.<>+-]+: " $T/$ID.log | grep -v "^  [a-z_0-9]* = " | cut -c1-300 | head -12)
done
git -C $W reset -q --hard; git -C $W clean -fdq
