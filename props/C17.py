"""C17 — candidate filtering: no duplicates, nothing infeasible or already evaluated."""
import json
import time

import numpy as np

from harness import comp_filter as F, comp_grid as G
from vlib import core

PROPS = ["Props/C17.v", "Props/C17grid.v", "Props/C17src.v"]
TRANSLATORS = ["grid", "filter"]
THEOREMS = ["C17_in_box", "C17_feasible", "C17_nodup", "C17_subset", "C17_output_order",
            "C17_fresh_refuted", "C17_log_irrelevant", "C17_fresh_refuted_everywhere",
            # Props/C17grid.v: the model's rounding key IS the source's (gen/Src_grid.v regenerated from constraints_check.py)
            "C17_rounding_key_is_source", "C17_same_key_iff_source_rows_equal", "C17_same_key_within_half_tol",
            # Props/C17src.v: Model/Filter.v's filter_candidates IS the program regenerated from constraints_check.py (gen/Src_filter.v)
            "C17_filter_is_source", "C17_order_of_steps_is_source", "C17_source_properties", "C17_call_sites_are_source"]
LEVEL = "proof"
RULE = ("contraints_check vs Model/Filter.v, output rows compared exactly INCLUDING order. lattice stream: designed "
        "enumeration over {-2..2}^D, D<=2 (D=1: all 156 candidate lists of length<=3 x 26 intervals incl. half-infinite "
        "x proj x tol_mesh {1,4} x {none,ball,half-space} x 2 of the 31 logs; D=2: all lists of length<=2, every 5th of "
        "length 3, 16 of 676 boxes each, both proj, tol/constraint/log cycling) = 218176 cases in the thorough tier, "
        "every 5th (offset = seed mod 5) in the quick tier; random stream D<=4 with half-/quarter-integer coordinates "
        "(round-half-even ties), 1-D U with proj=True, infinite and ill-ordered bounds; table stream with a "
        "log-transformed coordinate (constraint evaluated in Python on the real inverse image); non-power-of-two "
        "tol_mesh kept where float and exact quotient round alike; run level: every contraints_check call of 8 (12) real "
        "BADS runs captured from outside. non-trivial = projects or drops a row / removes an exact duplicate / collapses "
        "rows after rounding / reorders / drops an infeasible row / meets a logged point")
TRUSTED = [
    "Coq 8.16.1 kernel + vm_compute (case evaluation); no native_compute",
    "hand-written model Model/Filter.v of constraints_check.py, tied by differential comparison (harness/comp_filter.py) AND proved equal, for all inputs, "
    "to gen/Src_filter.v, which translate/filter.py (fail-closed ast translator; whitelist in its docstring) regenerates from contraints_check on every run "
    "(C17_filter_is_source, C17_order_of_steps_is_source); the generated program is itself evaluated by vm_compute on every case of the tie against the real function "
    "(correspondence:filter_source)",
    "translate/filter.py's reading of NumPy (Model/FilterSrc.v): element-wise operators per coordinate with the (1,D) bound rows broadcast, an infinite bound = None on its own side, "
    "`A.size > 0` = 'A has a row' (D >= 1), boolean-mask / integer-array indexing, np.unique(axis=0, return_index=True) = first occurrences in lexicographic order, "
    "np.sort, np.round half-to-even, a float literal is the decimal it spells; `if function_logger is None: raise` is skipped (the logger is always passed)",
    "translate/grid.py regenerates the rounding statements of constraints_check.py (tol = tol_mesh / 2.0; np.round(U / tol) for candidates and log) on every run; "
    "C17_rounding_key_is_source proves Model/Filter.v's key equal to them; the located statements are executed for real and compared exactly (harness/comp_grid.py)",
    "NumPy semantics of np.unique(axis=0, return_index=True) (lexicographic order, first occurrence), np.round (half to even), "
    "minimum/maximum, boolean masks and broadcasting of a 1-D U against (1,D) bounds: modelled, tied, not verified",
    "float->Q conversion by float.as_integer_ratio; U/(tol_mesh/2) is computed exactly by the model: exact in binary64 for the "
    "power-of-two tol_mesh BADS always passes (optim_state['tol_mesh'] = 2**k); other tolerances are tied only where both round alike",
    "the user's constraint and VariableTransformer.inverse_transf are an oracle (a function of the row)",
]
ASSUMPTIONS = ["no NaN among candidates, bounds or logged points; D >= 1; non_box_cons returns shape (n,)",
               "C17_in_box with proj=True needs lb <= ub coordinate-wise (counter-example filter_in_box_needs_box_ok)"]
EXPLANATION = ("in-box, feasible, pairwise distinct (also after rounding to tol_mesh/2), subset-of-projected-inputs are "
               "proved for all inputs; the clause 'not coinciding with any point already evaluated' is refuted "
               "(C17_fresh_refuted, C17_log_irrelevant) and reported as the known finding " + F.NOOP_KEY)

WITNESS = dict(stream="witness", D=2, U=[[1.0, -1.0]], lb=[-2.0, -2.0], ub=[2.0, 2.0], proj=False, tol=1.0,
               cons=None, vt="none", log=[[0.0, 0.0], [1.0, -1.0]])


# ----------------------------------------------------------------------------- helpers

def table_for(c):
    return None if c["cons"] in (None, "ball", "half") and c["vt"] in ("none", "affine") else F.make_table(c)


def lit(c, out):
    return F.coq_q_case(c, out, table_for(c))


def slim(c):
    return {k: v for k, v in c.items() if k not in ("int",)}


def unlisted_concrete(ctx):
    known = {k["key"] for k in core.load_known() if k.get("property") == ctx.pid and k.get("status") == "open"}
    return [v for v in ctx.violations if v["concrete"] and v["key"] not in known]


def report_monitor(ctx, c, key, msg, seen_keys):
    """Shrink a monitor failure and register it once per key."""
    if key in seen_keys:
        return
    seen_keys.add(key)

    def failing(d):
        return any(k == key for k, _ in F.monitor(d, F.run_real(d), F.violated_fn(d)))
    small = c
    try:
        if failing(c):
            small = F.shrink(c, failing)
            msg = [m for k, m in F.monitor(small, F.run_real(small), F.violated_fn(small)) if k == key][0]
    except Exception as ex:   # keep the unshrunk input
        ctx.notes.append(f"shrink failed: {ex!r}")
    ctx.violate(key, msg + f" | input: U={small['U']} lb={small['lb']} ub={small['ub']} tol_mesh={small['tol']} "
                f"log={small['log']} proj={small['proj']} cons={small['cons']}",
                dict(kind="filter_case", clause=key, case=slim(small), code_output=F.run_real(small),
                     how="./check C17 --replay <this file>"))


def model_output(c, out, tag="show"):
    expr = ("let '(((proj, lb, ub, tol), (d, U, L), (k, tb)), E) := " + lit(c, out) + " in map (map Qred) "
            "(filter_candidates proj lb ub tol (drows d L) (cons_code k (map (fun p => (map (fun n => Qred (n # d)) "
            "(fst p), snd p)) tb)) (drows d U))")
    return core.coq_show("C17_" + tag, F.REQUIRES, expr, defs=F.DEFS)[:1500]


def shrink_diff(c):
    """Greedy single-row deletions keeping 'model and code differ'; one coqc per round."""
    cur = c
    for _ in range(12):
        cands = []
        for field in ("U", "log"):
            if field == "U" and cur.get("oneD"):
                continue
            for i in range(len(cur[field])):
                d = dict(cur); d[field] = cur[field][:i] + cur[field][i + 1:]
                cands.append(d)
        if not cands:
            break
        lits = [lit(d, F.run_real(d)) for d in cands]
        ok, bad, _ = core.run_cases("C17_shrink", F.REQUIRES, F.Q_TY, F.Q_OK, lits, shard=400, defs=F.DEFS)
        if not ok or not bad:
            break
        cur = cands[bad[0]]
    return cur


def report_diff(ctx, c, where):
    small = c
    try:
        small = shrink_diff(c)
    except Exception as ex:
        ctx.notes.append(f"diff shrink failed: {ex!r}")
    out = F.run_real(small)
    mo = model_output(small, out)
    ctx.violate("correspondence:filter",
                f"model and contraints_check differ ({where}): U={small['U']} lb={small['lb']} ub={small['ub']} "
                f"tol_mesh={small['tol']} log={small['log']} proj={small['proj']} cons={small['cons']} -> code returned {out}; "
                f"model: {mo}",
                dict(kind="filter_case", case=slim(small), code_output=out, model_output=mo, broken_obligation="correspondence:filter"),
                concrete=False)


# ----------------------------------------------------------------------------- tie

def component_cases(ctx):
    quick = ctx.quick
    cases = list(F.lattice_cases(quick, ctx.seed))
    nl = len(cases)
    n_rand, n_tab, n_np2 = (5000, 1000, 1000) if quick else (25000, 4000, 4000)
    cases += [F.random_case(ctx.rng, i) for i in range(n_rand)]
    cases += [F.table_case(ctx.rng, i) for i in range(n_tab)]
    skipped = 0
    for i in range(n_np2):
        c = F.nonpow2_case(ctx.rng, i)
        if F.float_round_agrees(c):
            cases.append(c)
        else:
            skipped += 1
    ctx.coverage["nonpow2_skipped_float_quotient_rounds_differently"] = skipped
    return cases, nl


def tie(ctx, broken):
    # the rounding key regenerated from the source (gen/Src_grid.v) against the located statements of contraints_check, run for real
    G.tie_grid(ctx, broken)
    seen_keys = set()
    T = ctx.coverage.setdefault("timing_s", {})
    t0 = time.time()
    # 0. the affine transformer used by the constraint oracles is exact: inverse_transf(u) = clamp(2u, -4, 4)
    ok_aff = True
    for D in (1, 2, 3, 4):
        vt = F.get_vt("affine", D)
        for t in (-2.5, -2.0, -1.25, -0.5, 0.0, 0.25, 1.0, 2.0, 3.0):
            u = np.full((1, D), t)
            ok_aff &= bool(np.all(vt.inverse_transf(u) == np.clip(2.0 * u, -4.0, 4.0)))
    if not ctx.oblige("harness:affine-transform-exact", "correspondence", ok_aff, "inverse_transf(u) == clip(2u,-4,4)"):
        broken.append(("harness:affine-transform-exact", "VariableTransformer(lb=-4,plb=-2,pub=2,ub=4).inverse_transf is no longer u -> clip(2u,-4,4)"))

    # 1. component streams
    cases, nl = component_cases(ctx)
    T["generate"] = round(time.time() - t0, 1); t0 = time.time()
    outs = [F.run_real(c) for c in cases]
    T["real_calls"] = round(time.time() - t0, 1); t0 = time.time()
    dist, tagc, hits, nontriv, seen = {}, {}, 0, 0, set()
    first_hit = None
    for c, o in zip(cases, outs):
        v = F.violated_fn(c)
        for key, msg in F.monitor(c, o, v):
            report_monitor(ctx, c, key, msg, seen_keys)
        h = F.fresh_hits(c, o)
        if h:
            hits += 1
            first_hit = first_hit or (c, o, h)
        dist[c["stream"]] = dist.get(c["stream"], 0) + 1
        k = json.dumps([c["U"], c["lb"], c["ub"], c["tol"], c["log"], c["proj"], c["cons"], c["vt"], c.get("oneD", False)])
        if k not in seen:
            seen.add(k)
            tg = F.tags(c, o, v)
            for t in tg:
                tagc[t] = tagc.get(t, 0) + 1
            nontriv += 1 if tg else 0
    ctx.count(len(seen), nontriv)
    ctx.coverage["stream_sizes"] = dist
    ctx.coverage["branch_tags"] = tagc
    ctx.coverage["component_calls_handing_on_an_evaluated_point"] = hits
    ctx.sample(dict(case=slim(cases[nl + 7]), code_output=outs[nl + 7]))
    ctx.sample(dict(case=slim(cases[min(nl - 1, 5000)]), code_output=outs[min(nl - 1, 5000)]))

    T["monitor_tags"] = round(time.time() - t0, 1); t0 = time.time()
    lits_int = [F.coq_int_case(c, o) for c, o in zip(cases[:nl], outs[:nl])]
    lits_q = [lit(c, o) for c, o in zip(cases[nl:], outs[nl:])]
    src_ok = F.src_generated_ok()
    sbad = []
    if src_ok:
        ok1, bad1, sbad1, log1 = F.run_cases_both("C17_lat", F.INT_TY, F.INT_OK, "ok_int_src", lits_int, shard=1500, defs=F.DEFS + F.SRC_DEFS)
        ok2, bad2, sbad2, log2 = F.run_cases_both("C17_rnd", F.Q_TY, F.Q_OK, "ok_q_src", lits_q, shard=350, defs=F.DEFS + F.SRC_DEFS)
        sbad = list(sbad1) + [nl + i for i in sbad2]
    if not src_ok or not (ok1 and ok2):     # the generated file is missing / does not build: the model alone
        src_ok = False
        ok1, bad1, log1 = core.run_cases("C17_lat", F.REQUIRES, F.INT_TY, F.INT_OK, lits_int, shard=1500, defs=F.DEFS)
        ok2, bad2, log2 = core.run_cases("C17_rnd", F.REQUIRES, F.Q_TY, F.Q_OK, lits_q, shard=350, defs=F.DEFS)
    bad = list(bad1) + [nl + i for i in bad2]
    SRC_STATE["component"] = (src_ok, sbad, len(cases), set(bad))
    good = ctx.oblige("correspondence:filter:component", "correspondence", ok1 and ok2 and not bad,
                      f"{len(bad)} of {len(cases)} cases differ; " + (log1 + log2)[-500:])
    T["coq_component"] = round(time.time() - t0, 1); t0 = time.time()
    diff_case = cases[bad[0]] if bad else (cases[sbad[0]] if sbad else None)
    if not (ok1 and ok2):
        broken.append(("correspondence:filter:component", "case files did not compile: " + (log1 + log2)[-600:]))

    # 2. the refutation witness of C17_fresh_refuted, replayed on the real code
    wout = F.run_real(WITNESS)
    reproduced = (not isinstance(wout, str)) and [1.0, -1.0] in wout
    ctx.oblige("refutation-witness:C17_fresh_refuted reproduces on the code", "correspondence", reproduced,
               f"contraints_check(U=[[1,-1]], box [-2,2]^2, tol_mesh=1, log=[[0,0],[1,-1]], proj=False) -> {wout}")
    if not reproduced:
        broken.append(("refutation-witness", "C17_fresh_refuted's witness no longer reproduces: the code now removes the "
                       f"evaluated point (returned {wout}); Model/Filter.v is no longer faithful"))

    # 3. run level
    run_ev, run_diff = run_level(ctx, broken, seen_keys)
    T["run_level_total"] = round(time.time() - t0, 1); t0 = time.time()

    # 3b. translator validation: the program regenerated from the source, evaluated by Coq on the SAME literals
    source_tie(ctx, broken)

    # 4. known finding: one report carrying the component witness and the run-level corollary
    if reproduced or hits or run_ev.get("calls_handing_on_an_evaluated_point"):
        worst = run_ev.get("worst")
        what = ("contraints_check hands on candidates that coincide with already evaluated points: witness U=[[1,-1]] with "
                f"(1,-1) in the log -> {wout}; {hits} component cases and {run_ev.get('calls_handing_on_an_evaluated_point', 0)} of "
                f"{run_ev.get('calls', 0)} captured run-level calls do so; deterministic runs re-evaluating a point: "
                f"{run_ev.get('runs_with_repeats', 0)} of {run_ev.get('runs', 0)}" + (f", worst {worst}" if worst else ""))
        ctx.violate(F.NOOP_KEY, what, dict(kind="filter_case", case=WITNESS, code_output=wout, run_level=run_ev.get("per_run")))

    # 5. correspondence break without a failing input of the property: look harder, then report the differing case
    diff_case = diff_case or run_diff
    if diff_case is not None:
        if not unlisted_concrete(ctx):
            search(ctx, broken)
        if not unlisted_concrete(ctx):
            report_diff(ctx, diff_case, "component" if bad else "run level")
        else:
            ctx.notes.append("model and code also differ on " + json.dumps(slim(diff_case))[:600])


SRC_STATE = {}


def source_tie(ctx, broken):
    comp, run = SRC_STATE.get("component"), SRC_STATE.get("run")
    evaluated = bool(comp and comp[0] and run and run[0])
    n = (comp[2] if comp else 0) + (run[2] if run else 0)
    sb = (list(comp[1]) if comp else []) + (list(run[1]) if run else [])
    mb = (comp[3] if comp else set()), (run[3] if run else set())
    only_src = [i for i in (comp[1] if comp else []) if i not in mb[0]] + [i for i in (run[1] if run else []) if i not in mb[1]]
    detail = (f"{len(sb)} of {n} cases differ between gen/Src_filter.v (src_filter, evaluated by vm_compute) and the real contraints_check"
              if evaluated else "NOT EVALUATED: gen/Src_filter.v was not generated or does not build (source outside the translator's whitelist)")
    if not ctx.oblige("correspondence:filter_source", "correspondence", evaluated and not sb, detail):
        if not evaluated:
            broken.append(("correspondence:filter_source", "the program regenerated from contraints_check could not be evaluated: " + detail))
        elif only_src:
            broken.append(("correspondence:filter_source", f"TRANSLATOR fault: the generated program differs from the real function on {len(only_src)} cases "
                           "on which the hand-written model agrees with it"))
        else:
            broken.append(("correspondence:filter_source", "generated program and hand-written model both differ from the real function on the same cases"))
    elif (comp and comp[3]) or (run and run[3]):
        ctx.notes.append("the program regenerated from the source AGREES with the real function where the hand-written model differs: "
                         "the source has changed, Model/Filter.v no longer describes it")
    ctx.coverage["source_tie"] = dict(evaluated=evaluated, cases=n, differing=len(sb))


def aim():
    """which stages of contraints_check the current source differs in (from the reference translation) or fails to translate at"""
    from translate import filter as TF
    defs, ex = TF.current()
    if defs is None:
        msg = str(ex)
        foc = []
        for k, words in (("stage1", ("minimum", "maximum", "proj", " > ", " < ", "bounds", "any", "all", "hi", "lo")),
                         ("stage2", ("unique", "sort")), ("stage3", ("round", "vstack", "len", "tol", "size", "X_max_idx", "slice")),
                         ("stage4", ("cons", "inverse_transf", "carr", "xarr"))):
            if any(w in msg for w in words):
                foc.append(k)
        return foc or ["stage1", "stage2", "stage3", "stage4"], "translation stopped: " + msg[:300]
    d = TF.diff(defs)
    foc = [k.replace("src_", "") for k in d if k.startswith("src_stage") and k[-1].isdigit()]
    if any(k in ("src_filter", "src_stage_writes") for k in d) or len([k for k in defs if k.startswith("src_stage") and k[-1].isdigit()]) != 4:
        foc = ["stage1", "stage2", "stage3", "stage4"]
    return foc, ("definitions differing from the reference translation: " + ", ".join(d) if d else "no difference from the reference translation")


def run_level(ctx, broken, seen_keys):
    quick = ctx.quick
    panel = F.run_panel(ctx.rng, quick)
    runlogs, lits, lit_cases = [], [], []
    n_tagged = 0
    ev = dict(runs=0, calls=0, calls_to_coq=0, calls_handing_on_an_evaluated_point=0, runs_with_repeats=0, per_run=[], worst=None)
    site_dist = {}
    worst_m = 1
    for p in panel:
        r = F.traced_run(p)
        if not ctx.oblige(f"run:completed D={p['D']} opt={p['opt']} cons={p['cons']}", "correspondence", r["error"] is None, str(r["error"])):
            if "run-raised" not in seen_keys:
                seen_keys.add("run-raised")
                ctx.violate("run-raised", f"BADS run {p} raised {r['error']}", dict(kind="run", p=p))
            continue
        ev["runs"] += 1
        calls = r["calls"]
        ev["calls"] += len(calls)
        # transformer of the run is the one the replay rebuilds
        if calls:
            vt, vt2 = calls[0]["vt"], F.get_vt("run", p["D"])
            pts = np.array([[-1.5] * p["D"], [0.25] * p["D"], [1.0] * p["D"]])
            if not np.array_equal(vt.inverse_transf(pts), vt2.inverse_transf(pts)):
                ctx.notes.append("run transformer differs from the replay transformer")
        full = max((c["logX"] for c in calls), key=len, default=np.zeros((0, p["D"])))
        rid = len(runlogs)
        runlogs.append(full.tolist())
        hit_rows, n_hit_calls = set(), 0
        small, big = [], []
        for i, rec in enumerate(calls):
            c = F.call_to_case(rec, p)
            out = rec["out"].tolist() if rec["out"].ndim == 2 else "BadShape" + str(rec["out"].shape)
            v = F.run_violated(rec, p)
            for key, msg in F.monitor(c, out, v):
                report_monitor(ctx, c, key, f"[run D={p['D']} opt={p['opt']} seed={p['seed']} call {i} at {rec['site']}] " + msg, seen_keys)
            h = F.fresh_hits(c, out)
            if h:
                n_hit_calls += 1
                hit_rows |= {tuple(x) for x in h}
            k = (rec["site"], "proj" if rec["proj"] else "noproj", "1-D U" if rec["oneD"] else "2-D U")
            site_dist[str(k)] = site_dist.get(str(k), 0) + 1
            (small if len(c["U"]) <= 64 else big).append((i, rec, c, out))
        ev["calls_handing_on_an_evaluated_point"] += n_hit_calls
        # provenance: "every candidate set handed on for evaluation" IS a filter output -- every evaluated point other than the start
        # (and its noise-test repeat) must be a row of the output of a contraints_check call made by bads.py before that evaluation
        rows_so_far, ci, orphan = set(), 0, []
        for j, e in enumerate(r["evals"]):
            while ci < e["after_call"]:
                if calls[ci]["site"] == "bads" and calls[ci]["out"].ndim == 2:
                    rows_so_far |= {tuple(x) for x in calls[ci]["out"].tolist()}
                ci += 1
            if j == 0 or e["noise_test"]:
                continue
            if tuple(e["u"]) not in rows_so_far:
                orphan.append(e["u"])
        ev["evaluations_traced_to_a_filter_output"] = ev.get("evaluations_traced_to_a_filter_output", 0) + len(r["evals"]) - len(orphan)
        if orphan and "evaluated-point-not-filtered" not in seen_keys:
            seen_keys.add("evaluated-point-not-filtered")
            ctx.violate("evaluated-point-not-filtered",
                        f"run D={p['D']} opt={p['opt']} seed={p['seed']} options={p.get('opts')}: evaluated point(s) {orphan[:3]} are not rows of any candidate set "
                        "returned by contraints_check before the evaluation (the set handed on for evaluation was modified after filtering)", dict(kind="run", p=p))
        # repeated evaluations and their attribution
        unexplained = []
        noise_tests = 0
        for e in r["evals"]:
            if not e["repeat"]:
                continue
            if e["noise_test"]:
                noise_tests += 1
                if noise_tests == 1:
                    continue
            if tuple(e["u"]) not in hit_rows:
                unexplained.append(e["u"])
        if unexplained:
            ctx.violate("repeat-evaluation-other-mechanism",
                        f"deterministic run D={p['D']} opt={p['opt']} seed={p['seed']}: point(s) {unexplained[:3]} evaluated again although "
                        "no contraints_check call handed them on as coinciding with the log", dict(kind="run", p=p))
        mult = max(r["xcount"].values()) if r["xcount"] else 0
        rep_pts = {str(list(k)): m for k, m in r["xcount"].items() if m > 1}
        x0_only = all(m == 2 and k == tuple([0.0] * p["D"]) for k, m in r["xcount"].items() if m > 1)
        if not x0_only:
            ev["runs_with_repeats"] += 1
        if mult > worst_m:
            worst_m = mult
            xk = max(r["xcount"], key=r["xcount"].get)
            ev["worst"] = f"x={list(xk)} evaluated {mult} times (D={p['D']}, optimum at {p['opt']}, seed {p['seed']})"
        ev["per_run"].append(dict(D=p["D"], opt=p["opt"], cons=p["cons"], seed=p["seed"], n_search=p["n_search"],
                                  filter_calls=len(calls), calls_handing_on_an_evaluated_point=n_hit_calls,
                                  target_calls=sum(r["xcount"].values()), multiplicity_histogram=r["hist"],
                                  repeated_points=rep_pts, fval=r["fval"], x=r["x"]))
        # cases for Coq (the model's de-duplication and sort are quadratic): every call with <= 64 rows (at most
        # 300), some of the medium ES batches (65..600 rows), very few of the large ones (> 600 rows)
        if len(small) > 300:
            small = ctx.rng.sample(small, 300)
        medium = [t for t in big if len(t[2]["U"]) <= 600]
        large = [t for t in big if len(t[2]["U"]) > 600]
        nmed, nlarge = (16, 2) if quick else (60, 8)
        medium = ctx.rng.sample(medium, nmed) if len(medium) > nmed else medium
        large = ctx.rng.sample(large, nlarge) if len(large) > nlarge else large
        big = medium + large
        for i, rec, c, out in sorted(small + big, key=lambda t: t[0]):
            n = rec["nlog"]
            if np.array_equal(rec["logX"], full[:n]):
                rr, nn = rid, n
            else:
                rr, nn = len(runlogs), n
                runlogs.append(rec["logX"].tolist())
            tb = None
            if rec["cons"]:
                v = F.run_violated(rec, p)
                rows = {tuple(map(float, u)) for u in c["U"]} | {tuple(F.clamp_row(list(map(float, u)), c["lb"], c["ub"])) for u in c["U"]}
                tb = [(list(x), v(list(x))) for x in sorted(rows)]
            lits.append(F.coq_run_case(c, out, tb, rr, nn))
            lit_cases.append(c)
            n_tagged += 1 if F.tags(c, out, F.run_violated(rec, p)) else 0
    ev["calls_to_coq"] = len(lits)
    ctx.coverage["run_level"] = ev
    ctx.coverage["run_call_sites"] = site_dist
    ctx.coverage["traces_validated_against_impl"] = ev["runs"]
    ctx.count(len(lits), n_tagged)
    defs = F.DEFS + F.runlogs_def(runlogs) + F.RUN_DEFS
    order = sorted(range(len(lits)), key=lambda i: -len(lits[i]))          # deal heavy cases round-robin over 12 shards
    nsh = 12
    buckets = [order[k::nsh] for k in range(nsh)]
    per = max(len(b) for b in buckets) if lits else 1
    order = [i for b in buckets for i in (b + [b[-1]] * (per - len(b)) if b else [])]
    lits = [lits[i] for i in order]
    lit_cases = [lit_cases[i] for i in order]
    tc = time.time()
    ctx.coverage["run_level_literal_bytes"] = sum(map(len, lits))
    src_ok, sbad = F.src_generated_ok(), []
    if src_ok:
        ok, bad, sbad, log = F.run_cases_both("C17_run", F.RUN_TY, F.RUN_OK, "ok_run_src", lits, shard=per, defs=defs + F.SRC_DEFS + F.RUN_SRC_DEFS)
    if not src_ok or not ok:
        src_ok = False
        ok, bad, log = core.run_cases("C17_run", F.REQUIRES, F.RUN_TY, F.RUN_OK, lits, shard=per, defs=defs)
    SRC_STATE["run"] = (src_ok, sbad, len(lits), set(bad))
    ctx.coverage.setdefault("timing_s", {})["coq_run_level"] = round(time.time() - tc, 1)
    ctx.oblige("correspondence:filter:run-level", "correspondence", ok and not bad,
               f"{len(bad)} of {len(lits)} captured calls differ; " + log[-500:])
    if not ok:
        broken.append(("correspondence:filter:run-level", "run-level case files did not compile: " + log[-600:]))
    return ev, (lit_cases[bad[0]] if bad else (lit_cases[sbad[0]] if sbad else None))


# ----------------------------------------------------------------------------- search / replay

def search(ctx, broken):
    """More inputs through the declarative monitor (no Coq): random, table and a different lattice slice."""
    seen_keys = {v["key"] for v in ctx.violations}
    # cases AIMED at the construct of the source that changed (translator's diff against the reference / where translation stopped)
    try:
        focus, why = aim()
    except Exception as ex:    # noqa: BLE001
        focus, why = [], f"aim failed: {ex!r}"
    ctx.notes.append(f"search aimed at {focus}: {why}")
    for i in range((6000 if ctx.quick else 30000) if focus else 0):
        c = F.gen_aimed(ctx.rng, i, focus[i % len(focus)])
        o = F.run_real(c)
        m = F.monitor(c, o, F.violated_fn(c))
        if m:
            report_monitor(ctx, c, m[0][0], f"[search aimed at {focus[i % len(focus)]}; {why[:200]}] " + m[0][1], seen_keys)
            return True
    gens = [F.random_case] * 4 + [F.table_case]
    for i in range(12000 if ctx.quick else 60000):
        c = gens[i % len(gens)](ctx.rng, i)
        o = F.run_real(c)
        m = F.monitor(c, o, F.violated_fn(c))
        if m:
            report_monitor(ctx, c, m[0][0], m[0][1], seen_keys)
            return True
    for c in F.lattice_cases(True, ctx.seed + 5):
        o = F.run_real(c)
        m = F.monitor(c, o, F.violated_fn(c))
        if m:
            report_monitor(ctx, c, m[0][0], m[0][1], seen_keys)
            return True
    return False


def replay(ctx, rp):
    r = rp["replay"]
    key = rp.get("key", "")
    if r.get("kind") == "run":
        res = F.traced_run(r["p"])
        print("replay run:", r["p"], "error:", res["error"], "multiplicity histogram:", res["hist"])
        bad = 0
        for i, rec in enumerate(res["calls"]):
            c = F.call_to_case(rec, r["p"])
            for k, msg in F.monitor(c, rec["out"].tolist(), F.run_violated(rec, r["p"])):
                print(f"  call {i} at {rec['site']}: {k}: {msg}")
                bad += 1
        reps = [e["u"] for e in res["evals"] if e["repeat"] and not e["noise_test"]]
        print("  repeated evaluations (internal points):", reps[:10])
        return 1 if (bad or res["error"] or (key.startswith("repeat") and reps)) else 0
    c = r["case"]
    out = F.run_real(c)
    print("replay: contraints_check(U=%s, lb=%s, ub=%s, tol_mesh=%s, log=%s, proj=%s, cons=%s)" %
          (c["U"], c["lb"], c["ub"], c["tol"], c["log"], c["proj"], c["cons"]))
    print("  code returns :", out)
    msgs = F.monitor(c, out, F.violated_fn(c))
    for k, m in msgs:
        print("  VIOLATED", k, ":", m)
    h = F.fresh_hits(c, out)
    if h:
        print("  rows handed on although already evaluated:", h)
    rc = 1 if msgs else 0
    if key == F.NOOP_KEY:
        rc = 1 if h else 0
    if key.startswith("correspondence"):
        ok, bad, _ = core.run_cases("C17_replay", F.REQUIRES, F.Q_TY, F.Q_OK, [lit(c, out)], defs=F.DEFS)
        print("  model returns:", model_output(c, out, "replay"))
        rc = 1 if (not ok or bad) else rc
    print("  property holds on this input now" if rc == 0 else "  reproduced")
    return rc
