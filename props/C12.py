"""C12 — the evaluation log records exactly what was observed, where it was observed."""
from harness import comp_logger as L
from vlib import core

PROPS = ["Props/C12.v", "Props/C12extent.v"]
THEOREMS = ["C12_refines", "C12_other_rows_untouched", "C12_growth_invisible", "C12_func_count_exact",
            "C12_merged_is_weighted_mean", "C12_call_order_preserved", "C12_no_double_match", "C12_extent_covers_every_record"]
LEVEL = "proof"
RULE = ("op sequences over FunctionLogger generated from one PRNG (new points / exact repeats / points sharing k<D "
        "coordinates / record flags / add / finalize / 13 fault kinds; D 1-4; cache sizes 0-8,500; levels 0,1,2; "
        "with and without a transform); a case is non-trivial when it contains a merge, a growth or a no-record hit; "
        "distinct = distinct (cfg, ops)")
TRUSTED = [
    "Coq 8.16.1 kernel + vm_compute (case evaluation); no native_compute",
    "hand-written model Model/Logger.v of function_logger.py, tied by per-op differential comparison (harness/comp_logger.py)",
    "float->Q conversion by float.as_integer_ratio; merged Y and S^2 compared to the exact rational at 1e-9 relative (IEEE rounding of the weighted mean is not modelled)",
    "NumPy array semantics, Timer/fun_eval_time bookkeeping and Y_max are not modelled",
]
ASSUMPTIONS = ["unknown-noise level 1 sequences contain no add() (the code would merge into a row without SD and write NaN; BADS never calls add)"]


def gen_cases(ctx, n):
    cases = []
    for i in range(n):
        cfg, ops = L.gen_sequence(ctx.rng, i)
        trace, oracle = L.run_real(cfg, ops)
        cases.append((cfg, ops, trace, oracle))
    return cases


def nontrivial(trace):
    return any(any(r[5] > 1 for r in st["rows"]) for _, st in trace) or len({st["cap"] for _, st in trace}) > 1


def tie(ctx, broken):
    n = 600 if ctx.quick else 6000
    cases = gen_cases(ctx, n)
    seen = set()
    for cfg, ops, trace, oracle in cases:
        key = repr((cfg, ops))
        if key not in seen:
            seen.add(key)
            ctx.count(1, 1 if nontrivial(trace) else 0)
    ctx.sample(dict(cfg=cases[3][0], ops=cases[3][1][:6], final_state=cases[3][2][-1][1]))
    dist = {}
    for cfg, ops, _, _ in cases:
        for o in ops:
            k = o["op"] + ":" + o.get("out", "")
            dist[k] = dist.get(k, 0) + 1
    ctx.coverage["op_distribution"] = dist
    coq = [L.coq_case(*c) for c in cases]
    okc, bad, log = core.run_cases("C12", L.REQUIRES, L.CASE_TY, L.OK_FUN, coq, shard=150)
    ctx.coverage["traces_validated_against_impl"] = len(cases) - len(bad)
    good = ctx.oblige("correspondence:logger", "correspondence", okc and not bad,
                      f"{len(bad)} of {len(cases)} sequences differ; " + log[-500:])
    # --- the extent model (Model/LoggerExtent.v, Props/C12extent.v): Xn, X_max_idx and the capacity after every op, up to the first finalize
    ext_cases, ext_idx = [], []
    for i, (cfg, ops, trace, oracle) in enumerate(cases):
        flags, exp, prev = [], [], -1
        for o, (res, st) in zip(ops, trace):
            if o["op"] == "finalize":
                break
            flags.append(st["Xn"] > prev)
            prev = st["Xn"]
            exp.append(f"(({core.cz(st['Xn'])}, {core.cz(st['X_max_idx'])}), {core.cz(st['cap'])})")
        if flags:
            ext_cases.append(f"(({core.cz(cfg['cache'])}, {core.clist([core.cbool(f) for f in flags])}), {core.clist(exp)})")
            ext_idx.append(i)
    EXT_OK = ("fun c => let t := ext_trace (ext_init (fst (fst c))) (snd (fst c)) in "
              "(Nat.eqb (List.length t) (List.length (snd c))) && forallb (fun p => let '((a, b), d) := fst p in let '((a', b'), d') := snd p in "
              "(a =? a') && (b =? b') && (d =? d')) (combine t (snd c))")
    oke, bade, loge = core.run_cases("C12ext", ["PV.Model.Val", "PV.Model.LoggerExtent"], "(Z * list bool) * list (Z * Z * Z)", EXT_OK, ext_cases, shard=200)
    grow = sum(1 for cfg, ops, trace, _ in cases if len({st["cap"] for _, st in trace}) > 1)
    ctx.coverage["extent_model"] = dict(sequences=len(ext_cases), sequences_with_growth=grow, differing=len(bade))
    if not ctx.oblige("correspondence:extent", "correspondence", oke and not bade, f"{len(bade)} of {len(ext_cases)} sequences differ from Model/LoggerExtent.v; " + loge[-300:]):
        j = ext_idx[bade[0]] if bade else 0
        broken.append(("correspondence:extent", f"extent model (Xn, X_max_idx, capacity) and FunctionLogger differ on sequence {j}: cfg={cases[j][0]} ops={cases[j][1][:10]}"))
    # the declarative monitor runs on every generated sequence regardless (search for concrete inputs)
    for cfg, ops, trace, oracle in cases:
        msg = L.monitor(cfg, ops, trace)
        if msg:
            small = L.shrink(cfg, ops, lambda c, o: L.monitor(c, o, L.run_real(c, [dict(x) for x in o])[0]) is not None)
            tr = L.run_real(cfg, [dict(x) for x in small])[0]
            ctx.violate(classify(L.monitor(cfg, small, tr) or msg), L.monitor(cfg, small, tr) or msg,
                        dict(kind="logger_sequence", cfg=cfg, ops=small,
                             how="PYTHONPATH=/repo /venv/bin/python -c 'see ./check C12 --replay'"))
            break
    if not good:
        if not ctx.violations:
            i = bad[0] if bad else 0
            cfg, ops, trace, oracle = cases[i]
            broken.append(("correspondence:logger",
                           f"model and FunctionLogger differ on sequence {i}: cfg={cfg} ops={ops[:12]}"))
        else:
            broken.append(("correspondence:logger", "model and FunctionLogger differ (concrete input found)"))


def classify(msg):
    if "precision-weighted" in msg or "combined variance" in msg:
        return "merge-wrong-row"
    if "func_count" in msg:
        return "func_count"
    return "log-content"


def search(ctx, broken):
    for i in range(3000):
        cfg, ops = L.gen_sequence(ctx.rng, i)
        trace, _ = L.run_real(cfg, ops)
        msg = L.monitor(cfg, ops, trace)
        if msg:
            small = L.shrink(cfg, ops, lambda c, o: L.monitor(c, o, L.run_real(c, [dict(x) for x in o])[0]) is not None)
            tr = L.run_real(cfg, [dict(x) for x in small])[0]
            m2 = L.monitor(cfg, small, tr) or msg
            ctx.violate(classify(m2), m2, dict(kind="logger_sequence", cfg=cfg, ops=small))
            return True
    return False


def replay(ctx, rp):
    r = rp["replay"]
    trace, _ = L.run_real(r["cfg"], [dict(o) for o in r["ops"]])
    msg = L.monitor(r["cfg"], r["ops"], trace)
    print("replay:", msg or "property holds on this input now")
    for res, st in trace:
        print("  ", res, st)
    return 1 if msg else 0
