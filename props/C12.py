"""C12 — the evaluation log records exactly what was observed, where it was observed."""
from harness import comp_logger as L
from translate import logger as TL
from vlib import core

PROPS = ["Props/C12.v", "Props/C12extent.v", "Props/C12src.v"]
TRANSLATORS = ["logger"]
THEOREMS = ["C12_record_is_source", "C12_merge_formula_is_source", "C12_growth_is_source", "C12_step_is_source", "C12_call_add_are_source",
            "C12_refines", "C12_other_rows_untouched", "C12_growth_invisible", "C12_func_count_exact",
            "C12_merged_is_weighted_mean", "C12_call_order_preserved", "C12_no_double_match", "C12_extent_covers_every_record"]
LEVEL = "proof"
RULE = ("op sequences over FunctionLogger generated from one PRNG (new points / exact repeats / points sharing k<D "
        "coordinates / record flags / add / finalize / 13 fault kinds; D 1-4; cache sizes 0-8,500; levels 0,1,2; "
        "with and without a transform); a case is non-trivial when it contains a merge, a growth or a no-record hit; "
        "distinct = distinct (cfg, ops); source: FunctionLogger (_record with _expand_arrays inlined, __call__, add, __init__, finalize) is re-translated "
        "from function_logger.py on every run (translate/logger.py -> coq/gen/Src_logger.v), proved equal to Model/Logger.v's record / step and "
        "Model/LoggerExtent.v's new_record for all states (Props/C12src.v), and the GENERATED programs are evaluated by Coq on every generated sequence "
        "next to the hand-written model (incl. X_max_idx after every op), both against the real FunctionLogger; the ordered validity tests are evaluated "
        "on every (noise mode, returned-value kind) pair")
TRUSTED = [
    "Coq 8.16.1 kernel + vm_compute (case evaluation); no native_compute",
    "hand-written model Model/Logger.v of function_logger.py, tied by per-op differential comparison (harness/comp_logger.py); its record / step and "
    "LoggerExtent.new_record are PROVED equal to the programs regenerated from the source (C12_record_is_source, C12_step_is_source, C12_growth_is_source)",
    "translate/logger.py (fail-closed ast whitelist + symbolic execution of _record; writer census over the class and the package; unused rows read as NaN rows that "
    "match no point; sqrt symbolic; the point preamble / exception handler / coercions of __call__ pinned as text) - validated on every run: the generated programs "
    "are evaluated by Coq (vm_compute) on every sequence of the tie and compared with the real FunctionLogger",
    "Model/LoggerSrc.v: the meaning of the program language (run_rprog, run_checks, step_gen)",
    "float->Q conversion by float.as_integer_ratio; merged Y and S^2 compared to the exact rational at 1e-9 relative (IEEE rounding of the weighted mean is not modelled)",
    "NumPy array semantics, Timer/fun_eval_time bookkeeping and Y_max are not modelled",
]
ASSUMPTIONS = ["unknown-noise level 1 sequences contain no add() (the code would merge into a row without SD and write NaN; BADS never calls add)"]


def gen_cases(ctx, n):
    cases = []
    for i in range(n):
        cfg, ops = L.gen_sequence(ctx.rng, i)
        trace, oracle = L.run_real(cfg, ops)
        cases.append((cfg, ops, trace, oracle))
    return cases


def nontrivial(trace):
    return any(any(r[5] > 1 for r in st["rows"]) for _, st in trace) or len({st["cap"] for _, st in trace}) > 1


def tie(ctx, broken):
    n = 600 if ctx.quick else 6000
    cases = gen_cases(ctx, n)
    seen = set()
    for cfg, ops, trace, oracle in cases:
        key = repr((cfg, ops))
        if key not in seen:
            seen.add(key)
            ctx.count(1, 1 if nontrivial(trace) else 0)
    ctx.sample(dict(cfg=cases[3][0], ops=cases[3][1][:6], final_state=cases[3][2][-1][1]))
    dist = {}
    for cfg, ops, _, _ in cases:
        for o in ops:
            k = o["op"] + ":" + o.get("out", "")
            dist[k] = dist.get(k, 0) + 1
    ctx.coverage["op_distribution"] = dist
    coq = [L.coq_case_src(*c) for c in cases]
    cur, tex = TL.current()
    sdiff = TL.diff(cur) if cur is not None else []
    ctx.coverage["source_translation"] = dict(translatable=cur is not None, error=(str(tex)[:300] if tex else None),
                                              differs_from_reference=[d["name"] for d in sdiff])
    bad_src, src_log = None, ""
    if TL.generated_ok() and cur is not None:
        okc, bad, bad_src, log = L.run_cases_both("C12", coq, shard=150)
        if not okc:
            src_log = log
            bad_src = None
    else:
        src_log = "no generated program: " + (str(tex) if tex else "coq/gen/Src_logger.v holds no definition")
    if bad_src is None:
        okc, bad, log = core.run_cases("C12", L.REQUIRES, L.CASE_TY, L.OK_FUN, [L.coq_case(*c) for c in cases], shard=150)
    ctx.coverage["traces_validated_against_impl"] = len(cases) - len(bad)
    good = ctx.oblige("correspondence:logger", "correspondence", okc and not bad,
                      f"{len(bad)} of {len(cases)} sequences differ; " + log[-500:])
    # the translator is checked, not trusted: the GENERATED programs against the real FunctionLogger on the same sequences
    if bad_src is not None:
        ctx.coverage["source_program_validated_on"] = len(cases) - len(bad_src)
        if not ctx.oblige("correspondence:logger_source", "correspondence", not bad_src,
                          f"generated programs (coq/gen/Src_logger.v: step_gen src_record src_call_events src_add_events) vs FunctionLogger: {len(bad_src)} of {len(cases)} sequences differ"):
            i = bad_src[0]
            broken.append(("correspondence:logger_source",
                           f"the program translated from the source and FunctionLogger differ on sequence {i}: cfg={cases[i][0]} ops={cases[i][1][:10]}"
                           + ("  [the hand-written model agrees with FunctionLogger here: TRANSLATOR fault]" if i not in bad else "")))
    else:
        ctx.oblige("correspondence:logger_source", "correspondence", False, src_log[-400:])
        if not any(nm == "translate:logger" for nm, _ in broken):
            broken.append(("correspondence:logger_source", "the generated program could not be evaluated: " + src_log[-300:]))
    if bad and bad_src is not None and bad[0] not in bad_src:
        ctx.notes.append("the program regenerated from the current source AGREES with FunctionLogger where the hand-written model differs: the source has changed, "
                         "Model/Logger.v no longer describes it (" + ", ".join(d["name"] for d in sdiff) + ")")
    L.tie_checks(ctx, broken, "C12")
    # --- the extent model (Model/LoggerExtent.v, Props/C12extent.v): Xn, X_max_idx and the capacity after every op, up to the first finalize
    ext_cases, ext_idx = [], []
    for i, (cfg, ops, trace, oracle) in enumerate(cases):
        flags, exp, prev = [], [], -1
        for o, (res, st) in zip(ops, trace):
            if o["op"] == "finalize":
                break
            flags.append(st["Xn"] > prev)
            prev = st["Xn"]
            exp.append(f"(({core.cz(st['Xn'])}, {core.cz(st['X_max_idx'])}), {core.cz(st['cap'])})")
        if flags:
            ext_cases.append(f"(({core.cz(cfg['cache'])}, {core.clist([core.cbool(f) for f in flags])}), {core.clist(exp)})")
            ext_idx.append(i)
    EXT_OK = ("fun c => let t := ext_trace (ext_init (fst (fst c))) (snd (fst c)) in "
              "(Nat.eqb (List.length t) (List.length (snd c))) && forallb (fun p => let '((a, b), d) := fst p in let '((a', b'), d') := snd p in "
              "(a =? a') && (b =? b') && (d =? d')) (combine t (snd c))")
    oke, bade, loge = core.run_cases("C12ext", ["PV.Model.Val", "PV.Model.LoggerExtent"], "(Z * list bool) * list (Z * Z * Z)", EXT_OK, ext_cases, shard=200)
    grow = sum(1 for cfg, ops, trace, _ in cases if len({st["cap"] for _, st in trace}) > 1)
    ctx.coverage["extent_model"] = dict(sequences=len(ext_cases), sequences_with_growth=grow, differing=len(bade))
    if not ctx.oblige("correspondence:extent", "correspondence", oke and not bade, f"{len(bade)} of {len(ext_cases)} sequences differ from Model/LoggerExtent.v; " + loge[-300:]):
        j = ext_idx[bade[0]] if bade else 0
        broken.append(("correspondence:extent", f"extent model (Xn, X_max_idx, capacity) and FunctionLogger differ on sequence {j}: cfg={cases[j][0]} ops={cases[j][1][:10]}"))
    # the declarative monitor runs on every generated sequence regardless (search for concrete inputs)
    for cfg, ops, trace, oracle in cases:
        msg = L.monitor(cfg, ops, trace)
        if msg:
            small = L.shrink(cfg, ops, lambda c, o: L.monitor(c, o, L.run_real(c, [dict(x) for x in o])[0]) is not None)
            tr = L.run_real(cfg, [dict(x) for x in small])[0]
            ctx.violate(classify(L.monitor(cfg, small, tr) or msg), L.monitor(cfg, small, tr) or msg,
                        dict(kind="logger_sequence", cfg=cfg, ops=small,
                             how="PYTHONPATH=/repo /venv/bin/python -c 'see ./check C12 --replay'"))
            break
    if not good:
        if not ctx.violations:
            i = bad[0] if bad else 0
            cfg, ops, trace, oracle = cases[i]
            broken.append(("correspondence:logger",
                           f"model and FunctionLogger differ on sequence {i}: cfg={cfg} ops={ops[:12]}"))
        else:
            broken.append(("correspondence:logger", "model and FunctionLogger differ (concrete input found)"))


def classify(msg):
    if "invalid value" in msg or "invalid SD" in msg:
        return "invalid-accepted"
    if "a valid evaluation" in msg:
        return "valid-rejected"
    if "precision-weighted" in msg or "combined variance" in msg:
        return "merge-wrong-row"
    if "func_count" in msg:
        return "func_count"
    return "log-content"


def aim(ctx):
    cur, tex = TL.current()
    regions = TL.regions_of_diff(cur, tex)
    desc = [f"translation stopped: {tex}"] if tex is not None else [f"{d['name']} differs from the reference translation" for d in TL.diff(cur)]
    return regions, desc


def _report(ctx, cfg, ops, msg, note=""):
    small = L.shrink(cfg, ops, lambda c, o: L.monitor(c, o, L.run_real(c, [dict(x) for x in o])[0]) is not None)
    tr = L.run_real(cfg, [dict(x) for x in small])[0]
    m2 = L.monitor(cfg, small, tr) or msg
    ctx.violate(classify(m2), m2 + note, dict(kind="logger_sequence", cfg=cfg, ops=small))


def search(ctx, broken):
    """Something is broken and the tie produced no concrete failing input: sequences AIMED at the construct of the source that changed
    (translate/logger.py knows which), then the general stream; verdicts are the declarative monitor's.  No hit: each broken obligation
    once, non-concrete."""
    regions, desc = aim(ctx)
    aimed = L.gen_aimed(ctx.rng, regions, 2500) if regions else []
    ctx.coverage["search"] = dict(source_change=[d[:200] for d in desc][:6], aimed_at=sorted(regions), aimed_sequences=len(aimed))
    note = (f"  [search aimed at: {', '.join(sorted(regions))}]" if regions else "") + (f"  [source change: {desc[0][:200]}]" if desc else "")
    for reg, cfg, ops in aimed:
        ops = [dict(o) for o in ops]
        try:
            trace, _ = L.run_real(cfg, ops)
            msg = L.monitor(cfg, ops, trace)
        except Exception as ex:       # the harness itself could not evaluate this sequence: not a verdict
            ctx.notes.append(f"aimed sequence not evaluated ({type(ex).__name__}: {ex}): cfg={cfg} ops={ops[:6]}")
            continue
        if msg:
            _report(ctx, cfg, ops, msg, note)
            return True
    if "checks" in regions or "call" in regions or "add" in regions:
        n0 = len(ctx.violations)
        L.tie_checks(ctx, [], "C12s")
        if len(ctx.violations) > n0:
            return True
    for i in range(3000):
        cfg, ops = L.gen_sequence(ctx.rng, i)
        trace, _ = L.run_real(cfg, ops)
        msg = L.monitor(cfg, ops, trace)
        if msg:
            _report(ctx, cfg, ops, msg, note)
            return True
    for name, what in broken:
        ctx.violate("broken:" + name, what + (f"  [source change: {'; '.join(d[:160] for d in desc[:3])}]" if desc else ""),
                    dict(broken_obligation=name, detail=what, source_change=desc[:6]), concrete=False)
    return True


def replay(ctx, rp):
    r = rp["replay"]
    trace, _ = L.run_real(r["cfg"], [dict(o) for o in r["ops"]])
    msg = L.monitor(r["cfg"], r["ops"], trace)
    print("replay:", msg or "property holds on this input now")
    for res, st in trace:
        print("  ", res, st)
    return 1 if msg else 0
