"""C15 — the GP surrogate is always conditioned on real, nearby observations."""
import json
import math
import os
import sys

import numpy as np

from harness import comp_gpset as C
from harness import run_gp as R
from vlib import core

PROPS = ["Props/C15.v", "Props/C15src.v"]
SRC_THEOREMS = ["C15_selection_is_source", "C15_selection_measures_the_prefix", "C15_initial_set_is_source", "C15_append_is_source",
                "C15_fit_centres_are_source"]
THEOREMS = ["C15_training_set_is_nearest", "C15_size_bounds", "C15_pairs_are_logged", "C15_noise_is_variance",
            "C15_append_is_new_observation", "C15_initial_set_is_the_log", "C15_called_on_prefix",
            "C15_lcb_is_documented", "C15_pairs_logged_after_repeat_refuted"] + SRC_THEOREMS
CLOSED = [t for t in THEOREMS if t != "C15_lcb_is_documented"]      # must not depend on any axiom
TRANSLATORS = ["lcb", "gpset"]
LEVEL = "proof"
# only C15_lcb_is_documented (a statement over R) may depend on these; tie() checks the others are closed
ALLOWED_AXIOMS = ["ClassicalDedekindReals.sig_not_dec", "ClassicalDedekindReals.sig_forall_dec",
                  "FunctionalExtensionality.functional_extensionality_dep", "Classical_Prop.classic",
                  "Axioms"]   # "Axioms" = the header line "Axioms:" of Print Assumptions, which ./check's regex also captures (reported to the lead)
AXIOM_THEOREMS = ["C15_lcb_is_documented"]      # every other theorem of this property must be closed under the global context
RULE = ("component: synthetic FunctionLoggers (0-90 rows, D 1-3, mesh points => exact distance ties, repeated points, S column absent / NaN / "
        "SDs, X_max_idx below the last row, scalar and per-coordinate len_scale, 1 or 2 reference points, n_train_min/max/buffer/radius "
        "variations) through the REAL get_grid_search_neighbors with the real udist output recorded as the distance oracle; compared with "
        "Model/GPSet.v tie group by tie group (numpy argsort is not stable); add_and_update_gp and _get_fevals_data likewise. "
        "run level: real BADS runs (det / auto / declared / specified noise, D 1-3, budgets 40-120) with wrappers from outside; every "
        "selection, local fit, posterior update, GP.fit and acquisition call monitored; a sample of selections evaluated by the Coq model. "
        "non-trivial = selection keeps fewer rows than logged, or has tied distances, or carries a noise column")
TRUSTED = [
    "Coq 8.16.1 kernel + vm_compute (case evaluation); no native_compute",
    "hand-written model Model/GPSet.v of get_grid_search_neighbors / _get_fevals_data / add_and_update_gp, tied by differential comparison "
    "AND proved equal (Props/C15src.v) to the programs translate/gpset.py regenerates from the source on every run",
    "translate/gpset.py (fail-closed ast whitelist + symbolic execution; its docstring lists every accepted shape) and the interpreters of "
    "Model/GPSetSrc.v: a slice a[lo:hi] with non-negative bounds is skipn/firstn, NumPy fancy indexing is nth_error per kept index, "
    "np.max([..]) / np.minimum are Z.max / Z.min on Python ints, x ** k is the exact rational power; the generated program is evaluated by "
    "vm_compute on every case of the differential tie (correspondence:gpset_source), so the translator is checked against the real code",
    "call-site theorems (C15_fit_centres_are_source, the site / census parts of C15_append_is_source) are pins of canonical text and small "
    "enums resolved by the translator (self.u / the argument of the latest self.function_logger(...) / history row i), not semantics",
    "distances are oracle rationals recorded from the real udist (length-scaled squared Euclidean metric via SciPy cdist: trusted, not modelled); "
    "periodic variables (non-default) are not exercised",
    "np.argsort modelled as a stable sort; order inside a group of exactly tied distances is unspecified in numpy and compared as a multiset",
    "S**2 is a binary64-rounded square in the code and an exact rational square in the model: compared at 1e-9 relative in Coq, bit-exact "
    "(np.square) in the Python monitor",
    "translate/lcb.py (fail-closed ast -> Gallina over R); decimal literals 0.1, 0.2 are translated as the rationals written in the source "
    "(1/10, 2/10): binary64 rounding of literals and of sqrt/log/pi is outside the model; validated on every run against the real function at 1e-12",
    "gpyreg GP.fit/update/predict (what the GP does with its training data) is not modelled",
    "C15_lcb_is_documented depends on the Coq standard library real-number axioms (ClassicalDedekindReals.sig_not_dec, sig_forall_dec, "
    "functional_extensionality_dep, Classical_Prop.classic); all other theorems are closed under the global context (checked)",
]
ASSUMPTIONS = ["n_train_min >= 0 (a negative ntrain would make Python slice from the end; never configured)",
               "logged values are finite (FunctionLogger rejects non-finite values), so the finite-value substitution of local_gp_fitting is a no-op"]
EXPLANATION = ("Observed, reported: deterministic and auto-detected-noise runs keep gp.s2 = None throughout (the logger has no S column); "
               "declared-noise runs (uncertainty_handling without specified noise) carry an all-NaN gp.s2 that add_and_update_gp does not extend, "
               "so it is one row short of gp.X after every posterior update (harmless: the noise function ignores it).")


# ----------------------------------------------------------------------------- LCB

class _PredictGP:
    def __init__(self, mu, s2):
        self.mu, self.s2 = mu, s2

    def predict(self, xi, add_noise=False, **kw):
        # the acquisition is defined on the GP's posterior SD; a caller asking for the PREDICTIVE variance gets a visibly different one
        return self.mu, (self.s2 + 0.25 if add_noise else self.s2)


def lcb_documented(D, func_count, f_mu, f_s2):
    t = func_count + 1
    sb = math.sqrt(2 * 0.2 * math.log(D * t ** 2 * math.pi ** 2 / (6 * 0.1)))
    return np.asarray(f_mu) - sb * np.sqrt(np.asarray(f_s2))


def lcb_real(c):
    from pybads.acquisition_functions.acq_fcn_lcb import acq_fcn_lcb
    n = len(c["f_mu"])
    xi = np.zeros((n, c["D"]))
    mu = np.array(c["f_mu"], dtype=float).reshape(n, 1)
    s2 = np.array(c["f_s2"], dtype=float).reshape(n, 1)
    z, f_mu, f_s = acq_fcn_lcb(xi, c["func_count"], _PredictGP(mu, s2))
    return np.asarray(z).reshape(-1), np.asarray(f_mu).reshape(-1), np.asarray(f_s).reshape(-1)


def lcb_monitor(c):
    try:
        z, f_mu, f_s = lcb_real(c)
    except Exception as ex:
        return f"acq_fcn_lcb raised {type(ex).__name__}: {ex}"
    want = lcb_documented(c["D"], c["func_count"], c["f_mu"], c["f_s2"]).reshape(-1)
    if not np.array_equal(f_mu, np.array(c["f_mu"])) or not np.array_equal(f_s, np.sqrt(np.array(c["f_s2"]))):
        return "returned f_mu / f_s are not the GP mean / sqrt(GP variance)"
    scale = np.abs(want) + np.abs(want - np.array(c["f_mu"])) + 1e-300
    if z.shape != want.shape or np.max(np.abs(z - want) / scale) > 1e-12:
        j = int(np.argmax(np.abs(z - want)))
        return (f"acquisition value {z[j]} != GP mean - sqrt(beta_t) * GP sd = {want[j]} with beta_t = 2*0.2*ln(D t^2 pi^2 / (6*0.1)), "
                f"D={c['D']}, t=func_count+1={c['func_count'] + 1}, mean={c['f_mu'][j]}, variance={c['f_s2'][j]}")
    return None


def gen_lcb_case(rng):
    n = rng.choice([1, 2, 5])
    return dict(D=rng.choice([1, 2, 3, 6]), func_count=rng.choice([0, 1, 5, 37, 200, rng.randint(0, 2000)]),
                f_mu=[rng.uniform(-10, 10) for _ in range(n)], f_s2=[rng.choice([0.0, 1.0, rng.uniform(0, 9)]) for _ in range(n)])


def tie_lcb(ctx, broken):
    from translate import lcb as T
    n = 200 if ctx.quick else 2000
    bad_tr = None
    try:
        defs, bound, info = T.parse()
    except Exception as ex:
        defs = None
        bad_tr = repr(ex)
    first = None
    for _ in range(n):
        c = gen_lcb_case(ctx.rng)
        m = lcb_monitor(c)
        if m and first is None:
            first = (c, m)
        if defs is not None and bad_tr is None:
            z, _, _ = lcb_real(c)
            for j in range(len(c["f_mu"])):
                v = T.evaluate(defs, bound, dict(n_vars=c["D"], func_count=c["func_count"], f_mu=c["f_mu"][j], f_s2=c["f_s2"][j]))["z"]
                if abs(v - z[j]) > 1e-12 * (abs(z[j]) + abs(c["f_mu"][j]) + 1e-300):
                    bad_tr = f"translated expression gives {v}, acq_fcn_lcb gives {z[j]} on {c}"
                    break
    ctx.count(n, n)
    ctx.oblige("translator-validation:lcb", "translator", bad_tr is None, bad_tr or f"{n} inputs: translated z == real z (1e-12)")
    if bad_tr:
        broken.append(("translator-validation:lcb", bad_tr))
    if first:
        ctx.violate("lcb", first[1], dict(kind="lcb_case", case=first[0]))


# ----------------------------------------------------------------------------- known finding: stale pair after a merged repeat

def stale_pair_witness():
    """Replay of C15_pairs_logged_after_repeat_refuted on the real FunctionLogger / get_grid_search_neighbors /
    add_and_update_gp.  Returns (reproduced: bool, description)."""
    import pybads.bads.gaussian_process_train as G
    from pybads.function_logger import FunctionLogger
    obs = iter([(0.0, 5.0 / 3.0), (2.0, 0.5), (25.0, 1.25)])
    fl = FunctionLogger(lambda x: next(obs), 1, True, 2, cache_size=8)
    fl(np.array([0.0]))
    fl(np.array([1.0]))
    gp = C.StubGP(1.0, 1.0)
    optim_state = dict(lb=-4 * np.ones((1, 1)), ub=4 * np.ones((1, 1)), scale=np.ones((1, 1)), periodic_vars=np.zeros(1, dtype=bool))
    gp.X, gp.y, gp.s2 = G.get_grid_search_neighbors(fl, np.array([0.0]), gp, dict(gp_radius=3, n_train_max=5, n_train_min=1, buffer_ntrain=0), optim_state)
    X, Y, S, xmax, nf = R._logged(fl)
    before = R._pairs_logged(gp.X.tolist(), gp.y.reshape(-1).tolist(), gp.s2.reshape(-1).tolist(), X, Y, S, True)
    fval, fsd, idx = fl(np.array([0.0]))                      # the repeat: merged into row 0
    G.add_and_update_gp(fl, gp, np.array([0.0]), fval, fsd, {"specify_target_noise": True})
    X, Y, S, xmax, nf = R._logged(fl)
    after = R._pairs_logged(gp.X.tolist(), np.asarray(gp.y).reshape(-1).tolist(), np.asarray(gp.s2).reshape(-1).tolist(), X, Y, S, True)
    desc = (f"log after the repeat: X={X} Y={Y} S={S}; GP: X={gp.X.reshape(-1).tolist()} y={np.asarray(gp.y).reshape(-1).tolist()} "
            f"s2={np.asarray(gp.s2).reshape(-1).tolist()} -> {after}")
    return (before is None and after is not None), desc


STALE_KEY = R.STALE_KEY


# ----------------------------------------------------------------------------- tie

def _violate_component(ctx, case, m, note=""):
    key = m[0]

    def failing(c):
        r = C.run_real(c)
        mm = C.monitor_case(c, r)
        return mm is not None and mm[0] == key
    small = C.shrink_case(case, failing)
    mm = C.monitor_case(small, C.run_real(small)) or m
    ctx.violate(mm[0], "get_grid_search_neighbors: " + mm[1] + note, dict(kind="gsn_case", case=small))


def tie(ctx, broken):
    # 0. only the real-number theorem may use axioms
    for name in CLOSED:
        ob = [o for o in ctx.obligations if o[0] == "theorem:" + name]
        if ob and "none (closed" not in ob[0][3]:
            ctx.oblige("closed:" + name, "proof", False, ob[0][3])
            broken.append(("closed:" + name, f"{name} must be closed under the global context but: {ob[0][3]}"))
    # 1. acquisition function
    tie_lcb(ctx, broken)

    # 2. component: selection
    n = 700 if ctx.quick else 6000
    cases = []
    dist = dict(rows={}, mode={}, ties=0, nontrivial=0, multi_u=0, vector_len_scale=0, prefix_short=0, exceptions=0)
    seen = set()
    first_bad = None
    for i in range(n):
        c = C.gen_case(ctx.rng, i)
        r = C.run_real(c)
        cases.append((c, r))
        nrow = len(c["X"])
        dist["rows"][nrow] = dist["rows"].get(nrow, 0) + 1
        dist["mode"][c["mode"]] = dist["mode"].get(c["mode"], 0) + 1
        dist["multi_u"] += len(c["u"]) > 1
        dist["vector_len_scale"] += isinstance(c["len_scale"], list)
        dist["prefix_short"] += c["xmax"] < nrow - 1
        if "exc" in r:
            dist["exceptions"] += 1
            nontriv = False
        else:
            d = [min(x) for x in r["dist"]]
            ties = len(set(d)) < len(d)
            nontriv = ties or len(r["U"]) < c["xmax"] + 1 or c["mode"] == "sd"
            dist["ties"] += ties
            dist["nontrivial"] += len(r["U"]) < c["xmax"] + 1
        key = repr(c)
        if key not in seen:
            seen.add(key)
            ctx.count(1, 1 if nontriv else 0)
        m = C.monitor_case(c, r)
        if m and first_bad is None:
            first_bad = (c, m)
    ctx.coverage["selection_case_distribution"] = dist
    ctx.sample(dict(case=cases[5][0], real={k: v for k, v in cases[5][1].items() if k != "dist"}))
    usable = [(c, r) for c, r in cases if "exc" not in r]
    coq = [C.case_to_coq(c, r) for c, r in usable]
    src = _SrcTie(ctx)
    okc, bad, bad_s, log = C.run_cases_both("C15gsn", C.GSN_TY, C.GSN_OK, C.GSN_OK_SRC, coq, shard=60 if ctx.quick else 250, with_src=src.available)
    src.add("get_grid_search_neighbors", okc, bad, bad_s, len(coq), lambda i: dict(kind="gsn_case", case=usable[i][0]))
    good = ctx.oblige("correspondence:get_grid_search_neighbors", "correspondence", okc and not bad and len(usable) == len(cases),
                      f"{len(bad)} of {len(coq)} calls differ, {len(cases) - len(usable)} raised; " + log[-400:])
    if first_bad:
        _violate_component(ctx, *first_bad)
    if not good:
        if bad and not first_bad:
            c, r = usable[bad[0]]
            broken.append(("correspondence:get_grid_search_neighbors",
                           f"model and code differ on call {bad[0]} (monitor silent): case={c} real={ {k: v for k, v in r.items() if k != 'dist'} }"))
        else:
            broken.append(("correspondence:get_grid_search_neighbors", "model and get_grid_search_neighbors differ"))

    # 3. component: add_and_update_gp, _get_fevals_data
    na = 250 if ctx.quick else 2000
    adds, first_add, add_cases = [], None, []
    for _ in range(na):
        c = C.gen_add_case(ctx.rng)
        add_cases.append(c)
        r = C.run_add_real(c)
        adds.append(C.coq_add_case(c, r))
        m = C.monitor_add(c, r)
        if m and first_add is None:
            first_add = (c, m)
    okc, bad, bad_s, log = C.run_cases_both("C15add", C.ADD_TY, C.ADD_OK, C.ADD_OK_SRC, adds, shard=125 if ctx.quick else 400, with_src=src.available)
    src.add("add_and_update_gp", okc, bad, bad_s, na, lambda i: dict(kind="add_case", case=add_cases[i]))
    ctx.count(na, na)
    if not ctx.oblige("correspondence:add_and_update_gp", "correspondence", okc and not bad, f"{len(bad)} of {na} differ; " + log[-300:]):
        broken.append(("correspondence:add_and_update_gp", f"model and add_and_update_gp differ on {len(bad)} cases"))
    if first_add:
        ctx.violate(first_add[1][0], "add_and_update_gp: " + first_add[1][1], dict(kind="add_case", case=first_add[0]))
    fev = []
    for i in range(150 if ctx.quick else 1000):
        c = C.gen_case(ctx.rng, i + 1)
        flags = [ctx.rng.random() < 0.8 for _ in c["X"]]
        fev.append(C.coq_fevals_case(c, flags, C.run_fevals_real(c, flags)))
    okc, bad, bad_s, log = C.run_cases_both("C15fev", C.FEV_TY, C.FEV_OK, C.FEV_OK_SRC, fev, shard=75 if ctx.quick else 250, with_src=src.available)
    src.add("_get_fevals_data", okc, bad, bad_s, len(fev), lambda i: dict(kind="fevals", index=i))
    ctx.count(len(fev), len(fev))
    if not ctx.oblige("correspondence:_get_fevals_data", "correspondence", okc and not bad, f"{len(bad)} of {len(fev)} differ; " + log[-300:]):
        broken.append(("correspondence:_get_fevals_data", f"model and _get_fevals_data differ on {len(bad)} cases"))
        ctx.violate("noise-not-variance" , "_get_fevals_data does not return the flagged log rows with S**2", dict(kind="fevals", index=bad[:3]), concrete=bool(bad))

    # 4. the refuted clause, replayed on the real code
    rep, desc = stale_pair_witness()
    ctx.oblige("refutation-replay:" + STALE_KEY, "correspondence", rep, desc[:400])
    if rep:
        ctx.violate(STALE_KEY, "after add_and_update_gp of a repeated specified-noise observation the GP holds the pre-merge pair and the "
                               "single-observation variance: " + desc, dict(kind="stale_pair"))
    else:
        broken.append(("refutation-replay:" + STALE_KEY, "C15_pairs_logged_after_repeat_refuted no longer reproduces on the code: " + desc))

    # 5. run level
    nruns = 8 if ctx.quick else 30
    cfgs = R.gen_configs(ctx.rng, nruns)
    outs = R.run_many(cfgs, procs=8 if ctx.quick else 12)
    tot = dict(runs=nruns, selections=0, selections_nontrivial=0, selections_with_ties=0, local_fits=0, posterior_updates=0, gp_fits=0,
               acquisition_calls=0, gp_s2_without_S_column=set(), s2_one_short_after_append=0, aborted_runs=[], merged_repeat_runs=0,
               posterior_update_faults_injected=0)
    events = []
    seen_keys = set()
    for o in outs:
        s = o["stats"]
        tot["selections"] += s["gsn"]
        tot["selections_nontrivial"] += s["gsn_nontrivial"]
        tot["selections_with_ties"] += s["gsn_ties"]
        tot["local_fits"] += s["local_fit"]
        tot["posterior_updates"] += s["append"]
        tot["gp_fits"] += s["fit"]
        tot["acquisition_calls"] += s["lcb"] + s["lcb_es"]
        tot["gp_s2_without_S_column"] |= set(s["s2_det"])
        tot["s2_one_short_after_append"] += s["s2_misaligned_after_append"]
        tot["posterior_update_faults_injected"] += s.get("update_faults_injected", 0)
        events += o["gsn_events"]
        for key, msg, where in o["violations"]:
            if key == STALE_KEY:
                tot["merged_repeat_runs"] += 1
            if key not in seen_keys:          # one report per failing clause
                seen_keys.add(key)
                ctx.violate(key, f"{o['cfg']['mode']} run D={o['cfg']['D']} seed {o['cfg']['seed']}, {where}: {msg}", dict(kind="run", cfg=o["cfg"]))
        if o["exc"]:
            anchored = any(w in o["exc"] for w in ("get_grid_search_neighbors", "add_and_update_gp", "acq_fcn_lcb", "_get_fevals_data"))
            tot["aborted_runs"].append(dict(cfg=o["cfg"], exc=o["exc"][:300], anchored=anchored))
            if anchored:
                ctx.violate("exception", "run aborted inside the training-set code: " + o["exc"][:300], dict(kind="run", cfg=o["cfg"]))
    tot["gp_s2_without_S_column"] = sorted(tot["gp_s2_without_S_column"])
    ctx.coverage["run_level"] = tot
    ctx.coverage["traces_validated_against_impl"] = nruns - len([a for a in tot["aborted_runs"] if a["anchored"]])
    ctx.count(tot["selections"] + tot["posterior_updates"] + tot["acquisition_calls"] + tot["gp_fits"],
              tot["selections_nontrivial"] + tot["selections_with_ties"])
    if tot["aborted_runs"]:
        ctx.notes.append("runs aborted by an exception outside the training-set code (not a C15 matter, reported): "
                         + "; ".join(a["exc"][:160] for a in tot["aborted_runs"] if not a["anchored"]))
    _tie_sites(ctx, broken, outs)
    coq = [R.event_to_coq(e) for e in events]
    okc, bad, bad_s, log = C.run_cases_both("C15run", C.GSN_TY, C.GSN_OK, C.GSN_OK_SRC, coq, shard=max(4, len(coq) // 12 + 1), with_src=src.available)
    src.add("run-level selections", okc, bad, bad_s, len(coq), lambda i: dict(kind="run_selection", index=i))
    src.finish(broken)
    if not ctx.oblige("correspondence:run-level selections", "correspondence", okc and not bad,
                      f"{len(bad)} of {len(coq)} recorded selections differ from the model; " + log[-300:]):
        broken.append(("correspondence:run-level selections", f"model differs from {len(bad)} selections recorded in real runs"))


class _SrcTie:
    """Translator validation: the GENERATED programs (gen/Src_gpset.v) evaluated by vm_compute on the same literals as the hand-written
    model in every differential tie of this property -> one obligation correspondence:gpset_source."""

    def __init__(self, ctx):
        self.ctx = ctx
        ob = [o for o in ctx.obligations if o[0] == "translate:gpset"]
        self.available = bool(ob and ob[0][2])
        self.n = 0
        self.parts = []
        self.faults = []          # (part, kind, example replay)
        self.compiled = True

    def add(self, part, compiled, bad_model, bad_src, n, replay_of):
        if not self.available:
            return
        if bad_src is None or not compiled:
            self.compiled = False
            self.parts.append(f"{part}: generated program could not be evaluated")
            return
        self.n += n
        only_src = sorted(set(bad_src) - set(bad_model))
        only_model = sorted(set(bad_model) - set(bad_src))
        both = sorted(set(bad_src) & set(bad_model))
        self.parts.append(f"{part}: {n - len(bad_src)}/{n}")
        if only_src:
            self.faults.append((part, f"TRANSLATOR fault: the generated program disagrees with the code on {len(only_src)} case(s) where the "
                                      f"hand-written model agrees", replay_of(only_src[0])))
        if only_model:
            self.faults.append((part, f"the source has changed: the hand-written model no longer describes it on {len(only_model)} case(s) "
                                      f"where the generated program agrees with the code", replay_of(only_model[0])))
        if both:
            self.faults.append((part, f"generated program AND hand-written model disagree with the code on {len(both)} case(s)", replay_of(both[0])))

    def finish(self, broken):
        if not self.available:
            self.ctx.oblige("correspondence:gpset_source", "correspondence", False,
                            "the source is not translatable (see translate:gpset): the generated program could not be compared with the code")
            return          # translate:gpset is already in `broken`
        src_faults = [f for f in self.faults if not f[1].startswith("the source has changed")]
        ok = self.compiled and not src_faults
        detail = "; ".join(self.parts) + " cases: generated program == real code" + "".join(f" || {p}: {k}" for p, k, _ in self.faults)
        if not self.ctx.oblige("correspondence:gpset_source", "correspondence", ok, detail[:900]):
            broken.append(("correspondence:gpset_source", detail[:600]))
        self.ctx.coverage["gpset_source_cases"] = self.n
        if self.faults:
            self.ctx.coverage["gpset_source_faults"] = [dict(part=p, what=k, replay=r) for p, k, r in self.faults][:6]


def _tie_sites(ctx, broken, outs):
    """Validation of the translator's CALL-SITE census against the real code: every local_gp_fitting call observed in the real runs
    (calling method; whether its centre equals the incumbent / the point last handed to the logger / the history row of the very
    surrogate passed) must be explained by one of the sites the translator resolved for that method in the CURRENT source."""
    from translate import gpset as T
    snap, err, _ = T.current()
    if snap is None:
        return          # translate:gpset is already broken
    want = {}
    for f in snap["fits"]:
        want.setdefault(f[0], []).append(f[2])
    seen, unexplained, total = {}, [], 0
    for o in outs:
        for caller, inc, ev, hist, n in o.get("site_obs", []):
            total += n
            holds = {"CenIncumbent": inc, "CenEvaluated": ev, "CenHistoryRow": hist}
            sites = want.get(caller, [])
            hit = [c for c in sites if isinstance(c, str) and holds.get(c)]
            other = [c for c in sites if not isinstance(c, str)]
            for c in hit:
                seen[(caller, c)] = seen.get((caller, c), 0) + n
            if not hit and not other:
                unexplained.append(f"{n} call(s) from {caller} with centre == incumbent: {inc}, == last evaluated point: {ev}, == own history row: {hist}; "
                                   f"translated sites of that method: {sites}")
    ctx.coverage["fit_sites_observed"] = {f"{k[0]}:{k[1]}": v for k, v in sorted(seen.items())}
    ok = not unexplained
    if not ctx.oblige("correspondence:gpset_sites", "correspondence", ok,
                      (f"{total} local fits of the real runs explained by the translated call sites {sorted(ctx.coverage['fit_sites_observed'].items())}"
                       if ok else "TRANSLATOR fault (call-site census): " + " || ".join(unexplained[:3]))[:700]):
        broken.append(("correspondence:gpset_sites", "the translator's call-site census does not explain the local fits observed in real runs: " + unexplained[0][:400]))


def aim(ctx):
    """What the search should be aimed at: the components of the translation that differ from the reference snapshot (ONLY to aim;
    every verdict below is the declarative monitor's), or the function in which translation stopped."""
    from translate import gpset as T
    snap, err, focus = T.current()
    foci, notes = set(), []
    if snap is None:
        notes.append(f"translation stopped: {err}")
        f = focus or ""
        if "get_grid" in f or f == "take":
            foci |= {"gsn"}
        elif "fevals" in f:
            foci |= {"fevals"}
        elif "add_and" in f:
            foci |= {"add"}
        elif f:
            foci |= {"run"}
        else:
            foci |= {"gsn", "fevals", "add", "run"}
    else:
        for d in T.diff(snap):
            notes.append(f"{d['what']}: now {json.dumps(d['now'])[:160]} (reference {json.dumps(d['was'])[:160]})")
            w = d["what"]
            if w == "gsn.udist_args" or w in ("flow", "fits", "appends", "settrain", "writers"):
                foci |= {"run", "gsn"} if w in ("gsn.udist_args", "flow") else {"run"}
            elif w.startswith("gsn."):
                foci.add("gsn")
            elif w.startswith("fevals."):
                foci.add("fevals")
            elif w == "add":
                foci |= {"add", "run"}
    return foci, notes


def gen_aimed_gsn(rng, i):
    """get_grid_search_neighbors calls placed ON the constructs of the size rule and the gathers: a logged point EXACTLY at the radius
    (mesh points, len_scale 1 or 1/2, radius^2 in {1/4, 1, 4}: dist == radius^2 in binary64), each of n_train_min / n_train_max - buffer /
    min(n_train_max, within) / X_max_idx + 1 decisive in turn, rows beyond X_max_idx NEARER than every row of the prefix, SDs that are
    not 0 / 1 (S == S**2 would hide a dropped square), one and two reference points."""
    c = C.gen_case(rng, i + 1)
    D = c["D"]
    n = rng.choice([3, 5, 8, 12, 20])
    grid = 0.5
    u0 = [grid * rng.randint(-1, 1) for _ in range(D)]
    pts = []
    for _ in range(n):
        r = rng.random()
        if r < 0.5:       # on a sphere of radius exactly 0.5 / 1 / 2 around u0 (along one axis)
            k = rng.randrange(D)
            x = list(u0)
            x[k] = u0[k] + rng.choice([-1, 1]) * rng.choice([0.5, 1.0, 2.0])
        elif r < 0.65 and pts:
            x = list(rng.choice(pts))
        else:
            x = [grid * rng.randint(-4, 4) for _ in range(D)]
        pts.append(x)
    mode = rng.choice(["sd", "sd", "none", "nan"])
    S = [rng.choice([0.1, 0.25, 0.5, 2.0, 3.0, rng.uniform(0.01, 4)]) for _ in range(n)] if mode == "sd" else [None] * n
    Y = [rng.choice([rng.uniform(-5, 5), float(rng.randint(-3, 3))]) for _ in range(n)]
    xmax = n - 1
    if rng.random() < 0.4 and n >= 3:
        k = rng.choice([1, 2])
        xmax = n - 1 - k
        for j in range(xmax + 1, n):        # the rows beyond X_max_idx sit on / next to the centre
            pts[j] = list(u0) if rng.random() < 0.5 else [u0[0] + 0.25] + list(u0[1:])
    u = [list(u0)] if rng.random() < 0.85 else [list(u0), [v + 0.5 for v in u0]]
    within_like = rng.randint(0, n)
    which = i % 5
    if which == 0:      # the count decides: n_min small, n_max - buffer negative, n_max large
        opts = dict(n_train_min=rng.choice([0, 1]), n_train_max=rng.choice([20, 70]), buffer_ntrain=100)
    elif which == 1:    # n_max caps the count
        opts = dict(n_train_min=0, n_train_max=max(1, within_like - rng.choice([0, 1, 2])), buffer_ntrain=100)
    elif which == 2:    # n_max - buffer decides
        opts = dict(n_train_min=rng.choice([0, 1]), n_train_max=rng.choice([4, 8]), buffer_ntrain=rng.choice([0, 1, 3]))
    elif which == 3:    # n_min decides
        opts = dict(n_train_min=rng.choice([2, 3, 5]), n_train_max=rng.choice([1, 2]), buffer_ntrain=rng.choice([0, 100]))
    else:               # the number of logged rows decides
        opts = dict(n_train_min=rng.choice([10, 50]), n_train_max=70, buffer_ntrain=rng.choice([0, 3]))
    opts["gp_radius"] = rng.choice([0.5, 1, 2, 1, 0.25])
    ls = rng.choice([1.0, 1.0, 0.5, [1.0] * D, [0.5] + [1.0] * (D - 1), [rng.choice([0.5, 2.0, 0.3]) for _ in range(D)]])
    eff = rng.choice([1.0, 1.0, 2.0, 0.5, [1.0]])
    c.update(X=pts, Y=Y, S=S, mode=mode, xmax=xmax, u=u, len_scale=ls, opts=opts, eff=eff)
    return c


def aimed_search(ctx, foci, notes):
    tagn = (" [search aimed at: " + ", ".join(sorted(foci)) + "] [source change: " + " | ".join(notes)[:500] + "]") if foci else ""
    if "gsn" in foci:
        for i in range(3000):
            c = gen_aimed_gsn(ctx.rng, i)
            m = C.monitor_case(c, C.run_real(c))
            if m:
                _violate_component(ctx, c, m, tagn)
                return True
    if "add" in foci:
        for _ in range(3000):
            c = C.gen_add_case(ctx.rng)
            m = C.monitor_add(c, C.run_add_real(c))
            if m:
                ctx.violate(m[0], "add_and_update_gp: " + m[1] + tagn, dict(kind="add_case", case=c))
                return True
    if "fevals" in foci:
        for i in range(1500):
            c = gen_aimed_gsn(ctx.rng, i)
            flags = [ctx.rng.random() < 0.7 for _ in c["X"]]
            m = C.monitor_fevals(c, flags)
            if m:
                ctx.violate(m[0], "_get_fevals_data: " + m[1] + tagn, dict(kind="fevals_case", case=c, flags=flags))
                return True
    if "run" in foci:
        cfgs = R.gen_configs(ctx.rng, 16)
        for o in R.run_many(cfgs, procs=12):
            for key, msg, where in o["violations"]:
                if key != STALE_KEY:
                    ctx.violate(key, f"{o['cfg']['mode']} run D={o['cfg']['D']} seed {o['cfg']['seed']}, {where}: {msg}" + tagn, dict(kind="run", cfg=o["cfg"]))
                    return True
    return False


def search(ctx, broken):
    try:
        foci, notes = aim(ctx)
    except Exception as ex:       # the aim is a convenience; never let it mask the generic search
        foci, notes = set(), [f"aim crashed: {ex!r}"]
    ctx.coverage["search_aim"] = dict(foci=sorted(foci), notes=notes[:8])
    if foci and aimed_search(ctx, foci, notes):
        return True
    for i in range(4000):
        c = C.gen_case(ctx.rng, i)
        m = C.monitor_case(c, C.run_real(c))
        if m:
            _violate_component(ctx, c, m)
            return True
    for _ in range(2000):
        c = gen_lcb_case(ctx.rng)
        m = lcb_monitor(c)
        if m:
            ctx.violate("lcb", m, dict(kind="lcb_case", case=c))
            return True
    for o in R.run_many(R.gen_configs(ctx.rng, 16), procs=12):
        for key, msg, where in o["violations"]:
            if key != STALE_KEY:
                ctx.violate(key, f"{where}: {msg}", dict(kind="run", cfg=o["cfg"]))
                return True
    return False


def replay(ctx, rp):
    r = rp["replay"]
    kind = r.get("kind")
    if kind == "gsn_case":
        real = C.run_real(r["case"])
        m = C.monitor_case(r["case"], real)
        print("case:", r["case"])
        print("real:", {k: v for k, v in real.items()})
    elif kind == "add_case":
        real = C.run_add_real(r["case"])
        m = C.monitor_add(r["case"], real)
        print("case:", r["case"], "\nreal:", real)
    elif kind == "fevals_case":
        m = C.monitor_fevals(r["case"], r["flags"])
        print("case:", r["case"], "flags:", r["flags"])
    elif kind == "lcb_case":
        m = lcb_monitor(r["case"])
        print("case:", r["case"])
    elif kind == "stale_pair":
        rep, desc = stale_pair_witness()
        m = desc if rep else None
    elif kind == "run":
        o = R.run_one(r["cfg"])
        m = o["violations"][0] if o["violations"] else None
        print("cfg:", r["cfg"], "stats:", o["stats"], "exc:", o["exc"])
    else:
        print("replay file names a broken obligation, not an input:", r)
        return 1
    print("replay:", m or "property holds on this input now")
    return 1 if m else 0
