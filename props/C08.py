"""C08 — problem definitions validated exactly: invalid raise ValueError, valid accepted."""
import json
import math
import time

from harness import comp_bounds as B
from translate import bounds as TB
from vlib import core

PROPS = ["Props/C08.v", "Props/C08src.v"]
TRANSLATORS = ["bounds"]
THEOREMS = ["C08_tests_are_source", "C08_effective_bounds_are_source", "C08_repairs_are_source", "C08_check_is_source",
            "C08_assemble_is_source", "C08_construct_is_source", "C08_call_is_source",
            "C08_accept_sound", "C08_invalid_rejected", "C08_reject_sound_partial", "C08_reject_complete",
            "C08_valid_accepted", "C08_normalisation_minimal", "C08_repairs_identity_inside",
            "C08_never_overflows", "C08_inf_x0_rejected", "C08_margin_box_refuted", "C08_nan_coordinate_refuted",
            "C08_x0_on_bound_denormal_refuted"]
LEVEL = "proof"
RULE = ("D=1: {absent,-inf,+inf,nan,-2,-1,0,1,2}^5 (59049 definitions: all in the thorough tier, a seeded sample of 13500 in the quick tier); D=2: concatenations of "
        "representatives of every (absence pattern, outcome class) cell of the D=1 table; D=3: sampled triples; "
        "metric stream: |v|<=1e6 with plausible bounds / x0 placed at 0, 0.25, 0.5, 2 margins from the hard bounds; "
        "malformed stream: dimension mismatches, D=0; labelled close stream: values 0-100 ulps apart; each definition "
        "is passed to the real BADS constructor in worker processes and to Model/BoundsCheck.v; non-trivial = a "
        "definition that is accepted with a repair, or rejected by a test other than the plausible-finiteness one; "
        "spelling stream: list/tuple/(1,D)/scalar/integer spellings against the (D,) float array; "
        "source: _bounds_check_ is re-translated from pybads/bads/bads.py on every run (translate/bounds.py -> coq/gen/Src_bounds.v), proved equal to "
        "Model/BoundsCheck.v's check_coords for all rows (Props/C08src.v), and the GENERATED program is evaluated by Coq on every definition of the "
        "streams above next to the hand-written model, both against the real constructor")
TRUSTED = [
    "Coq 8.16.1 kernel + vm_compute (case evaluation); no native_compute",
    "hand-written model Model/BoundsCheck.v of BADS.__init__ / _bounds_check_ (N0 = 1), tied by differential comparison on the real constructor (harness/comp_bounds.py); "
    "its check_coords and assemble are PROVED equal to the programs regenerated from the source (C08_check_is_source, C08_assemble_is_source); finish (the draw of a non-finite x0) and the D = 0 crash of option loading are only pinned textually / tied dynamically",
    "translate/bounds.py (fail-closed ast whitelist over BADS._bounds_check_ / BADS.__init__; per-coordinate reading of NumPy's element-wise operators, masks and np.any; "
    "float literals read as the decimals they spell; `a > b` emitted as `b < a`, == with canonically ordered operands) - validated on every run: the generated program is "
    "evaluated by Coq (vm_compute) on every definition of the tie's streams and compared with the real constructor",
    "float->Q by float.as_integer_ratio; decisions compared exactly; values moved to LB_eff/UB_eff compared at 1e-9 relative (the code multiplies by the binary64 constant 1e-3 and rounds, the model uses 1/1000 exactly)",
    "absorption corner lb + 1e-3*range == lb in binary64 (range/|lb| < ~1e-13) is outside the exact model; observed through the monitor on the labelled close stream",
    "not modelled: option loading (beyond the D=0 crash), the random draw of x0 (only plb<=x0<=pub is checked), the VariableTransformer self-test (inexact log/exp), non_box_cons, N0>1 starting sets",
    "reject reasons are recovered from the ValueError message prefix",
]
ASSUMPTIONS = ["a single starting point (x0 of shape (D,), (1,D) or a scalar)", "non_box_cons is None",
               "options = {'display': 'off', 'random_seed': 1}"]

WITNESSES = {
    # key -> case ; the witnesses of the *_refuted theorems of Props/C08.v, replayed on the real constructor
    "plausible-box-in-margin-rejected": ((0.5,), (0.0,), (1.0,), (0.9995,), (1.0,)),
    "nan-x0-coordinate-rejected": ((B.NAN, 1.0), (0.0, 0.0), (1.0, 1.0), None, None),
    "x0-on-bound-denormal": ((B.REALMIN,), (B.REALMIN,), (2 * B.REALMIN,), None, None),
}


def case_json(case):
    return {n: (None if v is None else [repr(a) for a in v]) for n, v in zip(B.NAMES, case)}


def case_from_json(j):
    return tuple(None if j[n] is None else tuple(float(a) for a in j[n]) for n in B.NAMES)


def nontrivial(res):
    if res["kind"] == "accept":
        return True
    return res["tag"] != "NonFinitePB"


def tie(ctx, broken):
    rng = ctx.rng
    t0 = time.time()
    # ------------------------------------------------------------------ streams
    d1 = B.gen_d1_exhaustive()
    if ctx.quick:
        # quick tier (must stay < 3 min on a loaded machine): a seeded sample of 12000 of the 26244 definitions with
        # plb, pub in {absent, finite} and 1500 of the other 32805 (a non-finite plausible bound: all rejected by
        # the finiteness test or earlier); the thorough tier enumerates all 59049.
        fin = lambda v: v is None or math.isfinite(v[0])
        core_ = [c for c in d1 if fin(c[3]) and fin(c[4])]
        rest = [c for c in d1 if not (fin(c[3]) and fin(c[4]))]
        d1 = rng.sample(core_, 12000) + rng.sample(rest, 1500)
    ctx.coverage["d1_enumerated"] = len(d1)
    streams = [("d1", c) for c in d1]
    streams += [("metric", c) for c in B.gen_metric(rng, 1500 if ctx.quick else 20000)]
    streams += [("malformed", c) for c in B.gen_malformed(rng, 300 if ctx.quick else 3000)]
    close = B.gen_close(rng, 200 if ctx.quick else 2000)
    streams += [("close:" + k, c) for k, c in close]
    streams += [("witness", c) for c in WITNESSES.values()]
    res = B.run_jobs([(c, "arr", False) for _, c in streams])
    # D = 2 / D = 3 from representatives of the D = 1 cells
    cells = {}
    for (s, c), r in zip(streams, res):
        if s == "d1" and all(v is None or len(v) == 1 for v in c):
            cells.setdefault(B.outcome_class(c, r), []).append(c)
    reps = {}
    for (pat, cls) in sorted(cells):
        lst = cells[(pat, cls)]
        reps.setdefault(pat, []).extend(rng.sample(lst, min(len(lst), 2)))
    pairs, triples = [], []
    for pat in sorted(reps):
        r_ = reps[pat]
        for a in r_:
            for b in r_:
                pairs.append(B.join_cases([a, b]))
        for _ in range(40 if ctx.quick else 400):
            triples.append(B.join_cases([rng.choice(r_), rng.choice(r_), rng.choice(r_)]))
    if ctx.quick and len(pairs) > 3000:
        pairs = rng.sample(pairs, 3000)
    s2 = [("d2", c) for c in pairs] + [("d3", c) for c in triples]
    res2 = B.run_jobs([(c, "arr", False) for _, c in s2])
    streams += s2
    res += res2
    ctx.coverage["d1_cells"] = len(cells)
    ctx.coverage["real_time_s"] = round(time.time() - t0, 1)

    # ------------------------------------------------------------------ coverage
    dist, seen = {}, set()
    for (s, c), r in zip(streams, res):
        k = s.split(":")[0] + "/" + r["kind"] + (":" + r["tag"] if r["kind"] != "accept" else (":drawn" if r["drawn"] else ":given"))
        dist[k] = dist.get(k, 0) + 1
        if c not in seen:
            seen.add(c)
            ctx.count(1, 1 if nontrivial(r) else 0)
    ctx.coverage["outcome_distribution"] = dict(sorted(dist.items()))
    ctx.coverage["stream_sizes"] = {s: sum(1 for (t, _) in streams if t.split(":")[0] == s) for s in
                                    ("d1", "metric", "malformed", "close", "witness", "d2", "d3")}
    acc = [(c, r) for (s, c), r in zip(streams, res) if r["kind"] == "accept" and s in ("metric", "d2")]
    for c, r in acc[:3]:
        ctx.sample(dict(input=case_json(c), accepted=dict(x0=r["x0"], lb=r["lb"], ub=r["ub"], plb=r["plb"], pub=r["pub"], drawn=r["drawn"])))
    rej = [(c, r) for (s, c), r in zip(streams, res) if r["kind"] == "reject" and s == "metric"]
    for c, r in rej[:2]:
        ctx.sample(dict(input=case_json(c), rejected=r["tag"]))

    # ------------------------------------------------------------------ model vs code, generated program vs code
    coq = [B.coq_case(c, r, approx_all=s.startswith("close:")) for (s, c), r in zip(streams, res)]
    ctx.coverage["literal_bytes"] = sum(len(s) for s in coq)
    t1 = time.time()
    snap, tex = TB.current()
    sdiff = TB.diff(snap) if snap is not None else []
    ctx.coverage["source_translation"] = dict(translatable=snap is not None, error=(str(tex)[:300] if tex else None),
                                              differs_from_reference=[d["what"][:200] for d in sdiff][:12])
    src_ok = TB.generated_ok() and snap is not None
    shard = max(500, -(-len(coq) // 12))
    bad_src = None
    if src_ok:
        okc, bad, bad_src, log = B.run_cases_both("C08", coq, shard=shard)
        if not okc:          # the generated file does not even type-check: fall back to the model alone, the source tie is broken
            src_log = log
            okc, bad, log = core.run_cases("C08", B.REQUIRES, B.CASE_TY, B.OK_FUN, coq, shard=shard, defs=B.COQ_DEFS)
            bad_src, src_ok = None, False
    else:
        src_log = "no generated program: " + (str(tex) if tex else "coq/gen/Src_bounds.v holds no definition")
        okc, bad, log = core.run_cases("C08", B.REQUIRES, B.CASE_TY, B.OK_FUN, coq, shard=shard, defs=B.COQ_DEFS)
    ctx.coverage["coq_eval_s"] = round(time.time() - t1, 1)
    # the labelled close stream (values 0-100 ulps apart) is compared with approx_all: a value the model moves by
    # 1e-3*range may be left bit-identical by the code (absorption); DECISIONS must still agree.
    hard_bad = list(bad)
    close_bad = [i for i in bad if streams[i][0].startswith("close:")]
    ctx.coverage["close_stream"] = dict(cases=len(close), model_code_disagreements=len(close_bad),
                                        examples=[dict(kind=streams[i][0], input=case_json(streams[i][1]), real=_brief(res[i])) for i in close_bad[:4]])
    ctx.coverage["traces_validated_against_impl"] = len(streams) - len(bad)
    good = ctx.oblige("correspondence:bounds_check", "correspondence", okc and not hard_bad,
                      f"{len(hard_bad)} of {len(streams)} definitions differ; " + log[-400:])
    if not good:
        if hard_bad:
            i = hard_bad[0]
            s, c = streams[i]
            model = core.coq_show("C08_show", B.REQUIRES, f"outcome_val (construct {B.coq_defn(c)})", defs=B.COQ_DEFS)
            what = f"model and constructor differ on [{s}] {case_json(c)}: real={_brief(res[i])} model{model[:300]}"
            if bad_src is not None and i not in bad_src:
                what += ("  [the program regenerated from the current source AGREES with the constructor on this definition: the source has changed, "
                         "Model/BoundsCheck.v no longer describes it" + ("; " + "; ".join(d["what"][:120] for d in sdiff[:3]) if sdiff else "") + "]")
            broken.append(("correspondence:bounds_check", what))
            # not a restatement of the property (the monitor decides that): the theorems no longer apply to this code.
            # Reported once, by search(), as broken:correspondence:bounds_check with this input in the replay.
            ctx.c08_differing = dict(kind="definition", input=case_json(c), spelling="arr", compare="model",
                                     how="cd /verif && ./check C08 --replay <this file>")
            ctx.coverage["first_disagreements"] = [dict(stream=streams[j][0], input=case_json(streams[j][1]), real=_brief(res[j])) for j in hard_bad[:10]]
        else:
            broken.append(("correspondence:bounds_check", "case files did not compile: " + log[-300:]))
    # the translator is checked, not trusted: the GENERATED program against the real constructor on the same definitions
    if bad_src is not None:
        ctx.coverage["source_program_validated_on"] = len(streams) - len(bad_src)
        ctx.count(len(streams), 0)
        good = ctx.oblige("correspondence:bounds_source", "correspondence", not bad_src,
                          f"generated programs (coq/gen/Src_bounds.v: run_head src_head, run_prog src_prog) vs real constructor: {len(bad_src)} of {len(streams)} definitions differ")
        if not good:
            i = bad_src[0]
            s, c = streams[i]
            prog = core.coq_show("C08_show_src", B.REQUIRES_SRC, f"construct_with2 src_head src_prog {B.coq_defn(c)}", defs=B.COQ_DEFS)
            what = (f"the program translated from the source and the real constructor differ on [{s}] {case_json(c)}: real={_brief(res[i])} generated{prog[:300]}"
                    + ("  [the hand-written model agrees with the constructor here: TRANSLATOR fault]" if i not in bad else ""))
            broken.append(("correspondence:bounds_source", what))
            if not getattr(ctx, "c08_differing", None):
                ctx.c08_differing = dict(kind="definition", input=case_json(c), spelling="arr", compare="model")
            ctx.coverage["first_source_disagreements"] = [dict(stream=streams[j][0], input=case_json(streams[j][1]), real=_brief(res[j])) for j in bad_src[:10]]
    else:
        ctx.oblige("correspondence:bounds_source", "correspondence", False, src_log[-400:])
        if not any(n == "translate:bounds" for n, _ in broken):
            broken.append(("correspondence:bounds_source", "the generated program could not be evaluated: " + src_log[-300:]))

    ncalls = sum(r["calls"] for r in res)
    ctx.oblige("C08_no_target_call", "correspondence", ncalls == 0,
               f"{ncalls} target calls during {len(res)} constructions (the model has no such operation)")
    # ------------------------------------------------------------------ monitor on every evaluated definition
    found = {}
    for (s, c), r in zip(streams, res):
        m = B.monitor(c, r)
        if m and m[0] not in found:
            found[m[0]] = (s, c, r, m[1])
    # ------------------------------------------------------------------ refutation witnesses on the real code
    for key, c in WITNESSES.items():
        r = B.run_real(c)
        m = B.monitor(c, r)
        ok = bool(m) and m[0] == key
        ctx.oblige("witness:" + key, "correspondence", ok, f"real constructor: {_brief(r)}; monitor: {m}")
        if ok:
            found.setdefault(key, ("witness", c, r, m[1]))
        else:
            broken.append(("witness:" + key, f"the witness of the refuted clause no longer reproduces on the real constructor: {case_json(c)} -> {_brief(r)}"))
    # ------------------------------------------------------------------ large boxes (transformer self-test), monitor only
    large = B.gen_large(rng, 12 if ctx.quick else 200)
    lres = B.run_jobs([(c, "arr", False) for c in large])
    nrej = 0
    for c, r in zip(large, lres):
        m = B.monitor(c, r)
        if m:
            nrej += 1
            found.setdefault(m[0], ("large", c, r, m[1]))
    ctx.coverage["large_stream"] = dict(cases=len(large), rejected_or_failed=nrej)
    ctx.count(len(large), nrej)

    # ------------------------------------------------------------------ spellings
    spelling_check(ctx, rng, streams, res, found)

    for key, (s, c, r, what) in found.items():
        small = B.shrink(c, key) if s != "witness" else c
        ctx.violate(key, what + f"  [stream {s}]", dict(kind="definition", input=case_json(small), spelling="arr",
                    how="cd /verif && ./check C08 --replay <this file>"))


def _brief(r):
    if r["kind"] == "accept":
        return dict(kind="accept", x0=("drawn" if r["drawn"] else r["x0"]), lb=r["lb"], ub=r["ub"], plb=r["plb"], pub=r["pub"])
    return dict(kind=r["kind"], tag=r["tag"], msg=r["msg"][:60])


def spelling_cases(rng, quick):
    """Definitions for the spelling comparison: integral and non-integral, linear and log-scaled,
    x0 given / omitted, bounded / unbounded / mixed, one invalid of each kind."""
    I = B.INF
    base = [
        ((0.0,), (-1.0,), (1.0,), None, None),
        ((1.0,), (-1.0,), (1.0,), None, None),
        (None, (-1.0,), (1.0,), None, None),
        (None, None, None, (0.0,), (1.0,)),
        (None, (-2.0,), (3.0,), (0.0,), (1.0,)),
        ((5.0,), (1.0,), (1000.0,), (2.0,), (100.0,)),
        ((0.5,), (0.25,), (7.5,), (0.5,), (6.0,)),
        ((5.0,), None, None, (1.0,), (100.0,)),
        ((0.0, 0.5), (-1.0, -1.0), (1.0, 1.0), None, None),
        ((0.0, 0.5), (-1.0, -I), (1.0, I), (-1.0, -1.0), (1.0, 1.0)),
        ((3.0, 20.0), (1.0, 1.0), (50.0, 5000.0), (2.0, 2.0), (40.0, 400.0)),
        (None, (1.0, 1.0), (50.0, 5000.0), (2.0, 2.0), (40.0, 400.0)),
        (None, None, None, (-1.0, 2.0), (1.0, 30.0)),
        ((0.0, 1.0, 2.0), (-3.0, -3.0, -3.0), (3.0, 3.0, 3.0), (-1.0, -1.0, -1.0), (2.0, 2.0, 2.5)),
        ((2.0,), (-1.0,), (1.0,), None, None),
        ((0.0,), (-1.0,), (I,), (-0.5,), (0.5,)),
        ((0.0,), (1.0,), (1.0,), None, None),
        ((0.0, 0.0), (-1.0,), (1.0,), None, None),
        (None, (-1.0,), None, None, None),
    ]
    extra = B.gen_metric(rng, 40 if quick else 400)
    return base + extra


def spelling_check(ctx, rng, streams, res, found):
    cases = spelling_cases(rng, ctx.quick)
    run = not ctx.quick
    jobs, index = [], []
    for c in cases:
        ks = ["arr"] + B.spellings_for(c)
        for k in ks:
            jobs.append((c, k, run and B.dimension(c) is not None and k in ("arr", "list", "int_list", "row", "scalar")))
            index.append((c, k))
    out = B.run_jobs(jobs)
    n, diffs = 0, []
    base = None
    for (c, k), r in zip(index, out):
        if k == "arr":
            base = r
            continue
        n += 1
        d = B.same_problem(base, r, with_run=run)
        if d:
            diffs.append((c, k, d, r))
    ctx.count(len(jobs), n)
    ctx.coverage["spelling_stream"] = dict(definitions=len(cases), comparisons=n, differing=len(diffs), with_short_run=run)
    ctx.oblige("C08_spelling_invariant", "correspondence", True,
               f"{n} spelling comparisons, {len(diffs)} differ (each difference is reported as a violation/finding)")
    for c, k, d, r in diffs:
        if r["kind"] == "crash" and r["tag"] == "AttributeError" and c[0] is None:
            key = "x0-absent-nonarray-plausible"
        elif k.startswith("int_") and d.startswith(("transformed", "run", "log flags")):
            key = "int-spelling-changes-transform"
        else:
            key = "spelling:" + k
        if key not in found:
            found[key] = ("spelling", c, r, f"spelling '{k}' of the same vectors does not define the same problem as the (D,) float array: {d}")
            found[key] = (found[key][0] + ":" + k,) + found[key][1:]


def aim(ctx):
    """(focus, others, constants, description): the tests / guards of the current source that differ from the reference
    translation (or the test at which the translation stopped), every other test, and the margin constants of both."""
    snap, tex = TB.current()
    ref = TB.reference()
    fj = TB.fromjson

    def preds(sn):
        out = []
        for st in (sn or {}).get("steps", []):
            out.append((st["tag"], [fj(t) for t in st["disj"]]))
        return out

    consts = set()
    for sn in (snap, ref):
        for st in (sn or {}).get("steps", []):
            for t in st["disj"]:
                consts |= TB.constants(fj(t))
    focus, desc = [], []
    if snap is None:
        tag = getattr(tex, "tag", None)
        desc.append(f"translation stopped: {tex}")
        for lab, trees in preds(ref):
            if tag is not None and lab == tag:
                focus.append((lab + " (reference reading)", trees))
    else:
        for d in TB.diff(snap, ref):
            desc.append(d["what"])
            for side, nm in ((d.get("cur"), "current"), (d.get("ref"), "reference")):
                if side and side.get("disj"):
                    focus.append((f"{side['tag']} ({nm} reading)", [fj(t) for t in side["disj"]]))
            if d.get("tag") in ("lb_eff", "ub_eff"):
                # everything that compares with an effective bound
                for sn, nm in ((snap, "current"), (ref, "reference")):
                    for lab, trees in preds(sn):
                        if lab in ("TooClose", "cx", "cpl+cpu", "StrictBounds2"):
                            focus.append((f"{lab} ({nm} reading)", trees))
            if d.get("tag") is None and "order" in d["what"]:
                # reordered / dropped tests: definitions on which two tests fire at once are what tells the orders apart
                for lab, trees in preds(ref):
                    focus.append((lab + " (reference reading)", trees))
    others = preds(snap if snap is not None else ref)
    return focus, others, consts, desc


def search(ctx, broken):
    """Something is broken and the tie produced no concrete failing input: run the declarative monitor over cases AIMED at
    the tests / constants of the source that changed (translate/bounds.py knows which), then over fresh metric cases.  If no
    clause of the text fails anywhere, report each broken obligation ONCE (non-concrete); the correspondence one carries the
    differing definition in its replay."""
    focus, others, consts, desc = aim(ctx)
    aimed = B.gen_aimed(ctx.rng, focus, others, consts, 6000 if focus else 2500)
    ctx.coverage["search"] = dict(source_change=[d[:200] for d in desc][:8], aimed_at=sorted({f[0] for f in focus})[:12], aimed_cases=len(aimed))
    cases = [c for _, c in aimed] + B.gen_metric(ctx.rng, 4000)
    notes = [a for a, _ in aimed] + ["metric"] * 4000
    out = B.run_jobs([(c, "arr", False) for c in cases])
    known = {k["key"] for k in core.load_known() if k.get("property") == "C08" and k.get("status") == "open"}
    for c, r, a in zip(cases, out, notes):
        m = B.monitor(c, r)
        if m and m[0] not in known:
            small = B.shrink(c, m[0])
            ctx.violate(m[0], m[1] + f"  [search aimed at: {a}]" + (f"  [source change: {desc[0][:160]}]" if desc else ""),
                        dict(kind="definition", input=case_json(small), spelling="arr"))
            return True
    for name, what in broken:
        rp = dict(broken_obligation=name, detail=what, source_change=desc[:6])
        if name.startswith("correspondence:bounds_") and getattr(ctx, "c08_differing", None):
            rp.update(ctx.c08_differing)
        ctx.violate("broken:" + name, what + (f"  [source change: {'; '.join(d[:160] for d in desc[:3])}]" if desc else ""), rp, concrete=False)
    return True


def replay(ctx, rp):
    r = rp["replay"]
    if "input" not in r:
        print("replay: no concrete input in this file:", json.dumps(r)[:300])
        return 1
    case = case_from_json(r["input"])
    k = r.get("spelling", "arr")
    res = B.run_real(case, k)
    m = B.monitor(case, res)
    print("replay input:", r["input"], "spelling:", k)
    print("real constructor:", _brief(res))
    rc = 1 if m else 0
    if r.get("compare") == "model":
        ok, bad, log = core.run_cases("C08_replay", B.REQUIRES, B.CASE_TY, B.OK_FUN,
                                      [B.coq_case(case, res, approx_all=True)], defs=B.COQ_DEFS)
        model = core.coq_show("C08_show", B.REQUIRES, f"outcome_val (construct {B.coq_defn(case)})", defs=B.COQ_DEFS)
        print("model:", model[:400])
        print("model vs constructor:", "agree" if ok and not bad else "DIFFER")
        if not ok or bad:
            rc = 1
        try:
            TB.emit()
        except Exception as ex:
            print("generated program: source not translatable:", ex)
            rc = 1
        else:
            ok2, bad2, log2 = core.run_cases("C08_replay_src", B.REQUIRES_SRC, B.CASE_TY, B.OK_FUN_SRC,
                                             [B.coq_case(case, res, approx_all=True)], defs=B.COQ_DEFS)
            prog = core.coq_show("C08_show_src", B.REQUIRES_SRC, f"construct_with2 src_head src_prog {B.coq_defn(case)}", defs=B.COQ_DEFS)
            print("generated program (translate/bounds.py on the current source):", prog[:400])
            print("generated program vs constructor:", "agree" if ok2 and not bad2 else "DIFFER")
            if not ok2 or bad2:
                rc = 1
    if rp.get("key", "").startswith(("spelling", "int-spelling", "x0-absent")):
        for kk in B.spellings_for(case):
            d = B.same_problem(res, B.run_real(case, kk))
            if d:
                print(f"spelling {kk}: {d}")
                rc = 1
    print("monitor:", m or "property holds on this input now")
    return rc
