"""C01 — hard box bounds are never left."""
from harness import comp_grid as G, runlevel as R, skel as S

PROPS = ["Props/C01.v", "Props/C01grid.v", "Props/C01src.v"]
TRANSLATORS = ["transform", "grid", "filter"]
THEOREMS = ["C01_original_space_clamp", "C01_filter_output_in_hard_box", "C01_search_box_inside", "C01_calls_are_oracle_points", "C01_internal_points_in_box",
            # Props/C01grid.v: about gen/Src_grid.v (force_to_grid, _update_search_bounds_, the gridised + nudged x0 of _init_optim_state_)
            "C01_force_to_grid", "C01_search_box_extreme_grid_points", "C01_search_box_nonempty_iff", "C01_search_box_nonempty_refuted",
            "C01_search_box_sites_agree", "C01_search_box_within_hard_box", "C01_start_nudged_in_box", "C01_start_recheck_exact",
            "C01_start_in_box_unit_geometry", "C01_start_no_nudge_unit_geometry", "C01_start_nudged_in_any_box_refuted", "C01_hand_model_is_source",
            # Props/C01src.v: about gen/Src_filter.v (contraints_check regenerated from the source by translate/filter.py)
            "C01_constraint_points_in_box_are_source"]
ALLOWED_AXIOMS = ["ClassicalDedekindReals.sig_forall_dec", "ClassicalDedekindReals.sig_not_dec",
                  "FunctionalExtensionality.functional_extensionality_dep", "Classical_Prop.classic"]
AXIOM_THEOREMS = ["C01_original_space_clamp"]      # every other theorem of this property must be closed under the global context
LEVEL = "proof"
RULE = ("real runs over the panel (D 1-4; linear / log-transformed / unbounded / mixed / tight boxes; optimum inside, on and OUTSIDE the box pressing on a face; x0 given / absent / on a bound; "
        "all noise modes; constraints) compared with the skeleton model; the premises of C01_internal_points_in_box (provenance of every evaluated point from a recorded filter output, "
        "filter boxes within the hard box, recorded rows in the box) evaluated in Coq on every run; independent monitor on every target/constraint argument, result.x and the log; "
        "non-trivial = some evaluated point lies on a face of the box.  GRID ARITHMETIC (harness/comp_grid.py): force_to_grid, _update_search_bounds_ and the located statements of "
        "_init_optim_state_ / the loop head of optimize() are executed for real on generated meshes 2^-40..2^3, points on / next to grid points and rounding ties, boxes wide, exactly one step, "
        "narrower than a step (with and without a grid point), degenerate, infinite and huge bounds; compared EXACTLY with the translated definitions (Python Fractions and Coq vm_compute); "
        "real BADS objects and every projected filter call of the recorded runs are compared too")
TRUSTED = ["Coq 8.16.1 kernel + vm_compute", "hand-written models Model/Skeleton.v, Model/Filter.v tied to the code by differential correspondence",
           "translate/filter.py regenerates contraints_check on every run (gen/Src_filter.v; fail-closed ast whitelist, NumPy primitives read as in Model/FilterSrc.v); "
           "C01_constraint_points_in_box_are_source is about it; validated each run by vm_compute against the real function (correspondence:filter_source; in full by C17's tie)",
           "translate/transform.py regenerates the clamp expressions of variables_transformer.py on every run (C01_original_space_clamp is about them); standard real-number axioms for that theorem only",
           "translate/grid.py regenerates force_to_grid, _update_search_bounds_ and the search-box / starting-point statements of _init_optim_state_ and optimize() on every run (gen/Src_grid.v; fail-closed ast "
           "whitelist; per-coordinate reading of masked array assignments, documented in its header); validated each run against the real code exactly (Fractions, Coq vm_compute)",
           "binary64 computes x/2^k, np.round, 2^k*r and the +-mesh step exactly for |x|/mesh < 2^52 and no overflow of x/mesh (the Q reading is exact there: checked on every generated input, not proved)",
           "NumPy minimum/maximum on binary64 implement the order-theoretic clamp for non-NaN values (trusted); NaN-freedom of ginv results is only monitored at run level",
           "the logger passes exactly inverse_transf(u) to the target (recorded bitwise by the tie: calls[i].xo vs the transformer's output)"]
ASSUMPTIONS = ["valid problem (C08): lb <= plb < pub <= ub"]


def specs_for(ctx):
    sd = ctx.seed * 10
    specs = list(S.panel(ctx.tier, ctx.seed))
    specs += [
        dict(D=2, target="outside", box="tight", noise="det", x0="onbound", options=dict(max_fun_evals=70), seed=sd + 1),
        dict(D=3, target="outside", box="log", noise="det", options=dict(max_fun_evals=90), seed=sd + 2),
        dict(D=2, target="outside", box="sym", noise="declared", sigma=0.3, options=dict(max_fun_evals=70, noise_final_samples=3), seed=sd + 3),
        dict(D=1, target="outside", box="sym", noise="det", x0="absent", options=dict(max_fun_evals=40), seed=sd + 4),
        dict(D=2, target="outside", box="mixed", noise="det", options=dict(max_fun_evals=80), seed=sd + 5),
        # a constraint function together with an omitted / partly missing start: whatever the constructor hands to the user's constraint must be a point of the box
        dict(D=2, target="sphere", box="sym", noise="det", cons="ball", x0="absent", options=dict(max_fun_evals=50), seed=sd + 10),
        dict(D=3, target="outside", box="log", noise="det", cons="ball", x0="absent", options=dict(max_fun_evals=60), seed=sd + 11),
        dict(D=2, target="outside", box="logbig", noise="det", options=dict(max_fun_evals=70), seed=sd + 6),
        dict(D=2, target="sphere", box="mixlog", noise="det", options=dict(max_fun_evals=60), seed=sd + 12),
        dict(D=3, target="outside", box="mixlog", noise="det", x0="absent", options=dict(max_fun_evals=70), seed=sd + 13),
        dict(D=2, target="outside", box="dec", noise="det", options=dict(max_fun_evals=60), seed=sd + 7),
        dict(D=2, target="outside", box="declog", noise="det", options=dict(max_fun_evals=60), seed=sd + 8),
        dict(D=2, target="sphere", box="logbig", noise="specified", sigma=0.3, cons=None, options=dict(max_fun_evals=60, noise_final_samples=2), seed=sd + 9),
    ]
    return specs


def on_face(tr, P):
    if "problem" not in tr:
        return False
    lb, ub = tr["problem"]["lb_orig"], tr["problem"]["ub_orig"]
    return any(any(x == l or x == u for x, l, u in zip(c["xo"], lb, ub)) for c in tr["calls"])


def reuse_arrays_runs(ctx):
    """A multi-start loop that hands THE SAME bound arrays to several optimisations (log-scaled, mixed and linear boxes; (D,) and (1,D) float64
    arrays): every target argument and every returned x of every run must lie in the box those arrays DESCRIBED when the user built them.
    Returns (number of runs, first violation or None)."""
    import logging
    import numpy as np
    from pybads import BADS
    logging.disable(logging.CRITICAL)
    bad, n = None, 0
    boxes = [("log", [0.01, 0.01], [100.0, 100.0], [0.1, 0.1], [10.0, 10.0], [[1.0, 2.0], [30.0, 0.05], [0.2, 60.0]]),
             ("mixed", [-5.0, 2.0], [5.0, 5000.0], [-2.0, 5.0], [2.0, 500.0], [[0.5, 40.0], [-1.0, 4000.0]]),
             ("linear-row", [[-3.0, -3.0]], [[4.0, 4.0]], [[-1.0, -1.0]], [[2.0, 2.0]], [[0.5, 0.5], [3.9, -2.9]])]
    for name, lb, ub, plb, pub, starts in boxes:
        LB, UB, PLB, PUB = (np.array(v, dtype=float) for v in (lb, ub, plb, pub))
        lo, hi = LB.copy().reshape(-1), UB.copy().reshape(-1)
        for j, x0 in enumerate(starts):
            pts = []

            def fun(x, pts=pts):
                pts.append(np.array(x, dtype=float).reshape(-1).copy())
                return float(np.sum((np.log(np.abs(np.asarray(x, dtype=float).reshape(-1)) + 1e-3) + 9.0) ** 2))     # optimum far below the box
            n += 1
            try:
                r = BADS(fun, np.array(x0, dtype=float), LB, UB, PLB, PUB, options=dict(display="off", random_seed=3 + j, max_fun_evals=30)).optimize()
                pts.append(np.asarray(r["x"], dtype=float).reshape(-1))
            except Exception as ex:
                bad = bad or f"run {j} on the '{name}' box with re-used bound arrays raised {type(ex).__name__}: {str(ex)[:100]}"
                continue
            out = [p.tolist() for p in pts if np.any(p < lo) or np.any(p > hi) or np.any(np.isnan(p))]
            if out and bad is None:
                bad = (f"run {j} of a multi-start loop re-using the same bound arrays ('{name}' box {lo.tolist()} .. {hi.tolist()}): {len(out)} target arguments / "
                       f"returned points outside the box, e.g. {out[0]}")
    logging.disable(logging.NOTSET)
    return n, bad


def rerun_object_runs(ctx):
    """optimize() called a SECOND time on the same BADS object (a user continuing a run, a loop over restarts): boxes away from the origin, a
    log-scaled box, a constraint.  Every target / constraint argument and the returned x of BOTH runs must lie in the user's box.
    Returns (number of runs, first violation or None)."""
    import logging
    import numpy as np
    from pybads import BADS
    logging.disable(logging.CRITICAL)
    bad, n = None, 0
    boxes = [("shifted", [10.0, 10.0], [20.0, 20.0], [12.0, 12.0], [18.0, 18.0], [15.0, 13.0], None),
             ("negative", [-300.0, -30.0], [-100.0, -10.0], [-250.0, -25.0], [-150.0, -15.0], [-200.0, -20.0], None),
             ("log", [50.0, 50.0], [5.0e4, 5.0e4], [100.0, 100.0], [1.0e4, 1.0e4], [300.0, 2000.0], None),
             ("shifted+cons", [10.0, 10.0], [20.0, 20.0], [12.0, 12.0], [18.0, 18.0], [15.0, 13.0], "sum")]
    for name, lb, ub, plb, pub, x0, cname in boxes:
        lo, hi = np.array(lb), np.array(ub)
        pts = []

        def fun(x, pts=pts):
            x = np.array(x, dtype=float).reshape(-1)
            pts.append(x.copy())
            return float(np.sum((x - lo + 1.0) ** 2))           # optimum just below the box: the run presses against the lower bounds

        def cons(X, pts=pts):
            X = np.atleast_2d(np.asarray(X, dtype=float))
            pts.extend(r.copy() for r in X)
            return (np.sum(X, axis=1) > np.sum(hi) - 1.0).astype(float)
        try:
            b = BADS(fun, np.array(x0), np.array(lb), np.array(ub), np.array(plb), np.array(pub), non_box_cons=(cons if cname else None),
                     options=dict(display="off", random_seed=5, max_fun_evals=35))
            for k in (1, 2):
                n += 1
                r = b.optimize()
                pts.append(np.asarray(r["x"], dtype=float).reshape(-1))
                out = [p.tolist() for p in pts if np.any(p < lo) or np.any(p > hi) or np.any(np.isnan(p))]
                if out and bad is None:
                    bad = (f"optimize() call {k} on one BADS object ('{name}' box {lb} .. {ub}): {len(out)} target / constraint arguments or returned points "
                           f"outside the box, e.g. {out[0]}")
        except Exception as ex:
            ctx.notes.append(f"second optimize() on the '{name}' box raised {type(ex).__name__}: {str(ex)[:120]} (not a C01 matter)")
    logging.disable(logging.NOTSET)
    return n, bad


def tie(ctx, broken):
    from harness import comp_filter as FS
    FS.tie_source_small(ctx, broken, 800 if ctx.quick else 4000)     # gen/Src_filter.v (Props/C01src.v) against the real contraints_check
    nrr, badrr = rerun_object_runs(ctx)
    ctx.count(nrr, nrr)
    if not ctx.oblige("second_optimize_on_one_object", "correspondence", badrr is None, str(badrr)):
        ctx.violate("target-arg-outside", badrr, dict(kind="rerun_object"))
    nre, badre = reuse_arrays_runs(ctx)
    ctx.count(nre, nre)
    if not ctx.oblige("multi_start_with_reused_arrays", "correspondence", badre is None, str(badre)):
        ctx.violate("target-arg-outside", badre, dict(kind="reuse_arrays"))
    ctx.extra_requires = ["PV.Model.Filter", "PV.Model.SkeletonBox"]
    out = R.tie_skeleton(ctx, broken, [(s, None) for s in specs_for(ctx)], "c01", extra_valid=R.provenance_expr)
    R.count_runs(ctx, out, on_face)
    R.apply_monitor(ctx, out, R.mon_c01)
    # the logger hands the target exactly inverse_transf(u): recorded xo vs the transformer applied to the logged u
    bad = [tr["spec"] for tr, P in out if "final" in tr and any(a != b for a, b in zip([c["xo"] for c in tr["calls"] if c.get("newrow")], tr["final"]["logXo"]))]
    if not ctx.oblige("logged_original_points_are_the_target_arguments", "correspondence", not bad, str(bad[:2])):
        broken.append(("logged_original_points", f"X_orig rows differ from the arguments passed to the target: {bad[:2]}"))
    # the grid arithmetic regenerated from the source (gen/Src_grid.v) against the real code: components, real objects, these runs
    G.tie_grid(ctx, broken, traces=[tr for tr, _ in out])


def search(ctx, broken):
    found = G.search_grid(ctx, broken) if any("grid" in b[0] or b[0] == "coq_build" for b in broken) else False
    if R.truncate_search(ctx, R.mon_c01):
        return True
    if found:
        return True
    specs = [s for s in S.panel("thorough", ctx.seed + 41)][:48]
    out = [(tr, None) for tr in S.traces([(s, None) for s in specs], "c01s")]
    return R.apply_monitor(ctx, out, R.mon_c01) > 0


def replay(ctx, rp):
    if rp["replay"].get("kind") == "reuse_arrays":
        n, bad = reuse_arrays_runs(ctx)
        print("replay multi-start with re-used arrays:", bad or "every point inside the box")
        return 1 if bad else 0
    if rp["replay"].get("kind") == "rerun_object":
        n, bad = rerun_object_runs(ctx)
        print("replay second optimize() on one object:", bad or "every point inside the box")
        return 1 if bad else 0
    if str(rp.get("key", "")).startswith("grid:"):
        return G.replay_grid(ctx, rp)
    return R.generic_replay(ctx, rp, [R.mon_c01])
