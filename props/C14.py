"""C14 — each poll explores a positive spanning set of mesh directions at the incumbent."""
import time

from harness import comp_poll as P
from translate import poll as TP
from vlib import core

PROPS = ["Props/C14.v", "Props/C14src.v"]
TRANSLATORS = ["poll"]      # translate/poll.py: poll_mads_2n + the refill block of _poll_step_ -> coq/gen/Src_poll.v (A.20)
THEOREMS = ["C14_directions_are_source", "C14_candidates_are_source", "C14_forced_candidates_are_source", "C14_refill_test_is_source", "C14_det_formula", "C14_model_is_matrix", "C14_basis_nonsingular", "C14_positive_span_unit",
            "C14_positive_span", "C14_plus_minus_pairs", "C14_entries_bounded", "C14_default_is_coordinate",
            "C14_default_mesh_ratio_is_one", "C14_poll_points", "C14_poll_loop_each_row_once"]
LEVEL = "proof"
RULE = ("component: the real poll_mads_2n under a numpy.random shim; EXHAUSTIVE over every outcome of the strictly-lower "
        "entries, signs and row permutation for D<=2 (n in 1,2,4) and D=3 (n in 1,2; n=4 in the thorough tier), draws "
        "discarded by tril filled from the PRNG; plus sampled D<=8, n in 1..16 (incl. round-half-even ties of the mesh "
        "ratio), poll_scale ones / powers of two / arbitrary floats, drawn inside the ranges the code requests; "
        "run level: every poll step of 10 short real BADS runs (D 1-4; default and coarse search grids so n>1; box corner, "
        "noisy, non-box constraint, complete_poll).  Non-trivial = n>1 or poll_scale != 1 (component), a poll step "
        "with a dropped candidate or n>1 (run).")
TRUSTED = [
    "translate/poll.py (fail-closed ast translator, whitelist in its docstring) and the interpreter Model/PollSrc.v: a NumPy value is read "
    "per entry with broadcasting along the last axis; shapes are inferred and checked by the translator; validated on EVERY run by evaluating "
    "the generated programs on the tie's cases against the real code (correspondence:poll_source, correspondence:poll_step_source); "
    "force_to_grid(x, s) is read as s * round(x / s) (its own translation: C17grid); period_check is the identity (no periodic variables)",
    "Coq 8.16.1 kernel + vm_compute (case evaluation); MathComp 1.x (all_ssreflect, all_fingroup, all_algebra) and mczify's ssrZ "
    "(ring structure on Coq's Z) — all axiom-free under Print Assumptions",
    "hand-written model Model/PollDirs.v of poll/poll_mads_2n.py and of the candidate bookkeeping of BADS._poll_step_, tied "
    "by differential comparison (harness/comp_poll.py); the bridge list model -> MathComp matrix is PROVED (C14_model_is_matrix)",
    "numpy.random contract: randint(lo,hi,size) returns integers in [lo,hi); permutation(A) returns the rows of A rearranged "
    "(the shim serves exactly such outcomes); np.tril / np.eye / transpose / vstack / broadcasting semantics as modelled",
    "float rounding: B/poll_scale (poll_scale not a power of two) and (B*mesh)*poll_scale + u are compared at 1e-9 in Coq and "
    "at 2 ulp (+1 ulp for the final addition) by the Python monitor; not modelled in Coq",
    "contraints_check is not modelled here (C17/Model/Filter): C14_poll_points takes 'output rows are distinct rows of the input' "
    "as premises; the run-level tie checks both premises bitwise on every poll step",
]
ASSUMPTIONS = [
    "mesh_size > 0 and search_mesh_size/mesh_size exactly representable (both are powers of poll_mesh_multiplier = 2)",
    "default-is-coordinate uses the default options poll_mesh_multiplier 2, search_grid_multiplier 2, search_grid_number 10, "
    "max_poll_grid_number 0, search_size_locked (mesh exponent k <= 0: C13)",
    "stobads / periodic variables (non-default paths) are not covered; force_poll_mesh=True is covered at run level only",
]

KEYS = dict(shape="poll-dirs-shape", pairing="poll-dirs-pairing", integer="poll-dirs-integer", bound="poll-dirs-bound",
            singular="poll-dirs-singular", coordinate="poll-dirs-default-coordinate")


def _exh_plan(ctx):
    plan = [(1, 1), (1, 2), (1, 4), (2, 1), (2, 2), (2, 4), (3, 1), (3, 2)]
    if not ctx.quick:
        plan.append((3, 4))
    return plan


def _component_cases(ctx, n_sampled):
    """-> list of (case dict, result dict)"""
    out = []
    for D, n in _exh_plan(ctx):
        for c in P.enum_cases(D, n, ctx.rng):
            shim = P.EnumShim(c["draws"], c["sdraws"], c["perm"])
            out.append((c, P.run_real(D, c["ps"], c["sm"], c["m"], shim), "exhaustive"))
    for i in range(n_sampled):
        c = P.sample_case(ctx.rng, i)
        shim = P.SampleShim(ctx.rng)
        out.append((c, P.run_real(c["D"], c["ps"], c["sm"], c["m"], shim, ps_2d=c["ps_2d"]), "sampled"))
    return out


def _replay_component(c, res):
    return dict(kind="poll_component", D=c["D"], ps=c["ps"], sm=c["sm"], m=c["m"], draws=res.get("draws"),
                sdraws=res.get("sdraws"), perm=res.get("perm"), returned=res.get("B"), exc=res.get("exc"),
                shim_seed=c.get("shim_seed"), ps_2d=bool(c.get("ps_2d")), protocol=res.get("protocol"),
                how="./check C14 --replay <this file>  (re-runs pybads.poll.poll_mads_2n on these random outcomes)")


def _monitor_component(ctx, items):
    """first violation only (one replay is enough)"""
    for c, res, _ in items:
        if "exc" in res:
            ctx.violate("poll-dirs-raises", f"poll_mads_2n raised {res['exc']} for D={c['D']} mesh ratio {c['sm']}/{c['m']}",
                        _replay_component(c, res))
            return True
        r = P.monitor_dirs(c["D"], res["B"], c["ps"], c["sm"], c["m"])
        if r:
            ctx.violate(KEYS.get(r[0], "poll-dirs-" + r[0]), r[1], _replay_component(c, res))
            return True
    return False


def _runs(ctx, n_seeds):
    out = []
    for prob in P.problems():
        for _ in range(n_seeds):
            seed = ctx.rng.randrange(1, 10 ** 6)
            polls, info = P.run_bads(prob, seed)
            out.append((prob, seed, polls, info))
    return out


def _monitor_runs(ctx, runs):
    for prob, seed, polls, info in runs:
        for k, p in enumerate(polls):
            p["forced"] = bool(prob.get("opts", {}).get("force_poll_mesh"))
            r = P.monitor_poll_step(p)
            if r:
                rp = dict(kind="poll_run", problem=prob["name"], seed=seed, poll_index=k, iter=p.get("iter"),
                          incumbent=p.get("u"), mesh=p["m"], search_mesh=p["sm"], poll_scale=p["ps"], returned=p["B"],
                          candidates=p.get("cands"), evaluated=p["evald"],
                          how="./check C14 --replay <this file>  (re-runs the BADS run with this seed)")
                ctx.violate(KEYS.get(r[0], "poll-step-" + r[0]), f"run {prob['name']} seed {seed} poll step {k}: {r[1]}", rp)
                return True
        if info.get("stray"):
            ctx.violate("poll-step-stray", f"run {prob['name']} seed {seed}: {info['stray'][0]}",
                        dict(kind="poll_run", problem=prob["name"], seed=seed, poll_index=-1))
            return True
    return False


def tie(ctx, broken):
    t0 = time.time()
    # ---- component level
    try:
        items = _component_cases(ctx, 800 if ctx.quick else 6000)
    except P.ShimError as ex:
        ctx.oblige("correspondence:poll_mads_2n", "correspondence", False, "random-call protocol changed: " + str(ex))
        broken.append(("correspondence:poll_mads_2n", "poll_mads_2n no longer draws (entries, signs, one row permutation): " + str(ex)))
        items = []
    dist = {}
    for c, res, kind in items:
        k = f"{kind}:D={c['D']},n={c['n']}"
        dist[k] = dist.get(k, 0) + 1
    ctx.coverage["component_distribution"] = dist
    ctx.count(len(items), sum(1 for c, _, _ in items if c["n"] > 1 or any(x != 1.0 for x in c["ps"])))
    if items:
        c, res, _ = items[len(items) // 2]
        ctx.sample(dict(level="component", D=c["D"], n=c["n"], mesh=(c["sm"], c["m"]), draws=res.get("draws"),
                        sdraws=res.get("sdraws"), perm=res.get("perm"), returned=res.get("B")))
    found = _monitor_component(ctx, items)
    good_items = [(c, r) for c, r, _ in items if "exc" not in r]
    coq = [P.coq_case(c, r) for c, r in good_items]
    okc, bad, log = core.run_cases("C14", P.REQUIRES, P.CASE_TY, P.OK_FUN, coq, shard=max(150, len(coq) // 12 + 1))
    good = ctx.oblige("correspondence:poll_mads_2n", "correspondence", bool(items) and okc and not bad and len(good_items) == len(items),
                      f"{len(bad)} of {len(coq)} calls differ from the model; " + log[-400:])
    if items and not good:
        if bad:
            c, r = good_items[bad[0]]
            broken.append(("correspondence:poll_mads_2n",
                           f"model and poll_mads_2n differ: D={c['D']} mesh {c['sm']}/{c['m']} poll_scale={c['ps']} draws={r['draws']} "
                           f"signs={r['sdraws']} perm={r['perm']} requested={r['contract']} returned={r['B']}"))
        else:
            broken.append(("correspondence:poll_mads_2n", "case evaluation failed or the generator raised: " + log[-300:]))
    # ---- the GENERATED generator on the same literals (translator validation)
    if items:
        oks, bads, logs = core.run_cases("C14src", P.REQUIRES_SRC, P.CASE_TY, P.OK_FUN_SRC, coq, shard=max(150, len(coq) // 12 + 1))
        goods = ctx.oblige("correspondence:poll_source", "correspondence", oks and not bads,
                           f"{len(bads)} of {len(coq)} calls differ from the generated program src_gen; " + logs[-400:])
        if not goods:
            if bads:
                c, r = good_items[bads[0]]
                who = ("the hand-written model agrees with the code on this call: TRANSLATOR / interpreter fault" if bads[0] not in bad
                       else "the hand-written model differs too")
                broken.append(("correspondence:poll_source",
                               f"generated program and poll_mads_2n differ ({who}): D={c['D']} mesh {c['sm']}/{c['m']} poll_scale={c['ps']} "
                               f"draws={r['draws']} signs={r['sdraws']} perm={r['perm']} requested={r['contract']} returned={r['B']}"))
            else:
                broken.append(("correspondence:poll_source", "the generated program could not be evaluated (gen/Src_poll.v missing or not "
                               "building): " + logs[-300:]))
        elif bad:
            ctx.notes.append("the generated program agrees with poll_mads_2n on every call where the hand-written model differs: the source has "
                             "changed and Model/PollDirs.v no longer describes it; changed definitions: " + str(TP.LAST.get("changed")))
    t1 = time.time()

    # ---- run level
    try:
        runs = _runs(ctx, 2 if ctx.quick else 6)
    except P.ShimError as ex:
        ctx.oblige("correspondence:poll_step", "correspondence", False, "random-call protocol changed: " + str(ex))
        broken.append(("correspondence:poll_step", str(ex)))
        runs = []
    npolls = sum(len(polls) for _, _, polls, _ in runs)
    nevals = sum(len(p["evald"]) for _, _, polls, _ in runs for p in polls)
    ntriv = sum(1 for _, _, polls, _ in runs for p in polls
                if P.n_of(p["sm"], p["m"]) > 1 or ("cands" in p and len(p["cands"]) < 2 * p["D"]))
    ctx.count(npolls, ntriv)
    ctx.coverage["runs"] = [dict(problem=pr["name"], seed=sd, polls=len(pl), poll_evaluations=sum(len(p["evald"]) for p in pl),
                                 mesh_ratios=sorted({P.n_of(p["sm"], p["m"]) for p in pl}), **{k: v for k, v in info.items() if k != "stray"})
                            for pr, sd, pl, info in runs]
    ctx.coverage["poll_steps"] = npolls
    ctx.coverage["poll_evaluations"] = nevals
    crashed = [(pr["name"], sd, info["exc"]) for pr, sd, _, info in runs if "exc" in info]
    if crashed:
        ctx.notes.append(f"runs that ended with an exception (their poll steps up to that point are still checked): {crashed}")
    if not found:
        found = _monitor_runs(ctx, runs)
    flat = [(pr, sd, k, p) for pr, sd, pl, _ in runs for k, p in enumerate(pl)]
    coqr, idx, unbuilt = [], [], 0
    for pr, sd, k, p in flat:
        if pr.get("opts", {}).get("force_poll_mesh"):
            continue          # the poll set is additionally snapped to the search grid: outside the model, judged by the monitor only
        s = P.coq_run_case(p)
        if s is None:
            if p["evald"] or "shim_error" in p:
                unbuilt += 1
            continue
        coqr.append(s)
        idx.append((pr, sd, k, p))
    if coqr:
        pr, sd, k, p = idx[len(idx) // 2]
        ctx.sample(dict(level="run", problem=pr["name"], seed=sd, poll_step=k, incumbent=p["u"], mesh=p["m"], n=P.n_of(p["sm"], p["m"]),
                        poll_scale=p["ps"], candidates=len(p["cands"]), evaluated=p["evald"][:3]))
    okr, badr, logr = core.run_cases("C14run", P.REQUIRES, P.RUN_CASE_TY, P.RUN_OK_FUN, coqr, shard=max(20, len(coqr) // 12 + 1))
    ctx.coverage["traces_validated_against_impl"] = len(coqr) - len(badr)
    goodr = ctx.oblige("correspondence:poll_step", "correspondence", bool(runs) and okr and not badr and unbuilt == 0 and npolls >= 20,
                       f"{len(badr)} of {len(coqr)} poll steps differ from the model, {unbuilt} not reconstructible, {npolls} poll steps; " + logr[-400:])
    if runs and not goodr:
        if badr:
            pr, sd, k, p = idx[badr[0]]
            broken.append(("correspondence:poll_step",
                           f"model and _poll_step_ differ: run {pr['name']} seed {sd} poll step {k}: incumbent={p['u']} mesh={p['m']} "
                           f"evaluated={p['evald'][:4]}"))
        else:
            broken.append(("correspondence:poll_step", f"{unbuilt} poll steps not reconstructible / {npolls} poll steps; " + logr[-300:]))
    # ---- the GENERATED refill block / loop statements on the same poll steps (translator validation)
    if coqr:
        srcc = [P.coq_run_case_src(p) for _, _, _, p in idx]
        if any(x is None for x in srcc):
            ctx.oblige("correspondence:poll_step_source", "correspondence", False, "state places not recorded")
            broken.append(("correspondence:poll_step_source", "the harness could not record the mesh places of the state"))
        else:
            oks, bads, logs = core.run_cases("C14srcrun", P.REQUIRES_SRC, P.RUN_CASE_TY_SRC, P.RUN_OK_FUN_SRC, srcc, shard=max(20, len(srcc) // 12 + 1))
            goods = ctx.oblige("correspondence:poll_step_source", "correspondence", oks and not bads,
                               f"{len(bads)} of {len(srcc)} poll steps differ from the generated programs src_gen / src_cand; " + logs[-400:])
            if not goods:
                if bads:
                    pr, sd, k, p = idx[bads[0]]
                    who = ("the hand-written model agrees with the code on this step: TRANSLATOR / interpreter fault" if bads[0] not in badr
                           else "the hand-written model differs too")
                    broken.append(("correspondence:poll_step_source",
                                   f"generated refill block and _poll_step_ differ ({who}): run {pr['name']} seed {sd} poll step {k}: incumbent={p['u']} "
                                   f"mesh state/attr={p.get('state_mesh')}/{p.get('attr_mesh')} search mesh state/attr={p.get('state_search_mesh')}/"
                                   f"{p.get('attr_search_mesh')} evaluated={p['evald'][:4]}"))
                else:
                    broken.append(("correspondence:poll_step_source", "the generated programs could not be evaluated: " + logs[-300:]))
            elif badr:
                ctx.notes.append("the generated refill block agrees with _poll_step_ on every poll step where the hand-written model differs: the "
                                 "source has changed; changed definitions: " + str(TP.LAST.get("changed")))
    ctx.notes.append(f"tie wall: component {t1 - t0:.1f}s, run level {time.time() - t1:.1f}s")


def _search_component(ctx, n_aimed, n_plain):
    """the generator under a sampling shim seeded per case (so that a call that no longer follows the (entries, signs, permutation) protocol
    can still be replayed: the replay carries the shim seed); a changed protocol alone is NOT a violation, the returned array is judged"""
    import random
    for i in range(n_aimed + n_plain):
        c = P.aimed_case(ctx.rng, i) if i < n_aimed else P.sample_case(ctx.rng, i)
        seed = ctx.rng.randrange(1, 10 ** 9)
        res = P.run_real(c["D"], c["ps"], c["sm"], c["m"], P.SampleShim(random.Random(seed)), ps_2d=c["ps_2d"], lenient=True)
        if "protocol" in res and "exc" in res:
            continue            # the shim itself refused (e.g. a third randint): nothing returned, nothing to judge
        c = dict(c, shim_seed=seed)
        if _monitor_component(ctx, [(c, res, "search")]):
            return True
    return False


def _search_runs(ctx, n_seeds):
    try:
        runs = _runs(ctx, n_seeds)
    except P.ShimError:
        return False
    return _monitor_runs(ctx, runs)


def search(ctx, broken):
    """something is broken and the tie's own monitors found nothing: look harder, FIRST where the translator says the source changed
    (TP.aim(): 'generator' = poll_mads_2n, 'candidates' = the refill block of _poll_step_, 'loop' = read / evaluate / delete).
    Verdicts are the declarative monitors' (monitor_dirs / monitor_poll_step): independent of the model and of the translator."""
    aim = TP.aim()
    ctx.notes.append(f"[search aimed at: {aim or 'everything'}] [source change: {TP.LAST.get('error') or TP.LAST.get('changed')}]")
    if aim and "generator" not in aim:          # the refill block / the loop changed: real runs first (more seeds), then the generator
        return _search_runs(ctx, 4) or _search_component(ctx, 4000, 4000)
    return _search_component(ctx, 12000, 12000) or _search_runs(ctx, 3)


def replay(ctx, rp):
    r = rp["replay"]
    if r.get("kind") == "poll_component":
        if r.get("draws") is None and r.get("shim_seed") is None:
            print("replay: no random outcomes recorded (the generator raised before drawing)")
            return 1
        if r.get("draws") is None:      # the call did not follow the (entries, signs, permutation) protocol: re-run under the same seeded sampling shim
            import random
            res = P.run_real(r["D"], r["ps"], r["sm"], r["m"], P.SampleShim(random.Random(r["shim_seed"])), ps_2d=r.get("ps_2d", False), lenient=True)
        else:
            res = P.run_real(r["D"], r["ps"], r["sm"], r["m"], P.EnumShim(r["draws"], r["sdraws"], r["perm"]), lenient=True)
        print("replay: returned", res.get("B", res.get("exc")))
        msg = ("raises", res["exc"]) if "exc" in res else P.monitor_dirs(r["D"], res["B"], r["ps"], r["sm"], r["m"])
        print("replay:", msg[1] if msg else "property holds on this input now")
        return 1 if msg else 0
    if r.get("kind") == "poll_run":
        prob = [p for p in P.problems() if p["name"] == r["problem"]][0]
        polls, info = P.run_bads(prob, r["seed"])
        rc = 0
        for k, p in enumerate(polls):
            m = P.monitor_poll_step(p)
            if m:
                print(f"replay: poll step {k}: {m[1]}")
                rc = 1
                break
        if info.get("stray"):
            print("replay:", info["stray"][0])
            rc = 1
        if rc == 0:
            print(f"replay: property holds on all {len(polls)} poll steps of this run now")
        return rc
    print("replay: not a concrete input:", r)
    return 1
