"""C20 — Options: user settings win, unknown names rejected, no leaks between instances."""
import json
import os
import shutil
import warnings

from harness import comp_options as C
from translate import optionsclass as TC
from vlib import core

PROPS = ["Props/C20.v", "Props/C20src.v"]
THEOREMS = ["C20_load_is_source", "C20_load_frame_is_source", "C20_init_order_is_source", "C20_validate_is_source", "C20_wf_preserved",
            "C20_class_is_source", "C20_read_config_pinned",
            "C20_user_wins", "C20_user_value_survives_loads", "C20_dependent_defaults_see_user_value",
            "C20_unknown_rejected", "C20_reserved_name_rejected", "C20_validate_exact", "C20_no_leak",
            "C20_defaults_for_own_D", "C20_caller_dict_untouched", "real_files_dependencies_ok",
            "real_files_depends_on_D_exact", "C20_real_files", "C20_real_files_unknown_rejected"]
TRANSLATORS = ["options", "option_reads", "optionsclass"]
LEVEL = "proof"
RULE = ("T1: random op sequences (Init/Load/Validate over 1-3 Options objects, with and without passing D, 1-3 synthetic ini "
        "files whose defaults read D and other keys in any order, user dicts with known/unknown/reserved names) on the real "
        "Options class, full stores compared in dict order. T2: real BADS on the real ini files: every option name overridden "
        "at least once (all-names sweep, D cycling 1..6) + random override subsets (sizes 0..all) + misspelt names + the "
        "reserved-name corner + 2-3 instances with different D/overrides constructed (and run) in random orders; values "
        "classified as caller's-object / default-for-D=d (same source text re-evaluated in a fresh namespace) / adjusted / "
        "missing. A case is non-trivial when it has a user override, an unknown name, or more than one instance. "
        "source: the class Options and the option statements of BADS.__init__ are re-translated on every run (translate/optionsclass.py -> "
        "coq/gen/Src_optionsclass.v), proved equal to Model/Options.v's step / run / construct for all worlds (Props/C20src.v), and the GENERATED "
        "programs are evaluated by Coq on every T1 and T2 case next to the hand-written model, both against the real class")
TRUSTED = [
    "Coq 8.16.1 kernel + vm_compute (case evaluation, the three real_files_* computations); no native_compute",
    "translate/options.py: configparser rules copied from _read_config_file; Python-ast free-name analysis of the default "
    "expressions (whitelist; lambdas/generators mentioning D or self are rejected, which justifies modelling defaults as eagerly evaluated)",
    "hand-written model Model/Options.v of options.py + BADS.__init__ l.171-186, tied by T1 (exact) and T2 (observational classification); its Init / Load / "
    "Validate steps and construct are PROVED equal to the programs regenerated from the source (C20_init_order_is_source, C20_load_is_source, C20_validate_is_source, C20_class_is_source)",
    "translate/optionsclass.py (fail-closed ast whitelist over class Options and the option statements of BADS.__init__; census of every constructor / loader / "
    "validator call and every store to an `.options` attribute in the package) and the meaning Model/OptionsSrc.v gives to each whitelisted statement (MutableMapping.update / get / keys "
    "through the pass-through __setitem__/__getitem__/sorted __iter__; eval(value) in the method's frame = module globals + self; exec into globals()) - validated on every run: "
    "run_src / run_construct of the generated programs are evaluated by Coq on every T1 / T2 case and compared with the real class; _read_config_file is pinned as text (C20_read_config_pinned)",
    "defaults are uninterpreted: WHAT an expression computes is not modelled; T2 compares with the same source text evaluated by CPython in a fresh namespace",
    "Python object identity is modelled by tags (VUser) and one heap of caller dicts; mutable values INSIDE a caller dict are shared by reference (shallow copy) — covered by the harness' deep hash, not by a theorem",
    "x0/bounds arrays are outside the model: the clause 'never mutates the caller's x0/bounds arrays' is checked by hashing only (construct and short optimize, 4 spellings, on-bound starting points)",
    "configparser, CPython exec/eval scoping, NumPy",
]
ASSUMPTIONS = [
    "observation point is BADS.options right after construction; optimize() re-writes some options of ITS OWN instance "
    "(also user-supplied ones) — reported under coverage.observations, not gated on (DESIGN C20 scope note)",
    "user dict keys are distinct strings (a Python dict); the reserved name 'useroptions' is rejected like any unknown name (finding repaired in /repo 7763e26)",
    "None / 0 for stobads and None for specify_target_noise are normalised to False by the constructor (reported as observation)",
    "every load passes its own D (BADS always does; the model exhibits the leak otherwise: Example C20_leak_if_D_not_passed)",
]
EXPLANATION = ("Theorems quantify over arbitrary file contents, user dicts, D and op interleavings; the real files enter through "
               "gen/Src_options.v (regenerated each run) and real_files_dependencies_ok (recomputed each run).")

WORK = core.CACHE / "scratch" / f"c20-t1-{os.getpid()}"     # per process: concurrent checks do not share ini files


def _notes_json(notes):
    out = {}
    for k, v in notes.items():
        if k == "user_options_adjusted_by_run":          # "name: old -> new" strings: aggregate per option name
            agg = {}
            for s in sorted(v):
                name = s.split(":")[0]
                a = agg.setdefault(name, dict(distinct_cases=0, examples=[]))
                a["distinct_cases"] += 1
                if len(a["examples"]) < 3:
                    a["examples"].append(s.split(": ", 1)[1])
            out[k] = agg
        else:
            out[k] = sorted(v) if isinstance(v, set) else v
    return out


REQUIRES_SRC = C.REQUIRES + ["PV.Model.OptionsSrc", "PV.gen.Src_optionsclass"]
SRC_OBL = "correspondence:optionsclass_source"


def _src_tie(ctx, broken, label, name, case_ty, ok_fun, cases, shard, bad_model, describe):
    """The translator is checked, not trusted: the GENERATED programs (run_src / run_construct over coq/gen/Src_optionsclass.v) on the same
    literals as the hand-written model, against the real class.  -> list of differing indices, or None when there is no generated program."""
    obl = f"{SRC_OBL}({label})"
    if not TC.generated_ok():
        ctx.oblige(obl, "correspondence", False, "no generated program: coq/gen/Src_optionsclass.v holds no definition (translator raised)")
        if not any(n_ == "translate:optionsclass" for n_, _ in broken):
            broken.append((obl, "the generated program could not be evaluated: translator raised"))
        return None
    okc, bad, log = core.run_cases(name, REQUIRES_SRC, case_ty, ok_fun, cases, shard=shard)
    ctx.count(len(cases), 0)
    good = ctx.oblige(obl, "correspondence", okc and not bad,
                      f"generated programs (coq/gen/Src_optionsclass.v) vs real class: {len(bad)} of {len(cases)} cases differ; " + log[-300:])
    if not good:
        i = bad[0] if bad else 0
        broken.append((obl, f"the program translated from the source and the real class differ on {label} case {i}: " + describe(i)[:700]
                       + ("  [the hand-written model agrees with the real class here: TRANSLATOR fault]" if (okc and i not in bad_model) else "")
                       + ("" if okc else "  [case files did not compile: " + log[-200:] + "]")))
        ctx.coverage.setdefault("source_first_difference", {})[label] = describe(i)[:900]
    return bad if okc else None


def _src_note(bad_src, i):
    if bad_src is not None and i not in bad_src:
        d = TC.diff(TC.current()[0])
        return ("  [the program regenerated from the current source AGREES with the real class on this case: the source has changed, "
                "Model/Options.v no longer describes it" + ("; " + "; ".join(x["what"][:160] for x in d[:2]) if d else "") + "]")
    return ""


def _t1(ctx, broken, n):
    cases, scs, dist = [], [], {}
    for i in range(n):
        sc = C.t1_gen(ctx.rng, i)
        ex, dump = C.t1_run(sc, WORK)
        for op, o in zip(ex, dump["outs"]):
            dist[op[0] + ":" + o] = dist.get(op[0] + ":" + o, 0) + 1
        try:
            cases.append(C.t1_coq_case(sc, ex, dump))
        except Exception as e:                       # a real value outside the model's value type: a mismatch by itself
            cases.append("((None, [], []), ([Raised \"unrepresentable\"%string], None, [], []))")
            ctx.notes.append(f"T1 case {i}: real value not representable in the model: {e!r}"[:300])
        scs.append((sc, ex, dump))
        ctx.count(1, 1 if (sc["callers"] and len({op[1] for op in ex}) > 1) else 0)
    shutil.rmtree(WORK, ignore_errors=True)
    C.reset_global_D(None)
    ctx.coverage["t1_op_outcomes"] = dist
    ctx.sample(dict(t1_scenario=scs[1][0], t1_dump=str(scs[1][2])[:600]))
    okc, bad, log = core.run_cases("C20_t1", C.REQUIRES, C.T1_CASE_TY, C.T1_OK, cases, shard=max(40, n // 12))
    bad_src = _src_tie(ctx, broken, "T1", "C20_t1_src", C.T1_CASE_TY, "t1_ok_src src_class", cases, max(40, n // 12), bad,
                       lambda j: json.dumps(scs[j][0])[:500] + " real: " + str(scs[j][2])[:300])
    good = ctx.oblige("correspondence:Options-class(T1)", "correspondence", okc and not bad,
                      f"{len(bad)} of {n} op sequences differ; " + log[-400:])
    if not good:
        i = bad[0] if bad else 0
        sc, ex, dump = scs[i]
        broken.append(("correspondence:Options-class(T1)",
                       f"Model/Options.v and the real Options class differ on op sequence {i}: " + json.dumps(sc)[:700]
                       + " real: " + str(dump)[:500] + _src_note(bad_src, i)))
        ctx.coverage["t1_first_difference"] = dict(scenario=sc, real=str(dump))
    return len(cases) - len(bad)


def _scenarios(ctx):
    F = C.files()
    q = ctx.quick
    out = []
    for j, k in enumerate(F["keys"]):                                        # all-names sweep
        out.append(("sweep", C.t2_gen_single(ctx.rng, j, key=k)))
    for j in range(60 if q else 600):
        out.append(("subset", C.t2_gen_single(ctx.rng, j)))
    for j in range(40 if q else 300):
        out.append(("unknown", C.t2_gen_unknown(ctx.rng, j)))
    for j in range(9 if q else 30):
        out.append(("reserved", C.t2_gen_reserved(ctx.rng, j)))
    for j, specs in enumerate([[["stobads", ["none"]]], [["stobads", ["int", 0]], ["specify_target_noise", ["none"]]],
                               [["specify_target_noise", ["bool", True]], ["uncertainty_handling", ["none"]]]]):
        out.append(("normalise", dict(callers=[specs], g0=None, np_seed=j,
                                      ops=[dict(op="construct", i=0, D=2, u=0, prob=dict(D=2, x0="2d", bounds="2d", box="plain"))])))
    for j in range(70 if q else 600):
        out.append(("multi", C.t2_gen_multi(ctx.rng, j, runs=False)))
    for j in range(8 if q else 80):
        out.append(("multi-run", C.t2_gen_multi(ctx.rng, j, runs=True)))
    return out


def _report(ctx, sc, key, what, reported, history=(), do_shrink=True):
    """Shrink, then make sure the replay reproduces in a FRESH interpreter (a leak between instances may need
    the scenarios that ran before it in this process: then the replay is that history)."""
    if key in reported:
        return
    reported.add(key)
    known = any(k.get("property") == "C20" and k.get("key") == key and k.get("status") == "open" for k in core.load_known())
    small = sc
    if do_shrink and not known:
        try:
            small = C.shrink(sc, key, budget=80 if ctx.quick else 200)
        except Exception:
            small = sc
    scenarios, note = [small], ""
    budget = ctx.__dict__.setdefault("_c20_sub", [30])
    if not known:
        try:
            n_sub = min(14, budget[0])
            budget[0] -= n_sub
            got = C.confirm_replay(small, sc, list(history), key, max_sub=n_sub) if n_sub > 0 else None
        except Exception as ex:
            got, note = None, f" (replay could not be confirmed: {ex!r})"
        if got:
            scenarios, what = got[0], got[1]
        elif not note:
            note = " (seen inside the full check run; not reproduced from a fresh interpreter by any suffix of its history)"
    ctx.violate(key, what + note, dict(kind="bads_history", key=key, scenarios=scenarios,
                                       how="./check C20 --replay <this file>   (runs the scenarios in order in one fresh process)"))


def _t2(ctx, broken):
    notes, reported = {}, ctx.__dict__.setdefault("_c20_reported", set())
    cases, kept, dist = [], [], {}
    overridden = set()
    n_sub = 0
    with warnings.catch_warnings():
        warnings.simplefilter("ignore")
        C.consumed_keys()
        for kind, sc in _scenarios(ctx):
            res = C.t2_run(sc, notes)
            findings = list(res["findings"])
            sub = (not ctx.quick) and kind in ("multi", "multi-run") and n_sub < 12
            n_sub += 1 if sub else 0
            C.check_alone(sc, res, lambda k, w: findings.append((k, w)), subprocess_too=sub)
            dist[kind] = dist.get(kind, 0) + 1
            for specs in sc["callers"]:
                overridden.update(k for k, _ in specs)
            ninst = len({o["i"] for o in sc["ops"] if o["op"] == "construct"})
            ctx.count(1, 1 if (ninst > 1 or any(sc["callers"])) else 0)
            cases.append(C.t2_coq_case(sc, res))
            kept.append((kind, sc, res["steps"]))
            for key, what in findings:
                _report(ctx, sc, key, what, reported, history=[x[1] for x in kept[:-1]])
            res["live"].clear()
    C.reset_global_D(None)
    F = C.files()
    ctx.coverage["t2_scenarios"] = dist
    ctx.coverage["option_names_overridden"] = f"{len(overridden & set(F['keys']))} of {len(F['keys'])}"
    ctx.coverage["constructor_consumed_options"] = sorted(C.consumed_keys())
    ctx.coverage["observations"] = _notes_json(notes)
    k0, sc0, st0 = kept[len(F["keys"]) + 3]
    ctx.sample(dict(t2_kind=k0, t2_scenario=sc0, outcome=[s[1] for s in st0]))
    missing = set(F["keys"]) - overridden
    ctx.oblige("coverage:every-option-name-overridden", "correspondence", not missing, f"never overridden: {sorted(missing)[:8]}")
    if missing:
        broken.append(("coverage:every-option-name-overridden", f"generator did not override {sorted(missing)[:8]}"))
    okc, bad, log = core.run_cases("C20_t2", C.REQUIRES, C.T2_CASE_TY, C.T2_OK, cases, shard=max(25, len(cases) // 12))
    bad_src = _src_tie(ctx, broken, "T2", "C20_t2_src", C.T2_CASE_TY, "t2_ok_src src_class src_construct basic_entries advanced_entries", cases,
                       max(25, len(cases) // 12), bad, lambda j: kept[j][0] + " scenario " + json.dumps(kept[j][1])[:600])
    ctx.coverage["traces_validated_against_impl"] = len(cases) - len(bad)
    good = ctx.oblige("correspondence:BADS-options(T2)", "correspondence", okc and not bad,
                      f"{len(bad)} of {len(cases)} scenarios differ; " + log[-400:])
    if not good:
        i = bad[0] if bad else 0
        kind, sc, steps = kept[i]
        if not [v for v in ctx.violations if v["concrete"]]:
            broken.append(("correspondence:BADS-options(T2)",
                           f"Model/Options.v and BADS.options differ on {kind} scenario {i}: " + json.dumps(sc)[:900] + _src_note(bad_src, i)))
        else:
            broken.append(("correspondence:BADS-options(T2)", "model and BADS.options differ (concrete input found)"))
        ctx.coverage["t2_first_difference"] = dict(kind=kind, scenario=sc)
    return len(cases) - len(bad)


def _witness(ctx, broken):
    """Regression witness of the repaired finding (Example C20_reserved_name_witness) on the real code:
    options={'useroptions': {'n_basis'}} must raise ValueError and leave the caller's set alone; handing
    A.options to a second construction must not touch A."""
    import numpy as np
    from pybads.bads.bads import BADS
    sc = dict(callers=[[[C.RESERVED, ["set", ["n_basis"]]]]], g0=None, np_seed=1,
              ops=[dict(op="construct", i=0, D=2, u=0, prob=dict(D=2, x0="2d", bounds="2d", box="plain"))])
    with warnings.catch_warnings():
        warnings.simplefilter("ignore")
        res = C.t2_run(sc, {}, want_codes=False)
        hit = [w for k, w in res["findings"] if k == "reserved-name-useroptions-accepted"]
        mk = lambda D, o: BADS(C.Target("det"), np.zeros((1, D)), -5 * np.ones(D), 5 * np.ones(D), -np.ones(D), np.ones(D), options=o)  # noqa: E731
        a = mk(2, {"max_iter": 7})
        before = sorted(dict.__getitem__(a.options, C.RESERVED))
        try:
            mk(3, a.options)
            second = "accepted"
        except ValueError:
            second = "ValueError"
        except Exception as ex:
            second = type(ex).__name__
        a_same = sorted(dict.__getitem__(a.options, C.RESERVED)) == before
    ok = not hit and res["steps"][0][1] == "ValueError" and a_same
    ctx.oblige("regression-witness:reserved-name", "correspondence", ok,
               f"options={{'useroptions': {{'n_basis'}}}} -> {res['steps'][0][1]}; BADS(..., options=A.options) -> {second}, "
               f"A.options['useroptions'] unchanged: {a_same}")
    if not ok:
        what = hit[0] if hit else (f"BADS(..., options=A.options) -> {second}; A.options['useroptions'] changed from {before}"
                                   if not a_same else f"reserved name raised {res['steps'][0][1]} instead of ValueError")
        ctx.__dict__.setdefault("_c20_reported", set()).add("reserved-name-useroptions-accepted")
        ctx.violate("reserved-name-useroptions-accepted", what,
                    dict(kind="bads_history", key="reserved-name-useroptions-accepted", scenarios=[sc]))
        broken.append(("regression-witness:reserved-name", "the reserved option name is no longer rejected (concrete input found)"))


# every place where the package STORES into an options object (translate/option_reads.py, ast census of the whole package).  The run may
# adjust exactly these options at exactly these sites (all in the constructor / the initialisation of optimize(); what each does to a
# user-supplied value is checked dynamically by the T2 monitor).  A store anywhere else is a broken tie.
WRITE_SITES = {
    ("stobads", "BADS.__init__"), ("specify_target_noise", "BADS._init_optim_state_"), ("uncertainty_handling", "BADS._init_optim_state_"),
    ("fun_eval_start", "BADS._init_mesh_"), ("tol_stall_iters", "BADS._init_optimization_"), ("n_train_max", "BADS._init_optimization_"),
    ("n_train_min", "BADS._init_optimization_"), ("mesh_overflow_warning", "BADS._init_optimization_"),
    ("min_failed_poll_steps", "BADS._init_optimization_"), ("mesh_noise_multiplier", "BADS._init_optimization_"),
    ("noise_final_samples", "BADS._init_optimization_"), ("max_fun_evals", "BADS._init_optimization_"),
    ("noise_size", "BADS._init_optimization_"), ("stobads", "BADS._init_optimization_"),
}


def _write_sites(ctx, broken):
    from translate import option_reads as OR
    cen = OR.load_emitted()
    got = {(w["option"], w["function"]) for w in cen["writes"]}
    new, gone = sorted(got - WRITE_SITES), sorted(WRITE_SITES - got)
    ok = ctx.oblige("static:option-write-sites", "translator", not new and not gone,
                    f"{len(got)} store sites into option objects in the package, all among the {len(WRITE_SITES)} known ones" if not new and not gone
                    else f"store sites not in the model: {new}; modelled sites that no longer exist: {gone}")
    if not ok:
        broken.append(("static:option-write-sites", f"the package stores into an options object at {new or gone} — outside the set of "
                       "adjustments the model of C20 knows (constructor / initialisation only); a run could overwrite a user's setting there"))
    ctx.coverage["option_store_sites"] = len(got)
    # a user setting can only take effect if some code READS it: the set of options the package reads is pinned (props/C20_live.json, from
    # the same census); an option that is no longer read anywhere (its read replaced by an inline default, say) is a broken tie
    import json as _json
    from pathlib import Path as _Path
    pinned = set(_json.loads((_Path(__file__).parent / "C20_live.json").read_text()))
    live = set(cen["live"])
    lost, gained = sorted(pinned - live), sorted(live - pinned)
    ok = ctx.oblige("static:option-live-set", "translator", not lost and not gained,
                    f"{len(live)} options are read by the package, the pinned set" if not lost and not gained
                    else f"options no longer read anywhere: {lost}; newly read: {gained}")
    if not ok:
        broken.append(("static:option-live-set", f"the set of options the package reads changed: no longer read {lost}, newly read {gained} — a user's setting "
                       "of an option nobody reads has no effect"))
    return 0


def tie(ctx, broken):
    import traceback
    done = 0
    try:
        _write_sites(ctx, broken)
    except Exception:
        tb = traceback.format_exc()
        ctx.oblige("static:option-write-sites", "translator", False, tb[-600:])
        broken.append(("static:option-write-sites", "census of option stores unavailable: " + tb[-300:]))
    for name, part in (("T1", lambda: _t1(ctx, broken, 400 if ctx.quick else 5000)),
                       ("witness", lambda: _witness(ctx, broken) or 0),
                       ("T2", lambda: _t2(ctx, broken))):
        try:
            done += part() or 0
        except Exception:
            tb = traceback.format_exc()
            ctx.oblige(f"tie:{name}:exception", "correspondence", False, tb[-1200:])
            broken.append((f"tie:{name}:exception", f"correspondence {name} could not be evaluated on this tree: " + tb[-500:]))
    if not C._CONSUMED.get("trusted", True):
        ctx.notes.append("value-shape discovery not trusted on this tree (constructions fail wholesale); static table used")
    ctx.coverage["traces_validated_against_impl"] = done


AIM = {   # part of the class that changed -> scenario kinds that exercise it first (the monitor decides, independently of model and translator)
    "load": ["multi", "multi", "subset", "multi-run"],             # WHEN D is bound / which entries a load skips: several instances, different D
    "Options.load_options_file": ["multi", "multi", "subset", "multi-run"],
    "init": ["subset", "reserved", "unknown", "multi"],            # order of defaults / user dict / protected set, the reserved name
    "Options.__init__": ["subset", "reserved", "unknown", "multi"],
    "validate": ["unknown", "unknown", "reserved", "subset"],      # which names are rejected
    "Options.validate_option_names": ["unknown", "unknown", "reserved", "subset"],
    "construct": ["subset", "unknown", "multi", "reserved"],       # basic / advanced order, what BADS passes
    "BADS.__init__": ["subset", "unknown", "multi", "reserved"],
    "census": ["multi", "subset", "unknown", "multi-run"],
}


def aim():
    """(kinds, description): what translate/optionsclass.py says changed (the construct at which it stopped, or the parts of the translation
    that differ from the reference snapshot) -> the scenario kinds to try first.  Only aims; decides nothing."""
    cur, ex = TC.current()
    kinds, desc = [], []
    if cur is None:
        where = getattr(ex, "where", None)
        desc.append(f"translation stopped: {ex}"[:300])
        for k, v in AIM.items():
            if where and (where == k or where.startswith(k)):
                kinds += v
    else:
        for d in TC.diff(cur):
            desc.append(d["what"][:300])
            kinds += AIM.get(d["part"], [])
    return kinds, desc


def search(ctx, broken):
    """Something is broken and the tie's own pass found no concrete input: look harder with the monitor, first with scenarios AIMED at the part
    of the class whose translation changed / stopped."""
    reported = set()
    try:
        C.files()
    except Exception:
        return False                      # the option files themselves are not translatable: nothing to run against
    aimed, desc = aim()
    ctx.coverage["search"] = dict(source_change=desc[:6], aimed_at=sorted(set(aimed)))
    n_aimed = 600 if aimed else 0
    tail = f"  [search aimed at: {'/'.join(sorted(set(aimed)))} scenarios]  [source change: {desc[0][:200]}]" if aimed and desc else ""
    with warnings.catch_warnings():
        warnings.simplefilter("ignore")
        for j in range(1500 + n_aimed):
            if j < n_aimed:
                kind = aimed[j % len(aimed)]
            else:
                kind = ("multi", "subset", "unknown", "multi-run")[j % 4] if j % 40 == 3 else ("multi", "subset", "unknown")[j % 3]
            if kind == "multi-run" and j % 10 != 3:
                kind = "multi"
            sc = (C.t2_gen_multi(ctx.rng, j, runs=(kind == "multi-run")) if kind.startswith("multi") else
                  C.t2_gen_single(ctx.rng, j) if kind == "subset" else
                  C.t2_gen_reserved(ctx.rng, j) if kind == "reserved" else C.t2_gen_unknown(ctx.rng, j))
            res = C.t2_run(sc, {}, want_codes=False)
            findings = list(res["findings"])
            C.check_alone(sc, res, lambda k, w: findings.append((k, w)))
            fresh = [(k, w) for k, w in findings if not any(kf.get("key") == k and kf.get("property") == "C20" and kf.get("status") == "open"
                                                            for kf in core.load_known())]
            if fresh:
                _report(ctx, sc, fresh[0][0], fresh[0][1] + (tail if j < n_aimed else ""), reported)
                return True
    return False


def replay(ctx, rp):
    r = rp["replay"]
    if r.get("kind") not in ("bads_history", "bads_scenario"):
        print("replay: this file names a broken obligation, not an input:", json.dumps(r)[:600])
        return 1
    scenarios = r["scenarios"] if r.get("kind") == "bads_history" else [r["scenario"]]
    for n, sc in enumerate(scenarios):
        print(f"scenario {n}:", json.dumps(sc)[:2000])
    findings = C.run_history(scenarios)
    if not findings:
        print("replay: property holds on this input now")
        return 0
    for n, k, w in findings:
        print(f"replay: scenario {n}: [{k}] {w}")
    return 1
