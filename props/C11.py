"""C11 — the variable transform is a faithful, order-preserving bijection onto the unit box."""
import collections
import random
import traceback

import numpy as np

from harness import comp_transform as H
from translate import transform as T
from vlib import core

PROPS = "Props/C11.v"
THEOREMS = ["C11_inverse_left", "C11_inverse_right", "C11_public_roundtrip", "C11_monotone", "C11_plausible_to_unit",
            "C11_outputs_in_box", "C11_clamps_as_written", "C11_log_rule", "C11_affine_or_log",
            "C11_log_argument_positive", "C11_constructor_order_check"]
TRANSLATORS = ["transform"]
LEVEL = "proof"
ALLOWED_AXIOMS = ["ClassicalDedekindReals.sig_forall_dec", "ClassicalDedekindReals.sig_not_dec",
                  "FunctionalExtensionality.functional_extensionality_dep", "Classical_Prop.classic",
                  # not an axiom: the shared ./check regex also captures the header line "Axioms:" of Print Assumptions
                  # (reported to the lead; harmless once the regex skips it)
                  "Axioms"]
RULE = ("boxes from one PRNG: D 1-6; per coordinate one of linear (offset up to 30 widths), tight (plb=lb, pub=ub), "
        "both/one hard bound infinite, log (all bounds > 0, >= a decade; tight; infinite ub), positive but under a decade, "
        "pub/plb within 2 ulp of 10, bounds at 0 / negative; magnitudes 1e-12..1e12 (every third box) or 1e-6..1e4; "
        "points per coordinate: every bound and its two neighbours (np.nextafter), 9 interior, just outside "
        "(1 ulp and 1e-3 width), 0, tiny, negative, +-1e300, +-inf; y points: +-1, stored bounds and neighbours, +-0.1 "
        "outside, +-1e300, +-inf, 710, -750, random.  A box is non-trivial when it has a log coordinate or an infinite "
        "hard bound (mixed arm, cap, clamps at infinity); distinct = distinct bound tuples")
EXPLANATION = (
    "Theorems are over the real numbers about gen/Src_transform.v, regenerated from variables_transformer.py (and the "
    "logflag lines of bads.py) on this run by a fail-closed ast translator. The rounding clause 'round trip error below "
    "1e-9 of the box width' is NOT proved (no verified libm): it is MEASURED on the real object on every accepted box "
    "(coverage.measured_roundtrip_error_over_width) and a value above 1e-9 is a VIOLATION. The translator is validated "
    "by evaluating the same intermediate tree in binary64 (must match vt.g / vt.ginv / vt() / vt.inverse_transf / stored "
    "bounds to <= 1 ulp; observed agreement is reported) and in 50-digit Decimal (forward error of the real g, exact "
    "round trip of the tree). The constructor's self-test (absolute tolerance 1e-6) refusing valid large boxes is the "
    "known finding; such boxes are counted, classified (rounding-only, explained by the absolute tolerance) and reported "
    "under one key.")
TRUSTED = [
    "Coq 8.16.1 kernel; Reals + Coquelicot.Rbar; axioms of the standard library's real numbers as printed by Print Assumptions: "
    "ClassicalDedekindReals.sig_forall_dec, ClassicalDedekindReals.sig_not_dec, FunctionalExtensionality.functional_extensionality_dep, "
    "Classical_Prop.classic",
    "translate/transform.py (Python ast -> Gallina, whitelist grammar, statement-order and single-assignment checks); validated each run "
    "against the real object in binary64 and 50-digit Decimal",
    "per-coordinate reading of element-wise NumPy expressions; the arm model (arm_ok) and IEEE min/max/g/ginv at +-infinity "
    "(xmin, xmax, gbar, ginvbar in Proofs/TransformProofs.v) are hand-written and monitored on the real object",
    "IEEE-754 rounding and libm log/exp are not modelled: the theorems are exact-real statements; the 1e-9 rounding clause is measured",
    "NaN inputs are outside the model (np.minimum/np.maximum propagate NaN)",
]
ASSUMPTIONS = [
    "boxes are not pathologically offset: |centre| <= 30 widths (with |offset|/width > 1e7 one ulp of x already exceeds 1e-9 of the width, "
    "so the rounding clause cannot hold for any binary64 implementation)",
    "log coordinate, order clause: inputs are positive (g uses |x|, so far-outside negative inputs are mirrored; 'just outside' a box with lb > 0 is positive)",
    "pub/plb >= 10 is evaluated on the rounded binary64 quotient by the code; bound pairs whose exact ratio is below 10 by less than 1 ulp are "
    "log-transformed (reported as observations, not violations)",
]

WHAT_KNOWN = ("VariableTransformer.__create_hypercube_trans__ self-test compares ginv(g(bound)) with the bound at an ABSOLUTE tolerance 1e-6 "
              "and rejects valid large boxes, e.g. (lb, plb, pub, ub) = (1, 2, 1e12, 1e13): ValueError('Cannot invert the transform...')")


def _model(ctx):
    try:
        return T.load()
    except Exception as ex:      # translator already reported as broken by ./check; monitors still run
        ctx.notes.append("tie runs monitors only: source not translatable: %r" % (ex,))
        return None


def _shrink(model, box, v, seed):
    """try to reproduce the violation on the single offending coordinate"""
    key, what, rp = v
    i = rp.get("coordinate")
    if i is None or box["D"] == 1:
        return v
    sub = H.sub_box(box, i)
    ex = {0: H.unhex(rp["x"])} if "x" in rp else None
    ey = {0: H.unhex(rp["y"])} if "y" in rp else None
    try:
        r = H.run_box(model, sub, random.Random(seed), deep=False, extra_x=ex, extra_y=ey)
    except Exception:
        return v
    for w in r.violations:
        if w[0] == key:
            return w
    return v


def _sweep(ctx, model, n, start, stop_at_first=False):
    agg = dict(status=collections.Counter(), arms=collections.Counter(), D=collections.Counter(), kinds=collections.Counter(),
               max_ulp=0, n_cmp=0, rt=0.0, rt_inf=0.0, fwd=0.0, hp=0.0, n_dec=0, obs=[], faults=[], viol=[], rejected=[], seen=set(),
               nontrivial=0, points=0)
    for i in range(start, start + n):
        box = H.gen_box(ctx.rng, i)
        sub = random.Random(ctx.rng.getrandbits(48))
        try:
            r = H.run_box(model, box, sub, deep=(i % 2 == 0))
        except Exception:
            tb = traceback.format_exc()
            agg["viol"].append(("transform-raises", "the transformer (or the harness) raised on a valid box: " + tb[-500:],
                                H.box_replay(box, clause="exception")))
            if stop_at_first:
                break
            continue
        agg["status"][r.status.split(":")[0]] += 1
        agg["arms"][{0: "all-linear", 1: "all-log", 2: "mixed", None: "-"}[r.arm]] += 1
        agg["D"][box["D"]] += 1
        for k in box["kinds"]:
            agg["kinds"][k] += 1
        key = (tuple(box["lb"]), tuple(box["plb"]), tuple(box["pub"]), tuple(box["ub"]))
        if key not in agg["seen"]:
            agg["seen"].add(key)
            if r.status == "ok" and (any(r.flags) or any(not np.isfinite(v) for v in box["lb"] + box["ub"])):
                agg["nontrivial"] += 1
        agg["max_ulp"] = max(agg["max_ulp"], r.max_ulp)
        agg["n_cmp"] += r.n_cmp
        agg["points"] += r.n_points
        agg["n_dec"] += r.n_dec
        for a, b in (("rt", r.rt_err), ("rt_inf", r.rt_err_inf), ("fwd", r.fwd_err), ("hp", r.hp_rt)):
            agg[a] = max(agg[a], b)
        agg["obs"] += r.observations
        agg["faults"] += r.tree_faults
        if r.status == "rejected-selftest":
            agg["rejected"].append((box, r.detail))
        for v in r.violations:
            agg["viol"].append(_shrink(model, box, v, i))
        if stop_at_first and agg["viol"]:
            break
    return agg


def grid_units_tie(ctx):
    """pybads.search.grid_units(x, var_trans) is the transform applied row by row: it must agree with the transformer itself for every
    spelling of the rows (float / integer dtype, one or several rows).  Returns None or a description of the first disagreement."""
    import numpy as np
    from pybads.search import grid_units
    from pybads.variable_transformer import VariableTransformer
    rng = ctx.rng
    n = 0
    for _ in range(40):
        D = rng.choice([1, 2, 3])
        lb = np.array([[rng.choice([-10.0, -3.0, 0.5]) for _ in range(D)]])
        ub = lb + np.array([[rng.choice([8.0, 20.0, 400.0]) for _ in range(D)]])
        plb = lb + (ub - lb) * 0.1
        pub = lb + (ub - lb) * 0.8
        vt = VariableTransformer(D, lb, ub, plb, pub)
        rows = rng.choice([1, 2, 5])
        Xi = np.array([[int(round(rng.uniform(float(lb[0, j]) + 1, float(ub[0, j]) - 1))) for j in range(D)] for _ in range(rows)])
        for X in (Xi.astype(float), Xi, Xi.astype(np.int32)):
            ref = np.vstack([vt(np.asarray(r, dtype=float).reshape(1, -1)) for r in X])
            try:
                got = np.asarray(grid_units(X, vt), dtype=float).reshape(ref.shape)
            except Exception as ex:
                return f"grid_units raised {type(ex).__name__} on {X.dtype} rows {X.tolist()}"
            n += 1
            if not np.array_equal(got, ref):
                return (f"grid_units({X.tolist()} as {X.dtype}) = {got.tolist()} but the transformer maps these rows to {ref.tolist()} "
                        f"(box lb={lb.tolist()} ub={ub.tolist()})")
    ctx.count(n, n)
    return None


def tie(ctx, broken):
    gu = grid_units_tie(ctx)
    if not ctx.oblige("grid_units_is_the_transform", "correspondence", gu is None, str(gu)):
        ctx.violate("grid-units-disagrees", gu, dict(kind="grid_units"))
    model = _model(ctx)
    n = 1500 if ctx.quick else 30000
    agg = _sweep(ctx, model, n, 0)
    ctx.count(agg["n_cmp"] + agg["points"], agg["nontrivial"])
    cov = ctx.coverage
    cov["boxes"] = dict(agg["status"])
    cov["arms"] = dict(agg["arms"])
    cov["dimension"] = {str(k): v for k, v in sorted(agg["D"].items())}
    cov["coordinate_kinds"] = dict(agg["kinds"])
    cov["binary64_agreement"] = ("bit-for-bit" if agg["max_ulp"] == 0 else f"max {agg['max_ulp']} ulp") + f" over {agg['n_cmp']} values"
    cov["measured_roundtrip_error_over_width"] = agg["rt"]
    cov["measured_roundtrip_error_unbounded_coords_rel_to_max_absx_plausible_width"] = agg["rt_inf"]
    cov["measured_forward_error_vs_50_digits"] = agg["fwd"]
    cov["tree_roundtrip_error_50_digits"] = agg["hp"]
    cov["decimal_evaluations"] = agg["n_dec"]
    cov["rule_exact_vs_float_discrepancies"] = dict(count=len(agg["obs"]), examples=agg["obs"][:3])
    cov["traces_validated_against_impl"] = agg["status"].get("ok", 0)

    if model is not None:
        f64 = [f for f in agg["faults"] if "decimal" not in f[1].get("clause", "") and "log_rule" not in f[1].get("clause", "")]
        dec = [f for f in agg["faults"] if "decimal" in f[1].get("clause", "")]
        rul = [f for f in agg["faults"] if "log_rule" in f[1].get("clause", "")]
        ok1 = ctx.oblige("translator_validation:binary64", "correspondence", not f64 and agg["status"].get("ok", 0) > 0,
                         cov["binary64_agreement"] + (" :: " + f64[0][0] if f64 else ""))
        ok2 = ctx.oblige("translator_validation:decimal50", "correspondence", not dec and agg["hp"] <= 1e-40,
                         f"real g within {agg['fwd']:.2e} of the 50-digit tree; tree round trip exact to {agg['hp']:.1e}" + (" :: " + dec[0][0] if dec else ""))
        ok3 = ctx.oblige("decision_tie:log_rule", "correspondence", not rul,
                         f"{sum(agg['D'][d] * d for d in agg['D'])} coordinates; {len(agg['obs'])} exact-vs-float discrepancies (observations)" + (" :: " + rul[0][0] if rul else ""))
        for ok, fs, nm in ((ok1, f64, "binary64"), (ok2, dec, "decimal50"), (ok3, rul, "log_rule")):
            if not ok:
                broken.append(("translator_validation:" + nm, "translated tree and real VariableTransformer disagree: " +
                               (fs[0][0] + " box " + str(fs[0][1]["readable"]) if fs else "no accepted box / inexact round trip")))
    ctx.oblige("measured:roundtrip_below_1e-9_of_width", "measurement", agg["rt"] <= 1e-9,
               f"max |inverse_transf(vt(x)) - x| / (ub - lb) = {agg['rt']:.3e} on points inside {agg['status'].get('ok', 0)} accepted boxes")

    # malformed stream, disabled scaling, BADS flag
    inv_bad = 0
    for _ in range(80 if ctx.quick else 800):
        v = H.run_invalid(H.gen_invalid_box(ctx.rng))
        if v:
            inv_bad += 1
            agg["viol"].append(v)
    ctx.oblige("monitor:invalid_boxes_rejected", "monitor", inv_bad == 0, f"{inv_bad} invalid boxes accepted")
    dis_bad = 0
    for i in range(100 if ctx.quick else 1000):
        v = H.run_disabled(H.gen_box(ctx.rng, i))
        if v:
            dis_bad += 1
            agg["viol"].append(v)
    try:
        bf = H.bads_flag_check()
        okb = all((all(fl) if ns else not any(fl)) for ns, fl in bf)
    except Exception as ex:
        bf, okb = repr(ex), False
    if not ctx.oblige("decision_tie:nonlinear_scaling_switch", "correspondence", okb and dis_bad == 0,
                      f"BADS(nonlinear_scaling -> flags) = {bf}; explicit zeros: {dis_bad} boxes flagged"):
        broken.append(("decision_tie:nonlinear_scaling_switch", f"src_bads_logflag does not describe the code: {bf}"))
        if not okb:
            agg["viol"].append(("log-rule-nonlinear-scaling-switch",
                                f"BADS on lb=(0.01,1) plb=(0.1,2) pub=(10,500) ub=(100,1000): (nonlinear_scaling, apply_log_t) = {bf}; expected all "
                                "True when enabled and all False when disabled", dict(kind="bads_flag")))

    # first violation per key
    seen = set()
    for key, what, rp in agg["viol"]:
        if key not in seen:
            seen.add(key)
            ctx.violate(key, what, rp)
    ctx.oblige("monitors:no_violation", "monitor", not agg["viol"], f"{len(agg['viol'])} monitor hits" + (": " + agg["viol"][0][1][:200] if agg["viol"] else ""))
    ctx.sample(dict(example_observation=agg["obs"][:1], statuses=dict(agg["status"])))

    # (iv) the known finding: witness on the real class + count of generated boxes that hit it
    known_finding(ctx, model, agg)


def known_finding(ctx, model, agg):
    rej = agg["rejected"]
    by_arm = collections.Counter("log" if any(d["flags"]) else "linear" for _, d in rej)
    ctx.coverage["selftest_rejections_of_valid_boxes"] = dict(
        count=len(rej), by_kind=dict(by_arm),
        examples=[dict(lb=b["lb"], plb=b["plb"], pub=b["pub"], ub=b["ub"], **d) for b, d in rej[:3]])
    r = H.run_box(model, dict(H.WITNESS), random.Random(0), deep=False)
    if r.status == "rejected-selftest":
        ctx.violate(H.KNOWN_KEY, WHAT_KNOWN + f"; measured: {r.detail}; {len(rej)} generated valid boxes hit the same test ({dict(by_arm)})",
                    H.box_replay(H.WITNESS, clause="constructor"))
        ctx.sample(dict(known_finding_witness=H.WITNESS, detail=r.detail))
    elif rej:
        b, d = rej[0]
        ctx.violate(H.KNOWN_KEY, WHAT_KNOWN + f"; witness box now accepted, but generated box {b} is rejected: {d}", H.box_replay(b, clause="constructor"))
    elif r.status == "ok":
        ctx.notes.append("known finding " + H.KNOWN_KEY + " no longer reproduces (witness accepted, no generated valid box rejected by the self-test)")


def search(ctx, broken):
    model = _model(ctx)
    agg = _sweep(ctx, model, 6000, 10 ** 6, stop_at_first=True)
    for _ in range(300):
        v = H.run_invalid(H.gen_invalid_box(ctx.rng))
        if v:
            agg["viol"].append(v)
            break
    for key, what, rp in agg["viol"][:1]:
        ctx.violate(key, what, rp)
        return True
    return False


def replay(ctx, rp):
    r = rp["replay"]
    if r.get("kind") == "grid_units":
        gu = grid_units_tie(ctx)
        print("replay grid_units:", gu or "agrees with the transformer on every spelling")
        return 1 if gu else 0
    if r.get("kind") == "bads_flag":
        bf = H.bads_flag_check()
        ok = all((all(fl) if ns else not any(fl)) for ns, fl in bf)
        print("replay: BADS (nonlinear_scaling, apply_log_t) =", bf, "(as the property says)" if ok else "VIOLATED")
        return 0 if ok else 1
    if r.get("kind") != "box":
        print("replay: not a concrete input:", r)
        return 1
    box = H.box_from_replay(r)
    print("replay: VariableTransformer(D=%d, lb=%s, ub=%s, plb=%s, pub=%s)  clause=%s" % (box["D"], box["lb"], box["ub"], box["plb"], box["pub"], r.get("clause")))
    if r.get("clause") == "constructor-invalid":
        box["how"] = r.get("invalid", "?")
        v = H.run_invalid(box)
        print("replay:", v[1] if v else "invalid box is rejected now")
        return 1 if v else 0
    if r.get("clause") == "log_rule_disabled":
        v = H.run_disabled(box)
        print("replay:", v[1] if v else "property holds on this input now")
        return 1 if v else 0
    try:
        model = T.load()
    except Exception as ex:
        print("replay: source not translatable (%r): monitors only" % (ex,))
        model = None
    i = r.get("coordinate", 0)
    ex_ = {i: H.unhex(r["x"])} if "x" in r else None
    ey_ = {i: H.unhex(r["y"])} if "y" in r else None
    try:
        res = H.run_box(model, box, random.Random(0), deep=True, extra_x=ex_, extra_y=ey_)
    except Exception:
        print("replay: raised:\n" + traceback.format_exc()[-800:])
        return 1
    print("replay: constructor:", res.status, getattr(res, "detail", ""))
    for key, what, _ in res.violations:
        print("replay: VIOLATED", key, "::", what)
    for what, _ in res.tree_faults:
        print("replay: translator fault ::", what)
    bad = bool(res.violations) or res.status != "ok"
    if not bad:
        print("replay: property holds on this input now (round-trip error / width = %.3e)" % res.rt_err)
    return 1 if bad else 0
