"""C02 — non-box constraints: no infeasible point is evaluated or returned."""
from harness import runlevel as R, skel as S

PROPS = "Props/C02.v"
THEOREMS = ["C02_filter_feasible", "C02_no_infeasible_call", "C02_infeasible_start_rejected"]
LEVEL = "proof"
RULE = ("real runs with non-box constraints (ball, half-space, thin band, coarse lattice feasible set) x boxes (linear, log) x noise modes compared with the skeleton model; "
        "the provenance premise of C02_no_infeasible_call evaluated in Coq on every run; independent monitor re-evaluates the user constraint on every target argument and on result.x; "
        "infeasible starting points (before / after mesh snapping) must be rejected with ValueError before any target call; non-trivial = the constraint removed at least one candidate")
TRUSTED = ["Coq 8.16.1 kernel + vm_compute", "hand-written models Model/Skeleton.v, Model/Filter.v tied to the code by differential correspondence (C17 ties every filter call)",
           "the constraint function is an arbitrary deterministic function of the point; feasibility is judged at inverse_transf(u), the same expression the logger uses"]
ASSUMPTIONS = ["deterministic constraint function"]


def specs_for(ctx):
    sd = ctx.seed * 10
    specs = [s for s in S.panel(ctx.tier, ctx.seed) if s.get("cons")]
    specs += [
        dict(D=2, target="outside", box="sym", noise="det", cons="ball", options=dict(max_fun_evals=80), seed=sd + 1),
        dict(D=2, target="sphere", box="sym", noise="det", cons="lattice", options=dict(max_fun_evals=60), seed=sd + 2),
        dict(D=2, target="outside", box="sym", noise="specified", sigma=0.3, cons="half", options=dict(max_fun_evals=70, noise_final_samples=3), seed=sd + 3),
        dict(D=3, target="ellipsoid", box="log", noise="declared", sigma=0.2, cons="band", options=dict(max_fun_evals=90, noise_final_samples=2), seed=sd + 4),
        dict(D=1, target="outside", box="sym", noise="det", cons="half", options=dict(max_fun_evals=40), seed=sd + 5),
        dict(D=2, target="sphere", box="sym", noise="auto", sigma=0.2, cons="band", options=dict(max_fun_evals=60, noise_final_samples=1), seed=sd + 6),
    ]
    return specs


def removed_some(tr, P):
    return any(e[0] == "filter" and e[10] and len(e[8]) < len(e[3]) for e in tr.get("events", []))


def infeasible_starts(ctx):
    """constructor must reject an infeasible x0 (and one that becomes infeasible after mesh snapping) before any target call"""
    import logging
    import numpy as np
    from pybads import BADS
    logging.disable(logging.CRITICAL)
    bad = []
    n = 0
    for D in (1, 2, 3):
        for kind in ("x0", "snapped"):
            calls = []
            fun = lambda x: calls.append(1) or float(np.sum(x ** 2))  # noqa: E731
            if kind == "x0":
                cons = lambda X: (np.atleast_2d(X)[:, 0] > 0.5).astype(float)  # noqa: E731
                x0 = np.full(D, 1.0)
            else:   # feasible only off the mesh: x0 = 0.3003 feasible, every mesh point infeasible
                x0 = np.full(D, 0.3003)
                cons = lambda X: (np.abs(np.atleast_2d(X)[:, 0] - 0.3003) > 1e-6).astype(float)  # noqa: E731
            try:
                BADS(fun, x0, np.full(D, -5.0), np.full(D, 5.0), np.full(D, -2.0), np.full(D, 2.0), non_box_cons=cons, options=dict(display="off"))
                bad.append((D, kind, "accepted"))
            except ValueError:
                pass
            except Exception as ex:
                bad.append((D, kind, type(ex).__name__))
            if calls:
                bad.append((D, kind, "target called"))
            n += 1
    logging.disable(logging.NOTSET)
    return n, bad


def tie(ctx, broken):
    ctx.extra_requires = ["PV.Model.Filter", "PV.Model.SkeletonBox"]
    out = R.tie_skeleton(ctx, broken, [(s, None) for s in specs_for(ctx)], "c02", extra_valid=R.provenance_expr)
    R.count_runs(ctx, out, removed_some)
    R.apply_monitor(ctx, out, R.mon_c02)
    n, bad = infeasible_starts(ctx)
    ctx.count(n, n)
    if not ctx.oblige("infeasible_start_rejected", "correspondence", not bad, str(bad)):
        ctx.violate("infeasible-start-accepted", f"infeasible starting point not rejected with ValueError before the first target call: {bad}",
                    dict(kind="construct", cases=bad))


def search(ctx, broken):
    if R.truncate_search(ctx, R.mon_c02):
        return True
    specs = [s for s in S.panel("thorough", ctx.seed + 43) if s.get("cons")][:40]
    out = [(tr, None) for tr in S.traces([(s, None) for s in specs], "c02s")]
    return R.apply_monitor(ctx, out, R.mon_c02) > 0


def replay(ctx, rp):
    if rp["replay"].get("kind") == "construct":
        n, bad = infeasible_starts(ctx)
        print("replay infeasible starts:", bad or "all rejected")
        return 1 if bad else 0
    return R.generic_replay(ctx, rp, [R.mon_c02])
