"""C02 — non-box constraints: no infeasible point is evaluated or returned."""
from harness import runlevel as R, skel as S

PROPS = ["Props/C02.v", "Props/C02src.v"]
TRANSLATORS = ["filter"]
THEOREMS = ["C02_filter_feasible", "C02_no_infeasible_call", "C02_infeasible_start_rejected",
            # Props/C02src.v: the two feasibility checks of the starting point and their ORDER relative to snap / pull-back, regenerated from bads.py
            "C02_start_checks_are_source"]
LEVEL = "proof"
RULE = ("real runs with non-box constraints (ball, half-space, thin band, coarse lattice feasible set) x boxes (linear, log) x noise modes compared with the skeleton model; "
        "the provenance premise of C02_no_infeasible_call evaluated in Coq on every run; independent monitor re-evaluates the user constraint on every target argument and on result.x; "
        "infeasible starting points (before / after mesh snapping) must be rejected with ValueError before any target call; non-trivial = the constraint removed at least one candidate")
TRUSTED = ["Coq 8.16.1 kernel + vm_compute", "hand-written models Model/Skeleton.v, Model/Filter.v tied to the code by differential correspondence (C17 ties every filter call)",
           "translate/filter.py (fail-closed) regenerates the ordered events of BADS.__init__ / _init_optim_state_ that touch the start, the constraint and the logger "
           "(gen/Src_filter.v src_init_events / src_state_events); C02_start_checks_are_source pins them and proves what they do; the events are replayed in Python "
           "against the arguments the real constructor passes to the constraint function (correspondence:start_checks_source)",
           "the constraint function is an arbitrary deterministic function of the point; feasibility is judged at inverse_transf(u), the same expression the logger uses"]
ASSUMPTIONS = ["deterministic constraint function"]


def specs_for(ctx):
    sd = ctx.seed * 10
    specs = [s for s in S.panel(ctx.tier, ctx.seed) if s.get("cons")]
    specs += [
        dict(D=2, target="outside", box="sym", noise="det", cons="ball", options=dict(max_fun_evals=80), seed=sd + 1),
        dict(D=2, target="sphere", box="sym", noise="det", cons="lattice", options=dict(max_fun_evals=60), seed=sd + 2),
        dict(D=2, target="outside", box="sym", noise="specified", sigma=0.3, cons="half", options=dict(max_fun_evals=70, noise_final_samples=3), seed=sd + 3),
        dict(D=3, target="ellipsoid", box="log", noise="declared", sigma=0.2, cons="band", options=dict(max_fun_evals=90, noise_final_samples=2), seed=sd + 4),
        dict(D=1, target="outside", box="sym", noise="det", cons="half", options=dict(max_fun_evals=40), seed=sd + 5),
        dict(D=2, target="sphere", box="sym", noise="auto", sigma=0.2, cons="band", options=dict(max_fun_evals=60, noise_final_samples=1), seed=sd + 6),
        dict(D=2, target="outside", box="sym", noise="det", cons="tinyball", options=dict(max_fun_evals=70), seed=sd + 7),
        dict(D=2, target="sphere", box="sym", noise="det", cons="ball", x0="absent", options=dict(max_fun_evals=50), seed=sd + 9),
        dict(D=2, target="sphere", box="sym", noise="det", cons="stripes", x0_value=[0.3, 0.3], options=dict(max_fun_evals=60, fun_eval_start=16), seed=sd + 10),
        dict(D=2, target="outside", box="sym", noise="det", cons="stripes", x0_value=[0.375, 0.375], options=dict(max_fun_evals=70, search_grid_number=4, fun_eval_start=32), seed=sd + 11),
        dict(D=2, target="outside", box="sym", noise="declared", sigma=0.2, cons="tinyhalf", options=dict(max_fun_evals=70, noise_final_samples=2), seed=sd + 8),
        # an integer-typed start point
        dict(D=2, target="outside", box="sym", noise="det", cons="ball", x0_value=[1, 0], x0_int=True, options=dict(max_fun_evals=60), seed=sd + 17),
        # budgets below the size of the initial design, and designs / candidate sets of a single row
        dict(D=3, target="outside", box="sym", noise="det", cons="ball", options=dict(max_fun_evals=4), seed=sd + 12),
        dict(D=2, target="outside", box="sym", noise="declared", sigma=0.2, cons="half", options=dict(max_fun_evals=25, noise_final_samples=2), seed=sd + 13),
        dict(D=2, target="outside", box="sym", noise="det", cons="stripes", x0_value=[0.3, 0.3], options=dict(max_fun_evals=40, fun_eval_start=1), seed=sd + 14),
        dict(D=2, target="outside", box="sym", noise="det", cons="ball", options=dict(max_fun_evals=2), seed=sd + 15),
        dict(D=1, target="outside", box="sym", noise="det", cons="half", options=dict(max_fun_evals=30, fun_eval_start=1), seed=sd + 16),
    ]
    return specs


def removed_some(tr, P):
    return any(e[0] == "filter" and e[10] and len(e[8]) < len(e[3]) for e in tr.get("events", []))


def infeasible_starts(ctx, boost=1):
    """constructor must reject an infeasible x0 (and one that becomes infeasible after mesh snapping) before any target call"""
    import logging
    import numpy as np
    from pybads import BADS
    logging.disable(logging.CRITICAL)
    bad = []
    n = 0
    for D in (1, 2, 3):
        for kind in ("x0", "snapped"):
            calls = []
            fun = lambda x: calls.append(1) or float(np.sum(x ** 2))  # noqa: E731
            if kind == "x0":
                cons = lambda X: (np.atleast_2d(X)[:, 0] > 0.5).astype(float)  # noqa: E731
                x0 = np.full(D, 1.0)
            else:   # feasible only off the mesh: x0 = 0.3003 feasible, every mesh point infeasible
                x0 = np.full(D, 0.3003)
                cons = lambda X: (np.abs(np.atleast_2d(X)[:, 0] - 0.3003) > 1e-6).astype(float)  # noqa: E731
            try:
                BADS(fun, x0, np.full(D, -5.0), np.full(D, 5.0), np.full(D, -2.0), np.full(D, 2.0), non_box_cons=cons, options=dict(display="off"))
                bad.append((D, kind, "accepted"))
            except ValueError:
                pass
            except Exception as ex:
                bad.append((D, kind, type(ex).__name__))
            if calls:
                bad.append((D, kind, "target called"))
            n += 1
    # near-boundary stream: half-space / ball constraints (real-valued and boolean, also reporting violations as TINY positive
    # numbers) with x0 within a few search-mesh steps of the boundary on either side, linear and log boxes.  Property, both
    # directions: cons(x0) > 0  ==>  ValueError and no target call;  accepted  ==>  the mesh-snapped start is feasible.
    rng = ctx.rng
    for i in range((120 if ctx.quick else 1200) * boost):
        D = rng.choice([1, 2, 3])
        t = rng.uniform(-1.5, 1.5)
        scale = rng.choice([1.0, 1.0, 1e-9, 1e3])
        boolean = rng.random() < 0.3
        off = rng.choice([1, -1]) * rng.choice([1e-7, 3e-5, 2e-4, 6e-4, 1.2e-3, 5e-3])
        logbox = rng.random() < 0.25
        if logbox:
            lb, ub, plb, pub = np.full(D, 0.01), np.full(D, 100.0), np.full(D, 0.1), np.full(D, 10.0)
            t = 10.0 ** rng.uniform(-0.5, 0.5)
            x0 = np.full(D, 1.0); x0[0] = t * (1.0 + off)
        elif rng.random() < 0.3:
            # parameters of LARGE magnitude relative to the plausible width (offset-dominated): snapping moves x0 by an amount that is
            # tiny relative to |x0| but not relative to the mesh
            c0 = rng.choice([300.0, -4000.0, 1.0e5])
            lb, ub, plb, pub = np.full(D, c0 - 50.0), np.full(D, c0 + 50.0), np.full(D, c0 - 5.0), np.full(D, c0 + 5.0)
            t = c0 + rng.uniform(-3.0, 3.0)
            off = off * 2.5
            x0 = np.array([c0 + rng.uniform(-2, 2) for _ in range(D)]); x0[0] = t + off
        else:
            lb, ub, plb, pub = np.full(D, -5.0), np.full(D, 5.0), np.full(D, -2.0), np.full(D, 2.0)
            x0 = np.array([rng.uniform(-1, 1) for _ in range(D)]); x0[0] = t + off
        raw = (lambda tt, sc: (lambda X: (np.atleast_2d(X)[:, 0] - tt) * sc))(t, scale)
        cons = (lambda r: (lambda X: r(X) > 0))(raw) if boolean else raw
        calls = []
        fun = lambda x: calls.append(1) or float(np.sum(x ** 2))  # noqa: E731
        infeasible = bool(np.atleast_1d(raw(x0))[0] > 0)
        case = dict(D=D, x0=x0.tolist(), threshold=t, scale=scale, boolean=boolean, log=logbox)
        try:
            b = BADS(fun, x0.copy(), lb, ub, plb, pub, non_box_cons=cons, options=dict(display="off"))
            if infeasible:
                bad.append((case, "infeasible x0 accepted"))
            else:
                xs = b.var_transf.inverse_transf(np.atleast_2d(b.u))
                if np.atleast_1d(raw(xs))[0] > 0:
                    bad.append((case, "accepted but the mesh-snapped start %r is infeasible" % (xs.tolist(),)))
        except ValueError:
            pass
        except Exception as ex:
            bad.append((case, type(ex).__name__))
        if calls:
            bad.append((case, "target called"))
        n += 1
    # edge stream: the start within a fraction of a (coarse) search-mesh step of a HARD bound that is not a mesh node, so that snapping
    # leaves the box and the point is pulled back one step; feasible sets that hug the bound (thin slab / ring).  Accepted ==> the point
    # the optimiser will evaluate first is feasible.
    for i in range((60 if ctx.quick else 600) * boost):
        D = rng.choice([1, 2, 2, 3])
        sgn = rng.choice([2, 3, 4])
        side = rng.choice([1.0, -1.0])
        x0 = np.array([rng.uniform(-0.3, 0.3) for _ in range(D)])
        shape = rng.choice(["slab", "ring"]) if D > 1 else "slab"
        if i % 10 < 7:
            # aimed: the hard bound lies past the midpoint between two mesh nodes m*step < hb < (m+1)*step, the start past that midpoint
            # (it snaps to the outer node and is pulled back to the inner one); the slab contains the start but not the inner node
            step = 2.0 ** -sgn
            m = int(round(rng.choice([1.0, 1.25, 1.5, 2.0]) / step))
            hb = (m + rng.uniform(0.6, 0.95)) * step
            lo = (m + 0.5) * step
            x0[0] = side * rng.uniform(lo + 0.1 * (hb - lo), hb - 0.1 * (hb - lo) - 2.5e-3 * hb)
            w = float(rng.uniform(float(hb - abs(x0[0])) * 1.05 + 1e-4, (hb - m * step) * 0.95))
            shape = "slab"
        else:
            hb = rng.choice([1.1, 1.07, 1.3, 2.05])
            x0[0] = side * (hb - rng.choice([0.002, 0.01, 0.03, 0.06]) * hb)
            w = rng.choice([0.02, 0.05, 0.08, 0.12])
        if shape == "slab":        # feasible: within w of the bound on the start's side
            raw = (lambda sd, hb_, w_: (lambda X: (hb_ - w_) - sd * np.atleast_2d(X)[:, 0]))(side, hb, w)
        else:                      # feasible: a ring through the start
            r0 = float(np.linalg.norm(x0))
            raw = (lambda r_, w_: (lambda X: np.abs(np.linalg.norm(np.atleast_2d(X), axis=1) - r_) - w_))(r0, w)
        calls = []
        fun = lambda x: calls.append(1) or float(np.sum(x ** 2))  # noqa: E731
        infeasible = bool(np.atleast_1d(raw(x0))[0] > 0)
        case = dict(D=D, x0=x0.tolist(), hard=hb, search_grid_number=sgn, shape=shape, width=w, stream="edge")
        try:
            b = BADS(fun, x0.copy(), np.full(D, -hb), np.full(D, hb), np.full(D, -1.0), np.full(D, 1.0), non_box_cons=raw,
                     options=dict(display="off", search_grid_number=sgn))
            if infeasible:
                bad.append((case, "infeasible x0 accepted"))
            else:
                xs = b.var_transf.inverse_transf(np.atleast_2d(b.u))
                if np.atleast_1d(raw(xs))[0] > 0:
                    bad.append((case, "accepted but the mesh-snapped start %r is infeasible" % (xs.tolist(),)))
        except ValueError:
            pass
        except Exception as ex:
            bad.append((case, type(ex).__name__))
        if calls:
            bad.append((case, "target called"))
        n += 1
    logging.disable(logging.NOTSET)
    return n, bad[:5]


def sequential_constraints(ctx):
    """Several constrained optimisations IN ONE PROCESS on the same box and start (so that mesh points coincide) with DIFFERENT constraint
    functions: the verdicts of one run's constraint must never be used for another's.  Returns (n_runs, first violation or None)."""
    import logging
    import numpy as np
    from pybads import BADS
    logging.disable(logging.CRITICAL)
    D = 2
    seq = [("ball r=1.2", lambda X: np.sum(np.atleast_2d(X) ** 2, axis=1) - 1.44),
           ("ball r=0.8", lambda X: np.sum(np.atleast_2d(X) ** 2, axis=1) - 0.64),
           ("half-plane (boolean)", lambda X: np.atleast_2d(X)[:, 0] + np.atleast_2d(X)[:, 1] > 0.3),
           ("ball r=0.6, declared noise", lambda X: np.sum(np.atleast_2d(X) ** 2, axis=1) - 0.36)]
    bad = None
    for i, (name, cons) in enumerate(seq):
        pts = []
        noisy = "noise" in name

        def fun(x, pts=pts, noisy=noisy):
            pts.append(np.array(x, dtype=float).reshape(-1).copy())
            v = float(np.sum((np.asarray(x) - 1.5) ** 2))
            return v + (0.1 * np.random.randn() if noisy else 0.0)
        opts = dict(display="off", random_seed=7, max_fun_evals=45)
        if noisy:
            opts.update(uncertainty_handling=True, noise_final_samples=2)
        try:
            r = BADS(fun, np.array([0.1, 0.1]), np.full(D, -3.0), np.full(D, 3.0), np.full(D, -2.0), np.full(D, 2.0), non_box_cons=cons, options=opts).optimize()
            pts.append(np.asarray(r["x"], dtype=float).reshape(-1))
        except Exception as ex:
            bad = bad or f"run {i} ({name}) raised {type(ex).__name__}: {str(ex)[:80]}"
            continue
        viol = [p.tolist() for p in pts if float(np.atleast_1d(cons(p.reshape(1, -1)))[0]) > 0]
        if viol and bad is None:
            bad = f"run {i} ({name}) of a sequence of constrained runs in one process evaluated/returned {len(viol)} infeasible point(s), e.g. {viol[0]}"
    logging.disable(logging.NOTSET)
    return len(seq), bad


def start_checks_source(ctx, broken):
    """Translator validation: the event lists regenerated from bads.py, interpreted in Python on the real grid arithmetic, must predict
    the exact arguments the real constructor passes to the constraint function (x0 first, then the image of the snapped AND pulled-back
    start) and the start it stores - on constructions where the pull-back moves the start."""
    import logging
    import numpy as np
    from translate import filter as TF
    try:
        ie, se = TF.load_start()
    except Exception as ex:   # noqa: BLE001
        ctx.oblige("correspondence:start_checks_source", "correspondence", False, f"NOT EVALUATED: {ex!r}")
        broken.append(("correspondence:start_checks_source", f"the start checks of bads.py are outside the translator's whitelist: {ex!r}"))
        return
    from pybads import BADS
    from pybads.search.grid_functions import force_to_grid, grid_units
    logging.disable(logging.CRITICAL)
    rng = ctx.rng
    n = pulled = 0
    bad = []
    for i in range(40 if ctx.quick else 300):
        D = rng.choice([1, 2, 3])
        sgn = rng.choice([2, 3, 4])
        step = 2.0 ** -sgn
        m = int(round(rng.choice([1.0, 1.25, 1.5, 2.0]) / step))
        hb = (m + rng.uniform(0.55, 0.95)) * step
        side = rng.choice([1.0, -1.0])
        x0 = np.array([rng.uniform(-0.3, 0.3) for _ in range(D)])
        if i % 4:
            x0[0] = side * rng.uniform((m + 0.5) * step + 1e-3, hb * (1 - 2.5e-3))     # snaps outside the box, is pulled back
        args = []
        cons = lambda X, args=args: (args.append(np.array(X, dtype=float).copy()), -np.ones(np.atleast_2d(X).shape[0]))[1]  # noqa: E731
        try:
            b = BADS(lambda x: 0.0, x0.copy(), np.full(D, -hb), np.full(D, hb), np.full(D, -1.0), np.full(D, 1.0), non_box_cons=cons,
                     options=dict(display="off", search_grid_number=sgn))
        except Exception as ex:   # noqa: BLE001
            bad.append((x0.tolist(), hb, "constructor raised " + type(ex).__name__))
            continue
        args = args[-2:] if len(args) >= 2 else args     # _bounds_check_ may evaluate the constraint too: the two checks are the LAST two calls
        sms = b.optim_state["search_mesh_size"]
        pred, u, stored = [], None, None
        for e in ie:
            if e.startswith("EvConsCheck ArgX0"):
                pred.append(np.atleast_2d(b.x0))
            elif e == "EvInitState":
                for f in se:
                    if f == "EvSnap":
                        u = force_to_grid(grid_units(b.x0, b.var_transf, b.optim_state["scale"]), sms)
                        raw = u.copy()
                    elif f == "EvPullLow":
                        u = u.copy(); u[u < b.lower_bounds] = u[u < b.lower_bounds] + sms
                    elif f == "EvPullHigh":
                        u = u.copy(); u[u > b.upper_bounds] = u[u > b.upper_bounds] - sms
                    elif f.startswith("EvConsCheck ArgInvU0"):
                        pred.append(b.var_transf.inverse_transf(u))
                    elif f.startswith("EvConsCheck ArgX0"):
                        pred.append(np.atleast_2d(b.x0))
                    elif f == "EvStoreU":
                        stored = u.copy()
        n += 1
        moved = u is not None and not np.array_equal(raw, u)
        pulled += 1 if moved else 0
        okc = len(pred) == len(args) and all(np.array_equal(np.atleast_2d(a), np.atleast_2d(p)) for a, p in zip(args, pred))
        oks = stored is not None and np.array_equal(np.atleast_2d(stored), np.atleast_2d(b.optim_state["u"]))
        if not (okc and oks):
            bad.append(dict(x0=x0.tolist(), hard=hb, search_grid_number=sgn, pulled_back=bool(moved),
                            constraint_called_at=[np.atleast_2d(a).tolist() for a in args], events_predict=[np.atleast_2d(p).tolist() for p in pred],
                            stored_start=np.atleast_2d(b.optim_state["u"]).tolist(), events_store=None if stored is None else stored.tolist()))
    logging.disable(logging.NOTSET)
    ctx.count(n, pulled)
    ctx.coverage["start_checks_source"] = dict(constructions=n, start_moved_by_pull_back=pulled, init_events=ie, state_events=se)
    if not ctx.oblige("correspondence:start_checks_source", "correspondence", not bad and pulled > 0,
                      f"{len(bad)} of {n} constructions ({pulled} with a pulled-back start) disagree with the regenerated events; first: {bad[:1]}"):
        broken.append(("correspondence:start_checks_source", "TRANSLATOR fault or changed source: the regenerated start events do not predict the points at which the "
                       f"real constructor evaluates the constraint / the start it stores: {bad[:1]}"))


def tie(ctx, broken):
    start_checks_source(ctx, broken)
    ctx.extra_requires = ["PV.Model.Filter", "PV.Model.SkeletonBox"]
    out = R.tie_skeleton(ctx, broken, [(s, None) for s in specs_for(ctx)], "c02", extra_valid=R.provenance_expr)
    R.count_runs(ctx, out, removed_some)
    R.apply_monitor(ctx, out, R.mon_c02)
    n, bad = infeasible_starts(ctx)
    ctx.count(n, n)
    if not ctx.oblige("infeasible_start_rejected", "correspondence", not bad, str(bad)):
        ctx.violate("infeasible-start-accepted", f"infeasible starting point not rejected with ValueError before the first target call: {bad}",
                    dict(kind="construct", cases=bad))


    nseq, badseq = sequential_constraints(ctx)
    ctx.count(nseq, nseq)
    if not ctx.oblige("sequential_constrained_runs", "correspondence", badseq is None, str(badseq)):
        ctx.violate("infeasible-evaluated", badseq, dict(kind="sequence"))


def search(ctx, broken):
    # the start checks changed (translation / Props/C02src.v / the start-event tie broke): more constructions AIMED at them - starts within a few
    # mesh steps of the constraint boundary on either side, starts that snap outside the box and are pulled back into a thin feasible slab
    names = " ".join(n for n, _ in broken)
    if any(k in names for k in ("translate:filter", "coq_build", "start_checks_source", "theorems_present")):
        try:
            from translate import filter as TF
            defs, ex = TF.current()
            why = f"translation stopped: {str(ex)[:200]}" if defs is None else "definitions differing from the reference translation: " + ", ".join(TF.diff(defs))
        except Exception as ex2:   # noqa: BLE001
            why = f"aim failed: {ex2!r}"
        ctx.notes.append("search aimed at the start checks: " + why)
        if "src_stage" not in why or "events" in why or "stopped" in why:
            n, bad = infeasible_starts(ctx, boost=5)
            if bad:
                ctx.violate("infeasible-start-accepted", f"[search aimed at the start checks; {why[:200]}] infeasible starting point not rejected with ValueError "
                            f"before the first target call: {bad}", dict(kind="construct", cases=bad))
                return True
    if R.truncate_search(ctx, R.mon_c02):
        return True
    specs = [s for s in S.panel("thorough", ctx.seed + 43) if s.get("cons")][:40]
    out = [(tr, None) for tr in S.traces([(s, None) for s in specs], "c02s")]
    return R.apply_monitor(ctx, out, R.mon_c02) > 0


def replay(ctx, rp):
    if rp["replay"].get("kind") == "sequence":
        n, bad = sequential_constraints(ctx)
        print("replay sequential constrained runs:", bad or "all feasible")
        return 1 if bad else 0
    if rp["replay"].get("kind") == "construct":
        n, bad = infeasible_starts(ctx)
        print("replay infeasible starts:", bad or "all rejected")
        return 1 if bad else 0
    return R.generic_replay(ctx, rp, [R.mon_c02])
