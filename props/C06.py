"""C06 — BADS actually minimises smooth unimodal targets within the default budget."""
import os
from concurrent.futures import ProcessPoolExecutor

import numpy as np

from harness import quadpanel as Qp, runlevel as R, skel as S

PROPS = ["Props/C06.v"] + (["Props/C06poll.v"] if os.path.exists(os.path.join(os.path.dirname(__file__), "..", "coq", "Props", "C06poll.v")) else [])
THEOREMS = ["C06_never_worse_than_start", "C06_monotone_progress", "C06_always_stops", "C06_poll_descent"]
LEVEL = "proof"
RULE = ("(a) deterministic real runs compared with the skeleton model (premises det_ok evaluated per event) for the per-run clause; (b) the population clause is SAMPLED, never proved: "
        "panel of random rotated quadratics (eigenvalues in [1,100], minimiser in [-4,4]^D, start uniform in the plausible box, D 1..5, default options) in three strata: standard (f* = 0, plausible box [-5,5]^D), offset (minimum VALUE +-2e3..2e4), wide (plausible box [-50,50]^D), unbounded (no hard bounds), huge (hard bounds +-1e15), each with its own threshold: quick 20 problems with a gross threshold "
        "(VIOLATION only if < 60% within 1e-3 or any run is worse than its start), thorough 70 problems with the property's thresholds (>= 90% within 1e-3; median evaluations-to-1e-2 <= 40*D)")
TRUSTED = ["Coq 8.16.1 kernel + vm_compute", "hand-written model Model/Skeleton.v tied per loop iteration to real runs",
           "POPULATION CLAUSE OUTSIDE THE FAMILY: a statistical statement about gpyreg's hyper-parameter optimiser and the ES sampler; a passing panel is a sample, not the basis of 'holds'"]
ASSUMPTIONS = ["per-run clause: deterministic target, default policy"]
EXPLANATION = ("Proof decides the per-run clause (never worse than the mesh-snapped start; monotone progress; termination). The population guarantee cannot be stated as a theorem about any executable "
               "model of this code base; it is explored by a panel whose failure would be a concrete counter-example.")


def tie(ctx, broken):
    specs = [s for s in S.panel(ctx.tier, ctx.seed) if s["noise"] == "det"][:6]
    out = R.tie_skeleton(ctx, broken, [(s, None) for s in specs], "c06")
    R.apply_monitor(ctx, out, R.mon_c04)
    n = 35 if ctx.quick else 105     # blocks of 5 (D = 1..5) cycling through the strata standard / offset / standard / wide / unbounded / huge / lopsided
    with ProcessPoolExecutor(max_workers=14) as ex:
        res = list(ex.map(Qp.run_one, [(i, ctx.seed) for i in range(n)]))
    ok3 = [r for r in res if r["fval"] is not None and r["fval"] <= 1e-3]
    worse = [r for r in res if r["fval"] is not None and r["fval"] > r["start"]]
    crashed = [r for r in res if r["exc"]]
    ratio = [r["to_1e2"] / (40.0 * r["D"]) for r in res if r["to_1e2"] is not None]
    med = float(np.median(ratio)) if ratio else None
    ctx.count(n, len({(r["i"]) for r in res if r["n"] > 10}))
    ctx.coverage["population_panel"] = dict(problems=n, within_1e3=len(ok3), worse_than_start=len(worse), crashed=len(crashed),
                                            median_evals_to_1e2_over_40D=med, note="SAMPLE, not a proof")
    ctx.sample(dict(panel_problem=res[1]))
    for r in worse:
        ctx.violate("worse-than-start", f"quadratic #{r['i']} (D={r['D']}): returned {r['fval']} worse than the start value {r['start']}",
                    dict(kind="quad", i=r["i"], seed=ctx.seed))
        break
    thr = 0.6 if ctx.quick else 0.9
    if len(ok3) < thr * n:
        ctx.violate("population-accuracy", f"only {len(ok3)}/{n} panel problems within 1e-3 of the minimum (threshold {thr:.0%}); failures: {[(r['i'], r['D'], r['fval'], r['exc']) for r in res if r not in ok3][:6]}",
                    dict(kind="quadpanel", n=n, seed=ctx.seed))
    # per stratum (5 problems each in the quick tier): a change that only hurts targets whose minimum VALUE is far from zero, or
    # generous plausible boxes, must not hide behind the standard problems
    strata = {}
    for r in res:
        st = strata.setdefault(r["stratum"], [0, 0])
        st[0] += 1
        st[1] += int(r["fval"] is not None and r["fval"] <= 1e-3)
    ctx.coverage["population_panel"]["per_stratum_within_1e3"] = {k: f"{v[1]}/{v[0]}" for k, v in strata.items()}
    sthr = 0.5 if ctx.quick else 0.75
    for k, (tot, good) in strata.items():
        if good < sthr * tot and len(ok3) >= thr * n:
            ctx.violate("population-accuracy:" + k, f"stratum '{k}': only {good}/{tot} problems within 1e-3 of the minimum (threshold {sthr:.0%}); "
                        f"failures: {[(r['i'], r['D'], r['fval']) for r in res if r['stratum'] == k and not (r['fval'] is not None and r['fval'] <= 1e-3)][:5]}",
                        dict(kind="quadpanel", n=n, seed=ctx.seed, stratum=k))
    # ... and the speed clause per stratum (median evaluations-to-1e-2 <= 40*D; a run that never gets there counts as infinitely slow).
    # The unchanged code sits around 0.3 in every stratum, so the property's own threshold 1.0 leaves a wide margin even for 5 problems.
    spd = {}
    for r in res:
        spd.setdefault(r["stratum"], []).append(float("inf") if r["to_1e2"] is None else r["to_1e2"] / (40.0 * r["D"]))
    ctx.coverage["population_panel"]["per_stratum_median_evals_to_1e2_over_40D"] = {k: (None if np.isinf(np.median(v)) else float(np.median(v))) for k, v in spd.items()}
    for k, v in spd.items():
        if np.median(v) > 1.0 and len(ok3) >= thr * n and not any(x["key"].startswith("population-accuracy") for x in ctx.violations):
            ctx.violate("population-speed:" + k, f"stratum '{k}': median evaluations-to-1e-2 = {np.median(v):.2f} x 40*D (threshold 1); ratios {[round(x, 2) for x in v]}",
                        dict(kind="quadpanel", n=n, seed=ctx.seed, stratum=k, clause="speed"))
    if not ctx.quick and (med is None or med > 1.0):
        ctx.violate("population-speed", f"panel median evaluations-to-1e-2 = {med} x 40*D (threshold 1)", dict(kind="quadpanel", n=n, seed=ctx.seed))


def search(ctx, broken):
    return R.truncate_search(ctx, R.mon_c04)


def replay(ctx, rp):
    r = rp["replay"]
    if r.get("kind") == "quad":
        res = Qp.run_one((r["i"], r["seed"]))
        print("replay:", res)
        return 1 if (res["fval"] is None or res["fval"] > res["start"]) else 0
    if r.get("kind") == "quadpanel":
        with ProcessPoolExecutor(max_workers=14) as ex:
            res = list(ex.map(Qp.run_one, [(i, r["seed"]) for i in range(r["n"])]))
        if r.get("stratum"):
            res = [x for x in res if x["stratum"] == r["stratum"]]
        if r.get("clause") == "speed":
            med = float(np.median([float("inf") if x["to_1e2"] is None else x["to_1e2"] / (40.0 * x["D"]) for x in res]))
            print(f"replay panel stratum {r.get('stratum')}: median evaluations-to-1e-2 = {med} x 40*D")
            return 1 if med > 1.0 else 0
        ok3 = sum(1 for x in res if x["fval"] is not None and x["fval"] <= 1e-3)
        print(f"replay panel{' stratum ' + r['stratum'] if r.get('stratum') else ''}: {ok3}/{len(res)} within 1e-3")
        return 1 if ok3 < (0.75 if r.get("stratum") else 0.9) * len(res) else 0
    return R.generic_replay(ctx, rp, [R.mon_c04])
