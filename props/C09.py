"""C09 — every valid problem runs to completion in every supported mode."""
from harness import runlevel as R, skel as S

PROPS = "Props/C09.v"
THEOREMS = ["C09_history_length", "C09_history_reads_in_range", "C09_final_selection_defined", "C09_poll_within_candidates", "C09_yval_vec_defined"]
LEVEL = "proof"
RULE = ("mode matrix of real runs on VALID problems: {deterministic, auto-detected, declared, specified noise} x {no constraint, ball, half-space, thin band, "
        "coarse-lattice feasible set} x {linear, log, unbounded, mixed boxes} x seeds, plus directed rare paths (tiny budgets, max_iter=1, noisy runs ending in "
        "iteration 0, repeated observations under specified noise, collapsing ES populations); any exception escaping optimize()/the constructor is a violation "
        "keyed by (exception class, innermost pybads frame); non-trivial = run with >= 1 search and >= 1 poll")
TRUSTED = ["Coq 8.16.1 kernel + vm_compute", "hand-written model Model/Skeleton.v tied per loop iteration to real runs",
           "PARTIAL by nature: the theorems establish definedness of the history/yval_vec/poll-candidate reads the listed crashes come from, on the model; shape/dtype/index errors inside NumPy, gpyreg, SciPy and the unmodelled GP/ES code are only sampled by the mode-matrix panel"]
ASSUMPTIONS = ["well-behaved target (finite real values; positive finite SDs), valid problem definition"]
EXPLANATION = ("'Never raises an internal error' is a safety property of Python/NumPy dynamics; the proof covers the bookkeeping reads (history indices, final selection, "
               "yval_vec, poll candidate indices) for every oracle stream; everything else is explored by real runs and reported by exception site.")


def specs_for(ctx):
    specs = list(S.panel(ctx.tier, ctx.seed))
    sd = ctx.seed * 10
    specs += [
        dict(D=2, target="sphere", box="sym", noise="det", cons="lattice", options=dict(max_fun_evals=60), seed=sd + 1),
        dict(D=2, target="sphere", box="sym", noise="specified", sigma=0.3, cons="lattice", options=dict(max_fun_evals=60, noise_final_samples=2), seed=sd + 2),
        dict(D=2, target="sphere", box="sym", noise="declared", sigma=0.3, options=dict(max_fun_evals=60, max_iter=1), seed=sd + 3),
        dict(D=2, target="sphere", box="sym", noise="specified", sigma=0.3, options=dict(max_fun_evals=60, uncertainty_handling=None), seed=sd + 4),
        dict(D=2, target="sphere", box="sym", noise="det", options=dict(max_fun_evals=1), seed=sd + 5),
        dict(D=2, target="sphere", box="sym", noise="det", options=dict(max_fun_evals=5), seed=sd + 6),
        dict(D=2, target="sphere", box="sym", noise="declared", sigma=0.3, options=dict(max_fun_evals=33), seed=sd + 7),
        dict(D=2, target="outside", box="log", noise="specified", sigma=0.2, cons="band", options=dict(max_fun_evals=70, noise_final_samples=0), seed=11),
        dict(D=3, target="abs", box="mixed", noise="auto", sigma=0.1, x0="absent", options=dict(max_fun_evals=90), seed=sd + 8),
        dict(D=1, target="plateau", box="unb", noise="det", x0="absent", options=dict(max_fun_evals=40), seed=sd + 9),
        # low specified noise on a steep target: the (very fine) search mesh is refined around a minimum far from the origin, so many DISTINCT
        # logged points lie within rounding distance of each other
        dict(D=1, target="sphere", box="wide", shift=[5.3], scale=1e4, noise="specified", sigma=1e-3, options=dict(max_fun_evals=90), seed=1),
        dict(D=1, target="sphere", box="wide", shift=[5.3], scale=1e4, noise="specified", sigma=1e-3, options=dict(max_fun_evals=90), seed=2),
        # reported SD tiny relative to the range of the target: local GP refits fail (Cholesky) and are retried with a noise vector
        dict(D=2, target="rosen", box="sym", noise="specified", sigma=1e-6, options=dict(max_fun_evals=50), seed=5),
        dict(D=2, target="rosen", box="sym", noise="specified", sigma=1e-6, options=dict(max_fun_evals=50), seed=4),
    ]
    return specs + S.panel_nondefault(ctx.seed)


def tie(ctx, broken):
    out = R.tie_skeleton(ctx, broken, [(s, None) for s in specs_for(ctx)], "c09")
    R.count_runs(ctx, out, lambda tr, P: any(e[0] == "search_begin" for e in tr.get("events", [])) and any(e[0] == "poll_begin" for e in tr.get("events", [])))
    modes = {}
    for tr, _ in out:
        if "spec" in tr:
            k = f"{tr['spec'].get('noise')}/{tr['spec'].get('cons')}/{tr['spec'].get('box', 'sym')}"
            modes[k] = modes.get(k, 0) + 1
    ctx.coverage["mode_matrix"] = modes
    R.apply_monitor(ctx, out, R.mon_c09, only_first=False)


def search(ctx, broken):
    if R.truncate_search(ctx, R.mon_c09):
        return True
    specs = S.panel("thorough", ctx.seed + 31)[:48]
    out = [(tr, None) for tr in S.traces([(s, None) for s in specs], "c09s")]
    return R.apply_monitor(ctx, out, R.mon_c09) > 0


def replay(ctx, rp):
    return R.generic_replay(ctx, rp, [R.mon_c09])
