"""C09 — every valid problem runs to completion in every supported mode."""
from harness import runlevel as R, skel as S, run_optmatrix as OM

PROPS = "Props/C09.v"
THEOREMS = ["C09_history_length", "C09_history_reads_in_range", "C09_final_selection_defined", "C09_poll_within_candidates", "C09_yval_vec_defined"]
LEVEL = "proof"
TRANSLATORS = ["option_reads"]      # ast census of every option read of pybads (fail closed) -> .cache/option_reads.json
RULE = ("mode matrix of real runs on VALID problems: {deterministic, auto-detected, declared, specified noise} x {no constraint, ball, half-space, thin band, "
        "coarse-lattice feasible set} x {linear, log, unbounded, mixed boxes} x seeds, plus directed rare paths (tiny budgets, max_iter=1, noisy runs ending in "
        "iteration 0, repeated observations under specified noise, collapsing ES populations); any exception escaping optimize()/the constructor is a violation "
        "keyed by (exception class, innermost pybads frame); non-trivial = run with >= 1 search and >= 1 poll.  OPTION MATRIX: an ast census of every option read "
        "(translate/option_reads.py, validated against the instrumented real Options object on every run) gives the LIVE options; for each one a small set of "
        "alternative valid values is derived from its real default and its uses (+ a table of stated exclusions); short real runs change ONE option at a time in "
        "each of the 4 noise modes (quick: seeded stratified sample touching every live option; thorough: all cells + random pairs); monitors: no escaping "
        "exception, box, budget/count/message; runs within the skeleton model's premises are also compared with Model/Skeleton.v")
TRUSTED = ["Coq 8.16.1 kernel + vm_compute", "hand-written model Model/Skeleton.v tied per loop iteration to real runs",
           "PARTIAL by nature: the theorems establish definedness of the history/yval_vec/poll-candidate reads the listed crashes come from, on the model; shape/dtype/index errors inside NumPy, gpyreg, SciPy and the unmodelled GP/ES code are only sampled by the mode-matrix panel"]
ASSUMPTIONS = ["well-behaved target (finite real values; positive finite SDs), valid problem definition"]
EXPLANATION = ("'Never raises an internal error' is a safety property of Python/NumPy dynamics; the proof covers the bookkeeping reads (history indices, final selection, "
               "yval_vec, poll candidate indices) for every oracle stream; everything else is explored by real runs and reported by exception site.")


def specs_for(ctx):
    specs = list(S.panel(ctx.tier, ctx.seed))
    sd = ctx.seed * 10
    specs += [
        dict(D=2, target="sphere", box="sym", noise="det", cons="lattice", options=dict(max_fun_evals=60), seed=sd + 1),
        dict(D=2, target="sphere", box="sym", noise="specified", sigma=0.3, cons="lattice", options=dict(max_fun_evals=60, noise_final_samples=2), seed=sd + 2),
        dict(D=2, target="sphere", box="sym", noise="declared", sigma=0.3, options=dict(max_fun_evals=60, max_iter=1), seed=sd + 3),
        dict(D=2, target="sphere", box="sym", noise="specified", sigma=0.3, options=dict(max_fun_evals=60, uncertainty_handling=None), seed=sd + 4),
        dict(D=2, target="sphere", box="sym", noise="det", options=dict(max_fun_evals=1), seed=sd + 5),
        dict(D=2, target="sphere", box="sym", noise="det", options=dict(max_fun_evals=5), seed=sd + 6),
        dict(D=2, target="sphere", box="sym", noise="declared", sigma=0.3, options=dict(max_fun_evals=33), seed=sd + 7),
        dict(D=2, target="outside", box="log", noise="specified", sigma=0.2, cons="band", options=dict(max_fun_evals=70, noise_final_samples=0), seed=11),
        dict(D=3, target="abs", box="mixed", noise="auto", sigma=0.1, x0="absent", options=dict(max_fun_evals=90), seed=sd + 8),
        dict(D=1, target="plateau", box="unb", noise="det", x0="absent", options=dict(max_fun_evals=40), seed=sd + 9),
        # targets that are FLAT around the start (dead zone, constant): the GP has no signal, its prediction at the incumbent can be
        # non-finite, refits resample their start points from the priors
        dict(D=2, target="const", box="sym", noise="det", options=dict(max_fun_evals=60), seed=1),
        dict(D=2, target="deadzone", box="sym", noise="det", options=dict(max_fun_evals=60), seed=1),
        dict(D=3, target="deadzone", box="sym", noise="det", options=dict(max_fun_evals=60), seed=sd + 10),
        dict(D=1, target="const", box="sym", noise="det", options=dict(max_fun_evals=40, search_grid_number=0, search_grid_multiplier=1), seed=sd + 11),
        # noise DECLARED for a target that has none: the first GP fit needs many retries
        dict(D=2, target="sphere", box="sym", noise="declared", sigma=0.0, options=dict(max_fun_evals=60), seed=sd + 12),
        dict(D=2, target="rosen", box="sym", noise="declared", sigma=0.0, options=dict(max_fun_evals=60), seed=sd + 13),
        dict(D=3, target="abs", box="sym", noise="declared", sigma=1e-6, options=dict(max_fun_evals=70), seed=sd + 14),
        # low specified noise on a steep target: the (very fine) search mesh is refined around a minimum far from the origin, so many DISTINCT
        # logged points lie within rounding distance of each other
        dict(D=1, target="sphere", box="wide", shift=[5.3], scale=1e4, noise="specified", sigma=1e-3, options=dict(max_fun_evals=90), seed=1),
        dict(D=1, target="sphere", box="wide", shift=[5.3], scale=1e4, noise="specified", sigma=1e-3, options=dict(max_fun_evals=90), seed=2),
        # reported SD tiny relative to the range of the target: local GP refits fail (Cholesky) and are retried with a noise vector
        dict(D=2, target="rosen", box="sym", noise="specified", sigma=1e-6, options=dict(max_fun_evals=50), seed=5),
        dict(D=2, target="rosen", box="sym", noise="specified", sigma=1e-6, options=dict(max_fun_evals=50), seed=4),
    ]
    return specs + S.panel_nondefault(ctx.seed)


def tie(ctx, broken):
    out = R.tie_skeleton(ctx, broken, [(s, None) for s in specs_for(ctx)], "c09")
    R.count_runs(ctx, out, lambda tr, P: any(e[0] == "search_begin" for e in tr.get("events", [])) and any(e[0] == "poll_begin" for e in tr.get("events", [])))
    modes = {}
    for tr, _ in out:
        if "spec" in tr:
            k = f"{tr['spec'].get('noise')}/{tr['spec'].get('cons')}/{tr['spec'].get('box', 'sym')}"
            modes[k] = modes.get(k, 0) + 1
    ctx.coverage["mode_matrix"] = modes
    invalid = [tr["spec"] for tr, _ in out if _generator_made_invalid_problem(tr)]
    ctx.coverage["generated_invalid_problems_skipped"] = len(invalid)      # thorough panel: random x0 kind x constraint kind (start violating the constraint)
    R.apply_monitor(ctx, [(tr, P) for tr, P in out if not _generator_made_invalid_problem(tr)], R.mon_c09, only_first=False)
    option_matrix(ctx, broken)


def option_matrix(ctx, broken):
    """the systematic option x noise-mode matrix (harness/run_optmatrix.py)"""
    from translate import option_reads as ORD
    try:
        cen = ORD.load_emitted()
        tab = OM.value_table(cen, ctx.tier)
    except Exception as ex:
        ctx.oblige("option_matrix:plan", "correspondence", False, repr(ex))
        broken.append(("option_matrix:plan", f"no census / value table: {ex!r}"))
        return
    ctx.oblige("option_matrix:plan", "correspondence", True, f"{len(cen['live'])} live options, {len(cen['dead'])} dead, census sha {cen['sha']}")
    specs = OM.plan(tab, ctx.tier, ctx.seed)
    trs = OM.traces(specs)
    if ctx.tier == "thorough":
        bad = {(o, l) for tr in trs if "harness_exc" not in tr and OM.monitor(tr) for o, l in zip(tr["spec"]["om"]["options"], tr["spec"]["om"]["labels"])}
        pspecs = OM.pair_specs(tab, ctx.seed, 240, bad)
        specs = specs + pspecs
        trs = trs + OM.traces(pspecs)
    herr = [(tr["spec"].get("om"), tr["harness_exc"][-300:]) for tr in trs if "harness_exc" in tr]
    if not ctx.oblige("option_matrix:harness", "harness", not herr, str(herr[:2])):
        broken.append(("option_matrix:harness", f"{len(herr)} matrix runs could not be executed: {herr[:1]}"))
    good = [tr for tr in trs if "harness_exc" not in tr]
    # --- monitors (concrete replays)
    hits, per_mode, touched = {}, {}, set()
    for tr in good:
        om = tr["spec"]["om"]
        per_mode[om["mode"]] = per_mode.get(om["mode"], 0) + 1
        touched.update(om["options"])
        if tr.get("exc") and tr["exc"][0] == "RunTimeout":
            ctx.coverage["option_matrix_inconclusive_wall_clock"] = ctx.coverage.get("option_matrix_inconclusive_wall_clock", 0) + 1
        for key, what in OM.monitor(tr):
            hits.setdefault(key, 0)
            hits[key] += 1
            ctx.violate(key, what, dict(kind="optmatrix", spec=tr["spec"], how="cd /verif && ./check C09 --replay <this file>"))
    # --- the census against what the real Options object was asked for during these runs
    missing, seen, unseen = OM.validate_census(good, cen)
    if not ctx.oblige("translator_validation:option_reads", "translator", not missing,
                      f"{len(seen)} distinct (option, file, function) reads observed on the real Options object, all in the census" if not missing
                      else f"reads performed by the real code but absent from the census: {missing[:5]}"):
        broken.append(("translator_validation:option_reads", f"the census of option reads misses reads the real code performs: {missing[:5]}"))
    want = sorted(k for k, t in tab.items() if t["values"])
    untouched = [k for k in want if k not in touched]
    if not ctx.oblige("option_matrix:every_live_option_run", "coverage", not untouched, f"live options with values but no run: {untouched}"):
        broken.append(("option_matrix:every_live_option_run", f"live options without a run: {untouched}"))
    # --- the skeleton model on the runs inside its premises
    inm, outm = [], {}
    for sp, tr in zip(specs, trs):
        if "harness_exc" in tr:
            continue
        ok, why = OM.in_model(tr)
        if ok:
            inm.append((sp, tr))
        else:
            outm[why] = outm.get(why, 0) + 1
    n_in_premises = len(inm)
    if ctx.quick:       # all runs that change an option the model reads + a seeded sample of the others (the thorough tier compares all)
        rel = [(sp, tr) for sp, tr in inm if set(tr["spec"]["om"]["options"]) & OM.MODEL_RELEVANT]
        oth = [(sp, tr) for sp, tr in inm if not (set(tr["spec"]["om"]["options"]) & OM.MODEL_RELEVANT)]
        ctx.rng.shuffle(oth)
        inm = rel + oth[:OM.QUICK_OTHER_COMPARED]
    nod = [(sp, tr) for sp, tr in inm if OM.noisy_target_run_as_deterministic(tr)]
    inm = [(sp, tr) for sp, tr in inm if not OM.noisy_target_run_as_deterministic(tr)]
    out = R.tie_skeleton(ctx, broken, [(sp, None) for sp, _ in inm], "c09om", trs=[tr for _, tr in inm])
    if nod:     # state comparison only: det_ok presupposes a deterministic target
        out += R.tie_skeleton(ctx, broken, [(sp, None) for sp, _ in nod], "c09om_nodet", trs=[tr for _, tr in nod], need_det_ok=False)
    R.count_runs(ctx, [(tr, None) for tr in good],
                 lambda tr, P: any(e[0] == "search_begin" for e in tr.get("events", [])) and any(e[0] == "poll_begin" for e in tr.get("events", [])))
    ctx.coverage["option_matrix"] = dict(
        census=dict(sha=cen["sha"], files=len(cen["files"]), defined=len(cen["defined"]), live=len(cen["live"]), dead=cen["dead"],
                    read_but_defined_in_no_ini_file=cen["read_but_undefined"], written_by_code=cen["written_by_code"], reads=len(cen["reads"]),
                    json=".cache/option_reads.json", sites_observed=len(seen), sites_never_observed=[list(u) for u in unseen]),
        runs=len(good), runs_per_mode=per_mode, options_touched=len(touched), runs_inside_skeleton_premises=n_in_premises, compared_with_skeleton=len(inm) + len(nod),
        compared_without_det_ok=[tr["spec"]["om"] for _, tr in nod], outside_skeleton_premises=outm,
        monitor_hits=hits,
        values={k: dict(default=t["default"], type=t["type"], uses=t["kinds"], rule=t["rule"], values=[v["label"] for v in t["values"]],
                        excluded=t["excluded"], note=t["why"]) for k, t in tab.items()})


def search(ctx, broken):
    if R.truncate_search(ctx, R.mon_c09):
        return True
    specs = S.panel("thorough", ctx.seed + 31)[:48]
    out = [(tr, None) for tr in S.traces([(s, None) for s in specs], "c09s") if not _generator_made_invalid_problem(tr)]
    return R.apply_monitor(ctx, out, R.mon_c09) > 0


def _generator_made_invalid_problem(tr):
    """the random thorough panel combines x0 kinds and constraint kinds freely; a start that violates the constraint is an INVALID problem and its
    rejection (ValueError, C02) is the documented behaviour - not an input for C09 (it used to be reported as a concrete violation by this search)"""
    ce = tr.get("construct_exc")
    return bool(ce) and ce[0] == "ValueError" and "does not satisfy non-bound constraints" in ce[1] or \
        bool(ce) and ce[0] == "ValueError" and "no longer satisfy non-bound constraint" in ce[1]


def replay(ctx, rp):
    r = rp["replay"]
    if r.get("kind") == "optmatrix":
        tr = OM.run_one(r["spec"])
        if "harness_exc" in tr:
            print(tr["harness_exc"])
            return 2
        hits = OM.monitor(tr)
        for k, w in hits:
            print("replay:", k, "::", w)
        print("exc:", tr.get("exc") or tr.get("construct_exc"), "result:", tr.get("result"))
        if not hits:
            print("replay: holds on this input")
        return 1 if hits else 0
    return R.generic_replay(ctx, rp, [R.mon_c09])
