"""C05 — noisy targets: the reported estimate is the mean of fresh samples at the returned x."""
from harness import budget as B, comp_final as F, runlevel as R, skel as S

PROPS = ["Props/C05.v", "Props/C03budget.v", "Props/C05final.v"]
THEOREMS = ["C05_returned_x_is_evaluated_iterate", "C05_last_calls_at_x", "C05_estimate_is_mean_and_sem", "C05_no_resampling_otherwise", "C05_noise_test",
            "C05_resampling_spends_the_reserve", "C03_reserve_exact", "C03_noise_level_rule", "C03_budget_model_is_source",
            # Props/C05final.v: the final phase of Model/Skeleton.v equals gen/Src_final.v, regenerated from the statements of optimize() after the main loop
            "C05_final_phase_is_source", "C05_resampling_block_is_source", "C05_sd_vector_is_source_partial", "C05_returned_iterate_is_one_history_row",
            "C05_final_samples_not_recorded", "C05_estimate_is_source", "C05_sd_supplement_is_sd_at_x", "C03_final_calls_bounded_is_source", "C19_result_fields_are_source"]
TRANSLATORS = ["budget", "final"]
LEVEL = "proof"
RULE = ("real runs with stochastic targets (auto-detected, declared homoskedastic, user-specified heteroskedastic; sigma 0.05-1; noise_final_samples 0,1,2,3,10; budgets squeezing the reserve; "
        "log/linear boxes; constraints) + deterministic controls, compared with the skeleton model INCLUDING its final phase (chosen iterate, the tail of the call list, yval_vec, SD vector, "
        "mean/SEM within 1e-9 of the exact rational values, no log row added); non-trivial = the re-sampling branch ran")
TRUSTED = ["Coq 8.16.1 kernel + vm_compute", "hand-written model Model/Skeleton.v (final_phase) tied to real runs",
           "oracles: the index chosen by the quantile rule (recomputed by the harness with the code's own formula and cross-checked through the returned point), re-estimated fval/fsd, NumPy mean/std (compared with exact rationals at 1e-9 relative: the only float tolerance)",
           "side condition noisy_u_ok (the end-of-iteration swap keeps the incumbent point) evaluated in Coq on every noisy iteration of every run",
           "the number of final samples is the RESERVE min(noise_final_samples, max_fun_evals - initial calls) of Model/Budget.v (translate/budget.py regenerates the arithmetic from the source; "
           "the model is compared with the recorded initialisation of every run of this panel; full account under C03)"]
TRUSTED += ["translate/final.py regenerates the tail of optimize() (guard of the noisy end-game, choice of the returned iterate, final re-sampling, self.x, construction of the result) and "
            "OptimizeResult.set_attributes on every run (gen/Src_final.v; fail-closed: every statement after the main loop must be understood or explicitly whitelisted as timing / logging); "
            "validated each run: the generated definitions evaluated by Coq on every recorded end-game of this panel, the generated (key, source) list against the real OptimizeResult on generated states "
            "(harness/comp_final.py); oracles: np.argmin over exact rational scores, sqrt(2) * erfcinv(.), the re-estimated history, NumPy mean / std"]
ASSUMPTIONS = ["the final re-sampling exists only if at least one poll iteration completed (runs ending in iteration 0 return the incumbent without yval_vec)"]


def specs_for(ctx):
    sd = ctx.seed * 10
    specs = [s for s in S.panel(ctx.tier, ctx.seed) if s["noise"] != "det"][:(6 if ctx.quick else 40)]
    if not ctx.quick:
        # thorough: the end-game in every noise mode x number of final samples x where the run stops (iteration 1, 2, later; budget / max_iter)
        k = 0
        for noise in ("specified", "declared", "auto"):
            for nfs in (0, 1, 2, 3, 10):
                for stop in (dict(max_iter=2), dict(max_iter=3), dict(max_fun_evals=45), dict(max_fun_evals=75)):
                    o = dict(max_fun_evals=70, noise_final_samples=nfs)
                    o.update(stop)
                    k += 1
                    specs.append(dict(D=1 + k % 3, target=("sphere", "abs", "ellipsoid")[k % 3], box=("sym", "log", "sym", "tight")[k % 4], noise=noise,
                                      sigma=(0.3, 0.05, 1.0)[k % 3], options=o, seed=sd + 100 + k))
    specs += [
        dict(D=2, target="sphere", box="sym", noise="specified", sigma=0.3, options=dict(max_fun_evals=60, noise_final_samples=1), seed=sd + 1),
        dict(D=2, target="sphere", box="sym", noise="specified", sigma=1.0, options=dict(max_fun_evals=80, noise_final_samples=10), seed=sd + 2),
        dict(D=1, target="abs", box="log", noise="auto", sigma=0.05, options=dict(max_fun_evals=50, noise_final_samples=2), seed=sd + 3),
        dict(D=2, target="ellipsoid", box="sym", noise="declared", sigma=0.3, options=dict(max_fun_evals=45, noise_final_samples=10), seed=sd + 4),
        dict(D=2, target="sphere", box="sym", noise="declared", sigma=0.3, options=dict(max_fun_evals=70, noise_final_samples=0), seed=sd + 5),
        dict(D=2, target="sphere", box="sym", noise="det", options=dict(max_fun_evals=40), seed=sd + 6),
        dict(D=3, target="sphere", box="sym", noise="specified", sigma=0.3, cons="ball", options=dict(max_fun_evals=90, noise_final_samples=3), seed=sd + 7),
        dict(D=2, target="sphere", box="sym", noise="specified", sigma=0.3, sdjitter=True, options=dict(max_fun_evals=70, noise_final_samples=3), seed=sd + 11),
        dict(D=2, target="sphere", box="sym", noise="specified", sigma=0.3, sdjitter=True, options=dict(max_fun_evals=60, noise_final_samples=1), seed=sd + 12),
        # tol_noise = 0: an exactly repeatable target is still deterministic (a difference must EXCEED the tolerance)
        dict(D=2, target="sphere", box="sym", noise="det", options=dict(max_fun_evals=40, tol_noise=0), seed=sd + 14),
        # uncertainty_handling=False given EXPLICITLY on a noisy target: the run-time noise test still decides
        dict(D=2, target="sphere", box="sym", noise="auto", sigma=0.3, options=dict(max_fun_evals=60, noise_final_samples=2, uncertainty_handling=False), seed=sd + 13),
        # auto-detection with noise that is tiny relative to the function value (the rule is ABSOLUTE: |y0 - y0'| > tol_noise)
        dict(D=2, target="sphere", box="sym", noise="auto", sigma=0.01, offset=5000.0, options=dict(max_fun_evals=45, noise_final_samples=2), seed=sd + 8),
        dict(D=1, target="sphere", box="sym", noise="auto", sigma=1e-9, options=dict(max_fun_evals=40, noise_final_samples=2), seed=sd + 9),
        dict(D=2, target="abs", box="sym", noise="auto", sigma=1e-3, offset=-3e4, options=dict(max_fun_evals=45, noise_final_samples=1), seed=sd + 10),
    ]
    return specs


def tie(ctx, broken):
    out = R.tie_skeleton(ctx, broken, [(s, None) for s in specs_for(ctx)], "c05", extra_valid="noisy")
    R.count_runs(ctx, out, lambda tr, P: P is not None and P.get("final_expect", {}).get("sampled"))
    R.apply_monitor(ctx, out, R.mon_c05)
    F.tie_final(ctx, broken, out, "c05")          # gen/Src_final.v on every recorded end-game (translator validation)
    F.tie_result_assembly(ctx, broken)
    F.apply_mon_final(ctx, out, broken)
    R.apply_monitor(ctx, out, F.mon_c05_sdsuppl)  # the SD paired with the supplemented observation is an SD reported / logged at the returned x (concrete C05 clause)
    B.run_level_tie(ctx, broken, out, "c05")      # level, reserve (= number of final samples), loop budget vs Model/Budget.v
    # noise detection: level after init vs |y0 - y0'| > tol_noise
    bad = []
    for tr, P in out:
        if "problem" not in tr or tr["problem"]["level0"] != 0 or len(tr["calls"]) < 2 or "final" not in tr:
            continue
        c0, c1 = tr["calls"][0], tr["calls"][1]
        if c1.get("record", True) or c0["out"][0] != "ok" or c1["out"][0] != "ok":
            continue
        differ = abs(c0["out"][1] - c1["out"][1]) > tr["options0"]["tol_noise"]
        if differ != (tr["final"]["level"] > 0):
            bad.append(tr["spec"])
            ctx.violate("noise-detection", f"two evaluations at x0 {'differ' if differ else 'are identical'} but the target was treated as {'stochastic' if tr['final']['level'] > 0 else 'deterministic'}",
                        dict(kind="run", spec=tr["spec"], fault=None))
    ctx.oblige("noise_detection_rule", "correspondence", not bad, str(bad[:2]))


def search(ctx, broken):
    if F.search_final(ctx, broken, [R.mon_c05]):
        return True
    if R.truncate_search(ctx, R.mon_c05):
        return True
    specs = [s for s in S.panel("thorough", ctx.seed + 37) if s["noise"] != "det"][:40]
    out = [(tr, None) for tr in S.traces([(s, None) for s in specs], "c05s")]
    return R.apply_monitor(ctx, out, R.mon_c05) > 0


def replay(ctx, rp):
    return R.generic_replay(ctx, rp, [R.mon_c05, F.mon_final_property("C05"), F.mon_c05_sdsuppl])
