"""C07 — a fixed random_seed makes runs reproducible, independent of process history."""
import json

from harness import run_repro as R
from vlib import core

PROPS = "Props/C07.v"
THEOREMS = ["C07_premises_hold_in_source", "C07_no_unclassified_site", "C07_seed_order_holds_in_source",
            "C07_history_independent", "C07_history_independent_any_layout", "C07_x0_draw_independent",
            "C07_optimize_draws_are_the_seeded_stream", "C07_histories_reach_every_stream_state",
            "C07_unseeded_refuted", "C07_no_reseed_refuted", "C07_seed_after_x0_refuted", "C07_stale_D_refuted",
            "C07_lazy_global_refuted", "C07_leak_refuted"]
LEVEL = "proof"
TRANSLATORS = ["rng_sites"]
RULE = ("static: ast scan of every module of pybads (without testing/, examples/) and gpyreg -> table of randomness / "
        "process-global-state sites + 5 order facts, checked by vm_compute lemmas; dynamic: panel of configurations "
        "(deterministic / noise drawn from np.random inside the target / specified noise; x0 given / omitted; D 1-3; "
        "bounded, unbounded, tight, positive boxes; with a ball constraint; budgets 30-60; option variations), each run "
        "after different generated process histories IN ONE PROCESS (none; np.random draws; np.random.seed(other); 1-3 "
        "unrelated BADS optimisations with other D / options / seed or no seed; BADS constructions and whole "
        "optimisations interleaved between constructing and running the instance; the same configuration twice) and "
        "once more in a process with another PYTHONHASHSEED; a case is non-trivial when its history is not empty; "
        "compared bit for bit: x0, every target argument and returned value, x, fval, fsd, func_count, message")
TRUSTED = [
    "Coq 8.16.1 kernel + vm_compute (evaluation of the regenerated site table); no native_compute",
    "translate/rng_sites.py (the scanner and its classification rules; fail-closed: unknown => Unclassified; the Coq side "
    "re-checks that each claimed kind is one the site's category and seed provenance justify)",
    "Model/Seeding.v is a hand-written noninterference model: it assumes that the ONLY channels from the process to a run "
    "are the sites the scanner lists; it cannot exhibit BLAS/LAPACK threading nondeterminism, SciPy/NumPy internals, "
    "PYTHONHASHSEED-dependent iteration order that is not a syntactic set iteration, gpyreg behaviour beyond the scanned "
    "call sites, or value flow through attributes/containers (time taint is function-local) — these are covered only by "
    "the dynamic tie (harness/run_repro.py), which is a test, not a proof",
    "NumPy: np.random.seed(int) fully determines the legacy global stream; scipy Sobol(seed=int) is a function of the seed",
]
ASSUMPTIONS = [
    "the dynamic tie inherits OMP_NUM_THREADS / OPENBLAS_NUM_THREADS from ./check (which sets both to 1 unless the caller "
    "set them); single-threaded BLAS is not forced beyond that, other thread pools (MKL, numexpr) are left alone",
    "the target and the constraint function are functions of x and of draws from NumPy's global generator only",
    "foreign code in the process does not monkey-patch pybads/gpyreg/numpy and does not change the environment variables",
    "random_seed is an int accepted by np.random.seed; histories are generated, not exhaustive",
]
EXPLANATION = (
    "Proved (closed, for all foreign histories before construction and interleaved between construction and "
    "optimisation, all initial process states, all seeds / D / x0 given-or-omitted, all behaviours of the instance as a "
    "function of what it observes): the observables of the noninterference model are history independent; the random x0 "
    "is draw 0 and the draws of optimize() are draws 0,1,2,... of the stream seeded with random_seed. The model's "
    "premises P1 (every draw goes through NumPy's global stream or a generator seeded from run-local data) and P2 (no "
    "other process-global mutable state is read; D is re-bound before every read) and the order facts (constructor "
    "seeds before the x0 draw, optimize() re-seeds before any draw) are not assumed: they are vm_compute lemmas over a "
    "table regenerated from the source of pybads and gpyreg on every run. Each premise dropped is shown necessary by a "
    "refutation witness (no seed, no re-seed, seed after x0, stale D, lazy global, unclassified site). "
    "NOT exhibited by the model, hence covered only by the dynamic tie: nondeterminism inside BLAS/LAPACK threading or "
    "SciPy/NumPy, PYTHONHASHSEED-dependent iteration order (the tie re-runs each configuration under a second hash seed), "
    "gpyreg internals beyond the scanned call sites, flows the scanner does not follow. The bit-for-bit clause about the "
    "real optimiser is therefore established by differential runs (tested), the history-independence argument by proof.")

KIND_OF_DIFF = (("starting point", "x0"), ("target call", "call-sequence"), ("number of target calls", "call-sequence"),
                ("result.", "result"), ("outcome", "outcome"), ("the random x0", "model:x0-not-seeded-draw0"),
                ("the global stream", "model:optimize-not-reseeded"))


def diff_key(kind, what):
    k = "observations"
    for pre, name in KIND_OF_DIFF:
        if what.startswith(pre):
            k = name
            break
    return {"hashseed": "hashseed-dependence:", "nondeterministic": "nondeterministic:", "model": ""}.get(kind, "history-dependence:") + k


def describe(rp):
    if rp["kind"] == "nondeterministic":
        return "two fresh interpreters, identical environment, empty history"
    if rp["kind"] == "model":
        hb = rp["proc_b"]["histories"]
        return "one run after process history [%s] (%d earlier run(s) of the configuration)" % (
            ", ".join([o["op"] for o in hb[-1]["pre"]] + ["<construct>"] + [o["op"] for o in hb[-1]["mid"]] + ["<optimize>"]), len(hb) - 1)
    if rp["kind"] == "hashseed":
        return "two fresh interpreters differing only in PYTHONHASHSEED (%s vs %s)" % (rp["proc_a"].get("hashseed") or "env", rp["proc_b"].get("hashseed"))
    hb = rp["proc_b"]["histories"]
    ops = [o["op"] for h in hb for o in h["pre"]] + ["<construct>"] + [o["op"] for o in hb[-1]["mid"]] + ["<optimize>"]
    return "fresh interpreter with empty history vs process history [%s]%s" % (
        ", ".join(ops), " after %d earlier run(s) of the same configuration" % (len(hb) - 1) if len(hb) > 1 else "")


def static_part(ctx, broken):
    from translate import rng_sites as T
    last = getattr(T.emit, "last", None)
    if last is None:
        try:
            T.emit()
            last = T.emit.last
        except Exception as ex:      # already reported by ./check as a broken translator obligation
            ctx.oblige("static:every_site_in_an_allowed_class", "translator", False, "scan failed: %r" % (ex,))
            ctx.oblige("static:order_facts", "translator", False, "scan failed: %r" % (ex,))
            return False, [], []
    info, notes, sites = last["info"], last["notes"], last["sites"]
    ctx.coverage["static_scan"] = dict(info, notes=notes, time_taint=last.get("time_taint"))
    ctx.coverage["static_sites_by_category"] = {}
    for s in sites:
        k = s["cat"] + "/" + s["kind"]
        ctx.coverage["static_sites_by_category"][k] = ctx.coverage["static_sites_by_category"].get(k, 0) + 1
    bad = [s for s in sites if s["kind"] == "Unclassified"]
    ok1 = ctx.oblige("static:every_site_in_an_allowed_class", "translator", not bad,
                     "; ".join(f"{s['file']}::{s['fun']}::{s['what']} [{s['cat']}/{s['seed']}]" for s in bad[:6]) or
                     f"{len(sites)} sites in {info['modules']} modules: {info['kinds']}")
    if not ok1:
        for s in bad[:5]:
            broken.append((f"static:site:{s['file']}::{s['fun']}",
                           f"site outside the allowed classes (P1/P2 of the model no longer hold): {s['file']} :: {s['fun']} :: "
                           f"{s['what']}  [{s['cat']}, seed provenance {s['seed']}]"))
    badl = [k for k, v in info["layout"].items() if not v]
    ok2 = ctx.oblige("static:order_facts", "translator", not badl, json.dumps(notes)[:380])
    if not ok2:
        for k in badl:
            broken.append((f"static:layout:{k}", f"order fact {k} no longer holds in the source: {json.dumps(notes)[:400]}"))
    return ok1 and ok2, bad, badl


def report_diffs(ctx, rec, limit=2):
    """confirm + shrink the first differences of one configuration and file them as violations."""
    n = 0
    seen = set()
    for d in rec["diffs"]:
        if (d["kind"], d["what"].split(":")[0]) in seen:
            continue
        seen.add((d["kind"], d["what"].split(":")[0]))
        rp = R.confirm_and_shrink(rec["cfg"], d)
        if rp is None:
            rp = dict(kind="nondeterministic", cfg=rec["cfg"], proc_a=dict(hashseed=None, histories=[R.NONE]),
                      proc_b=dict(hashseed=d.get("hashseed"), histories=d["histories"]), what=d["what"],
                      note="seen once in the panel but did NOT reproduce when re-run: the run is nondeterministic")
        key = diff_key(rp["kind"], rp["what"])
        if key in seen:
            continue
        seen.add(key)
        rp["how"] = "cd /verif && [VERIF_REPO=<tree>] ./check C07 --replay <this file>"
        ctx.violate(key, f"same target/problem/options/random_seed={rec['cfg']['seed']}; {describe(rp)}: {rp['what']}", rp)
        n += 1
        if n >= limit:
            break
    return n


def dynamic_part(ctx, broken, n_cfg, n_hist, label="panel", budget_scale=None):
    recs = R.run_panel(ctx.rng, n_cfg, n_hist, budget_scale=budget_scale)
    failed = [r for r in recs if r["failed"]]
    differing = [r for r in recs if r["diffs"]]
    runs = sum(r["n_runs"] for r in recs)
    nontrivial = sum(max(r["n_runs"] - 1, 0) for r in recs)
    ctx.count(runs, nontrivial)
    cov = ctx.coverage.setdefault("dynamic", dict(configurations=0, runs=0, targets={}, x0={}, D={}, box={}, constraint=0,
                                                  history_kinds={}, draw_sites_exercised={}, model_tie={}, reference_outcomes={}))
    cov["configurations"] += len(recs)
    cov["runs"] += runs
    for r in recs:
        c = r["cfg"]
        for fld, key in (("targets", c["target"]), ("x0", c["x0"]), ("D", str(c["D"])), ("box", c["box"])):
            cov[fld][key] = cov[fld].get(key, 0) + 1
        cov["constraint"] += 1 if c.get("cons") else 0
        for h in r["histories"]:
            cov["history_kinds"][h["kind"]] = cov["history_kinds"].get(h["kind"], 0) + 1
        for k, v in (r["coverage"] or {}).items():
            cov["draw_sites_exercised"][k] = cov["draw_sites_exercised"].get(k, 0) + v
        for k, v in (r.get("model_tie") or {}).items():
            cov["model_tie"][k] = cov["model_tie"].get(k, 0) + v
        if r["ref"]:
            o = "raised " + r["ref"]["error"][0] if r["ref"]["error"] else "returned"
            cov["reference_outcomes"][o] = cov["reference_outcomes"].get(o, 0) + 1
    for r in recs[:2]:
        if r["ref"]:
            ctx.sample(dict(cfg=r["cfg"], histories=[dict(kind=h["kind"], pre=h["pre"][:2], mid=h["mid"][:2]) for h in r["histories"]],
                            reference=dict(x0=R._unhex(r["ref"]["x0"]), n_calls=len(r["ref"]["calls"]),
                                           result={k: R._unhex(v) for k, v in (r["ref"]["result"] or {}).items()},
                                           error=r["ref"]["error"]), differences=[d["what"] for d in r["diffs"]]))
    ok = ctx.oblige(f"correspondence:{label}:workers_completed", "correspondence", not failed,
                    "; ".join((r["failed"] or "")[-300:] for r in failed[:2]) or f"{len(recs)} configurations, {runs} runs under test")
    if not ok:
        broken.append((f"correspondence:{label}:workers", "a worker process of the reproducibility panel failed: " + (failed[0]["failed"] or "")[-500:]))
    ok2 = ctx.oblige(f"correspondence:{label}:bit_identical_across_histories", "correspondence", not differing,
                     "; ".join(d["what"] for r in differing[:3] for d in r["diffs"][:1]) or
                     f"{runs} runs bit-identical to their reference ({nontrivial} after a non-empty history or under another hash seed)")
    mt = cov["model_tie"]
    ctx.oblige(f"correspondence:{label}:model_identities", "correspondence",
               mt.get("x0_ok", 0) == mt.get("x0_checked", 0) and mt.get("opt_ok", 0) == mt.get("opt_checked", 0),
               f"random x0 == draw 0 of RandomState(seed): {mt.get('x0_ok', 0)}/{mt.get('x0_checked', 0)}; global stream at the first "
               f"target call of optimize() == freshly seeded: {mt.get('opt_ok', 0)}/{mt.get('opt_checked', 0)}")
    n = 0
    for r in differing:
        n += report_diffs(ctx, r)
        if n >= 3:
            break
    if differing:
        broken.append((f"correspondence:{label}", "runs with the same seed differ across process histories (concrete pair found)"
                       if n else "runs differ across histories"))
    return not failed and not differing


def tie(ctx, broken):
    static_part(ctx, broken)
    if ctx.quick:
        dynamic_part(ctx, broken, 12, 4)
    else:
        # every fourth configuration with a 3x budget (90-180 evaluations): more GP refits, larger training sets
        dynamic_part(ctx, broken, 40, 6, budget_scale=lambda i: 3 if i % 4 == 1 else 1)


def search(ctx, broken):
    """something is broken (a proof obligation over the regenerated table, or the static scan) and the panel found no
    concrete pair: look harder — more configurations, every history kind, three other hash seeds."""
    before = len([v for v in ctx.violations if v["concrete"]])
    dynamic_part(ctx, [], 9, 9, label="search", budget_scale=lambda i: 3)
    if len([v for v in ctx.violations if v["concrete"]]) > before:
        return True
    cfgs = [R.gen_config(ctx.rng, i) for i in range(6)]
    jobs = [(dict(cfg=c, histories=[R.NONE]), hs) for c in cfgs for hs in (None, "1", "77", "31337")]
    res = R.run_jobs(jobs)
    for i, c in enumerate(cfgs):
        group = res[4 * i:4 * i + 4]
        if any("failed" in g for g in group):
            continue
        for j in (1, 2, 3):
            d = R.first_difference(group[0]["results"][0], group[j]["results"][0])
            if d:
                rp = dict(kind="hashseed", cfg=c, proc_a=dict(hashseed=None, histories=[R.NONE]),
                          proc_b=dict(hashseed=jobs[4 * i + j][1], histories=[R.NONE]), what=d)
                ctx.violate(diff_key("hashseed", d), f"same target/problem/options/random_seed={c['seed']}; {describe(rp)}: {d}", rp)
                return True
    return False


def replay(ctx, rp):
    r = rp["replay"]
    if "cfg" not in r:
        print("replay: this file names a broken proof/translator obligation, not an input:", r.get("broken_obligation"), r.get("detail", "")[:400])
        return 1
    d = R.replay(r)
    print("replay:", d or "the two runs are bit-identical now")
    print("  configuration:", json.dumps(r["cfg"]))
    print("  compared:", describe(r))
    for k in ("proc_a", "proc_b"):
        print(f"  {k}:", json.dumps(r[k])[:900])
    return 1 if d else 0
