"""C13 — mesh size doubles after a successful poll (up to a cap), shrinks after a failure."""
from harness import comp_grid as G, comp_loop as L, runlevel as R, skel as S

PROPS = ["Props/C13.v", "Props/C13grid.v", "Props/C13hist.v", "Props/C13loop.v"]
TRANSLATORS = ["grid", "loop"]
THEOREMS = ["C13_mesh_invariant", "C13_poll_update", "C13_poll_best_is_max", "C13_only_polls_change_mesh", "C13_tolmesh_msg", "C13_tolmesh_msg_run",
            # Props/C13grid.v: about gen/Src_grid.v (mesh sizes and exponents, tol_mesh snapping, forcing function, _eval_improvement_)
            "C13_mesh_is_power", "C13_mesh_order", "C13_tolmesh_test_is_exponent_test", "C13_search_exponent_is_source", "C13_search_mesh_le_poll_mesh",
            "C13_tol_mesh_snap_least_power", "C13_tol_mesh_snap_same_stop", "C13_sufficient_improvement", "C13_improvement_without_sd", "C13_improvement_with_sd",
            # Props/C13hist.v: the history-based decisions in terms of recorded values (side condition hist_ok)
            "C13_quarter_means_stalling", "C03_stall_message_in_history_terms",
            # Props/C13loop.v: the decision logic of Model/Skeleton.v equals gen/Src_loop.v, regenerated from optimize / _search_step_ / _poll_step_
            "C13_mesh_rule_is_source", "C13_poll_loop_is_source", "C13_good_poll_is_source", "C13_good_poll_negative_SI_refuted",
            "C13_poll_decision_is_source", "C13_loop_head_is_source", "C03_termination_is_source", "C03_loop_iteration_is_source",
            "C04_improvement_rule_is_source", "C13_stobads_sites_pinned"]
AXIOM_THEOREMS = ["C13_tol_mesh_snap_least_power", "C13_tol_mesh_snap_same_stop", "C13_sufficient_improvement", "C13_improvement_with_sd"]
# the theorems over R (snapping, forcing function, _eval_improvement_ with SDs) use the standard library's real numbers
ALLOWED_AXIOMS = ["ClassicalDedekindReals.sig_forall_dec", "ClassicalDedekindReals.sig_not_dec",
                  "FunctionalExtensionality.functional_extensionality_dep", "Classical_Prop.classic"]
LEVEL = "proof"
RULE = ("same real-run panel as C03; every poll step's mesh exponent before/after is compared with the model's; "
        "non-trivial = a run containing both a successful (mesh up or capped) and a failed poll.  GRID ARITHMETIC (harness/comp_grid.py): the located statements of _init_optim_state_, "
        "of the loop head of optimize() and of _poll_step_, and _eval_improvement_, are executed for real on generated exponents (k -30..2, locked / unlocked search size, grid multipliers 1-3, "
        "grid numbers 0-20), tol_mesh values (decimal, exact powers of two and their binary64 neighbours), forcing parameters and value / SD pairs; compared with the translated definitions "
        "(exactly for Q / Z, bit-for-bit in binary64 and to 1e-12 in 60-digit Decimal for R); real BADS objects and every recorded mesh size, forcing value and improvement of the panel runs too")
TRUSTED = ["Coq 8.16.1 kernel + vm_compute", "hand-written model Model/Skeleton.v tied per loop iteration to real runs (harness/trace.py, harness/skel.py)",
           "sufficient_improvement (tol_improvement * mesh^(3/2) floored at tol_fun) and each float improvement are oracle values recorded from the run in the skeleton tie; mesh_size = 2.0**k is exact in binary64",
           "translate/grid.py regenerates the mesh / tolerance / forcing / improvement expressions of bads.py on every run (gen/Src_grid.v; fail-closed ast whitelist); validated each run against the real code "
           "(exact Fractions and Coq vm_compute for Q / Z; binary64 bit-for-bit and 60-digit Decimal for R); erfcinv is an uninterpreted function; standard real-number axioms for the R theorems only",
           "binary64 log / divide / ceil decide the snapping exponent: within 2^-48 (relative) of a power of two the code may choose the neighbouring exponent (counted as grid_snap_rounding_observations)",
           "default poll_mesh_multiplier = 2, max_poll_grid_number = 0, search_mesh_expand = 0 (the theorems state these premises)"]
ASSUMPTIONS = ["stobads = False (default)"]
TRUSTED += ["translate/loop.py regenerates the decision logic of optimize() / _search_step_ / _poll_step_ on every run (gen/Src_loop.v; fail-closed ast whitelist: every statement of a located region "
            "must be understood, a second writer of the loop state anywhere in the package is a broken tie); validated each run: the generated definitions evaluated by Coq on every recorded loop "
            "iteration of the panel against the recorded outcome (harness/comp_loop.py); the oracle floats (_eval_improvement_ results, sufficient improvement) are inputs; a mesh size is read "
            "through its exponent (poll_mesh_multiplier = 2)"]


def specs_for(ctx):
    specs = S.panel(ctx.tier, ctx.seed)
    extra = [
        dict(D=2, target="sphere", box="sym", noise="det", options=dict(max_fun_evals=150, accelerate_mesh=True), seed=ctx.seed * 10 + 1),
        dict(D=2, target="plateau", box="sym", noise="det", options=dict(max_fun_evals=120, accelerate_mesh=True, accelerate_mesh_steps=1), seed=ctx.seed * 10 + 2),
        dict(D=2, target="rosen", box="sym", noise="det", options=dict(max_fun_evals=150, complete_poll=True, accelerate_mesh=False), seed=ctx.seed * 10 + 3),
        dict(D=2, target="sphere", box="sym", noise="declared", sigma=0.2, options=dict(max_fun_evals=120, tol_mesh=1e-3), seed=ctx.seed * 10 + 4),
        # tol_mesh an exact power of two (snapping to the grid is the identity) and a tiny tol_fun so that the mesh rule is what stops the run
        dict(D=2, target="sphere", box="sym", noise="det", options=dict(max_fun_evals=200, tol_mesh=2.0 ** -6, tol_fun=1e-12, accelerate_mesh=False), seed=ctx.seed * 10 + 5),
        dict(D=1, target="abs", box="sym", noise="det", options=dict(max_fun_evals=120, tol_mesh=0.25, tol_fun=1e-12), seed=ctx.seed * 10 + 6),
        # a feasible set so thin that whole poll sets are rejected: a poll without a single admissible point is still a failed poll (mesh halved)
        dict(D=2, target="sphere", box="sym", noise="det", cons="diag", x0_value=[0.5, 0.5], shift=[1.0, 1.0], options=dict(max_fun_evals=70), seed=ctx.seed * 10 + 7),
        # noise found by the run-time test (nothing declared): success is still judged on the GP estimate
        dict(D=2, target="sphere", box="sym", noise="auto", sigma=0.3, options=dict(max_fun_evals=90, noise_final_samples=2), seed=ctx.seed * 10 + 8),
    ]
    return specs + extra + S.panel_nondefault(ctx.seed)


def updown(tr, P):
    ks = [e[1]["k"] for e in tr["events"] if e[0] in ("poll_begin", "poll_end")]
    d = [b - a for a, b in zip(ks[::2], ks[1::2])]
    return any(x >= 0 for x in d) and any(x < 0 for x in d)


def tie(ctx, broken):
    out = R.tie_skeleton(ctx, broken, [(s, None) for s in specs_for(ctx)], "c13")
    R.count_runs(ctx, out, updown)
    R.apply_monitor(ctx, out, R.mon_c13)
    hist = {}
    for tr, _ in out:
        ks = [e[1]["k"] for e in tr.get("events", []) if e[0] in ("poll_begin", "poll_end")]
        for a, b in zip(ks[::2], ks[1::2]):
            hist[b - a] = hist.get(b - a, 0) + 1
    ctx.coverage["poll_mesh_exponent_deltas"] = {str(k): v for k, v in sorted(hist.items())}
    # the decision logic regenerated from the source (gen/Src_loop.v): the GENERATED definitions on every recorded iteration of these runs
    L.tie_loop(ctx, broken, out, "c13")
    L.apply_mon_loop(ctx, out, broken)
    # the mesh arithmetic regenerated from the source (gen/Src_grid.v) against the real code: components, real objects, these runs
    G.tie_grid(ctx, broken, traces=[tr for tr, _ in out])


def search(ctx, broken):
    if L.search_loop(ctx, broken, [R.mon_c13, R.mon_c03]):
        return True
    found = G.search_grid(ctx, broken) if any("grid" in b[0] or b[0] == "coq_build" for b in broken) else False
    if R.truncate_search(ctx, R.mon_c13):
        return True
    if found:
        return True
    specs = S.panel("thorough", ctx.seed + 19)[:40]
    out = [(tr, None) for tr in S.traces([(s, None) for s in specs], "c13s")]
    return R.apply_monitor(ctx, out, R.mon_c13) > 0


def replay(ctx, rp):
    if str(rp.get("key", "")).startswith("grid:"):
        return G.replay_grid(ctx, rp)
    return R.generic_replay(ctx, rp, [R.mon_c13, L.mon_loop_property("C13")])
