"""C13 — mesh size doubles after a successful poll (up to a cap), shrinks after a failure."""
from harness import runlevel as R, skel as S

PROPS = "Props/C13.v"
THEOREMS = ["C13_mesh_invariant", "C13_poll_update", "C13_poll_best_is_max", "C13_only_polls_change_mesh", "C13_tolmesh_msg", "C13_tolmesh_msg_run"]
LEVEL = "proof"
RULE = ("same real-run panel as C03; every poll step's mesh exponent before/after is compared with the model's; "
        "non-trivial = a run containing both a successful (mesh up or capped) and a failed poll")
TRUSTED = ["Coq 8.16.1 kernel + vm_compute", "hand-written model Model/Skeleton.v tied per loop iteration to real runs (harness/trace.py, harness/skel.py)",
           "sufficient_improvement (tol_improvement * mesh^(3/2) floored at tol_fun) and each float improvement are oracle values recorded from the run; mesh_size = 2.0**k is exact in binary64",
           "default poll_mesh_multiplier = 2, max_poll_grid_number = 0, search_mesh_expand = 0 (the theorems state these premises)"]
ASSUMPTIONS = ["stobads = False (default)"]


def specs_for(ctx):
    specs = S.panel(ctx.tier, ctx.seed)
    extra = [
        dict(D=2, target="sphere", box="sym", noise="det", options=dict(max_fun_evals=150, accelerate_mesh=True), seed=ctx.seed * 10 + 1),
        dict(D=2, target="plateau", box="sym", noise="det", options=dict(max_fun_evals=120, accelerate_mesh=True, accelerate_mesh_steps=1), seed=ctx.seed * 10 + 2),
        dict(D=2, target="rosen", box="sym", noise="det", options=dict(max_fun_evals=150, complete_poll=True, accelerate_mesh=False), seed=ctx.seed * 10 + 3),
        dict(D=2, target="sphere", box="sym", noise="declared", sigma=0.2, options=dict(max_fun_evals=120, tol_mesh=1e-3), seed=ctx.seed * 10 + 4),
        # tol_mesh an exact power of two (snapping to the grid is the identity) and a tiny tol_fun so that the mesh rule is what stops the run
        dict(D=2, target="sphere", box="sym", noise="det", options=dict(max_fun_evals=200, tol_mesh=2.0 ** -6, tol_fun=1e-12, accelerate_mesh=False), seed=ctx.seed * 10 + 5),
        dict(D=1, target="abs", box="sym", noise="det", options=dict(max_fun_evals=120, tol_mesh=0.25, tol_fun=1e-12), seed=ctx.seed * 10 + 6),
    ]
    return specs + extra + S.panel_nondefault(ctx.seed)


def updown(tr, P):
    ks = [e[1]["k"] for e in tr["events"] if e[0] in ("poll_begin", "poll_end")]
    d = [b - a for a, b in zip(ks[::2], ks[1::2])]
    return any(x >= 0 for x in d) and any(x < 0 for x in d)


def tie(ctx, broken):
    out = R.tie_skeleton(ctx, broken, [(s, None) for s in specs_for(ctx)], "c13")
    R.count_runs(ctx, out, updown)
    R.apply_monitor(ctx, out, R.mon_c13)
    hist = {}
    for tr, _ in out:
        ks = [e[1]["k"] for e in tr.get("events", []) if e[0] in ("poll_begin", "poll_end")]
        for a, b in zip(ks[::2], ks[1::2]):
            hist[b - a] = hist.get(b - a, 0) + 1
    ctx.coverage["poll_mesh_exponent_deltas"] = {str(k): v for k, v in sorted(hist.items())}


def search(ctx, broken):
    if R.truncate_search(ctx, R.mon_c13):
        return True
    specs = S.panel("thorough", ctx.seed + 19)[:40]
    out = [(tr, None) for tr in S.traces([(s, None) for s in specs], "c13s")]
    return R.apply_monitor(ctx, out, R.mon_c13) > 0


def replay(ctx, rp):
    return R.generic_replay(ctx, rp, [R.mon_c13])
