"""C04 — deterministic targets: result is the best evaluated point, reported truthfully."""
from harness import comp_loop as L, runlevel as R, skel as S

PROPS = ["Props/C04.v", "Props/C13loop.v"]
TRANSLATORS = ["loop"]
THEOREMS = ["C04_result_is_best_evaluated", "C04_history_monotone", "C04_history_rows_evaluated", "C04_never_worse_than_start", "C04_nondefault_refuted",
            # Props/C13loop.v: when the incumbent moves (search and poll) equals gen/Src_loop.v, regenerated from _search_step_ / _poll_step_
            "C04_improvement_rule_is_source"]
LEVEL = "proof"
RULE = ("deterministic real runs (smooth, non-smooth, plateau with ties, optimum on/outside the boundary; transforms; constraints) compared with the "
        "skeleton model incl. the incumbent after every loop iteration, AND the oracle side conditions det_ok evaluated in Coq on every event; "
        "non-trivial = the incumbent moved at least twice")
TRUSTED = ["Coq 8.16.1 kernel + vm_compute", "hand-written model Model/Skeleton.v tied per loop iteration to real runs",
           "side conditions Model/SkeletonValid.v (sign/order of the float improvement agrees with the order of the values; estimate = observed value, SD 0) are checked on every recorded event, not proved: IEEE rounding is outside the model — in particular absorption (|fval| >= 2^53 * |difference|) can make two different values indistinguishable to _eval_improvement_",
           "translate/loop.py regenerates the decision logic of optimize() / _search_step_ / _poll_step_ on every run (gen/Src_loop.v; fail-closed ast whitelist, writer and call-site census over the package); validated each run: the generated definitions evaluated by Coq on every recorded loop iteration of this panel (harness/comp_loop.py)",
           "result.x = inverse_transf(final u) and result.fval = final fval are compared by the tie"]
ASSUMPTIONS = ["default incumbent policy (sloppy_improvement = True, stobads = False), improvement_quantile = 0.5"]


def specs_for(ctx):
    specs = [s for s in S.panel(ctx.tier, ctx.seed) if s["noise"] == "det"]
    extra = [
        dict(D=2, target="plateau", box="sym", noise="det", options=dict(max_fun_evals=100), seed=ctx.seed * 10 + 1),
        dict(D=3, target="abs", box="tight", noise="det", options=dict(max_fun_evals=120), seed=ctx.seed * 10 + 2),
        dict(D=2, target="outside", box="log", noise="det", options=dict(max_fun_evals=90), seed=ctx.seed * 10 + 3),
        dict(D=1, target="plateau", box="unb", noise="det", x0="absent", options=dict(max_fun_evals=50), seed=ctx.seed * 10 + 4),
        # a deterministic target with a user-supplied noise_size (legal: it only feeds the GP noise prior)
        dict(D=2, target="sphere", box="sym", noise="det", options=dict(max_fun_evals=60, noise_size=0.5), seed=ctx.seed * 10 + 5),
        # a target that modifies its argument in place: the reported x must still be a point it was CALLED at
        dict(D=2, target="sphere", box="sym", noise="det", mutate_arg=True, options=dict(max_fun_evals=60), seed=ctx.seed * 10 + 6),
        dict(D=2, target="abs", box="log", noise="det", mutate_arg=True, options=dict(max_fun_evals=60), seed=ctx.seed * 10 + 7),
        # stobads=True on a DETERMINISTIC target: the option is reset for such targets, the default incumbent policy applies
        dict(D=2, target="rosen", box="sym", noise="det", options=dict(max_fun_evals=80, stobads=True, complete_poll=True), seed=ctx.seed * 10 + 10),
        dict(D=2, target="plateau", box="sym", noise="det", options=dict(max_fun_evals=70, stobads=True), seed=ctx.seed * 10 + 11),
        # a target whose values are tiny in ABSOLUTE terms: any strictly lower value is an improvement
        dict(D=2, target="sphere", box="sym", noise="det", scale=1e-21, options=dict(max_fun_evals=70), seed=ctx.seed * 10 + 13),
        dict(D=3, target="ellipsoid", box="sym", noise="det", scale=1e-21, options=dict(max_fun_evals=70), seed=ctx.seed * 10 + 14),
        dict(D=2, target="sphere", box="sym", noise="det", scale=1e-21, options=dict(max_fun_evals=70), seed=ctx.seed * 10 + 5),
        # an integer-typed start point (round numbers): the returned x is still a float point that was evaluated
        dict(D=2, target="rosen", box="sym", noise="det", x0_value=[1, -1], x0_int=True, options=dict(max_fun_evals=60), seed=ctx.seed * 10 + 15),
        # uncertainty_handling=False given explicitly
        dict(D=2, target="rosen", box="sym", noise="det", options=dict(max_fun_evals=70, uncertainty_handling=False), seed=ctx.seed * 10 + 12),
        # budgets that end the run right after the initial design / in the first iterations
        dict(D=2, target="plateau", box="sym", noise="det", options=dict(max_fun_evals=8), seed=ctx.seed * 10 + 8),
        dict(D=3, target="sphere", box="sym", noise="det", options=dict(max_fun_evals=12, max_iter=1), seed=ctx.seed * 10 + 9),
    ]
    return specs + extra


def tie(ctx, broken):
    out = R.tie_skeleton(ctx, broken, [(s, None) for s in specs_for(ctx)], "c04")
    R.count_runs(ctx, out, lambda tr, P: sum(1 for e in tr["events"] if e[0] == "update_incumbent") >= 2)
    R.apply_monitor(ctx, out, R.mon_c04)
    L.tie_loop(ctx, broken, out, "c04")                 # gen/Src_loop.v on every recorded iteration (translator validation)
    L.apply_mon_loop(ctx, out, broken)
    # result fields vs the model's final incumbent (the model's final cur is compared in the tie; here result.* vs last probe)
    badres = [tr["spec"] for tr, P in out if "result" in tr and P is not None and P["expect"]
              and not (tr["result"]["fval"] == P["expect"][-1]["f"] and tr["final"]["inv_u"] == tr["result"]["x"])]
    if not ctx.oblige("result_matches_final_incumbent", "correspondence", not badres, str(badres[:2])):
        broken.append(("result_matches_final_incumbent", f"OptimizeResult.x/fval differ from the final incumbent for {badres[:2]}"))


def search(ctx, broken):
    if L.search_loop(ctx, broken, [R.mon_c04, R.mon_c13]):
        return True
    if R.truncate_search(ctx, R.mon_c04):
        return True
    specs = [s for s in S.panel("thorough", ctx.seed + 23) if s["noise"] == "det"][:40]
    out = [(tr, None) for tr in S.traces([(s, None) for s in specs], "c04s")]
    return R.apply_monitor(ctx, out, R.mon_c04) > 0


def replay(ctx, rp):
    return R.generic_replay(ctx, rp, [R.mon_c04, L.mon_loop_property("C04")])
