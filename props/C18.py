"""C18 — the search step evaluates the acquisition-optimal candidate, once."""
import json

import numpy as np

from harness import comp_search as S
from vlib import core

PROPS = ["Props/C18.v", "Props/C18src.v"]
TRANSLATORS = ["es"]
THEOREMS = ["C18_es_returns_min", "C18_es_returns_min_number", "C18_es_result_is_survivor",
            "C18_es_all_filtered_is_failed_search", "C18_es_empty_only_if_all_filtered",
            "C18_es_later_empty_generation", "C18_es_depends_on_survivors_only", "C18_survivors_in_box",
            "C18_search_argmin", "C18_one_eval", "C18_mask_valid", "C18_mask_index_safe",
            "C18_mask_fuel_suffices", "C18_hedge_distribution",
            # Props/C18src.v: Model/ESSelect.v IS the program regenerated from es_search.py / search_hedge.py (gen/Src_es.v)
            "C18_selection_mask_is_source", "C18_generation_step_is_source", "C18_es_init_is_source", "C18_hedge_choice_is_source"]
LEVEL = "proof"
RULE = ("(i) mask: the real _get_selection_idx_mask_ for ALL 0<=mu,lamb<=120 (quick) / 300 (thorough); w0 from the "
        "function's own first statements (AST), premises of C18_mask_valid checked on every actual w0, model mask == real mask; "
        "plus synthetic weight vectors (zeros, negative, unsorted) through the function's own integer statements; "
        "non-trivial = mask differs from 0..lamb.  (ii) ES loop: short real BADS runs (D 1-3, n_search 16..4096, "
        "n_search_iter 1..5, no / disc / thin-band / lattice constraint, hard bounds that are / are not multiples of the search "
        "mesh) with acq_fcn_lcb and contraints_check wrapped inside pybads.search.es_search; model run on the recorded generations "
        "(numbers and NaN; on two runs a random subset of the acquisition values is replaced by NaN from outside) vs returned (us[0], z[0]); non-trivial = a shrunk or truncated population; small thin-band populations are "
        "run until at least 5 ES calls with a generation WITHOUT survivors after one WITH survivors have been compared "
        "(coverage es_later_empty_generation).  (iii) search step: target/logger calls per _search_step_, evaluated point vs argmin row, on plain "
        "runs and on runs whose search set is widened from outside to several rows.  (iv) hedge: real ESSearchHedge over "
        "synthetic update_hedge histories (gamma 0..0.5, 2-4 strategies); prob vs exact model at 1e-9, choice exact.")
TRUSTED = [
    "translate/es.py (fail-closed AST translator of es_search.py / search_hedge.py -> gen/Src_es.v): validated on every run by evaluating the generated programs on the tie's cases (correspondence:es_source); the reading of NumPy per entry in Model/ESSrc.v's interpreters",
    "canonical-text pins (ast.unparse of the alpha-renamed source) for the calls with their arguments, the step-size bookkeeping, the constructors and update_hedge: they pin the source, their meaning is covered by the dynamic ties only",
    "Coq 8.16.1 kernel + vm_compute (case evaluation); no native_compute",
    "hand-written model Model/ESSelect.v of es_search.py l.44-69/134-215, search_hedge.py l.58-67, bads.py l.1630-1655, tied by differential comparison (harness/comp_search.py)",
    "np.argsort modelled as a stable sort: on ties of the minimal acquisition value only z and membership are compared",
    "w0 = ceil(...) of the mask and e_i = exp(beta (g_i - max g)) of the hedge are float oracle inputs (the AST split of the mask function and the harness' own exp expression are trusted to follow the code; a drift shows as a broken correspondence)",
    "hedge probabilities compared to the exact rational at 1e-9 relative; rounding of cumsum(prob)[-1] below 1 is not modelled",
    "NumPy fancy indexing / argmin / argwhere / cumsum semantics as modelled",
]
ASSUMPTIONS = [
    "ES loop: acquisition values may be NaN (ranked after every number, as np.argsort does) but not infinite (such calls are counted and not compared); search step (argmin): acquisition values are not NaN (cases with NaN are counted and skipped)",
    "C18_es_returns_min: at least ONE generation of the evolution strategy has a survivor (then the returned pair is a survivor of minimal acquisition value over ALL generations; a later generation without survivors loses nothing: C18_es_later_empty_generation).  If ALL generations are empty the strategy returns the empty set and nothing is evaluated (C18_es_all_filtered_is_failed_search), and only then (C18_es_empty_only_if_all_filtered)",
    "C18_survivors_in_box: the generated candidates are numbers (a candidate with NaN coordinates would pass np.minimum/np.maximum and the constraint comparisons of contraints_check; the monitor reports any such survivor under the key es-nan-candidates)",
    "n_search_iter >= 1",
    "lamb >= 1 and, for the mask theorem, mu = us.shape[0] >= 1",
]


def _viol(ctx, key, what, replay):
    if not any(v["key"] == key for v in ctx.violations):
        ctx.violate(key, what, replay)


# ------------------------------------------------------------------------------- the generated programs on the same cases
SRC_STATE = {}


def _run(part, name, ty, okf, cases, shard, timeout=900, metas=None):
    """core.run_cases for the hand-written model; when gen/Src_es.v was generated, the SAME literals are also evaluated by the generated
    program (S.SRC_OK[part]).  Records (evaluated, cases, bad_src, bad_model) in SRC_STATE[name]."""
    if SRC_STATE.setdefault("_available", S.src_generated_ok()):
        ok, bad, sbad, log = S.run_cases_both(name, ty, okf, S.SRC_OK[part], cases, shard=shard, timeout=timeout)
        if ok:
            SRC_STATE[name] = (True, len(cases), sbad, set(bad), part, metas)
            return ok, bad, log
    ok, bad, log = core.run_cases(name, S.REQUIRES, ty, okf, cases, shard=shard, timeout=timeout)
    SRC_STATE[name] = (False, len(cases), [], set(bad), part, metas)
    return ok, bad, log


def source_tie(ctx, broken):
    recs = {k: v for k, v in SRC_STATE.items() if not k.startswith("_")}
    evaluated = bool(recs) and all(v[0] for v in recs.values())
    n = sum(v[1] for v in recs.values())
    sb = {k: v[2] for k, v in recs.items() if v[2]}
    only_src = {k: [i for i in v[2] if i not in v[3]] for k, v in recs.items()}
    only_src = {k: v for k, v in only_src.items() if v}
    detail = (f"{sum(len(v) for v in sb.values())} of {n} cases differ between gen/Src_es.v (src_mask / src_gen + src_ret / src_hedge, evaluated by vm_compute) "
              f"and the real code {({k: len(v) for k, v in sb.items()} or '')}"
              if evaluated else "NOT EVALUATED: gen/Src_es.v was not generated or does not build (source outside the translator's whitelist)")
    ctx.coverage["source_tie"] = dict(evaluated=evaluated, cases=n, differing={k: len(v) for k, v in sb.items()},
                                      per_part={k: v[1] for k, v in recs.items()})
    if not ctx.oblige("correspondence:es_source", "correspondence", evaluated and not sb, detail):
        if not evaluated:
            broken.append(("correspondence:es_source", "the programs regenerated from es_search.py / search_hedge.py could not be evaluated: " + detail))
        elif only_src:
            broken.append(("correspondence:es_source", f"TRANSLATOR fault: the generated program differs from the real code on cases {({k: v[:3] for k, v in only_src.items()})} "
                           "on which the hand-written model agrees with it"))
        else:
            broken.append(("correspondence:es_source", "generated program and hand-written model both differ from the real code on the same cases"))
    elif any(v[3] for v in recs.values()):
        ctx.notes.append("the program regenerated from the source AGREES with the real code where the hand-written model differs: "
                         "the source has changed, Model/ESSelect.v no longer describes it")


# ------------------------------------------------------------------------------- (i)
def part_mask(ctx, broken):
    nmax = 120 if ctx.quick else 300
    cases, recs, problems = S.mask_sweep(nmax)
    nontriv = sum(1 for (mu, lamb, w0, real) in recs if not isinstance(real, str) and real != list(range(len(real))))
    ctx.count(len(cases), nontriv)
    ctx.coverage["mask_sweep"] = dict(mu_lamb_max=nmax, cases=len(cases), premises_checked=sum(1 for r in recs if r[0] >= 1 and r[1] >= 1),
                                      errors=sum(1 for r in recs if isinstance(r[3], str)))
    smp = recs[min(3 * (nmax + 1) + 5, len(recs) - 1)]
    ctx.sample(dict(part="mask", mu=smp[0], lamb=smp[1], w0=smp[2], mask=smp[3]))
    for mu, lamb, msg, w0, real in problems[:1]:
        key = "mask-premise" if msg.startswith("w0") or msg.startswith("sum") else "mask-invalid"
        _viol(ctx, key, f"_get_selection_idx_mask_({mu}, {lamb}): {msg}", dict(kind="mask", mu=mu, lamb=lamb))
    ctx.oblige("monitor:mask", "monitor", not problems, f"{len(problems)} (mu, lamb) pairs violate the mask facts")
    okc, bad, log = _run("mask", "C18mask", S.MASK_TY, S.MASK_OK, cases, shard=max(200, (len(cases) + 11) // 12), timeout=1500)
    rcases, rrecs = S.mask_random(ctx.rng, 1500 if ctx.quick else 10000)
    ctx.count(len(rcases), sum(1 for r in rrecs if isinstance(r[2], str) or r[2] != list(range(len(r[2])))))
    okr, badr, logr = _run("maskr", "C18maskr", S.MASKR_TY, S.MASKR_OK, rcases, shard=500)
    good = ctx.oblige("correspondence:mask", "correspondence", okc and okr and not bad and not badr,
                      f"{len(bad)} of {len(cases)} swept and {len(badr)} of {len(rcases)} synthetic cases differ; " + (log + logr)[-400:])
    if not good:
        if bad:
            mu, lamb, w0, real = recs[bad[0]]
            broken.append(("correspondence:mask", f"model and _get_selection_idx_mask_ differ at mu={mu} lamb={lamb}: real={real}"))
        elif badr:
            w, lamb, real = rrecs[badr[0]]
            broken.append(("correspondence:mask", f"model and the mask's integer statements differ on w={w} lamb={lamb}: real={real}"))
        else:
            broken.append(("correspondence:mask", "mask cases did not compile: " + (log + logr)[-300:]))


# ------------------------------------------------------------------------------- (ii) + (iii)
LATER_EMPTY_WANTED = 5        # ES calls with a generation without survivors after one with survivors, compared with the model


def _es_problems(c):
    """[(kind, key, message)] of one recorded ES call: the property monitor and the NaN-candidate monitor."""
    kind, msg, key = S.es_monitor(c)
    out = [(kind, key, msg)]
    nan = S.es_nan_monitor(c)
    if nan:
        out.append(("nan-candidates", "es-nan-candidates", nan))
    return out


def part_runs(ctx, broken):
    es_cases, es_meta, st_cases, st_meta = [], [], [], []
    kinds_es, kinds_st, crashes, set_sizes = {}, {}, {}, {}
    later = dict(calls=0, compared=0, followed_by_more_generations=0, nan_candidates_after=0, returned_point=0, extra_runs=0)
    offmesh = dict(es_calls=0, survivors_on_rounded_bound=0)
    skipped = dict(inf=0, too_large=0)
    nan_z = dict(es_calls_with_nan_values=0, all_values_nan=0, compared=0)
    cfgs = list(S.panel(ctx.quick, ctx.seed))
    k_cfg = 0
    while k_cfg < len(cfgs):
        cfg = cfgs[k_cfg]
        k_cfg += 1
        out = S.run_bads(cfg)
        if out["crash"]:
            crashes[out["crash"]] = crashes.get(out["crash"], 0) + 1
        for k, c in enumerate(out["es_calls"]):
            sizes = [g[1].shape[0] for g in c["gens"]]
            for kind, key, msg in _es_problems(c):
                kinds_es[kind] = kinds_es.get(kind, 0) + 1      # "nan-candidates" is counted in addition to the call's own kind
                if key:
                    _viol(ctx, key, f"{c['cls']} (mu={c['mu']}, lamb={c['lamb']}, generations {sizes}): {msg}",
                          dict(kind="run", cfg=cfg, es_index=k))
            lit = S.es_case(c)
            if lit is not None:
                es_cases.append(lit)
                es_meta.append((cfg, k, c))
            else:
                skipped["inf" if any(g[2] is not None and (np.isinf(g[2]).any() or np.isinf(g[1]).any()) for g in c["gens"]) else "too_large"] += 1
            zs_all = [g[2] for g in c["gens"] if g[2] is not None and g[2].size]
            if zs_all and np.isnan(np.concatenate(zs_all)).any():
                nan_z["es_calls_with_nan_values"] += 1
                nan_z["all_values_nan"] += 1 if np.isnan(np.concatenate(zs_all)).all() else 0
                nan_z["compared"] += 1 if lit is not None else 0
            if S.later_empty_generation(c):
                later["calls"] += 1
                later["compared"] += 1 if lit is not None else 0
                first_empty = next(i for i, n in enumerate(sizes) if n == 0 and any(sizes[:i]))
                later["followed_by_more_generations"] += 1 if first_empty < len(sizes) - 1 else 0
                later["nan_candidates_after"] += 1 if S.es_nan_monitor(c) else 0
                later["returned_point"] += 0 if (c["ret"] is None or isinstance(c["ret"], str)) else 1
            if c.get("hard_lb") is not None and c.get("search_mesh"):
                lo, hi = S.mesh_rounded_box(c["hard_lb"], c["hard_ub"], c["search_mesh"])
                if np.any(lo != c["hard_lb"]) or np.any(hi != c["hard_ub"]):
                    offmesh["es_calls"] += 1
                    offmesh["survivors_on_rounded_bound"] += sum(int(np.sum(np.any((g[1] == lo) | (g[1] == hi), axis=1))) for g in c["gens"] if g[1].shape[0])
            ctx.count(1, 1 if (sum(sizes) > c["lamb"] or any(n < c["mu"] for n in sizes)) else 0)
        for k, s in enumerate(out["steps"]):
            kind, msg = S.step_monitor(s)
            kinds_st[kind] = kinds_st.get(kind, 0) + 1
            if kind == "bad":
                key = "search-multi-eval" if "evaluations" in msg else "search-not-argmin"
                _viol(ctx, key, msg, dict(kind="run", cfg=cfg, step_index=k))
            lit = S.step_case(s)
            if lit is not None:
                st_cases.append(lit)
                st_meta.append((cfg, k, s))
            ctx.count(1, 1 if (s["set"] is not None and s["set"].shape[0] != 1) else 0)
            if s["set"] is not None:
                set_sizes[str(s["set"].shape[0])] = set_sizes.get(str(s["set"].shape[0]), 0) + 1
        if k_cfg == len(cfgs) and later["compared"] < LATER_EMPTY_WANTED and later["extra_runs"] < 12:
            cfgs.append(S.extra_band_cfg(ctx.seed, later["extra_runs"]))     # more small thin-band populations
            later["extra_runs"] += 1
    ctx.coverage["es_later_empty_generation"] = later
    ctx.coverage["es_box_not_on_mesh"] = offmesh
    ctx.coverage["es_calls_not_compared"] = skipped
    ctx.coverage["es_nan_acquisition_values"] = nan_z
    ctx.coverage["n_search_iter_seen"] = sorted({m[2]["iters"] for m in es_meta})
    ctx.coverage["es_calls"] = kinds_es
    ctx.coverage["search_steps"] = kinds_st
    ctx.coverage["search_set_sizes"] = set_sizes
    ctx.coverage["run_crashes_not_this_property"] = crashes
    if es_meta:
        c = es_meta[len(es_meta) // 2][2]
        ctx.sample(dict(part="es", cls=c["cls"], lamb=c["lamb"], generations=[g[1].shape[0] for g in c["gens"]],
                        returned=c["ret"] if (c["ret"] is None or isinstance(c["ret"], str)) else [c["ret"][0].tolist(), c["ret"][1]]))
    ctx.oblige("monitor:es", "monitor", not kinds_es.get("bad") and not kinds_es.get("unobserved") and not kinds_es.get("nan-candidates"),
               json.dumps(kinds_es))
    ctx.oblige("monitor:search_step", "monitor", not kinds_st.get("bad"), json.dumps(kinds_st))
    enough = kinds_es.get("ok", 0) >= 20 and kinds_st.get("ok", 0) >= 20
    if not ctx.oblige("coverage:runs", "correspondence", enough, f"es ok={kinds_es.get('ok', 0)} steps ok={kinds_st.get('ok', 0)}"):
        broken.append(("coverage:runs", f"too few search steps observed (es {kinds_es}, steps {kinds_st}, crashes {crashes})"))
    if not ctx.oblige("coverage:later_empty_generation", "correspondence", later["compared"] >= 3 and offmesh["es_calls"] >= 10,
                      f"{json.dumps(later)}; box not on the mesh: {json.dumps(offmesh)}"):
        broken.append(("coverage:later_empty_generation", f"too few ES calls with a later generation without survivors ({later}) "
                       f"or with hard bounds off the search mesh ({offmesh})"))
    ok1, bad1, log1 = _run("es", "C18es", S.ES_TY, S.ES_OK, es_cases, shard=max(1, (len(es_cases) + 11) // 12))
    ctx.coverage["traces_validated_against_impl"] = len(es_cases) - len(bad1)
    if not ctx.oblige("correspondence:es_loop", "correspondence", ok1 and not bad1, f"{len(bad1)} of {len(es_cases)} ES calls differ; " + log1[-400:]):
        if bad1:
            cfg, k, c = es_meta[bad1[0]]
            broken.append(("correspondence:es_loop", f"model and {c['cls']}.__call__ differ: run {cfg}, ES call {k}, "
                           f"generations {[g[1].shape[0] for g in c['gens']]}, returned {c['ret'] if (c['ret'] is None or isinstance(c['ret'], str)) else c['ret'][1]} exc={c['exc']}"))
        else:
            broken.append(("correspondence:es_loop", "ES cases did not compile: " + log1[-300:]))
    ok2, bad2, log2 = core.run_cases("C18step", S.REQUIRES, S.STEP_TY, S.STEP_OK, st_cases, shard=200)
    if not ctx.oblige("correspondence:search_step", "correspondence", ok2 and not bad2, f"{len(bad2)} of {len(st_cases)} search steps differ; " + log2[-400:]):
        if bad2:
            cfg, k, s = st_meta[bad2[0]]
            broken.append(("correspondence:search_step", f"model and _search_step_ differ: run {cfg}, search step {k}, "
                           f"set of {s['set'].shape[0]} rows, z={s['z'].tolist() if s['z'] is not None else None}, evaluated {[e.tolist() for e in s['evals']]}"))
        else:
            broken.append(("correspondence:search_step", "search-step cases did not compile: " + log2[-300:]))


# ------------------------------------------------------------------------------- (iv)
HEDGE_CFGS = [(0.125, 2), (0.125, 2), (0.125, 2), (0.05, 3), (0.25, 4), (0.5, 2), (0.0, 2), (0.2, 3), (0.01, 4), (0.125, 2)]


def part_hedge(ctx, broken):
    per = 100 if ctx.quick else 1000
    recs = []
    for gamma, n in HEDGE_CFGS:
        try:
            recs += S.hedge_drive(ctx.rng, per, gamma, n)
        except Exception as ex:     # the hedge itself failed on a portfolio of n strategies: that IS the observable (no strategy proposes anything)
            _viol(ctx, "hedge-choice", f"ESSearchHedge with a portfolio of {n} strategies (gamma={gamma}) raised {type(ex).__name__}: {str(ex)[:160]} "
                                       "instead of drawing a strategy and letting it propose", dict(kind="hedge-crash", gamma=gamma, n=n))
            break
    bad_mon = 0
    for r in recs:
        msg = S.hedge_monitor(r)
        if msg:
            bad_mon += 1
            key = "hedge-choice" if "chosen" in msg else "hedge-distribution"
            _viol(ctx, key, f"ESSearchHedge (gamma={r['gamma']}, {r['n']} strategies, scores g={r['g']}): {msg}",
                  dict(kind="hedge", rec={k: r[k] for k in ("g", "gamma", "beta", "seed", "n", "D")}))
    ctx.count(len(recs), sum(1 for r in recs if 0 < min(r["e"]) < 1))
    ctx.coverage["hedge"] = dict(calls=len(recs), underflowed_e=sum(1 for r in recs if min(r["e"]) == 0),
                                 index_errors=sum(1 for r in recs if r["chosen"] is None))
    ctx.sample(dict(part="hedge", **{k: recs[len(recs) // 3][k] for k in ("g", "gamma", "rand", "prob", "chosen")}))
    ctx.oblige("monitor:hedge", "monitor", bad_mon == 0, f"{bad_mon} of {len(recs)} hedge calls violate the distribution facts")
    cases = [S.hedge_case(r) for r in recs if not any(np.isnan(r["prob"])) and not any(np.isnan(r["e"]))]
    ok, bad, log = _run("hedge", "C18hedge", S.HEDGE_TY, S.HEDGE_OK, cases, shard=max(100, (len(cases) + 11) // 12))
    if not ctx.oblige("correspondence:hedge", "correspondence", ok and not bad and len(cases) == len(recs),
                      f"{len(bad)} of {len(cases)} hedge calls differ ({len(recs) - len(cases)} NaN); " + log[-400:]):
        if bad:
            r = recs[bad[0]]
            broken.append(("correspondence:hedge", f"model and ESSearchHedge differ: g={r['g']} gamma={r['gamma']} rand={r['rand']} prob={r['prob']} chosen={r['chosen']}"))
        else:
            broken.append(("correspondence:hedge", "hedge cases did not compile or contain NaN: " + log[-300:]))


def tie(ctx, broken):
    SRC_STATE.clear()
    part_mask(ctx, broken)
    part_runs(ctx, broken)
    part_hedge(ctx, broken)
    source_tie(ctx, broken)


def search(ctx, broken):
    """Something is broken and the monitors above found no concrete input: look further afield.  First cases AIMED at the construct
    the translator could not read / reads differently (translate.es.aim(); the reference only orders the search), judged by the
    declarative monitors alone; then the broad panel."""
    try:
        from translate import es as TE
        regions = TE.aim()
    except Exception:
        regions = []
    ctx.coverage["aimed_search"] = dict(regions=regions)
    if any(r in regions for r in ("loop", "return", "init", "?")):
        n = 600 if ctx.quick else 3000
        kinds = {}
        for j in range(n):
            seed = ctx.seed * 100003 + j
            c = S.es_direct(seed)
            kind, msg, key = S.es_monitor(c)
            kinds[kind] = kinds.get(kind, 0) + 1
            if kind == "bad" and key:
                ctx.violate(key, f"ESSearchELL.__call__ on a synthetic state (lamb={c['lamb']}, n_search_iter={c['iters']}, survivors per generation "
                                 f"{[g[1].shape[0] for g in c['gens']]}): {msg}", dict(kind="es-direct", seed=seed))
                ctx.coverage["aimed_search"]["es_direct"] = kinds
                return True
        ctx.coverage["aimed_search"]["es_direct"] = kinds
    if "mask" in regions or "?" in regions:
        try:
            cases, recs, problems = S.mask_sweep(180 if ctx.quick else 400)
        except Exception as ex:
            problems = []
            ctx.notes.append("aimed mask sweep crashed: " + repr(ex)[:200])
        for mu, lamb, msg, w0, real in problems[:1]:
            key = "mask-premise" if msg.startswith("w0") or msg.startswith("sum") else "mask-invalid"
            ctx.violate(key, f"_get_selection_idx_mask_({mu}, {lamb}): {msg}", dict(kind="mask", mu=mu, lamb=lamb))
            return True
    if "hedge" in regions or "update" in regions or "?" in regions:
        for gamma, n in HEDGE_CFGS + [(0.3, 3), (0.0, 3), (0.1, 4)]:
            try:
                recs = S.hedge_drive(ctx.rng, 400, gamma, n)
            except Exception as ex:
                ctx.violate("hedge-choice", f"ESSearchHedge with a portfolio of {n} strategies (gamma={gamma}) raised {type(ex).__name__}: {str(ex)[:160]} "
                                            "instead of drawing a strategy and letting it propose", dict(kind="hedge-crash", gamma=gamma, n=n))
                return True
            for r in recs:
                msg = S.hedge_monitor(r)
                if msg:
                    ctx.violate("hedge-choice" if "chosen" in msg else "hedge-distribution", msg,
                                dict(kind="hedge", rec={k: r[k] for k in ("g", "gamma", "beta", "seed", "n", "D")}))
                    return True
    for extra in range(1, 3):
        for cfg in S.panel(True, ctx.seed + 17 * extra) + [S.extra_band_cfg(ctx.seed + 17 * extra, j) for j in range(6)]:
            out = S.run_bads(cfg)
            for k, c in enumerate(out["es_calls"]):
                for kind, key, msg in _es_problems(c):
                    if kind in ("bad", "nan-candidates"):
                        ctx.violate(key, f"{c['cls']}: {msg}", dict(kind="run", cfg=cfg, es_index=k))
                        return True
            for k, s in enumerate(out["steps"]):
                kind, msg = S.step_monitor(s)
                if kind == "bad":
                    ctx.violate("search-multi-eval" if "evaluations" in msg else "search-not-argmin", msg,
                                dict(kind="run", cfg=cfg, step_index=k))
                    return True
    for gamma, n in HEDGE_CFGS:
        for r in S.hedge_drive(ctx.rng, 300, gamma, n):
            msg = S.hedge_monitor(r)
            if msg:
                ctx.violate("hedge-distribution", msg, dict(kind="hedge", rec={k: r[k] for k in ("g", "gamma", "beta", "seed", "n", "D")}))
                return True
    return False


def replay(ctx, rp):
    r = rp["replay"]
    kind = r.get("kind")
    if kind == "mask":
        w0_fn, rest_fn, real_fn = S.split_mask_source()
        w0 = [int(v) for v in w0_fn(r["mu"], r["lamb"])]
        real = S.guarded(real_fn, r["mu"], r["lamb"])
        msg = S.mask_monitor(r["mu"], r["lamb"], w0, real)
        print(f"replay: _get_selection_idx_mask_({r['mu']}, {r['lamb']}) w0={w0} -> {real}")
        print("replay:", msg or "property holds on this input now")
        return 1 if msg else 0
    if kind == "run":
        out = S.run_bads(r["cfg"])
        msgs = []
        for k, c in enumerate(out["es_calls"]):
            for kd, key, msg in _es_problems(c):
                # the NaN-candidate finding is reported only when the replay file is about it (it has its own key)
                if key and (key != "es-nan-candidates" or rp.get("key") == "es-nan-candidates"):
                    msgs.append(f"ES call {k} ({c['cls']}, generations {[g[1].shape[0] for g in c['gens']]}): {key}: {msg}")
        for k, s in enumerate(out["steps"]):
            kd, msg = S.step_monitor(s)
            if kd == "bad":
                msgs.append(f"search step {k}: {msg}")
        print(f"replay: run {r['cfg']} crash={out['crash']} es_calls={len(out['es_calls'])} steps={len(out['steps'])}")
        for m in msgs[:5]:
            print("replay:", m)
        if not msgs:
            print("replay: property holds on this input now")
        return 1 if msgs else 0
    if kind == "hedge":
        fresh = S.hedge_replay(r["rec"])
        msg = S.hedge_monitor(fresh)
        print(f"replay: hedge g={fresh['g']} gamma={fresh['gamma']} -> prob={fresh['prob']} chosen={fresh['chosen']}")
        print("replay:", msg or "property holds on this input now")
        return 1 if msg else 0
    if kind == "es-direct":
        c = S.es_direct(r["seed"])
        kd, msg, key = S.es_monitor(c)
        print(f"replay: ESSearchELL.__call__ synthetic state seed={r['seed']} lamb={c['lamb']} generations {[g[1].shape[0] for g in c['gens']]} "
              f"returned {c['ret'] if (c['ret'] is None or isinstance(c['ret'], str)) else [c['ret'][0].tolist(), c['ret'][1]]} exc={c['exc']}")
        print("replay:", f"{key}: {msg}" if kd == "bad" else "property holds on this input now")
        return 1 if kd == "bad" else 0
    if kind == "hedge-crash":
        import random
        try:
            S.hedge_drive(random.Random(0), 20, r["gamma"], r["n"])
            print("replay: the hedge draws and proposes for this portfolio now")
            return 0
        except Exception as ex:
            print(f"replay: ESSearchHedge with {r['n']} strategies raised {type(ex).__name__}: {ex}")
            return 1
    print("replay: no concrete input in this replay file (broken obligation):", r)
    return 1
