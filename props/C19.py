"""C19 — iteration history and OptimizeResult are consistent records of the run."""
import json
import time

from harness import comp_history as H
from harness import run_history as R
from translate import history as TH
from vlib import core

PROPS = ["Props/C19.v", "Props/C19run.v", "Props/C05final.v", "Props/C19src.v"]
TRANSLATORS = ["final", "history"]
THEOREMS = ["C19_reachable_wf", "C19_record_get", "C19_frame", "C19_grow_padding", "C19_errors_preserve_state",
            "C19_setitem", "C19_no_alias", "C19_env_mutation_invisible", "C19_last_record_wins",
            "C19_unrecorded_is_blank", "C19_record_iteration", "C19_result_keys", "C19_result_copies",
            "C19_result_fields_readable", "C19_status_unset_refuted_before_fix",
            "C19_rows_are_evaluated_pairs", "C19_func_count_nondecreasing", "C19_result_is_last_row", "C19_noisy_result_is_a_row",
            # Props/C05final.v: which attribute goes to which key of the result / which history row is returned, regenerated from the source
            "C19_result_fields_are_source", "C05_returned_iterate_is_one_history_row",
            # Props/C19src.v: the containers regenerated from iteration_history.py / optimize_result.py (translate/history.py)
            "C19_record_is_source", "C19_history_setitem_is_source", "C19_history_step_is_source", "C19_history_init_is_source",
            "C19_result_setitem_is_source", "C19_result_step_is_source"]
LEVEL = "proof"
RULE = ("(a) op sequences on the real IterationHistory / OptimizeResult from one PRNG: known, unknown and deleted keys; "
        "iterations negative / in range / at the end / with a gap / far beyond the end; values int, float, str, numpy scalar, "
        "list, nested list+dict, dict, ndarray; whole-array assignment with None cells and the same object twice; every "
        "mutable source changed in place (deeply) after the call; stored objects changed in place or re-recorded through a "
        "reference; compared op by op (result + full state incl. object identity up to one consistent renaming). "
        "(b) real BADS runs (D 1-3; deterministic / auto-detected / declared / specified noise; noise_final_samples 0,1,3,10; "
        "budgets 40-150; with and without a log-scale coordinate; fixed seeds): every IterationHistory.record call fed to the "
        "container model, final arrays compared; every clause of the property checked by the monitor at every loop iteration. "
        "non-trivial = sequence with a growth, a failed call or an in-place mutation / run with >= 3 recorded rows")
TRUSTED = [
    "Coq 8.16.1 kernel + vm_compute (case evaluation); no native_compute",
    "hand-written model Model/History.v of iteration_history.py and optimize_result.py (containers only), tied by per-op differential comparison (harness/comp_history.py, Model/HistoryTie.v)",
    "Model/History.v's step / init_history / rstep are PROVED equal, for all states and arguments, to the method bodies regenerated from iteration_history.py / optimize_result.py "
    "(Props/C19src.v); translate/history.py (fail-closed ast whitelist; method set, delegation of __getitem__ / __delitem__ / __len__ / __iter__ to dict and OptimizeResult.__init__ pinned; "
    "census of check_keys / _keys / _expand_array over the package) is validated on every run: the GENERATED programs are evaluated by Coq (vm_compute) on every op sequence of the tie, "
    "against the real containers; Model/HistorySrc.v: the meaning of the program language (exec, run_lstmts, step_gen, rstep_gen)",
    "copy.deepcopy, numpy object arrays (np.full, np.append, item assignment), dict and MutableMapping are modelled, not verified: deepcopy = fresh identity for every mutable object, memo-shared inside one call, immutable objects returned as they are",
    "values are atomic in the model (content + identity); the harness checks deep copies behaviourally by changing the innermost containers of every source in place",
    "what the loop records (which points, which values) is NOT decided by the container theorems: run-level clauses are decided by the skeleton theorems added by the lead and, here, checked on real runs by harness/run_history.py (monitor)",
    "the key lists of the model (result_keys, set_attributes_keys) are compared on every run with OptimizeResult._keys and with the assignments found in the source of set_attributes (ast)",
    "translate/final.py regenerates the tail of optimize() and the (key, source expression) list of OptimizeResult.set_attributes on every run (gen/Src_final.v, fail-closed); validated each run: "
    "the generated list against the real OptimizeResult on generated optimiser states, the generated selection / re-sampling definitions by Coq on every recorded end-game (harness/comp_final.py)",
]
ASSUMPTIONS = [
    "h[k] = v is exercised with v in {None, 1-D object array, unsized scalar}; other objects (lists, strings, float arrays) make record() behave as numpy dictates and are outside the model",
    "attribute reads of OptimizeResult use names that are not dict methods",
    "run level: single-threaded use; the target returns finite values",
]


# ----------------------------------------------------------------------------- component level

def _history_nontrivial(ops):
    return any(o["op"] in ("mutate_src", "mutate_at", "record_from") or (o["op"] == "record" and o["i"] != 0) for o in ops)


def tie_source(ctx, broken, name, tag, case_ty, ok_fun, cases, bad_model, describe, first_bad, shard):
    """translator validation: the programs GENERATED from the source, evaluated by Coq on the same literals as the hand-written model"""
    ob = "correspondence:" + name
    if not TH.generated_ok():
        ctx.oblige(ob, "correspondence", False, "no generated program: " + str(TH.LAST.get("error"))[:300])
        broken.append((ob, "coq/gen/Src_history.v holds no definition (the source is not translatable): " + str(TH.LAST.get("error"))[:300]))
        return
    okc, bad, log = core.run_cases(tag, H.SRC_REQUIRES, case_ty, ok_fun, cases, shard=shard)
    ctx.coverage[name + "_cases"] = len(cases)
    if ctx.oblige(ob, "correspondence", okc and not bad,
                  f"{len(bad)} of {len(cases)} op sequences differ from the programs generated from the source; " + log[-400:]):
        return
    if not okc:
        broken.append((ob, "the generated programs could not be evaluated: " + log[-400:]))
        return
    i = bad[0]
    where = core.coq_show(tag + "_where", H.SRC_REQUIRES, f"{first_bad} {cases[i]}")
    if bad_model is not None and i not in bad_model:
        what = "TRANSLATOR fault: the hand-written model agrees with the real container, the generated program does not"
    else:
        what = "the source has changed: the generated program and the hand-written model both differ from the real container" if bad_model else \
               "the generated program differs from the real container"
    broken.append((ob, f"{what} (sequence {i}, first differing op {where}): {describe(i)}"))


def tie_history(ctx, broken, n):
    seqs, cases, nviol = [], [], 0
    dist = {}
    for i in range(n):
        keys, ops = H.gen_history_sequence(ctx.rng, i)
        run = H.run_history(keys, ops)
        seqs.append((keys, ops, run))
        cases.append(H.coq_history_case(keys, run))
        for o in ops:
            tag = o["op"]
            if tag == "record":
                tag += ":neg" if o["i"] < 0 else (":unknown-key" if o["k"] in H.UNKNOWN_KEYS else "")
            dist[tag] = dist.get(tag, 0) + 1
    seen = set()
    for keys, ops, run in seqs:
        k = json.dumps([keys, ops], sort_keys=True)
        if k not in seen:
            seen.add(k)
            ctx.count(len(run["tops"]), 1 if _history_nontrivial(ops) else 0)
    ctx.coverage["history_op_distribution"] = dist
    ctx.sample(dict(kind="history_sequence", keys=seqs[2][0], ops=seqs[2][1][:6], final=seqs[2][2]["final"]))
    okc, bad, log = core.run_cases("C19h", H.REQUIRES, H.HIST_CASE_TY, H.HIST_OK, cases, shard=max(20, n // 12))
    good = ctx.oblige("correspondence:iteration_history", "correspondence", okc and not bad,
                      f"{len(bad)} of {len(cases)} op sequences differ from the model; " + log[-400:])
    tie_source(ctx, broken, "history_source", "C19hs", H.HIST_CASE_TY, H.HIST_OK_SRC, cases, bad if okc else None,
               lambda i: f"keys={seqs[i][0]} ops={seqs[i][1][:14]}", "history_first_bad_gen src_history", max(20, n // 12))
    # the monitor ran on every sequence
    for keys, ops, run in seqs:
        if run["viol"]:
            small = H.shrink(ops, lambda c: bool(H.run_history(keys, [dict(o) for o in c])["viol"]))
            v = H.run_history(keys, [dict(o) for o in small])["viol"] or run["viol"]
            ctx.violate(v[0][0], f"IterationHistory: {v[0][1]} (op {v[0][2]} of the replay)",
                        dict(kind="history_sequence", keys=keys, ops=small))
            break
    if not good:
        if not any(v["replay"].get("kind") == "history_sequence" for v in ctx.violations):
            i = bad[0] if bad else 0
            keys, ops, run = seqs[i]
            where = core.coq_show("C19h_where", H.REQUIRES, f"history_first_bad {cases[i]}") if bad else log[-300:]
            broken.append(("correspondence:iteration_history",
                           f"model and IterationHistory differ on sequence {i} (first differing op: {where}): keys={keys} ops={ops[:14]}"))
        else:
            broken.append(("correspondence:iteration_history", "model and IterationHistory differ (concrete input found)"))
    return len(cases) - len(bad)


def tie_result(ctx, broken, n):
    seqs, cases = [], []
    dist = {}
    for i in range(n):
        ops = H.gen_result_sequence(ctx.rng, i)
        run = H.run_result(ops)
        seqs.append((ops, run))
        cases.append(H.coq_result_case(run))
        for o in ops:
            dist[o["op"]] = dist.get(o["op"], 0) + 1
    seen = set()
    for ops, run in seqs:
        k = json.dumps(ops, sort_keys=True)
        if k not in seen:
            seen.add(k)
            ctx.count(len(run["tops"]), 1 if any(o["op"] in ("mutate_src", "mutate_at", "set_from") for o in ops) else 0)
    ctx.coverage["result_op_distribution"] = dist
    okc, bad, log = core.run_cases("C19r", H.REQUIRES, H.RES_CASE_TY, H.RES_OK, cases, shard=max(20, n // 12))
    good = ctx.oblige("correspondence:optimize_result", "correspondence", okc and not bad,
                      f"{len(bad)} of {len(cases)} op sequences differ from the model; " + log[-400:])
    tie_source(ctx, broken, "result_source", "C19rs", H.RES_CASE_TY, H.RES_OK_SRC, cases, bad if okc else None,
               lambda i: f"ops={seqs[i][0][:14]}", "result_first_bad_gen src_result", max(20, n // 12))
    for ops, run in seqs:
        if run["viol"]:
            small = H.shrink(ops, lambda c: bool(H.run_result([dict(o) for o in c])["viol"]))
            v = H.run_result([dict(o) for o in small])["viol"] or run["viol"]
            ctx.violate(v[0][0], f"OptimizeResult: {v[0][1]} (op {v[0][2]} of the replay)",
                        dict(kind="result_sequence", ops=small))
            break
    if not good:
        if not any(v["replay"].get("kind") == "result_sequence" for v in ctx.violations):
            i = bad[0] if bad else 0
            where = core.coq_show("C19r_where", H.REQUIRES, f"result_first_bad {cases[i]}") if bad else log[-300:]
            broken.append(("correspondence:optimize_result",
                           f"model and OptimizeResult differ on sequence {i} (first differing op: {where}): ops={seqs[i][0][:14]}"))
        else:
            broken.append(("correspondence:optimize_result", "model and OptimizeResult differ (concrete input found)"))
    # the two key lists of the model against the current source
    decl, assigned = H.result_keys_real(), H.set_attributes_keys_from_source()
    okk, badk, logk = core.run_cases("C19k", H.REQUIRES, "val * val", "keylists_ok",
                                     [f"({core.cval(decl)}, {core.cval(assigned)})"])
    if not ctx.oblige("correspondence:result_key_lists", "correspondence", okk and not badk,
                      f"_keys={decl} set_attributes assigns={assigned} " + logk[-200:]):
        broken.append(("correspondence:result_key_lists",
                       f"OptimizeResult._keys / the keys assigned by set_attributes no longer match the model "
                       f"(C19_result_fields_readable is about the model's lists): "
                       f"_keys={decl}, assigned={assigned}"))
    return len(cases) - len(bad)


# ----------------------------------------------------------------------------- run level

def tie_runs(ctx, broken):
    cfgs = [dict(R.WITNESS_SWAP)] + R.gen_configs(ctx.rng, ctx.quick)
    t0 = time.time()
    recs = R.run_many(cfgs, procs=14)
    ctx.coverage["run_wall_s"] = round(time.time() - t0, 1)
    done = [r for r in recs if not r["crash"]]
    crashed = [r for r in recs if r["crash"]]
    for r in crashed[:5]:
        ctx.notes.append("run aborted (outside C19; not counted): cfg=%s :: %s" % (r["cfg"], r["crash"].strip().splitlines()[-1][:160]))
    need = 7 if ctx.quick else 30
    if not ctx.oblige("runs:completed", "correspondence", len(done) >= need,
                      f"{len(done)} of {len(recs)} real BADS runs completed (need {need})"):
        broken.append(("runs:completed", f"only {len(done)} of {len(recs)} BADS runs completed: "
                       + (crashed[0]["crash"][-300:] if crashed else "")))
    ctx.coverage["runs"] = [dict(D=r["cfg"]["D"], mode=r["cfg"]["mode"], nfs=r["cfg"]["nfs"], budget=r["cfg"]["budget"],
                                 sigma=r["cfg"]["sigma"], log=bool(r["cfg"].get("logcoord")), unbounded=bool(r["cfg"].get("unbounded")),
                                 cons=bool(r["cfg"].get("cons")), calls=len(r["calls"]),
                                 rows=len(r["hist_final"]["u"] or []), record_calls=len(r["records"]),
                                 loop_iterations=len(r["probes"]), swaps=len(R.swap_report(r)), again=r["again"])
                            for r in done]
    # (1) the container model fed with the record() calls of each run reproduces the final arrays
    cases, owners = [], []
    for r in done:
        c = R.coq_run_case(r)
        if c:
            cases.append(c)
            owners.append(r)
            ctx.count(len(r["records"]), 1 if len(r["hist_final"]["u"] or []) >= 3 else 0)
    okc, bad, log = core.run_cases("C19run", H.REQUIRES, H.HIST_CASE_TY, H.HIST_OK, cases, shard=1)
    ctx.coverage["traces_validated_against_impl"] = len(cases) - len(bad)
    if not ctx.oblige("correspondence:history_of_real_runs", "correspondence", okc and not bad,
                      f"{len(bad)} of {len(cases)} runs: final history arrays differ from the model fed with the same record() calls; " + log[-300:]):
        cfg = owners[bad[0]]["cfg"] if bad else None
        broken.append(("correspondence:history_of_real_runs",
                       f"the history arrays at the end of a real run are not what its record() calls wrote (cfg={cfg})"))
    if done:
        r = done[min(2, len(done) - 1)]
        ctx.sample(dict(kind="run", cfg=r["cfg"], rows=len(r["hist_final"]["u"] or []),
                        first_records=[[k, it] for k, _, _, it, _ in r["records"][:12]],
                        result={k: r["result"][k] for k in ("func_count", "iterations", "target_type", "problem_type", "mesh_size")}))
    # (2) the monitor: every clause, every loop iteration
    seen_keys = {}
    for r in done:
        for key, msg in R.monitor(r):
            seen_keys.setdefault(key, []).append((msg, r["cfg"]))
    for key, items in seen_keys.items():
        msg, cfg = items[0]
        extra = f" [{len(items)} occurrences in {len({json.dumps(c, sort_keys=True) for _, c in items})} of {len(done)} runs]"
        if key in R.STRICT_KEYS:
            continue
        ctx.violate(key, msg + extra, dict(kind="run", cfg=cfg))
    # clauses stricter than the text: an observation tied to the run, never a violation by itself
    for key in sorted(R.STRICT_KEYS):
        items = seen_keys.get(key, [])
        ok = ctx.oblige("observation:" + key, "correspondence", not items,
                        (items[0][0] + f" [{len(items)} occurrences]") if items else "holds on every run, every loop iteration")
        if not ok:
            broken.append(("observation:" + key,
                           "a consistency fact of the unchanged code (stricter than the property's text) no longer holds on real runs: "
                           + items[0][0] + f" [{len(items)} occurrences]; cfg={items[0][1]}"))
    aliases = [(r["cfg"]["mode"], r["hist_alias"]) for r in done if r["hist_alias"]]
    if aliases:
        ctx.notes.append("observation (not a violation): after the final noisy selection bads.u IS the history cell "
                         "(self.u = iteration_history['u'][idx], a reference): %d runs, e.g. %s" % (len(aliases), aliases[0]))
    sw = sum(len(R.swap_report(r)) for r in done)
    ctx.coverage["noisy_swaps_observed"] = sw
    ctx.coverage["noisy_swap_violations"] = len(seen_keys.get("noisy-swap-loses-point", []))


def tie(ctx, broken):
    nh, nr = (400, 250) if ctx.quick else (4000, 2500)
    tie_history(ctx, broken, nh)
    tie_result(ctx, broken, nr)
    tie_runs(ctx, broken)
    # run-level theorems of Props/C19run.v are about the skeleton model: tie it (with the noisy side conditions) on
    # the same kind of panel the C05 check uses (traces are shared through the cache)
    from harness import runlevel as R
    from props import C05
    out = R.tie_skeleton(ctx, broken, [(s, None) for s in C05.specs_for(ctx)], "c19", extra_valid="noisy")
    from harness import comp_final as F
    F.tie_final(ctx, broken, out, "c19")          # gen/Src_final.v on every recorded end-game (translator validation)
    F.tie_result_assembly(ctx, broken)            # the generated (key, source) list vs the real OptimizeResult
    F.apply_mon_final(ctx, out, broken)


def search(ctx, broken):
    from harness import comp_final as F
    if F.search_final(ctx, broken, [], c19=True):
        return True
    tags = TH.regions_to_search()
    if tags or any(n.startswith(("translate:history", "correspondence:history_source", "correspondence:result_source", "coq_build")) for n, _ in broken):
        ctx.coverage["aimed_search"] = tags or ["any"]
        for i in range(3000):
            keys, ops = H.gen_aimed_history(ctx.rng, i, tags or ["any"])
            run = H.run_history(keys, ops)
            if run["viol"]:
                small = H.shrink(ops, lambda c: bool(H.run_history(keys, [dict(o) for o in c])["viol"]))
                v = H.run_history(keys, [dict(o) for o in small])["viol"] or run["viol"]
                ctx.violate(v[0][0], f"IterationHistory: {v[0][1]} (aimed at {tags or ['any']})", dict(kind="history_sequence", keys=keys, ops=small))
                return True
    for i in range(4000):
        keys, ops = H.gen_history_sequence(ctx.rng, i)
        run = H.run_history(keys, ops)
        if run["viol"]:
            small = H.shrink(ops, lambda c: bool(H.run_history(keys, [dict(o) for o in c])["viol"]))
            v = H.run_history(keys, [dict(o) for o in small])["viol"] or run["viol"]
            ctx.violate(v[0][0], f"IterationHistory: {v[0][1]}", dict(kind="history_sequence", keys=keys, ops=small))
            return True
        ops = H.gen_result_sequence(ctx.rng, i)
        run = H.run_result(ops)
        if run["viol"]:
            small = H.shrink(ops, lambda c: bool(H.run_result([dict(o) for o in c])["viol"]))
            v = H.run_result([dict(o) for o in small])["viol"] or run["viol"]
            ctx.violate(v[0][0], f"OptimizeResult: {v[0][1]}", dict(kind="result_sequence", ops=small))
            return True
    return False


def replay(ctx, rp):
    r = rp["replay"]
    kind = r.get("kind")
    if kind == "history_sequence":
        run = H.run_history(r["keys"], [dict(o) for o in r["ops"]])
        for v in run["viol"]:
            print("replay:", v)
        print("final state:", run["final"])
        if not run["viol"]:
            print("replay: property holds on this input now")
        return 1 if run["viol"] else 0
    if kind == "result_sequence":
        run = H.run_result([dict(o) for o in r["ops"]])
        for v in run["viol"]:
            print("replay:", v)
        if not run["viol"]:
            print("replay: property holds on this input now")
        return 1 if run["viol"] else 0
    if kind == "run" and "spec" in r:
        from harness import comp_final as F, runlevel as RL
        return RL.generic_replay(ctx, rp, [F.mon_final_property("C19")])
    if kind == "run":
        rec = R.run_one(r["cfg"])
        if rec["crash"]:
            print("replay: run aborted:", rec["crash"][-600:])
            return 1
        v = R.monitor(rec)
        want = rp.get("key")
        hit = [m for k, m in v if k == want] or [m for k, m in v]
        for m in hit[:6]:
            print("replay:", m)
        print("swaps (loop_iter, poll_iteration, row swapped in, incumbent point is that row's point, finished):", R.swap_report(rec))
        if not hit:
            print("replay: property holds on this input now")
        return 1 if hit else 0
    print("replay: nothing to re-run for", r)
    return 1
