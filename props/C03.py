"""C03 — optimize() terminates within the evaluation budget and counts honestly."""
from harness import runlevel as R, skel as S

PROPS = "Props/C03.v"
THEOREMS = ["C03_terminates", "C03_budget", "C03_maxiter", "C03_func_count_exact", "C03_msg_truthful", "C03_finished_is_final"]
LEVEL = "proof"
RULE = ("real BADS runs over a panel (D 1-4; deterministic/auto/declared/specified noise; boxes sym/tight/log/unbounded/mixed; "
        "constraints; budgets from the design size up; max_iter 1-5; tol_mesh large; complete_poll; accelerate_mesh) recorded at the seams "
        "and compared, loop iteration by loop iteration, with the skeleton model; non-trivial = a run with >= 1 search and >= 1 poll")
TRUSTED = ["Coq 8.16.1 kernel + vm_compute", "hand-written model Model/Skeleton.v of BADS.optimize(), tied per loop iteration to real runs through the guarded probe (PYBADS_VERIF=1) and outside wrappers (harness/trace.py, harness/skel.py)",
           "the oracle abstraction: GP/ES/target answers are universally quantified in the theorems; liveness of the opaque engines themselves (a GP fit that never returns) is not modelled",
           "integer-valued search_n_try / max_iter / max_fun_evals (non-integer user values are outside the model)"]
ASSUMPTIONS = ["max_iter >= 1; options are integer valued where the code compares them with ==; the target and the GP engine return"]


def specs_for(ctx):
    specs = S.panel(ctx.tier, ctx.seed)
    extra = [
        dict(D=2, target="sphere", box="sym", noise="det", options=dict(max_fun_evals=8, ), seed=ctx.seed * 10 + 1),
        dict(D=2, target="sphere", box="sym", noise="det", options=dict(max_fun_evals=25, max_iter=1), seed=ctx.seed * 10 + 2),
        dict(D=3, target="abs", box="sym", noise="det", options=dict(max_fun_evals=45, max_iter=2, complete_poll=True), seed=ctx.seed * 10 + 3),
        dict(D=2, target="sphere", box="sym", noise="det", options=dict(max_fun_evals=200, tol_mesh=0.05), seed=ctx.seed * 10 + 4),
        dict(D=2, target="sphere", box="sym", noise="declared", sigma=0.4, options=dict(max_fun_evals=45, noise_final_samples=10), seed=ctx.seed * 10 + 5),
        dict(D=1, target="sphere", box="sym", noise="det", options=dict(max_fun_evals=30, search_n_try=1), seed=ctx.seed * 10 + 6),
    ]
    return specs + extra + S.panel_nondefault(ctx.seed)


def tie(ctx, broken):
    out = R.tie_skeleton(ctx, broken, [(s, None) for s in specs_for(ctx)], "c03")
    R.count_runs(ctx, out, lambda tr, P: P is not None and any(e[0] == "search_begin" for e in tr["events"]) and any(e[0] == "poll_begin" for e in tr["events"]))
    R.apply_monitor(ctx, out, R.mon_c03)


def search(ctx, broken):
    if R.truncate_search(ctx, R.mon_c03):
        return True
    specs = S.panel("thorough", ctx.seed + 17)[:40]
    out = [(tr, None) for tr in S.traces([(s, None) for s in specs], "c03s")]
    return R.apply_monitor(ctx, out, R.mon_c03) > 0


def replay(ctx, rp):
    return R.generic_replay(ctx, rp, [R.mon_c03])
