"""C03 — optimize() terminates within the evaluation budget and counts honestly."""
from harness import budget as B, comp_final as F, comp_loop as L, runlevel as R, skel as S

PROPS = ["Props/C03.v", "Props/C03budget.v", "Props/C13hist.v", "Props/C13loop.v", "Props/C05final.v"]
THEOREMS = ["C03_terminates", "C03_budget", "C03_maxiter", "C03_func_count_exact", "C03_msg_truthful", "C03_finished_is_final",
            "C03_budget_model_is_source", "C03_skeleton_reads_the_budget", "C03_total_calls_within_user_budget", "C03_reserve_exact",
            "C03_det_reserves_nothing", "C03_noise_level_rule", "C03_design_size_bounds", "C03_budget_sufficient_det",
            "C03_budget_sufficient_noisy", "C03_budget_message_in_user_terms", "C05_resampling_spends_the_reserve",
            "C03_design_exceeds_budget_refuted", "C03_negative_nfs_exceeds_budget_refuted", "C03_budget_message_unspent_reserve_refuted",
            "C03_stall_message_in_history_terms",
            # Props/C13loop.v: the termination tests / the whole loop iteration of Model/Skeleton.v equal gen/Src_loop.v (regenerated from optimize())
            "C03_termination_is_source", "C03_loop_iteration_is_source", "C13_poll_loop_is_source",
            # Props/C05final.v: the number of logger calls AFTER the loop, read from gen/Src_final.v (regenerated from the tail of optimize())
            "C03_final_calls_bounded_is_source", "C05_final_samples_not_recorded"]
TRANSLATORS = ["budget", "loop", "final"]
LEVEL = "proof"
RULE = ("real BADS runs over a panel (D 1-4; deterministic/auto/declared/specified noise; boxes sym/tight/log/unbounded/mixed; "
        "constraints; budgets from the design size up; max_iter 1-5; tol_mesh large; complete_poll; accelerate_mesh) recorded at the seams "
        "and compared, loop iteration by loop iteration, with the skeleton model; non-trivial = a run with >= 1 search and >= 1 poll. "
        "Budget end to end: (a) the arithmetic of _init_mesh_ / init_sobol / _init_optimization_ / the loop's readers regenerated from the source "
        "(translate/budget.py) and proved equal to Model/Budget.v; (b) real _init_optimization_ (GP trainer stubbed) on generated user options "
        "(budgets around the design sizes, powers of two and the 20/21/33/34 thresholds; every noise mode; constraints and tight boxes that make the "
        "filter drop design rows; budget 0/1/negative, fun_eval_start 0, negative noise_final_samples) vs the model and vs the translated IR; "
        "(c) for every run of the panel the recorded (initial calls, record flags, design rows, level, fun_eval_start, loop budget, reserve, "
        "tol_stall_iters) vs the model, and equal to the values the skeleton tie uses; tight stochastic budgets (design = budget, reserve clamped, "
        "reserve 0, run stopped by the budget inside a poll) are part of the panel")
TRUSTED = ["Coq 8.16.1 kernel + vm_compute", "hand-written model Model/Skeleton.v of BADS.optimize(), tied per loop iteration to real runs through the guarded probe (PYBADS_VERIF=1) and outside wrappers (harness/trace.py, harness/skel.py)",
           "the oracle abstraction: GP/ES/target answers are universally quantified in the theorems; liveness of the opaque engines themselves (a GP fit that never returns) is not modelled",
           "integer-valued search_n_try / max_iter / max_fun_evals / fun_eval_start / noise_final_samples (non-integer user values are outside the model)",
           "translate/budget.py (fail-closed ast whitelist over bads.py and init_sobol.py; validated on every run: its IR composed in Python against the real _init_optimization_, "
           "the log2 expression evaluated by NumPy against Z.log2_up on -3..3000 and 2^k-1,2^k,2^k+1 up to 2^48+1)",
           "SciPy Sobol.random_base2(m) returns 2^m rows; contraints_check only removes rows (its output size is an oracle input, 0 <= survivors <= rows is checked on every recorded call)",
           "translate/loop.py regenerates the decision logic of optimize() / _search_step_ / _poll_step_ on every run (gen/Src_loop.v; fail-closed ast whitelist, writer and call-site census over the package); validated each run: the generated definitions evaluated by Coq on every recorded loop iteration of this panel (harness/comp_loop.py)",
           "translate/final.py regenerates the tail of optimize() on every run (gen/Src_final.v; fail-closed: exactly one logger call site after the loop, inside `for i in range(<count>)` under the two generated guards); "
           "validated each run: the generated call count evaluated by Coq on every recorded end-game of this panel (harness/comp_final.py)",
           "the component tie stubs pybads.bads.bads.init_and_train_gp from outside (the GP trainer does not touch the budget; the run-level tie uses the unstubbed code)"]
ASSUMPTIONS = ["max_iter >= 1; options are integer valued where the code compares them with ==; the target and the GP engine return",
               "the capped fun_eval_start is at most 2^48 (int(np.ceil(np.log2(x))) = Z.log2_up x fails from x = 2^49+1 on: binary64 log2 rounds down; a design of that size cannot be evaluated)",
               "C03_total_calls_within_user_budget: the user's max_fun_evals is at least the number of initial calls (the property's own precondition) and noise_final_samples >= 0"]
EXPLANATION = ("Outside the precondition (witnesses replayed on the real code on every run): the initial design is NOT capped by max_fun_evals - 1 "
               "(the cap is applied before rounding up to a power of two: declared noise, max_fun_evals=25 -> 33 initial calls, reserve -8, loop budget 33); "
               "a negative noise_final_samples is accepted and added to the loop budget (max_fun_evals=40, noise_final_samples=-10 -> 50 calls). "
               "Known finding (message clause): a stochastic run stopped by the budget before its first poll iteration completes reports "
               "'reached max_fun_evals' with fewer calls than max_fun_evals - the reserve is never spent.")

_W = dict(D=2, target="sphere", box="sym", noise="declared", sigma=0.3)
W_DESIGN = dict(_W, options=dict(max_fun_evals=25), seed=3)
W_NEGNFS = dict(_W, options=dict(max_fun_evals=40, noise_final_samples=-10), seed=3)
W_MSG = dict(_W, options=dict(max_fun_evals=36), seed=3)
# inputs of the Coq witnesses wit_design / wit_negnfs / wit_msg (Proofs/BudgetProofs.v)
W_INPUTS = {"design": dict(D=2, mfe=25, fes=2, nfs=10, stall=5, level0=1, differ=False, survive=32),
            "negnfs": dict(D=2, mfe=40, fes=2, nfs=-10, stall=5, level0=1, differ=False, survive=32),
            "msg": dict(D=2, mfe=36, fes=2, nfs=10, stall=5, level0=1, differ=False, survive=32)}


def budget_specs(seed):
    """stochastic / deterministic runs whose budget squeezes the initial design and the reserve"""
    sd = seed * 10
    return [
        dict(D=2, target="sphere", box="sym", noise="declared", sigma=0.3, options=dict(max_fun_evals=33), seed=sd + 21),                       # design = budget, reserve 0
        dict(D=2, target="sphere", box="sym", noise="auto", sigma=0.3, options=dict(max_fun_evals=37), seed=sd + 22),                           # reserve clamped to 3
        dict(D=2, target="abs", box="sym", noise="declared", sigma=0.3, options=dict(max_fun_evals=52, noise_final_samples=4), seed=sd + 23),   # stopped by the budget, re-sampling runs
        dict(D=3, target="sphere", box="sym", noise="specified", sigma=0.3, options=dict(max_fun_evals=60, noise_final_samples=6), seed=sd + 24),
        dict(D=2, target="sphere", box="sym", noise="declared", sigma=0.3, cons="ball", options=dict(max_fun_evals=48, noise_final_samples=5, fun_eval_start=9), seed=sd + 25),
        dict(D=2, target="sphere", box="sym", noise="det", options=dict(max_fun_evals=6), seed=sd + 26),                                        # design = budget (D power of two: 4 rows)
        dict(D=4, target="sphere", box="sym", noise="det", options=dict(max_fun_evals=30, fun_eval_start=9), seed=sd + 27),                     # 16 rows
        dict(D=3, target="abs", box="sym", noise="det", options=dict(max_fun_evals=24, fun_eval_start=0), seed=sd + 28),                        # no design
        dict(D=1, target="abs", box="sym", noise="declared", sigma=0.2, options=dict(max_fun_evals=50, noise_final_samples=10), seed=sd + 29),
    ]


def specs_for(ctx):
    specs = S.panel(ctx.tier, ctx.seed)
    extra = [
        dict(D=2, target="sphere", box="sym", noise="det", options=dict(max_fun_evals=8, ), seed=ctx.seed * 10 + 1),
        dict(D=2, target="sphere", box="sym", noise="det", options=dict(max_fun_evals=25, max_iter=1), seed=ctx.seed * 10 + 2),
        dict(D=3, target="abs", box="sym", noise="det", options=dict(max_fun_evals=45, max_iter=2, complete_poll=True), seed=ctx.seed * 10 + 3),
        dict(D=2, target="sphere", box="sym", noise="det", options=dict(max_fun_evals=200, tol_mesh=0.05), seed=ctx.seed * 10 + 4),
        dict(D=2, target="sphere", box="sym", noise="declared", sigma=0.4, options=dict(max_fun_evals=45, noise_final_samples=10), seed=ctx.seed * 10 + 5),
        dict(D=1, target="sphere", box="sym", noise="det", options=dict(max_fun_evals=30, search_n_try=1), seed=ctx.seed * 10 + 6),
        # a passive output_fcn (returns False): observing a run must not change when it stops
        dict(D=2, target="sphere", box="sym", noise="det", output_fcn="passive", options=dict(max_fun_evals=46), seed=ctx.seed * 10 + 9),
        dict(D=2, target="rosen", box="sym", noise="det", output_fcn="passive", options=dict(max_fun_evals=45, search_n_try=1, max_iter=6), seed=ctx.seed * 10 + 10),
        dict(D=2, target="sphere", box="sym", noise="declared", sigma=0.3, output_fcn="passive", options=dict(max_fun_evals=60, noise_final_samples=2), seed=ctx.seed * 10 + 11),
        # stochastic targets started AT the optimum: nothing improves, so the run is stopped by the stall rule, whose window is doubled for them
        dict(D=2, target="sphere", box="sym", noise="declared", sigma=0.3, x0="atopt", options=dict(max_fun_evals=150, noise_final_samples=2), seed=ctx.seed * 10 + 7),
        dict(D=2, target="sphere", box="sym", noise="specified", sigma=0.2, x0="atopt", options=dict(max_fun_evals=150, noise_final_samples=2), seed=ctx.seed * 10 + 8),
    ]
    return specs + extra + S.panel_nondefault(ctx.seed) + budget_specs(ctx.seed) + [W_DESIGN, W_NEGNFS, W_MSG]


def witnesses(ctx, broken, out):
    """replay the three refutation witnesses on the real code (they are part of the panel, hence also compared with both models)"""
    by = {repr(tr["spec"]): tr for tr, _ in out if "spec" in tr}
    res = {}
    for name, spec in (("design", W_DESIGN), ("negnfs", W_NEGNFS), ("msg", W_MSG)):
        tr = by.get(repr(spec))
        o = B.obs_of_trace(tr) if tr is not None and "harness_exc" not in tr and "construct_exc" not in tr else None
        if o is None or "result" not in tr:
            res[name] = (False, "witness run did not complete: %r" % ((tr or {}).get("exc"),))
            continue
        i, a, n = B.inputs_of(o), o["after"], len(tr["calls"])
        if i != W_INPUTS[name]:
            res[name] = (False, f"the real run's inputs {i} are not the Coq witness {W_INPUTS[name]}")
        elif name == "design":
            res[name] = (o["calls"] == 33 and a["noise_final_samples"] == -8 and a["max_fun_evals"] == 33 and n == 33,
                         f"initial calls {o['calls']}, reserve {a['noise_final_samples']}, loop budget {a['max_fun_evals']}, total {n}")
        elif name == "negnfs":
            res[name] = (o["calls"] == 33 and a["max_fun_evals"] == 50 and n > 40, f"loop budget {a['max_fun_evals']}, total calls {n} for max_fun_evals=40")
        else:
            res[name] = (o["calls"] == 33 and a["noise_final_samples"] == 3 and tr["result"]["msg_id"] == 1 and n == 33 and tr["result"]["func_count"] == 33,
                         f"reserve {a['noise_final_samples']}, message id {tr['result']['msg_id']}, total calls {n} for max_fun_evals=36")
    for name, (ok, detail) in res.items():
        if not ctx.oblige(f"witness:{name}", "refutation", ok, detail):
            broken.append((f"witness:{name}", f"refutation witness no longer reproduces on the real code (model no longer faithful): {detail}"))


def tie(ctx, broken):
    out = R.tie_skeleton(ctx, broken, [(s, None) for s in specs_for(ctx)], "c03")
    R.count_runs(ctx, out, lambda tr, P: P is not None and any(e[0] == "search_begin" for e in tr["events"]) and any(e[0] == "poll_begin" for e in tr["events"]))
    R.apply_monitor(ctx, out, R.mon_c03)
    R.apply_monitor(ctx, out, R.mon_c03_unspent)          # open known finding, reported separately so that it hides nothing
    L.tie_loop(ctx, broken, out, "c03")                 # gen/Src_loop.v on every recorded iteration (translator validation)
    L.apply_mon_loop(ctx, out, broken)
    F.tie_final(ctx, broken, out, "c03")                # gen/Src_final.v on every recorded end-game (translator validation)
    F.apply_mon_final(ctx, out, broken)
    B.run_level_tie(ctx, broken, out, "c03")
    witnesses(ctx, broken, out)
    B.component_tie(ctx, broken, 300 if ctx.quick else 3000)


def search(ctx, broken):
    if L.search_loop(ctx, broken, [R.mon_c03, R.mon_c13]):
        return True
    if F.search_final(ctx, broken, [R.mon_c03]):
        return True
    if R.truncate_search(ctx, R.mon_c03):
        return True
    if B.search_init(ctx):
        return True
    sd = ctx.seed + 17
    tight = []
    for k, (D, noise, mfe, nfs) in enumerate([(2, "declared", 40, 10), (2, "auto", 44, 10), (2, "declared", 50, 3), (1, "declared", 42, 10), (3, "specified", 48, 10),
                                               (2, "declared", 56, 10), (2, "det", 12, 10), (3, "det", 20, 10), (2, "declared", 64, 2), (2, "auto", 60, 10)]):
        tight.append(dict(D=D, target="sphere", box="sym", noise=noise, sigma=0.3, options=dict(max_fun_evals=mfe, noise_final_samples=nfs), seed=sd * 10 + k))
    specs = tight + S.panel("thorough", sd)[:40]
    out = [(tr, None) for tr in S.traces([(s, None) for s in specs], "c03s")]
    return R.apply_monitor(ctx, out, R.mon_c03) > 0


def replay(ctx, rp):
    r = rp["replay"]
    if r.get("kind") == "init":
        return B.replay_init(r["spec"])
    return R.generic_replay(ctx, rp, [R.mon_c03, R.mon_c03_unspent, L.mon_loop_property("C03"), F.mon_final_property("C03")])
