"""C16 — numerical failure of a GP hyper-parameter fit never aborts the optimisation."""
import copy

from harness import run_faults as F
from vlib import core
from vlib.core import cz, cnat, cbool, clist, cstr

PROPS = ["Props/C16.v", "Props/C16src.v"]
THEOREMS = ["C16_lengths_aligned", "C16_lengths_refuted_without_repair", "C16_robust_fit_total", "C16_ten_faults_refuted",
            "C16_rows_exhausted_refuted", "C16_init_training_terminates", "C16_init_training_unbounded", "C16_update_fallback",
            "C16_retry_loop_is_source", "C16_drop_is_applied_to_all_three_is_source", "C16_init_retry_is_source", "C16_restart_is_source",
            "C16_slice_sampler_sees_aligned_set"]
TRANSLATORS = ["fitretry"]
LEVEL = "proof"
ALLOWED_AXIOMS = []
RULE = ("fault injection on REAL D=2 runs (max_fun_evals 45-70; deterministic, declared-noise, specified-noise): gpyreg.GP.fit wrapped from "
        "outside raises np.linalg.LinAlgError at chosen global invocation indices after doing what GP.fit does with its arguments "
        "(_convert_shapes + storing them); quick: every single k of three runs + runs of 2-4 consecutive faults at stratified starts + "
        "scattered pairs + posterior-update faults (~45 runs); thorough: every k, every run of 2,3,4 at every start, all scattered pairs, "
        "update faults, on 12 base runs (~600 runs), pool of 12.  Each faulted run must complete and pass the run monitors (hard box, "
        "budget, func_count = calls, deterministic: fval = min observed and x evaluated).  The lengths handed to every fit attempt and the "
        "value returned by every _robust_gp_fit_ call are compared with Model/FitRetry.v driven by the same fault pattern (drop counts "
        "taken from the recorded lengths).  non-trivial = controller session with at least one failed attempt")
TRUSTED = [
    "Coq 8.16.1 kernel + vm_compute (case evaluation); no native_compute",
    "translate/fitretry.py (fail-closed ast translator of _robust_gp_fit_ and of the `while not fitted` loop of init_and_train_gp -> "
    "gen/Src_fitretry.v; whitelist in its docstring) and the interpreter Model/FitRetrySrc.v: the generated program is proved equal to "
    "Model/FitRetry.v for all inputs (Props/C16src.v) and is itself evaluated on every recorded controller session of the fault-injected real "
    "runs (correspondence:fitretry_source).  Readings: NumPy boolean-mask indexing per row (length mismatch = IndexError); the mask's number "
    "of True entries is the model's oracle (at least one when a member of the closest pair is marked on both arms); statements of the handler "
    "that do not touch the lengths (new hyper-parameter start point, noise nudging) are compared as canonical text, not interpreted",
    "hand-written model Model/FitRetry.v of _robust_gp_fit_, the init_and_train_gp retry loop and the update fallback of local_gp_fitting, "
    "tied by comparing the recorded controller transitions of fault-injected real runs",
    "fault model: LinAlgError raised inside GP.fit after the arguments were reshaped and stored (as a failing Cholesky would); why a "
    "factorisation fails and whether resampled hyper-parameters succeed is gpyreg numerics (oracle)",
    "the hyper-parameter resampling / noise nudging inside the except-handlers is not modelled (observed not to raise on every injected fault)",
    "'all other guarantees hold for that run' is checked by run monitors on every faulted run, not by a theorem of this file",
]
ASSUMPTIONS = ["fewer than 10 consecutive faults inside one _robust_gp_fit_ call and a training set the drop step does not exhaust "
               "(premises of C16_robust_fit_total; the property's range is 1-4 consecutive faults)",
               "the initial-training loop has no attempt bound: termination needs 'some attempt eventually succeeds' (C16_init_training_unbounded)"]
EXPLANATION = ("Observations OUTSIDE the property's range (single faults, runs of 2-4, scattered), replayed on the real code on every run and "
               "reported in coverage.observations, deliberately NOT listed as findings: (a) 10 consecutive faults inside one refit -> "
               "UnboundLocalError ('res' unbound at the return; the intended success=-1 path is unreachable); (b) 6 consecutive faults on the "
               "5-row first refit of a deterministic run empty the training set -> ValueError (argmin of an empty sequence); (c) a second "
               "LinAlgError inside the posterior-update fallback handler (set_hyperparameters recomputes the posterior) is not caught; "
               "(d) the initial-training loop never ends under a permanently failing fit.  Decision: the property text bounds the claim by its "
               "quantifier (1-4 consecutive faults / scattered); ten-in-a-row is a persistent failure of every resampled start on successively "
               "reduced training sets, i.e. beyond 'several times in a row' as quantified, so it is an observation (with a one-line patch "
               "proposal: bind res = None before the loop), not a C16 violation.")

REQUIRES = ["PV.Model.Val", "PV.Model.FitRetry"]
REQUIRES_SRC = ["PV.Model.Val", "PV.Model.FitRetry", "PV.Model.FitRetrySrc", "PV.gen.Src_fitretry"]
OK_FUN_SRC = ("fun c => let '(rpat, nX, nY, s2, tmp, fl, dr) := fst c in let '(code, exc, tr) := snd c in "
              "rf_matches (run_robust src_robust rpat (nth_bool fl) (nth_nat dr) 0 nX nY s2 tmp) code exc tr")
CASE_TY = "(Z * nat * nat * s2len * option nat * list bool * list nat) * (option Z * string * list attempt)"
OK_FUN = ("fun c => let '(rpat, nX, nY, s2, tmp, fl, dr) := fst c in let '(code, exc, tr) := snd c in "
          "rf_matches (robust_fit true rpat (nth_bool fl) (nth_nat dr) 0 nX nY s2 tmp) code exc tr")
# (fault pattern, (fit invocations, the successful attempt started from the all-zero vector))
INIT_TY = "(list bool) * (nat * bool)"
INIT_MATCH = ("(fun (r : init_result) (e : nat * bool) => match r with IReturned n br => Nat.eqb n (fst e) && "
              "Bool.eqb (match br with BrZeros => true | _ => false end) (snd e) | _ => false end)")
INIT_OK = f"fun c => {INIT_MATCH} (init_training 1000 (nth_bool (fst c)) false 0) (snd c)"
INIT_OK_SRC = f"fun c => {INIT_MATCH} (run_init 1000 src_init (nth_bool (fst c)) false 0) (snd c)"


def c_s2(v):
    if v is None:
        return "S2None"
    if v == "scalar":
        return "S2Scalar"
    return f"(S2Arr {cnat(v)})"


def c_onat(v):
    return "None" if v is None else f"(Some {cnat(v)})"


def c_attempt(a):
    return f"(mkA {cnat(a['nX'])} {cnat(a['nY'])} {c_s2(a['s2'])} {c_onat(a['tmp'])})"


KNOWN_SLICE = "slice-sampler-after-drop"
KNOWN_NAN = "slice-sampler-nan-start"      # no Coq counterpart: it is about hyper-parameter VALUES, outside the lengths model
KNOWN_KEYS = (KNOWN_NAN,)      # open findings of the unchanged code the searches must not attribute to a change under test
# KNOWN_SLICE was repaired (known_findings.d/C16.json: fixed): its reappearance is an ordinary concrete violation


def violation_key(o, key, msg):
    """stable key of a run-monitor hit.  The known finding (also listed under C09 as optmatrix:use_slice_sampler): with use_slice_sampler=True the
    restart evaluates tmp_gp's objective after the drop step shrank tmp_gp.s2 but not tmp_gp.X / tmp_gp.y -> ValueError (broadcast)."""
    if key != "abort":
        return key
    c = o["cfg"]
    if (msg.startswith("ValueError") and "could not be broadcast" in msg and c.get("opts", {}).get("use_slice_sampler")
            and c["mode"] != "det" and "_get_samples_from_slice_sampler_" in (o.get("tb") or "")):
        return KNOWN_SLICE
    if (msg.startswith("ValueError") and "X0 needs to evaluate to a real number" in msg and c.get("opts", {}).get("use_slice_sampler")
            and "_get_samples_from_slice_sampler_" in (o.get("tb") or "")):
        return KNOWN_NAN
    return "abort:" + msg.split(":")[0]


def sessions_of(out):
    """[(session, attempts)] of one run."""
    res = []
    for s in out["sessions"]:
        att = [a for a in out["attempts"] if s["first_j"] <= a["j"] < s["first_j"] + s["n_attempts"]]
        res.append((s, att))
    return res


def robust_case(s, att):
    n = len(att)
    failed = [bool(a.get("raised", (i < n - 1) or ("exc" in s))) for i, a in enumerate(att)]   # LinAlgError seen at the seam (injected or real)
    drops = [att[i]["nX"] - att[i + 1]["nX"] if i < n - 1 else 1 for i in range(n)]
    drops = [max(d, 0) for d in drops]
    code = "None" if "exc" in s else f"(Some {cz(s['ret'])})"
    exc = cstr(s.get("exc", ""))
    return (f"(({cz(s['rpat'])}, {cnat(s['nX'])}, {cnat(s['nY'])}, {c_s2(s['s2'])}, {c_onat(s['tmp'])}, "
            f"{clist([cbool(b) for b in failed])}, {clist([cnat(d) for d in drops])}), "
            f"({code}, {exc}, {clist([c_attempt(a) for a in att])}))"), failed


def plan(ctx, bases):
    """Fault plans for each base run (K = fit invocations of the unfaulted run)."""
    cfgs = []

    def add(b, faults=(), upd=(), double=False, tag=""):
        c = copy.deepcopy(b["cfg"])
        c.update(faults=sorted(set(faults)), upd_faults=sorted(set(upd)), upd_double=double, tag=tag)
        cfgs.append(c)

    for bi, b in enumerate(bases):
        K, U = b["n_fit"], b["n_upd"]
        if ctx.quick:
            for k in range(K):
                add(b, [k], tag="single")
            for start, ln in [(0, 3), (0, 4), (1, 2), (1, 4), (2, 3), (max(K - 2, 1), 2)]:
                add(b, range(start, start + ln), tag=f"run{ln}")
            add(b, [1, 3], tag="scattered")
            add(b, [0, ctx.rng.randrange(2, K + 1)], tag="scattered")
            add(b, upd=[0], tag="update")
            add(b, upd=[ctx.rng.randrange(1, max(U, 2))], tag="update")
            if b["cfg"].get("target"):
                # tied values in the training set: the retry that drops the worst points must keep the rest
                for fl in ([1, 2], [2, 3], [1, 2, 3], [3, 4]):
                    add(b, fl, tag="ties")
            if bi == 0:
                # two non-default options together: the slice sampler proposes the retry's start point from TWO stored vectors
                for fl in ([1], [2], [1, 2], [3]):
                    c = copy.deepcopy(b["cfg"])
                    c.setdefault("opts", {}).update(double_refit=True, use_slice_sampler=True)
                    c.update(faults=fl, upd_faults=[], upd_double=False, tag="double_refit+slice")
                    cfgs.append(c)
                # the reporting branch of the retry handler (gp_warnings) with the one-element spelling of noise_nudge it supports
                for fl in ([1], [2], [1, 2]):
                    c = copy.deepcopy(b["cfg"])
                    c.setdefault("opts", {}).update(gp_warnings=True, noise_nudge=[1.0])
                    c.update(faults=fl, upd_faults=[], upd_double=False, tag="warnings+nudge1")
                    cfgs.append(c)
                for fl in ([1], [2, 3]):
                    c = copy.deepcopy(b["cfg"])
                    c.setdefault("opts", {}).update(use_slice_sampler=True)
                    c.update(faults=fl, upd_faults=[], upd_double=False, tag="slice")
                    cfgs.append(c)
            if bi in (0, 3):
                # the non-default double_refit=True: the GP holds TWO candidate hyper-parameter vectors when a refit fails
                for fl in ([1], [2], [1, 2], [3]):
                    c = copy.deepcopy(b["cfg"])
                    c.setdefault("opts", {})["double_refit"] = True
                    c.update(faults=fl, upd_faults=[], upd_double=False, tag="double_refit")
                    cfgs.append(c)
        else:
            for k in range(K + 1):
                add(b, [k], tag="single")
            for ln in (2, 3, 4):
                for start in range(K + 1):
                    add(b, range(start, start + ln), tag=f"run{ln}")
            for a in range(K):
                for c2 in range(a + 2, K + 2):
                    add(b, [a, c2], tag="scattered")
            for _ in range(3):
                add(b, ctx.rng.sample(range(K + 3), 3), tag="scattered3")
            for u in sorted(set([0, 1, U - 1] + [ctx.rng.randrange(U) for _ in range(5)])):
                if u >= 0:
                    add(b, upd=[u], tag="update")
            add(b, faults=[1], upd=[2], tag="fit+update")
    return cfgs


def tie(ctx, broken):
    base_cfgs = F.base_configs()
    if ctx.quick:
        base_cfgs = [c for c in base_cfgs if c["name"] in ("det-a", "decl-a", "spec-a", "det-clip", "det-const")]
    else:
        extra = []
        for i in range(7):
            mode = ["det", "decl", "spec", "det", "spec", "decl", "det"][i]
            extra.append(dict(name=f"{mode}-x{i}", mode=mode, seed=ctx.rng.randrange(1, 10000), budget=ctx.rng.choice([45, 55, 65, 70]), D=2))
        base_cfgs = base_cfgs + extra
    bases = F.run_pool([dict(c) for c in base_cfgs])
    for b in bases:
        if b["exc"] or b["violations"]:
            # an unfaulted run that fails is not a C16 matter: drop it from the panel, report
            ctx.notes.append(f"base run {b['cfg']['name']} unusable without any fault: {b['exc'] or b['violations']}")
    bases = [b for b in bases if not b["exc"] and not b["violations"]]
    if len(bases) < (3 if ctx.quick else 8):
        broken.append(("base-runs", "too few unfaulted base runs complete: " + "; ".join(ctx.notes)[-600:]))
    cfgs = plan(ctx, bases)
    outs = F.run_pool(cfgs, procs=12)

    stat = dict(faulted_runs=len(outs), completed=0, by_tag={}, by_mode={}, faults_delivered=0, update_faults_delivered=0,
                sessions=0, sessions_with_failures=0, drops=0, max_consecutive_failures=0, unrelated_crashes=0, real_linalg_errors=0)
    rob_cases, init_cases, case_src = [], [], []
    reported = set()
    for o in outs:
        c = o["cfg"]
        stat["by_tag"][c["tag"]] = stat["by_tag"].get(c["tag"], 0) + 1
        stat["by_mode"][c["mode"]] = stat["by_mode"].get(c["mode"], 0) + 1
        stat["completed"] += o["exc"] is None
        delivered = sum(1 for a in o["attempts"] if a["faulted"])
        stat["faults_delivered"] += delivered
        for key, msg in o["violations"]:
            if key == "unrelated-crash":
                stat["unrelated_crashes"] += 1
                ctx.notes.append(f"run {c['name']} faults={c['faults']}: aborted by an exception unrelated to fit failures "
                                 f"(merged repeat returns an array; reported separately): {msg[:160]}")
                continue
            k = violation_key(o, key, msg)
            if k in reported:
                continue
            reported.add(k)
            what = (f"{c['mode']} run (seed {c['seed']}, max_fun_evals {c['budget']}) with LinAlgError injected at fit invocations "
                    f"{c['faults']} / posterior updates {c['upd_faults']}: {msg}")
            ctx.violate(k, what, dict(kind="faulted_run", cfg=c, traceback=(o["tb"] or "")[-700:]))
        if c["upd_faults"] and o["exc"] is None:
            n2 = sum(1 for e in o["exit_flags"] if e == -2.0)
            want = len([u for u in c["upd_faults"] if u < o["n_upd"]])
            stat["update_faults_delivered"] += want
            if n2 != want:
                ctx.violate("update-fallback", f"{want} posterior-update faults injected but exit_flag = -2 returned {n2} times",
                            dict(kind="faulted_run", cfg=c))
        for a in o["attempts"]:
            if a["nX"] != a["nY"] or (isinstance(a["s2"], int) and a["s2"] != a["nX"]):
                if "lengths-misaligned" not in reported:
                    reported.add("lengths-misaligned")
                    ctx.violate("lengths-misaligned", f"{c['mode']} run (seed {c['seed']}, max_fun_evals {c['budget']}), faults at fit invocations "
                                f"{c['faults']}: fit invocation {a['j']} ({a['caller']}) received |X|={a['nX']} |y|={a['nY']} |s2|={a['s2']}",
                                dict(kind="faulted_run", cfg=c))
        for s, att in sessions_of(o):
            stat["sessions"] += 1
            if not att:
                continue
            if s["kind"] == "robust":
                lit, failed = robust_case(s, att)
                rob_cases.append(lit)
                case_src.append((c, s, att))
                nf = sum(failed)
                stat["sessions_with_failures"] += nf > 0
                stat["max_consecutive_failures"] = max(stat["max_consecutive_failures"], nf)
                stat["drops"] += sum(1 for i in range(len(att) - 1) if att[i + 1]["nX"] < att[i]["nX"])
                stat["real_linalg_errors"] += sum(1 for i, a in enumerate(att) if failed[i] and not a["faulted"])
                seen_key = (nf, s["s2"] is None)
                ctx.count(1, 1 if nf > 0 else 0)
            elif "exc" not in s:
                n = len(att)
                init_cases.append(f"({clist([cbool(a.get('raised', i < n - 1)) for i, a in enumerate(att)])}, "
                                  f"({cnat(n)}, {cbool(att[-1].get('start') == 'zeros')}))")
                stat["sessions_with_failures"] += n > 1
                ctx.count(1, 1 if n > 1 else 0)
                if len({(a['nX'], a['nY'], a['s2']) for a in att}) != 1:
                    ctx.violate("init-lengths", "init_and_train_gp retried with different training data", dict(kind="faulted_run", cfg=c))
    ctx.coverage["fault_injection"] = stat
    ctx.coverage["traces_validated_against_impl"] = stat["completed"]
    if outs:
        o = outs[min(len(outs) - 1, 9)]
        ctx.sample(dict(cfg=o["cfg"], result=o["result"], attempts=o["attempts"][:8],
                        sessions=[{k: v for k, v in s.items()} for s in o["sessions"]][:5]))
    okc, bad, log = core.run_cases("C16rob", REQUIRES, CASE_TY, OK_FUN, rob_cases, shard=max(50, len(rob_cases) // 12 + 1))
    bad_rob_model = list(bad) if okc else None
    if not ctx.oblige("correspondence:_robust_gp_fit_", "correspondence", okc and not bad,
                      f"{len(bad)} of {len(rob_cases)} recorded controller sessions differ from the model; " + log[-300:]):
        if bad:
            c, s, att = case_src[bad[0]]
            broken.append(("correspondence:_robust_gp_fit_", f"session differs from Model/FitRetry.v: cfg={c} session={s} attempts={att}"))
            if not any(v["concrete"] for v in ctx.violations):
                # a model-level restatement, not a clause of the property's text: never a CONCRETE violation (the search decides)
                ctx.violate("controller-differs", f"_robust_gp_fit_ in run {c} behaved unlike the model: session {s}, attempts {att}",
                            dict(kind="faulted_run", cfg=c), concrete=False)
        else:
            broken.append(("correspondence:_robust_gp_fit_", "case evaluation failed: " + log[-300:]))
    okc, bad, log = core.run_cases("C16init", REQUIRES, INIT_TY, INIT_OK, init_cases, shard=max(50, len(init_cases) // 6 + 1))
    if not ctx.oblige("correspondence:init_and_train_gp", "correspondence", okc and not bad,
                      f"{len(bad)} of {len(init_cases)} initial-training sessions differ from the model; " + log[-300:]):
        broken.append(("correspondence:init_and_train_gp", f"{len(bad)} initial-training sessions differ from Model/FitRetry.v"))
    tie_source(ctx, broken, rob_cases, init_cases, bad_rob_model, bad if okc else None, case_src)

    # ---- observations outside the property's range, replayed on the real code (they back the _refuted theorems)
    b0 = next((b for b in bases if b["cfg"]["mode"] == "det"), bases[0] if bases else None)
    obs = {}
    if b0 is not None:
        probes = []
        for tag, faults, upd, dbl in [("ten-faults", list(range(2, 12)), [], False), ("rows-exhausted", list(range(1, 7)), [], False),
                                      ("update-double", [], [1], True)]:
            c = copy.deepcopy(b0["cfg"])
            c.update(faults=faults, upd_faults=upd, upd_double=dbl, tag=tag)
            probes.append(c)
        for o in F.run_pool(probes, procs=3):
            obs[o["cfg"]["tag"]] = o["exc"] or "run completed"
        exp = {"ten-faults": "UnboundLocalError", "rows-exhausted": "ValueError: attempt to get argmin of an empty sequence",
               "update-double": "LinAlgError"}
        for tag, e in exp.items():
            ok = obs.get(tag, "").startswith(e)
            ctx.oblige("refutation-replay:" + tag, "correspondence", ok, obs.get(tag, "")[:200])
            if not ok:
                broken.append(("refutation-replay:" + tag, f"the model's stuck state '{e}' no longer reproduces on the code: {obs.get(tag)}"))
    # ---- REPAIRED finding slice-sampler-after-drop: its former witness is a regression run that must COMPLETE (C16_slice_sampler_sees_aligned_set)
    bs = next((b for b in bases if b["cfg"]["mode"] == "spec"), None)
    if bs is not None:
        c = copy.deepcopy(bs["cfg"])
        c.setdefault("opts", {})["use_slice_sampler"] = True
        c.update(faults=[1, 2], upd_faults=[], upd_double=False, tag="regression:slice-sampler-after-drop")
        o = F.run_faulted(c)
        hits = [(violation_key(o, k_, m_), m_) for k_, m_ in o["violations"] if k_ != "unrelated-crash"]
        ctx.oblige("regression-replay:" + KNOWN_SLICE, "correspondence", not hits, str(o["exc"] or "run completed")[:200])
        ctx.count(1, 1)
        for k_, m_ in hits[:1]:
            ctx.violate(k_, f"specified-noise run (seed {c['seed']}, max_fun_evals {c['budget']}) with use_slice_sampler=True and LinAlgError injected "
                        f"at fit invocations [1, 2] (the former witness of the repaired finding {KNOWN_SLICE}): {m_}",
                        dict(kind="faulted_run", cfg=c, traceback=(o["tb"] or "")[-700:]))
    bc = next((b for b in bases if b["cfg"].get("target") == "clip"), None)
    if bc is not None:
        c = copy.deepcopy(bc["cfg"])
        c.setdefault("opts", {})["use_slice_sampler"] = True
        c.update(faults=[1], upd_faults=[], upd_double=False, tag="witness:slice-sampler-nan-start")
        o = F.run_faulted(c)
        okw = KNOWN_NAN in [violation_key(o, k_, m_) for k_, m_ in o["violations"]]
        ctx.oblige("refutation-replay:" + KNOWN_NAN, "correspondence", okw, str(o["exc"])[:200])
        if okw:
            ctx.violate(KNOWN_NAN, f"deterministic run on a saturated target (seed {c['seed']}, max_fun_evals {c['budget']}) with use_slice_sampler=True and ONE "
                        f"LinAlgError injected at fit invocation 1: {o['exc']}", dict(kind="faulted_run", cfg=c, traceback=(o["tb"] or "")[-700:]))
        else:
            broken.append(("refutation-replay:" + KNOWN_NAN, f"the witness of the known finding {KNOWN_NAN} no longer aborts on the code (repaired?): "
                           f"{o['exc'] or 'run completed'} — update known_findings.d/C16.json"))
    ctx.coverage["observations"] = dict(
        outside_property_range=obs,
        note="10 consecutive faults in one refit -> UnboundLocalError (res unbound); 6 consecutive faults on the 5-row first refit -> "
             "ValueError (training set emptied); a second LinAlgError inside the update-fallback handler escapes; not listed as findings "
             "(property quantifies over 1-4 consecutive / scattered faults)")


def tie_source(ctx, broken, rob_cases, init_cases, bad_rob_model, bad_init_model, case_src):
    """translator validation: the GENERATED programs (gen/Src_fitretry.v) are run by Coq on the same recorded controller sessions
    of the fault-injected real runs as the hand-written model."""
    from translate import fitretry as T
    name = "correspondence:fitretry_source"
    if not T.generated_ok():
        _, ex = T.current()
        ctx.oblige(name, "correspondence", False, f"gen/Src_fitretry.v holds no program (source not translatable): {ex}"[:400])
        broken.append((name, f"no generated program to validate: {str(ex)[:300]}"))
        return
    ok1, bad1, log1 = core.run_cases("C16robsrc", REQUIRES_SRC, CASE_TY, OK_FUN_SRC, rob_cases, shard=max(50, len(rob_cases) // 12 + 1))
    ok2, bad2, log2 = core.run_cases("C16initsrc", REQUIRES_SRC, INIT_TY, INIT_OK_SRC, init_cases, shard=max(50, len(init_cases) // 6 + 1))
    ctx.coverage["fitretry_source"] = dict(robust_sessions=len(rob_cases), init_sessions=len(init_cases), generated_differs_on=len(bad1) + len(bad2),
                                           differs_from_reference=T.diff(T.current()[0]))
    good = ok1 and ok2 and not bad1 and not bad2
    detail = (f"generated program vs real code: {len(bad1)} of {len(rob_cases)} _robust_gp_fit_ sessions and {len(bad2)} of {len(init_cases)} "
              f"initial-training sessions differ; " + (log1 + log2)[-300:])
    if ctx.oblige(name, "correspondence", good, detail):
        if (bad_rob_model or bad_init_model):
            ctx.notes.append("the generated program agrees with the real code where the hand-written model does not: the source has changed, "
                             f"Model/FitRetry.v no longer describes it; fields that differ from the reference translation: {T.diff(T.current()[0])}")
        return
    if not (ok1 and ok2):
        broken.append((name, "evaluation of the generated program failed: " + (log1 + log2)[-300:]))
        return
    only_src = [i for i in bad1 if bad_rob_model is not None and i not in bad_rob_model]
    if only_src or (bad2 and bad_init_model is not None and not bad_init_model):
        what = "TRANSLATOR fault: the generated program differs from the real code on sessions where the hand-written model agrees"
    else:
        what = "both the hand-written model and the generated program differ from the real code"
    ex = ""
    if bad1:
        c, s_, att = case_src[bad1[0]]
        ex = f"; first: cfg={c} session={s_} attempts={att}"
    broken.append((name, what + ex[:700]))


# ---- aimed search: fault plans placed on the construct of the source that changed (translate.fitretry.regions_of_diff)
def aim():
    from translate import fitretry as T
    cur, ex = T.current()
    regions = T.regions_of_diff(cur, ex)
    why = f"translation stopped: {ex}" if ex is not None else f"fields differing from the reference translation: {T.diff(cur)}"
    return regions, why


def aimed_plan(ctx, bases, regions):
    cfgs = []

    def add(b, faults, tag, opts=None):
        c = copy.deepcopy(b["cfg"])
        if opts:
            c.setdefault("opts", {}).update(opts)
        c.update(faults=sorted(set(faults)), upd_faults=[], upd_double=False, tag="aimed:" + tag)
        cfgs.append(c)
    for b in bases:
        K = b["n_fit"]
        noisy = b["cfg"]["mode"] != "det"
        if "drop" in regions:
            # the drop step runs from the (remove_points_after_tries + 1)-th consecutive failure of ONE refit: runs of 2-4 faults at every
            # refit (k >= 1), noisy modes first (a noise vector accompanies the training set), and the neighbouring option values
            for start in range(1, K):
                for ln in ((2, 3, 4) if noisy else (2, 4)):
                    add(b, range(start, start + ln), f"drop:run{ln}")
            for rp in (0, 2, 3):
                for start in (1, 2, max(K - 2, 1)):
                    add(b, range(start, start + 4), f"drop:rpat{rp}", dict(remove_points_after_tries=rp))
                add(b, [1], f"drop:rpat{rp}:single", dict(remove_points_after_tries=rp))
        if "caught" in regions:
            for k in range(K + 1):
                add(b, [k], "caught:single")
        if regions & {"bound", "success"}:
            for start in range(0, K):
                add(b, range(start, start + 4), "bound:run4")
            add(b, [1, 3, 5], "bound:scattered")
        if "start" in regions:
            for fl in ([1], [1, 2], [2, 3, 4], [1, 3]):
                add(b, fl, "start:default")
                add(b, fl, "start:slice", dict(use_slice_sampler=True))
                add(b, fl, "start:nudge1", dict(noise_nudge=[1.0], gp_warnings=True))
                add(b, fl, "start:double_refit", dict(double_refit=True))
        if "init" in regions:
            for ln in (1, 2, 3, 4):
                add(b, range(0, ln), f"init:run{ln}")
            add(b, [0, 2], "init:scattered")
    # noisy modes first: that is where a misaligned noise vector shows
    cfgs.sort(key=lambda c: (c["mode"] == "det",))
    return cfgs


def search(ctx, broken):
    bases = F.run_pool([dict(c) for c in F.base_configs()])
    bases = [b for b in bases if not b["exc"]]
    try:
        regions, why = aim()
    except Exception as ex:          # aiming is a convenience, never a verdict
        regions, why = set(), f"aiming failed: {ex!r}"
    src_broken = any(n.startswith(("translate:", "coq_build", "correspondence:fitretry_source", "theorems_present")) for n, _ in broken)
    if regions and src_broken:
        cfgs = aimed_plan(ctx, bases, regions)
        ctx.coverage["aimed_search"] = dict(regions=sorted(regions), why=why[:400], runs=len(cfgs[:360]))
        for o in F.run_pool(cfgs[:360], procs=12):
            for key, msg in o["violations"]:
                if key != "unrelated-crash" and violation_key(o, key, msg) not in KNOWN_KEYS:
                    c = o["cfg"]
                    ctx.violate(violation_key(o, key, msg),
                                f"{c['mode']} run (seed {c['seed']}, max_fun_evals {c['budget']}, options {c.get('opts', {})}) with LinAlgError injected at "
                                f"fit invocations {c['faults']}: {msg}  [search aimed at: {sorted(regions)}] [source change: {why[:300]}]",
                                dict(kind="faulted_run", cfg=c, traceback=(o["tb"] or "")[-700:]))
                    return True
    old = ctx.tier
    ctx.tier = "thorough"
    try:
        cfgs = plan(ctx, bases)
    finally:
        ctx.tier = old
    for o in F.run_pool(cfgs[:400], procs=12):
        for key, msg in o["violations"]:
            if key != "unrelated-crash" and violation_key(o, key, msg) not in KNOWN_KEYS:
                c = o["cfg"]
                ctx.violate(violation_key(o, key, msg),
                            f"{c['mode']} run with faults {c['faults']} / update faults {c['upd_faults']}: {msg}", dict(kind="faulted_run", cfg=c))
                return True
    return False


def replay(ctx, rp):
    r = rp["replay"]
    if r.get("kind") != "faulted_run":
        print("replay file names a broken obligation, not an input:", r)
        return 1
    o = F.run_faulted(r["cfg"])
    print("cfg:", r["cfg"])
    print("attempts:", [(a["j"], a["caller"], a["nX"], a["nY"], a["s2"], a["tmp"], "FAULT" if a["faulted"] else "") for a in o["attempts"]])
    print("sessions:", o["sessions"])
    print("result:", o["result"], "exception:", o["exc"])
    bad = [v for v in o["violations"] if v[0] != "unrelated-crash"]
    print("keys:", [violation_key(o, k_, m_) for k_, m_ in bad])
    print("replay:", bad or "property holds on this input now")
    if o["tb"]:
        print(o["tb"][-800:])
    return 1 if bad else 0
