"""C10 — target failures and invalid target values surface immediately and unchanged."""
from harness import comp_logger as L, runlevel as R, skel as S

PROPS = ["Props/C10.v", "Props/C10src.v"]
TRANSLATORS = ["logger"]
THEOREMS = ["C10_value_checks_are_source", "C10_fault_is_last_call", "C10_exception_absorbing", "C10_exception_only_from_fault", "C10_logger_fault_transparent"]
LEVEL = "proof"
RULE = ("fault injection into real runs at call index k (initial point, noise test, design, search steps, poll steps, final re-sampling) x fault kinds "
        "(exception, KeyError, NaN, +-inf, complex, vector, None, and under specified noise not-a-pair / SD 0, <0, NaN, inf, None) x noise modes; "
        "each faulted run is compared with the skeleton model (the fault is an oracle outcome) and checked by the monitor; distinct = distinct (spec,k,kind)")
TRUSTED = ["Coq 8.16.1 kernel + vm_compute",
           "translate/logger.py (fail-closed translator of FunctionLogger.__call__: the ordered validity tests, their guards and exception classes, the position of "
           "`func_count += 1`; the try / handler / coercions pinned as text) -> coq/gen/Src_logger.v, validated on every run: the generated tests are run by Coq on every "
           "(noise mode, returned-value kind) pair and compared with the real FunctionLogger (correspondence:logger_checks_source)", "hand-written models Model/Skeleton.v and Model/Logger.v tied to the code by differential correspondence",
           "the model has no handler around a target call; the tie (fault injection at every phase) is what checks that the code has none either"]
ASSUMPTIONS = []

BASES = [
    dict(D=2, target="sphere", box="sym", noise="det", options=dict(max_fun_evals=40)),
    dict(D=2, target="sphere", box="sym", noise="specified", sigma=0.3, options=dict(max_fun_evals=45, noise_final_samples=3)),
    dict(D=1, target="abs", box="log", noise="auto", sigma=0.2, options=dict(max_fun_evals=40, noise_final_samples=2)),
    dict(D=2, target="sphere", box="sym", noise="declared", sigma=0.3, cons="ball", options=dict(max_fun_evals=40, noise_final_samples=1)),
]
KINDS_ALL = ["raise", "raise_key", "raise_stop", "raise_index", "raise_noargs", "raise_valsub", "nan", "inf", "ninf", "complex", "vector", "none", "complex0", "npcomplex", "npcomplex0", "npnan", "vlist"]
KINDS_HE = ["notpair", "sd_zero", "sd_neg", "sd_nan", "sd_inf", "sd_none", "sd_complex0"]


def fault_plan(ctx):
    plan = []
    for bi, b in enumerate(BASES):
        spec = dict(b, seed=ctx.seed * 10 + bi)
        budget = b["options"]["max_fun_evals"]
        if ctx.quick:
            ks = sorted(set([1, 2, 3, 5, 8] + [ctx.rng.randint(6, budget) for _ in range(5)] + [budget - 1, budget]))
        else:
            ks = list(range(1, budget + 1))
        kinds = KINDS_ALL + (KINDS_HE if b["noise"] == "specified" else [])
        nfs = b["options"].get("noise_final_samples", 0) if b["noise"] != "det" else 0
        special = {1, 2, 3, 4, budget - nfs + 1, budget - nfs + 2, budget}     # first call, noise test / first design point, first and last final sample
        for j, k in enumerate(ks):
            if k in special:
                kk = kinds                                  # calls that take a special path (not recorded / first): every fault kind
            elif ctx.quick:
                kk = [kinds[(j + bi) % len(kinds)], kinds[(2 * j + 3) % len(kinds)]]
            else:
                kk = [kinds[(j + i) % len(kinds)] for i in range(4)]
            for kind in dict.fromkeys(kk):
                plan.append((spec, dict(at=k, kind=kind)))
    return plan


def tie(ctx, broken):
    plan = fault_plan(ctx)
    out = R.tie_skeleton(ctx, broken, plan, "c10", need_det_ok=False)
    reached = [(tr, P) for tr, P in out if "harness_exc" not in tr and R.is_target_fault(tr)]
    phases = {}
    for tr, _ in reached:
        ph = tr["calls"][-1]["phase"]
        phases[ph] = phases.get(ph, 0) + 1
    ctx.coverage["faults_reached_by_phase"] = phases
    ctx.coverage["faults_planned"] = len(plan)
    ctx.count(len(plan), len({(repr(tr["spec"]), tr["fault"]["at"], tr["fault"]["kind"]) for tr, _ in reached}))
    if reached:
        tr = reached[len(reached) // 2][0]
        ctx.sample(dict(spec=tr["spec"], fault=tr["fault"], exc=tr.get("exc"), calls=len(tr["calls"]), func_count=tr["final"]["snap"]["fc"] if "final" in tr else None))
    R.apply_monitor(ctx, out, R.mon_c10)
    # the validity tests regenerated from the source (Props/C10src.v), evaluated on every value kind in every noise mode
    L.tie_checks(ctx, broken, "C10")


def search(ctx, broken):
    if R.truncate_search(ctx, R.mon_c10):
        return True
    import random
    rng = random.Random(ctx.seed + 99)
    plan = []
    for b in BASES:
        for _ in range(30):
            kinds = KINDS_ALL + (KINDS_HE if b["noise"] == "specified" else [])
            plan.append((dict(b, seed=rng.randint(0, 5)), dict(at=rng.randint(1, b["options"]["max_fun_evals"]), kind=rng.choice(kinds))))
    out = [(tr, None) for tr in S.traces(plan, "c10s")]
    return R.apply_monitor(ctx, out, R.mon_c10) > 0


def replay(ctx, rp):
    return R.generic_replay(ctx, rp, [R.mon_c10])
