"""Common machinery for every property check (see DESIGN.md sections 2, 7, 8).

Nothing here decides a property.  It provides:
  * exact conversion of Python/NumPy values to Coq literals (floats -> Q via as_integer_ratio),
  * the Coq build (full .vo build through coq_makefile, under a lock and a timeout),
  * evaluation of harness-written case files with vm_compute,
  * the keyword gate (no Axiom/Admitted/... anywhere in the development),
  * evidence writing, VIOLATION / KNOWN-FINDING reporting.
"""
from __future__ import annotations

import fcntl
import hashlib
import json
import math
import os
import random
import re
import subprocess
import sys
import time
from fractions import Fraction
from pathlib import Path

VERIF = Path(__file__).resolve().parent.parent
COQ = VERIF / "coq"
GEN = COQ / "gen"
REPO = Path(os.environ.get("VERIF_REPO", "/repo"))
PY = "/venv/bin/python"
EVIDENCE = VERIF / "evidence"
REPLAYS = VERIF / "replays"
CACHE = VERIF / ".cache"
GUARD = "PYBADS_VERIF"

os.environ.setdefault("PYTHONHASHSEED", "0")

# --------------------------------------------------------------------------- literals


def is_np(x):
    return type(x).__module__ == "numpy"


def to_py(x):
    """numpy scalars/arrays -> python scalars / nested lists."""
    if is_np(x):
        if hasattr(x, "tolist"):
            return x.tolist()
    return x


def cq(x) -> str:
    """finite number -> Coq Q literal, exact."""
    x = to_py(x)
    if isinstance(x, bool):
        raise TypeError("bool is not a number here")
    if isinstance(x, int):
        return f"({x} # 1)"
    if isinstance(x, Fraction):
        return f"({x.numerator} # {x.denominator})"
    if isinstance(x, float):
        if not math.isfinite(x):
            raise ValueError("non-finite float has no Q literal: %r" % x)
        n, d = x.as_integer_ratio()
        return f"({n} # {d})"
    raise TypeError("cq: %r" % (x,))


def cz(n) -> str:
    n = to_py(n)
    if isinstance(n, float):
        if n != int(n):
            raise ValueError("not an integer: %r" % n)
        n = int(n)
    return f"({int(n)})%Z"


def cnat(n) -> str:
    return f"{int(n)}%nat"


def cbool(b) -> str:
    return "true" if b else "false"


def clist(items) -> str:
    return "[" + "; ".join(items) + "]"


def cqlist(xs) -> str:
    return clist([cq(x) for x in to_py(xs)])


def cqmat(rows) -> str:
    return clist([cqlist(r) for r in to_py(rows)])


def cstr(s: str) -> str:
    return '"' + s.replace('"', '""') + '"%string'


def cval(x) -> str:
    """Python value -> Coq [val] literal (Model/Val.v)."""
    x = to_py(x)
    if x is None:
        return "VNone"
    if isinstance(x, bool):
        return f"(VB {cbool(x)})"
    if isinstance(x, int):
        return f"(VZ {cz(x)})"
    if isinstance(x, Fraction):
        return f"(VQ {cq(x)})"
    if isinstance(x, float):
        if math.isnan(x):
            return "VNaN"
        if math.isinf(x):
            return "VPInf" if x > 0 else "VNInf"
        return f"(VQ {cq(x)})"
    if isinstance(x, str):
        return f"(VS {cstr(x)})"
    if isinstance(x, (list, tuple)):
        return "(VL " + clist([cval(e) for e in x]) + ")"
    raise TypeError("cval: %r" % (x,))


def cxq(x) -> str:
    """extended rational literal (Model/XQ.v): Fin q | PInf | NInf | NaN"""
    x = to_py(x)
    if x is None:
        return "XNaN"
    if isinstance(x, float):
        if math.isnan(x):
            return "XNaN"
        if math.isinf(x):
            return "XPInf" if x > 0 else "XNInf"
    return f"(XFin {cq(x)})"


# --------------------------------------------------------------------------- shell


def sh(cmd, timeout=600, cwd=None, env=None, input=None):
    e = dict(os.environ)
    if env:
        e.update(env)
    try:
        p = subprocess.run(cmd, shell=isinstance(cmd, str), cwd=cwd, env=e, input=input,
                           stdout=subprocess.PIPE, stderr=subprocess.STDOUT, timeout=timeout, text=True)
        return p.returncode, p.stdout
    except subprocess.TimeoutExpired as ex:
        out = ex.stdout or ""
        if isinstance(out, bytes):
            out = out.decode(errors="replace")
        return 124, out + "\n[timeout after %ss]" % timeout


class BuildLock:
    def __enter__(self):
        COQ.mkdir(exist_ok=True)
        self.f = open(COQ / ".build.lock", "w")
        fcntl.flock(self.f, fcntl.LOCK_EX)
        return self

    def __exit__(self, *a):
        fcntl.flock(self.f, fcntl.LOCK_UN)
        self.f.close()


FORBIDDEN = re.compile(
    r"\b(Admitted|admit|Axiom|Axioms|Parameter|Parameters|Conjecture|Conjectures|Admit Obligations|"
    r"Unset Guard Checking|Unset Positivity Checking|Unset Universe Checking|bypass_check|"
    r"native_compute|type-in-type|impredicative-set)\b")
TOPLEVEL_VAR = re.compile(r"^\s*(Variable|Variables|Hypothesis|Hypotheses|Context)\b")


def strip_comments(src: str) -> str:
    out, depth, i = [], 0, 0
    while i < len(src):
        if src.startswith("(*", i):
            depth += 1
            i += 2
        elif src.startswith("*)", i) and depth:
            depth -= 1
            i += 2
        else:
            if depth == 0:
                out.append(src[i])
            elif src[i] == "\n":
                out.append("\n")
            i += 1
    return "".join(out)


def keyword_gate():
    """Return list of (file, line, text) for forbidden constructs in the committed development
    (comments stripped; Variable/Hypothesis allowed only inside a Section)."""
    hits = []
    for f in sorted(COQ.rglob("*.v")):
        if f.name.startswith("cases_"):
            continue
        src = strip_comments(f.read_text())
        depth = 0
        for ln, line in enumerate(src.splitlines(), 1):
            if re.match(r"^\s*Section\b", line):
                depth += 1
            if re.match(r"^\s*End\b", line) and depth:
                depth -= 1
            if FORBIDDEN.search(line):
                hits.append((str(f.relative_to(VERIF)), ln, line.strip()))
            if TOPLEVEL_VAR.match(line) and depth == 0:
                hits.append((str(f.relative_to(VERIF)), ln, line.strip()))
    return hits


def write_if_changed(path: Path, text: str):
    path.parent.mkdir(parents=True, exist_ok=True)
    if path.exists() and path.read_text() == text:
        return False
    path.write_text(text)
    return True


def coq_project():
    """(Re)generate _CoqProject and Makefile from the files present."""
    files = []
    for sub in ("Model", "gen", "Proofs", "Props"):
        d = COQ / sub
        if d.is_dir():
            files += sorted(str(p.relative_to(COQ)) for p in d.glob("*.v") if not p.name.startswith("cases_"))
    text = "-Q . PV\n-arg -w -arg -notation-overridden,-deprecated-hint-without-locality,-deprecated-instance-without-locality,-ambiguous-paths,-redundant-canonical-projection\n" + "\n".join(files) + "\n"
    changed = write_if_changed(COQ / "_CoqProject", text)
    if changed or not (COQ / "Makefile").exists():
        rc, out = sh("coq_makefile -f _CoqProject -o Makefile", cwd=COQ, timeout=120)
        if rc != 0:
            raise RuntimeError("coq_makefile failed:\n" + out)


def coq_make(targets=None, timeout=1500, jobs=16):
    """Full .vo build of the given targets (default: everything).  Returns (ok, log)."""
    with BuildLock():
        coq_project()
        tgt = " ".join(targets) if targets else ""
        rc, out = sh(f"timeout {timeout} make -j{jobs} {tgt}", cwd=COQ, timeout=timeout + 30)
        return rc == 0, out


def coqc(path: Path, timeout=600):
    """Compile one file against the built development; return (ok, stdout)."""
    rc, out = sh(f"timeout {timeout} coqc -noglob -Q . PV -w -notation-overridden,-deprecated-hint-without-locality,-deprecated-instance-without-locality,-ambiguous-paths,-redundant-canonical-projection {path}", cwd=COQ, timeout=timeout + 30)
    return rc == 0, out


def props_assumptions(prop_file: str):
    """Re-compile Props/<id>.v and return (ok, {theorem: [axioms]} , raw)."""
    ok, out = coqc(Path(prop_file))
    res, cur = {}, None
    # We print a marker before each Print Assumptions:  (* via *)  Print Assumptions name.
    # Output blocks are either "Closed under the global context" or "Axioms:\n name : type ..."
    blocks = re.split(r"\n(?=Closed under the global context|Axioms:)", "\n" + out)
    return ok, blocks, out


def parse_nat_list(s: str):
    m = re.search(r"=\s*\[(.*?)\]\s*:\s*list nat", s, re.S)
    if not m:
        return None
    body = m.group(1).strip()
    if not body:
        return []
    return [int(t.replace("%nat", "").strip()) for t in body.split(";")]


def coq_eval(name: str, requires: list[str], body: str, timeout=900):
    """Write gen/cases_<name>.v (requires + body) and compile it.  Returns (ok, stdout).
    The body is expected to contain Eval vm_compute commands; outputs are returned raw,
    split per Eval with split_evals()."""
    GEN.mkdir(parents=True, exist_ok=True)
    f = GEN / f"cases_{name}.v"
    head = "From Coq Require Import ZArith QArith List String Bool.\nImport ListNotations.\n"
    head += "".join(f"Require Import {r}.\n" for r in requires)
    head += "Set Printing Width 100000000.\nSet Printing Depth 100000000.\nOpen Scope Z_scope.\n"
    f.write_text(head + body)
    ok, out = coqc(f.relative_to(COQ), timeout=timeout)
    for ext in (".vo", ".vok", ".vos", ".glob"):
        p = f.with_suffix(ext)
        if p.exists():
            p.unlink()
    aux = f.parent / ("." + f.stem + ".aux")
    if aux.exists():
        aux.unlink()
    return ok, out


def split_evals(out: str):
    """Split coqc stdout into the '= value : type' chunks."""
    chunks = re.split(r"\n(?=\s*= )", "\n" + out)
    return [c.strip() for c in chunks if c.strip().startswith("=")]


def run_cases(name: str, requires: list[str], case_ty: str, ok_fun: str, cases: list[str],
              shard=400, timeout=900, defs: str = ""):
    """Evaluate `bad_indices ok_fun cases` in shards (parallel coqc).  Returns
    (all_compiled: bool, bad: list[int], log: str)."""
    from concurrent.futures import ThreadPoolExecutor
    # the modules the case files Require need not be dependencies of the Props file the check built: build them (no-op when up to date)
    tg = [r[3:].replace(".", "/") + ".vo" for r in requires if r.startswith("PV.")]
    if tg:
        okb, logb = coq_make(tg)
        if not okb:
            return False, [], "required modules do not build:\n" + logb[-2000:]
    shards = [cases[i:i + shard] for i in range(0, len(cases), shard)] or [[]]
    def one(k):
        body = defs + f"\nDefinition the_cases : list ({case_ty}) := " + clist(["\n  " + c for c in shards[k]]) + ".\n"
        body += f"Eval vm_compute in (bad_indices ({ok_fun}) the_cases).\n"
        ok, out = coq_eval(f"{name}_{k}", requires, body, timeout=timeout)
        bad = parse_nat_list(out) if ok else None
        return ok, bad, out
    with ThreadPoolExecutor(max_workers=min(12, len(shards))) as ex:
        res = list(ex.map(one, range(len(shards))))
    allok, bad, log = True, [], ""
    for k, (ok, b, out) in enumerate(res):
        if not ok or b is None:
            allok = False
            log += f"[shard {k}] coqc failed:\n{out[-3000:]}\n"
        else:
            bad += [k * shard + i for i in b]
    return allok, bad, log


def coq_show(name: str, requires: list[str], expr: str, defs: str = "", timeout=300) -> str:
    ok, out = coq_eval(name, requires, defs + f"\nEval vm_compute in ({expr}).\n", timeout=timeout)
    ev = split_evals(out)
    return ev[-1] if ev else out[-2000:]


# --------------------------------------------------------------------------- repo fingerprint


def repo_tree_hash() -> str:
    h = hashlib.sha256()
    for p in sorted((REPO / "pybads").rglob("*")):
        if p.is_file() and p.suffix in (".py", ".ini") and "__pycache__" not in p.parts:
            h.update(str(p.relative_to(REPO)).encode())
            h.update(p.read_bytes())
    return h.hexdigest()[:20]


# --------------------------------------------------------------------------- context


class Ctx:
    def __init__(self, pid: str, tier: str, seed: int):
        self.pid, self.tier, self.seed = pid, tier, seed
        self.rng = random.Random(seed * 1000003 + int(hashlib.sha1(pid.encode()).hexdigest()[:6], 16))
        self.t0 = time.time()
        self.obligations = []      # (name, kind, ok, detail)
        self.violations = []       # dict(key, what, replay, concrete)
        self.coverage = {"samples": [], "evaluations": 0, "distinct_nontrivial": 0}
        self.assumptions = []
        self.trusted = []
        self.notes = []
        self.known_lines = []

    @property
    def quick(self):
        return self.tier == "quick"

    def oblige(self, name, kind, ok, detail=""):
        self.obligations.append((name, kind, bool(ok), detail))
        return bool(ok)

    def violate(self, key, what, replay, concrete=True):
        """key: stable id of the failing clause/call site (matched against known_findings.json)."""
        self.violations.append(dict(key=key, what=what, replay=replay, concrete=concrete))

    def sample(self, s):
        if len(self.coverage["samples"]) < 8:
            self.coverage["samples"].append(s)

    def count(self, evaluations=0, nontrivial=0):
        self.coverage["evaluations"] += int(evaluations)
        self.coverage["distinct_nontrivial"] += int(nontrivial)


def load_known():
    f = VERIF / "known_findings.json"
    if not f.exists():
        return []
    out = json.loads(f.read_text()).get("findings", [])
    d = VERIF / "known_findings.d"
    if d.is_dir():
        for g in sorted(d.glob("*.json")):
            out += json.loads(g.read_text()).get("findings", [])
    return out


def finish(ctx: Ctx, level: str, checker_cmd: str, rule: str, explanation: str = "") -> int:
    known = [k for k in load_known() if k.get("property") == ctx.pid and k.get("status") == "open"]
    known_keys = {k["key"]: k for k in known}
    unlisted = []
    printed = set()
    for v in ctx.violations:
        if v["key"] in known_keys and v["concrete"]:
            if v["key"] not in printed:
                printed.add(v["key"])
                print(f"KNOWN-FINDING: property={ctx.pid} {known_keys[v['key']]['what']}")
        else:
            unlisted.append(v)
    REPLAYS.mkdir(exist_ok=True)
    rc = 0
    for i, v in enumerate(unlisted):
        hh = hashlib.sha1(json.dumps(v["replay"], sort_keys=True, default=str).encode()).hexdigest()[:10]
        rp = REPLAYS / f"{ctx.pid}-{hh}.json"
        rp.write_text(json.dumps(dict(property=ctx.pid, key=v["key"], what=v["what"], replay=v["replay"],
                                      seed=ctx.seed, tier=ctx.tier), indent=1, default=str))
        tail = "" if v["concrete"] else " no-failing-input-found"
        print(f"VIOLATION property={ctx.pid} replay={rp}{tail}")
        print(f"  {v['key']}: {v['what']}")
        rc = 1
    n_ob = len(ctx.obligations)
    n_ok = sum(1 for o in ctx.obligations if o[2])
    cov = dict(ctx.coverage)
    cov.update(dict(
        obligations=max(n_ob, 1), discharged=n_ok, checker_cmd=checker_cmd,
        trusted_base=ctx.trusted, rule=rule,
        obligation_list=[dict(name=o[0], kind=o[1], ok=o[2], detail=o[3][:400]) for o in ctx.obligations],
        known_findings_reported=[k["key"] for k in known if any(v["key"] == k["key"] for v in ctx.violations)],
        notes=ctx.notes,
    ))
    if explanation:
        cov["explanation"] = explanation
    if not cov["samples"]:
        cov["samples"] = ["(no sample recorded)"]
    ev = dict(property_id=ctx.pid, tier=ctx.tier, seed=ctx.seed, level=level, coverage=cov,
              assumptions=ctx.assumptions, wall_s=round(time.time() - ctx.t0, 2), violations=len(unlisted),
              repo_tree=repo_tree_hash())
    EVIDENCE.mkdir(exist_ok=True)
    if os.environ.get("VERIF_NOEVIDENCE") != "1":     # lead's mutant trials must not overwrite committed evidence
        (EVIDENCE / f"{ctx.pid}.json").write_text(json.dumps(ev, indent=1, default=str))
    if rc == 0:
        print(f"OK property={ctx.pid} tier={ctx.tier} obligations={n_ok}/{n_ob} evaluations={cov['evaluations']} wall={ev['wall_s']}s")
    return rc


def safe_workers(want):
    """Number of forked worker processes that fits into memory: a forked child shares the parent's pages copy-on-write, but CPython's reference
    counts touch most of them, so each child can grow to the parent's resident size.  Cap the pool so that workers x (parent RSS + 0.6 GB) stays
    below 70 % of the memory available now (a thorough-tier check holding thousands of traces was killed by the kernel otherwise)."""
    try:
        rss = 0
        for line in open("/proc/self/status"):
            if line.startswith("VmRSS:"):
                rss = int(line.split()[1]) * 1024
        avail = 0
        for line in open("/proc/meminfo"):
            if line.startswith("MemAvailable:"):
                avail = int(line.split()[1]) * 1024
        if rss and avail:
            fit = int(0.7 * avail / (rss + 0.6 * 2 ** 30))
            return max(2, min(int(want), fit))
    except Exception:
        pass
    return int(want)
