(* C18 — the hand-written model of the evolution-strategy search (Model/ESSelect.v) IS the program regenerated from the source.
   Only statements here; proofs in Proofs/ESSourceProofs.v.

   coq/gen/Src_es.v is written by translate/es.py from pybads/search/es_search.py and pybads/search/search_hedge.py on every ./check
   run (never committed):
     src_mask  : list mstmt    the integer part of ESSearch._get_selection_idx_mask_, statement by statement (the while loop, the
                               argwhere, the slice store, cw, np.zeros / idx[cw] = 1, the final cumsum), over Model/ESSrc.v's integer
                               scalar / vector language;  src_mask_head: the float part as canonical text (its result w0 is an oracle input)
     src_gen   : list gstmt    the selection statements of one pass of the generations loop of ESSearch.__call__: the fallback draw of
                               z_new, `if i == 0` copy / else append of BOTH candidate arrays, N, np.argsort, the two gathers
     src_ret   : ret_prog      `if us.shape[0] == 0: return us, z` / `return us[0], z[0]`
     src_calls, src_call_binds, src_book, src_order, src_loop_head     the calls of the loop with every argument (force_to_grid,
                               contraints_check with the bounds it is handed and proj = True, acq_fcn_lcb with its parameter), what their
                               results are bound to, the statements that only shape the NEXT population (the frac guard of the empty
                               generation, the step size, the mask call with its arguments, ll, the reproduction), and how the three kinds
                               of statement interleave: canonical text of the alpha-renamed source
     src_init                  ESSearch.__init__ / ESSearchWM.__init__ (mu, lamb, the weights of the first population): text
     src_hedge : hedge_prog    ESSearchHedge.__call__: the normalisation and floor of the probabilities as expressions, the draw
                               (comparison, which element of argwhere), the pick, the (NAME tested, class constructed) table
     src_hedge_rest, src_hedge_init, src_update                        every other statement of ESSearchHedge: text
   A changed operator, constant, operand, index, target, call argument, statement order changes these definitions and the theorems
   below stop checking; a statement outside the translator's whitelist makes it raise and emit no definition at all.  The translation
   itself is validated on every run: run_mask src_mask, gen_run src_gen src_ret and the hedge functions of src_hedge are evaluated by
   Coq on the same cases as the hand-written model against the real code (props/C18.py, obligation correspondence:es_source). *)
From Coq Require Import ZArith QArith List Bool String.
From PV Require Import Model.Val Model.ESSelect Model.ESSrc gen.Src_es Proofs.ESSourceProofs.
Import ListNotations.

(* THE MASK.  For EVERY weight vector w0 (any length, any integers: zeros, negative, unsorted) and EVERY lamb, the hand-written
   selection_mask computes what the generic interpreter computes on the generated statements — the same mask or the same exception
   class; and the float part that produces w0 from (mu, lamb) is the pinned text.  (Both sides bound the while loop by the same fuel;
   C18_mask_fuel_suffices in Props/C18.v shows the loop has exited when it runs out, for lamb >= 0.) *)
Theorem C18_selection_mask_is_source :
  (forall (w0 : list Z) (lamb : Z), selection_mask w0 lamb = run_mask src_mask w0 lamb)
  /\ model_mask_head = src_mask_head.
Proof. exact (conj selection_mask_is_source mask_head_is_source). Qed.
Print Assumptions C18_selection_mask_is_source.

(* THE GENERATION STEP.  For every type of rows, every state of the two candidate arrays, every filtered generation with its
   acquisition values (numbers or NaN) and whatever np.random.rand would return in the fallback:
   (1) one pass of the model (es_step) is one pass of the generated selection statements;
   (2) the whole search (es_run: all generations, then the returned pair / the empty set) is the generated loop followed by the
       generated return statements;
   (3) the calls of the loop body (which function, every argument: the projection bounds optim_state['lb_search'] / ['ub_search'],
       proj = True, the constraint; func_logger.func_count, gp and self.search_acq_fcn[1] for the LCB), what they are bound to, the
       bookkeeping of the step size incl. the guard `frac = n_new / ntest if ntest > 0 else 0.0`, the mask call
       `_get_selection_idx_mask_(us.shape[0], self.lamb)`, ll and the reproduction, the interleaving, and the code before the loop
       are the pinned text. *)
Theorem C18_generation_step_is_source :
  (forall (row : Type) (draws : list zv) (first : bool) (lamb : nat) (st : es_state row) (new : list (row * zv)),
      es_step row first lamb st new = gen_step row src_gen draws first lamb st new)
  /\ (forall (row : Type) (draws : list zv) (lamb : nat) (gens : list (list (row * zv))),
      es_run row lamb gens = gen_run row src_gen src_ret draws lamb gens)
  /\ model_calls = src_calls /\ model_call_binds = src_call_binds /\ model_book = src_book /\ model_order = src_order
  /\ model_loop_head = src_loop_head.
Proof. exact generation_step_is_source. Qed.
Print Assumptions C18_generation_step_is_source.

(* the constructors: mu, lamb, the weight vector of the first population, the options read (text pins) *)
Theorem C18_es_init_is_source : model_init = src_init.
Proof. exact init_is_source. Qed.
Print Assumptions C18_es_init_is_source.

(* THE HEDGE.  For every oracle vector e = exp(beta (g - max g)) and floor gamma the model's probabilities are the generated
   expressions evaluated per entry; for every draw and every probability vector the model's choice is the generated draw
   (np.argwhere(rand < np.cumsum(prob))[0]); the class constructed for a strategy is looked up BY NAME in the generated table, which
   is the model's (ES-wcm -> ESSearchWM, ES-ell -> ESSearchELL), the strategy picked is search_fcns[chosen_hedge], both classes get
   the same constructor / call arguments; everything else of ESSearchHedge (incl. update_hedge) is the pinned text. *)
Theorem C18_hedge_choice_is_source :
  (forall (e : list Q) (gamma : Q), hedge_probs e gamma = hedge_probs_src src_hedge e gamma)
  /\ (forall (rand : Q) (p : list Q), hedge_choice rand p = hedge_choice_src src_hedge rand p)
  /\ (forall name : string, model_class_of name = class_of (h_classes src_hedge) name)
  /\ h_exp src_hedge = "np.exp(self.beta * (self.g - np.max(self.g)))"%string
  /\ h_pick src_hedge = "self.search_fcns[self.chosen_hedge.item()]"%string
  /\ h_ctor_args src_hedge = ["self.mu"; "self.lamb"; "self.options_dict"]%string
  /\ h_call_args src_hedge = ["u"; "lb"; "ub"; "func_logger"; "gp"; "optim_state"; "self.chosen_search_fun[1]"; "self.non_box_cons"]%string
  /\ model_hedge_rest = src_hedge_rest /\ model_hedge_init = src_hedge_init /\ model_update = src_update.
Proof. exact hedge_choice_is_source. Qed.
Print Assumptions C18_hedge_choice_is_source.

(* Non-vacuity: the generated programs compute.  The real w0 of (mu, lamb) = (3, 8) and its mask; a three-generation search with an
   empty second generation and a NaN value, lamb = 2; a draw; a class looked up by name. *)
Example C18_src_example :
  run_mask src_mask [2; 2; 1; 1; 1; 1; 1; 1; 1; 1; 1] 8 = MOk [0; 1; 1; 2; 2; 3; 4; 5; 6]
  /\ gen_run (list Q) src_gen src_ret [] 2
       [ [([1 # 1], Some (3 # 1)); ([2 # 1], Some (1 # 1))]; []; [([5 # 1], Some (1 # 2)); ([6 # 1], None)] ]%Q
     = ESPoint [5 # 1]%Q (Some (1 # 2)%Q)
  /\ hedge_choice_src src_hedge (1 # 2) [1 # 4; 1 # 2; 1 # 4]%Q = Some 1%nat
  /\ class_of (h_classes src_hedge) "ES-ell" = Some "ESSearchELL"%string.
Proof. exact src_example. Qed.
