(* C14 — the hand-written model of the poll set (Model/PollDirs.v) IS the program regenerated from the source.
   Only statements here; proofs in Proofs/PollSourceProofs.v.

   coq/gen/Src_poll.v is written by translate/poll.py on every ./check run (never committed):
     src_gen  : gen_prog    the body of pybads/poll/poll_mads_2n.py::poll_mads_2n, statement by statement, + the returned expression
     src_cand : cand_prog   the refill block of BADS._poll_step_ (pybads/bads/bads.py): the call of the generator WITH THE PLACES OF THE
                            STATE IT PASSES, the scaling `(B_new * <mesh>) * <poll_scale>`, `self.u + vv`, the force_poll_mesh snap, the array
                            and the `proj` flag handed to contraints_check; and the read / evaluate / delete statements of the poll loop
   over the array language of Model/PollSrc.v (a NumPy value is read per entry, broadcasting along the last axis; random draws are
   oracle inputs in the order the code asks for them).  A changed operator, constant, operand, call, place (optim_state["mesh_size"]
   vs self.mesh_size ...) or statement order changes these definitions and the theorems below stop checking; a statement outside the
   translator's whitelist makes it raise and emit no definition at all.  The translation itself is validated on every run: the
   generated programs are evaluated by Coq on the same cases as the hand-written model and compared with the real code (props/C14.py,
   obligation correspondence:poll_source).

   Every theorem is for ALL dimensions D, ALL poll scales / mesh sizes / incumbents and ALL outcomes of the random draws
   (draws: the D x D entry draw, sd: the sign draw, pm: the row permutation chosen by rnd.permutation). *)
From Coq Require Import ZArith QArith List Bool String.
From PV Require Import Model.Val Model.PollDirs Model.PollSrc gen.Src_poll Proofs.PollDirsProofs Proofs.PollSourceProofs.
Import ListNotations.

(* THE GENERATOR.  For every input and every outcome of the draws the 2D x D array computed by the generated program (each entry
   stored reduced) is the array of the hand-written model: vstack(B, -B) / poll_scale with
   B = transpose(permutation(tril(draws - n, -1) + eye * n (2 sd - 3))),  n = max(1, round_half_even(search_mesh / mesh));
   and what the program asks numpy.random for (low, high, size of the entry draw and of the sign draw, in call order) is the
   model's rand_contract.  The `else` arm of `if n_max > 0` is dead (n_max >= 1): proved, not assumed.
   Premises: NumPy's contract only (the sign draw has D entries, the permutation is one of 0..D-1) and poll_scale has D entries. *)
Theorem C14_directions_are_source :
  forall (D : nat) (ps : list Q) (search_mesh mesh : Q) (draws : list (list Z)) (sd : list Z) (pm : list nat),
    List.length ps = D -> List.length sd = D -> perm_ok D pm ->
    gen_result src_gen D ps search_mesh mesh (mk_oracle draws sd pm) = poll_mads_2n D ps search_mesh mesh draws sd pm
    /\ Forall2 Qeq (gen_requests src_gen D ps search_mesh mesh (mk_oracle draws sd pm))
                   (map inject_Z (rand_contract D (poll_n search_mesh mesh))).
Proof. exact C14_directions_stmt. Qed.
Print Assumptions C14_directions_are_source.

(* THE CANDIDATES.  For every state s of the optimiser (the record has BOTH mesh places: optim_state["mesh_size"] / self.mesh_size and
   optim_state["search_mesh_size"] / self.search_mesh_size, which may differ), force_poll_mesh off, poll scales non-zero:
   (1) the generator is called with (self.D, poll_scale, optim_state["search_mesh_size"], optim_state["mesh_size"]): B_new is the
       model's array for those two places;
   (2) the array handed to contraints_check is  incumbent + optim_state["mesh_size"] * direction, row by row, for the model's 2D
       integer directions with n computed from the same two places (the division by poll_scale inside the generator and the
       multiplication outside cancel: proved over Q, entries stored reduced);
   (3) contraints_check is called with proj = False;
   (4) the loop reads candidate row index_acq, evaluates it, and deletes that same row along axis 0: the evaluated points are
       PollDirs.poll_loop for every candidate list and every sequence of choices. *)
Theorem C14_candidates_are_source :
  forall (D : nat) (s : pstate) (draws : list (list Z)) (sd : list Z) (pm : list nat),
    List.length (s_ps s) = D -> List.length (s_u s) = D -> List.length sd = D -> perm_ok D pm ->
    Forall (fun p => ~ (p == 0)%Q) (s_ps s) -> s_force s = false ->
    let n := poll_n (s_smesh_state s) (s_mesh_state s) in
    let dirs := poll_dirs (poll_basis D n draws sd pm) in
    cand_dirs src_gen src_cand D s (mk_oracle draws sd pm) = poll_mads_2n D (s_ps s) (s_smesh_state s) (s_mesh_state s) draws sd pm
    /\ cand_pre src_gen src_cand D s (mk_oracle draws sd pm) = poll_points (s_u s) (s_mesh_state s) dirs
    /\ c_proj src_cand = false
    /\ (forall (A : Type) (max_polls : nat) (cands : list A) (choices : list nat),
          gen_loop src_cand max_polls cands choices = poll_loop max_polls cands choices).
Proof. exact C14_candidates_stmt. Qed.
Print Assumptions C14_candidates_are_source.

(* options["force_poll_mesh"] = True (non-default): the same rows, every coordinate snapped to the SEARCH grid whose size is read from
   optim_state["search_mesh_size"]:  s * round_half_even(x / s)  (force_to_grid; its body is translated on its own for C17grid). *)
Theorem C14_forced_candidates_are_source :
  forall (D : nat) (s : pstate) (draws : list (list Z)) (sd : list Z) (pm : list nat),
    List.length (s_ps s) = D -> List.length (s_u s) = D -> List.length sd = D -> perm_ok D pm ->
    Forall (fun p => ~ (p == 0)%Q) (s_ps s) -> s_force s = true ->
    cand_pre src_gen src_cand D s (mk_oracle draws sd pm)
    = snap_points (s_smesh_state s)
        (poll_points (s_u s) (s_mesh_state s) (poll_dirs (poll_basis D (poll_n (s_smesh_state s) (s_mesh_state s)) draws sd pm))).
Proof. exact candidates_forced_are_source. Qed.
Print Assumptions C14_forced_candidates_are_source.

(* a pin only: the refill block is guarded by the test that makes it run exactly once per poll step (the basis is never emptied) *)
Theorem C14_refill_test_is_source : src_refill_test = "B is None or B.size == 0"%string.
Proof. exact refill_test_is_source. Qed.
Print Assumptions C14_refill_test_is_source.

(* hypotheses are satisfiable, and the generated programs compute: D = 3, n = 4, poll_scale (1, 1, 2);
   a state whose two mesh places DIFFER (the generated block reads optim_state's) *)
Example C14_src_example :
  gen_result src_gen 3 [1; 1; 2 # 1]%Q (4 # 1) (1 # 1) (mk_oracle [[5;6;7];[7;1;3];[1;3;2]] [1;2;1] [0;2;1]%nat)
  = [[-4 # 1; -3 # 1; 3 # 2]; [0; -1 # 1; 2 # 1]; [0; -4 # 1; 0]; [4 # 1; 3 # 1; -3 # 2]; [0; 1; -2 # 1]; [0; 4 # 1; 0]]%Q
  /\ cand_pre src_gen src_cand 2
       {| s_u := [1 # 2; 1 # 4]; s_ps := [1; 2 # 1]; s_mesh_state := 1 # 2; s_mesh_attr := 1; s_smesh_state := 1; s_smesh_attr := 2 # 1;
          s_force := false |}%Q (mk_oracle [[1;1];[2;1]] [1;2] [1;0]%nat)
     = [[1 # 2; -3 # 4]; [3 # 2; 1 # 4]; [1 # 2; 5 # 4]; [-1 # 2; 1 # 4]]%Q.
Proof. split; vm_compute; reflexivity. Qed.
