(* C14 — each poll explores a positive spanning set of mesh directions at the incumbent.
   Only statements here.  Proofs: Proofs/PollDet.v (MathComp: determinant, invertibility, positive
   span, and the bridge from the executable list model to MathComp matrices) and
   Proofs/PollDirsProofs.v (stdlib: entry formula, bounds, the default n = 1 case, poll loop).

   Model: Model/PollDirs.v.  The random draws of poll_mads_2n are explicit inputs:
     draws  = the full D x D result of rnd.randint(1, 2n, (D,D))  (only the strictly lower part is used)
     sdraws = the D results of rnd.randint(1, 3, D)               (1 -> -n, 2 -> +n on the diagonal)
     perm   = the row permutation of rnd.permutation
   [choices_ok D n draws sdraws perm] says exactly: n >= 1, strictly-lower draws in {1..2n-1},
   sign draws in {1,2}, perm a permutation of {0..D-1}.  All theorems are for EVERY dimension D,
   every n >= 1 and every such outcome (no enumeration).
   Notation: MathComp rebinds %Z to its own integers; Coq's Z is reached with %coqZ.  [mx_of m n M] is the
   m x n matrix over Z whose (i,j) entry is [entry M i j] (row i, column j of the list of rows M). *)
From Coq Require Import ZArith QArith List.
From PV Require Import Model.Val Model.PollDirs Proofs.PollDirsProofs Proofs.PollDet.
From mathcomp Require Import all_ssreflect all_fingroup all_algebra ssrZ.
Import GRing.Theory Num.Theory.
Local Open Scope ring_scope.
Delimit Scope Z_scope with coqZ.

(* The general fact (any commutative ring R, any dimension): for L zero on and above the diagonal,
   any diagonal d and any permutation s,
   det (row_perm s (L + diag d))^T = sign(s) * prod_i d_i. *)
Theorem C14_det_formula :
  forall (R : comRingType) (D : nat) (L : 'M[R]_D) (d : 'rV[R]_D) (s : 'S_D),
    (forall i j : 'I_D, (i <= j)%N -> L i j = 0) ->
    \det (row_perm s (L + diag_mx d))^T = (-1) ^+ s * \prod_i d 0 i.
Proof. exact det_ltmads. Qed.
Print Assumptions C14_det_formula.

(* The bridge: the executable model's output, read as a matrix, IS that matrix, with L, d, s read
   off the explicit random choices ([Lmx] = strictly lower part of draws - n, [dvec]_i = n (2 s_i - 3)). *)
Theorem C14_model_is_matrix :
  forall (D : nat) (n : Z) (draws : list (list Z)) (sdraws : list Z) (perm : list nat) (s : 'S_D),
    List.length sdraws = D -> perm_ok D perm ->
    (forall j : 'I_D, List.nth j perm 0%N = s j :> nat) ->
    mx_of D D (poll_basis D n draws sdraws perm) =
    (row_perm s (Lmx D n draws + diag_mx (dvec D n sdraws)))^T.
Proof. exact poll_basis_mx. Qed.
Print Assumptions C14_model_is_matrix.

(* Non-singular: det B = +- n^D, which is not 0; B is invertible over the rationals. *)
Theorem C14_basis_nonsingular :
  forall (D : nat) (n : Z) (draws : list (list Z)) (sdraws : list Z) (perm : list nat),
    choices_ok D n draws sdraws perm ->
    let B := mx_of D D (poll_basis D n draws sdraws perm) in
    (exists e : bool, \det B = (-1) ^+ e * n ^+ D) /\
    \det B != 0 /\
    map_mx ZtoQ B \in unitmx.
Proof.
  intros D n draws sdraws perm H B.
  exact (conj (basis_det H) (conj (basis_det_neq0 H) (basis_unit H))).
Qed.
Print Assumptions C14_basis_nonsingular.

(* Positive span, general form: the rows of [B ; -B] positively span when B is invertible
   (c *m M is the combination  sum_k c_k * row k of M). *)
Theorem C14_positive_span_unit :
  forall (F : realFieldType) (D : nat) (B : 'M[F]_D), B \in unitmx ->
  forall v : 'rV[F]_D,
  exists c : 'rV[F]_(D + D), (forall k, 0 <= c 0 k) /\ v = c *m col_mx B (- B).
Proof. exact positive_span. Qed.
Print Assumptions C14_positive_span_unit.

(* Positive span of the 2D directions the model generates: every rational vector is a combination
   with non-negative coefficients of the 2D rows of poll_dirs = vstack(B, -B). *)
Theorem C14_positive_span :
  forall (D : nat) (n : Z) (draws : list (list Z)) (sdraws : list Z) (perm : list nat),
    choices_ok D n draws sdraws perm ->
    forall v : 'rV[rat]_D,
    exists c : 'rV[rat]_(D + D),
      (forall k, 0 <= c 0 k) /\
      v = c *m map_mx ZtoQ (mx_of (D + D) D (poll_dirs (poll_basis D n draws sdraws perm))).
Proof. exact dirs_positive_span. Qed.
Print Assumptions C14_positive_span.

(* The generated set is {+d_1..+d_D, -d_1..-d_D}: 2D rows of length D, row D+i = - row i. *)
Theorem C14_plus_minus_pairs :
  forall (D : nat) (n : Z) (draws : list (list Z)) (sdraws : list Z) (perm : list nat) (i j : nat),
    let B := poll_basis D n draws sdraws perm in
    List.length (poll_dirs B) = (2 * D)%coq_nat /\
    (forall r, List.In r B -> List.length r = D) /\
    ((i < D)%coq_nat -> entry (poll_dirs B) i j = entry B i j) /\
    entry (poll_dirs B) (D + i)%coq_nat j = (- entry B i j)%coqZ.
Proof.
  intros D n draws sdraws perm i j B.
  pose proof (poll_basis_length D n draws sdraws perm) as HL.
  split; [ | split; [ | split]].
  - rewrite poll_dirs_length. unfold B. rewrite HL. reflexivity.
  - exact (poll_basis_row_length D n draws sdraws perm).
  - intro Hi. apply poll_dirs_upper. unfold B. rewrite HL. exact Hi.
  - rewrite <- HL at 1. exact (poll_dirs_lower B i j).
Qed.
Print Assumptions C14_plus_minus_pairs.

(* Entries are integers (the model is over Z) bounded by the mesh ratio n. *)
Theorem C14_entries_bounded :
  forall (D : nat) (n : Z) (draws : list (list Z)) (sdraws : list Z) (perm : list nat) (i j : nat),
    choices_ok D n draws sdraws perm -> (i < D)%coq_nat -> (j < D)%coq_nat ->
    (Z.abs (entry (poll_basis D n draws sdraws perm) i j) <= n)%coqZ.
Proof. exact entries_bounded. Qed.
Print Assumptions C14_entries_bounded.

(* Default mesh settings: n = 1 and the basis is a signed permutation matrix — every column and
   every row has exactly one non-zero entry, which is +-1: the signed coordinate directions in
   random order. *)
Theorem C14_default_is_coordinate :
  forall (D : nat) (draws : list (list Z)) (sdraws : list Z) (perm : list nat),
    choices_ok D 1%coqZ draws sdraws perm ->
    let B := poll_basis D 1%coqZ draws sdraws perm in
    (forall j, (j < D)%coq_nat -> exists i, (i < D)%coq_nat /\ Z.abs (entry B i j) = 1%coqZ /\
        forall i', (i' < D)%coq_nat -> i' <> i -> entry B i' j = 0%coqZ) /\
    (forall i, (i < D)%coq_nat -> exists j, (j < D)%coq_nat /\ Z.abs (entry B i j) = 1%coqZ /\
        forall j', (j' < D)%coq_nat -> j' <> j -> entry B i j' = 0%coqZ).
Proof. exact default_is_coordinate. Qed.
Print Assumptions C14_default_is_coordinate.

(* ... and the default options do give n = 1: with poll_mesh_multiplier 2, search_grid_multiplier 2,
   search_grid_number 10 and mesh exponent k <= 0 (max_poll_grid_number = 0, see C13) the search
   exponent is ks = min(0, 2k - 10) <= k - 10, so search_mesh/mesh = 2^(ks-k) <= 2^-10 rounds to 0 and
   n_max = max(1, 0) = 1. *)
Theorem C14_default_mesh_ratio_is_one :
  forall k : Z, (k <= 0)%coqZ ->
    (search_size_integer 2 10 k - k <= -10)%coqZ /\
    poll_n (pow2 (search_size_integer 2 10 k)) (pow2 k) = 1%coqZ.
Proof. intros k Hk. exact (conj (default_exponent_gap k Hk) (default_n_is_one k Hk)). Qed.
Print Assumptions C14_default_mesh_ratio_is_one.

(* Poll loop.  [cands] is the candidate set after filtering; the filter only removes / reorders rows of
   u + mesh * d (premise [incl], = Model/Filter's subset property of contraints_check with proj=False)
   and leaves no duplicate row (premise [NoDup]).  Whatever indices the acquisition argmin picks and
   whenever the loop stops, the evaluated points are u + mesh * d for pairwise DISTINCT generated
   directions d (each direction at most once) and there are at most 2D of them. *)
Theorem C14_poll_points :
  forall (D : nat) (n : Z) (draws : list (list Z)) (sdraws : list Z) (perm : list nat)
         (u : list Q) (mesh : Q) (cands : list (list Q)) (choices : list nat),
    let dirs := poll_dirs (poll_basis D n draws sdraws perm) in
    List.incl cands (poll_points u mesh dirs) -> List.NoDup cands ->
    exists ds : list (list Z),
      poll_loop (2 * D)%coq_nat cands choices = List.map (poll_point u mesh) ds /\
      List.NoDup ds /\ List.incl ds dirs /\
      (List.length ds <= 2 * D)%coq_nat /\ List.length dirs = (2 * D)%coq_nat.
Proof. exact poll_points_model. Qed.
Print Assumptions C14_poll_points.

(* the same bookkeeping fact without the premises: the evaluated rows occupy distinct positions of
   the candidate set (they and the rows left over are a rearrangement of it), at most [budget] many *)
Theorem C14_poll_loop_each_row_once :
  forall (A : Type) (choices : list nat) (budget : nat) (cands : list A),
    (exists rest, Permutation.Permutation cands (poll_loop budget cands choices ++ rest)%list) /\
    (List.length (poll_loop budget cands choices) <= budget)%coq_nat /\
    (List.length (poll_loop budget cands choices) <= List.length cands)%coq_nat.
Proof.
  intros A choices budget cands.
  exact (conj (poll_loop_sub A choices budget cands)
          (conj (poll_loop_length_budget A choices budget cands)
                (poll_loop_length_cands A choices budget cands))).
Qed.
Print Assumptions C14_poll_loop_each_row_once.

(* Non-vacuity: a concrete outcome for D = 3, n = 4 (taken from a run of the real generator) meets
   choices_ok; the model returns the matrix the code returned; a poll loop on three candidates. *)
Example C14_premises_satisfiable :
  choices_ok 3 4%coqZ
    ((5 :: 6 :: 7 :: nil) :: (7 :: 1 :: 3 :: nil) :: (1 :: 3 :: 2 :: nil) :: nil)%coqZ
    (1 :: 2 :: 1 :: nil)%coqZ (0 :: 2 :: 1 :: nil)%N /\
  poll_basis 3 4%coqZ
    ((5 :: 6 :: 7 :: nil) :: (7 :: 1 :: 3 :: nil) :: (1 :: 3 :: 2 :: nil) :: nil)%coqZ
    (1 :: 2 :: 1 :: nil)%coqZ (0 :: 2 :: 1 :: nil)%N =
    ((-4 :: -3 :: 3 :: nil) :: (0 :: -1 :: 4 :: nil) :: (0 :: -4 :: 0 :: nil) :: nil)%coqZ /\
  poll_loop 6%N (((1#1) :: nil) :: ((2#1) :: nil) :: ((3#1) :: nil) :: nil)%Q (1 :: 1 :: 0 :: 0 :: nil)%N =
    (((2#1) :: nil) :: ((3#1) :: nil) :: ((1#1) :: nil) :: nil)%Q.
Proof. exact example_choices_ok. Qed.
