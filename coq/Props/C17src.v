(* C17src — the hand-written model of the candidate filter IS the source.
   Statements only; proofs in Proofs/FilterSourceProofs.v.  gen/Src_filter.v is REGENERATED from
   pybads/function_logger/constraints_check.py on every run by translate/filter.py (a fail-closed
   translator; Model/FilterSrc.v says what every NumPy primitive of the generated let-chain means).
   [src_filter inverse_transf U lb ub tol_mesh fl_X fl_X_max_idx proj non_box_cons] is the body of
   `contraints_check`, statement by statement; the logger enters through its table X and X_max_idx, the
   user's constraint as an arbitrary function of the original-space image [inverse_transf row] returning a
   number (feasible = value <= 0). *)
From Coq Require Import ZArith QArith List Bool String.
From PV Require Import Model.Filter Model.FilterSrc Proofs.FilterProofs Proofs.FilterSourceProofs gen.Src_filter.
Import ListNotations.
Open Scope Z_scope.

(* For ALL candidate arrays, boxes, tolerances, logger tables, X_max_idx, transforms and constraint
   functions, the program regenerated from the source returns exactly what Model/Filter.v's
   [filter_candidates] returns (rows AND order), the evaluation log being X[: X_max_idx + 1] and a row
   counting as violated iff NOT (non_box_cons(inverse_transf(row)) <= 0).  Every theorem of Props/C17.v
   (in box, feasible, pairwise distinct, subset, the refuted "not already evaluated" clause and the
   irrelevance of the log) is therefore a theorem about the source text. *)
Theorem C17_filter_is_source :
  forall (XT : Type) (inverse_transf : qrow -> XT) (U : list qrow) (lb ub : list bnd) (tol_mesh : Q)
         (fl_X : list qrow) (fl_X_max_idx : Z) (proj : bool) (non_box_cons : option (XT -> Q)),
    src_filter inverse_transf U lb ub tol_mesh fl_X fl_X_max_idx proj non_box_cons
    = filter_candidates proj lb ub tol_mesh (py_prefix (fl_X_max_idx + 1) fl_X)
                        (violated_of inverse_transf non_box_cons) U.
Proof. exact filter_is_source. Qed.
Print Assumptions C17_filter_is_source.

(* The ORDER of the steps: the body writes the returned variable four times at its top level -
   `if proj`, a plain assignment, `if <result>.size > 0`, `if non_box_cons is not None` - and each of
   these stages, a function of exactly the parameters listed, is for ALL inputs the corresponding step of
   the model: projection / box filter, exact de-duplication keeping first occurrences in input order,
   the rounded-stack step (which never looks at the log, C17_log_irrelevant), the constraint.  The source
   is their composition in this order; no local flows from one stage into another. *)
Theorem C17_order_of_steps_is_source :
  forall (XT : Type) (inverse_transf : qrow -> XT) (U : list qrow) (lb ub : list bnd) (tol_mesh : Q)
         (fl_X : list qrow) (fl_X_max_idx : Z) (proj : bool) (non_box_cons : option (XT -> Q)),
    src_stage1 U lb ub proj = project_rows proj lb ub U /\
    (forall V, src_stage2 V = dedup_rows [] V) /\
    (forall V, src_stage3 tol_mesh fl_X fl_X_max_idx V = drop_evaluated tol_mesh (py_prefix (fl_X_max_idx + 1) fl_X) V) /\
    (forall V, src_stage4 inverse_transf non_box_cons V = keep_feasible (violated_of inverse_transf non_box_cons) V) /\
    src_filter inverse_transf U lb ub tol_mesh fl_X fl_X_max_idx proj non_box_cons
    = src_stage4 inverse_transf non_box_cons (src_stage3 tol_mesh fl_X fl_X_max_idx (src_stage2 (src_stage1 U lb ub proj))) /\
    src_stage_writes = ["if proj"; "assign"; "if R.size > 0"; "if non_box_cons is not None"]%string.
Proof. exact order_of_steps_is_source. Qed.
Print Assumptions C17_order_of_steps_is_source.

(* Consequently the clauses of Props/C17.v that hold of the model hold of the SOURCE PROGRAM, for all inputs: every row
   handed on is inside the box (with projection: if the box is non-empty), has a constraint value <= 0, is the (projected)
   image of an input row, and the rows are pairwise distinct, also after rounding to the half-tolerance lattice. *)
Theorem C17_source_properties :
  forall (XT : Type) (inverse_transf : qrow -> XT) (U : list qrow) (lb ub : list bnd) (tol_mesh : Q)
         (fl_X : list qrow) (fl_X_max_idx : Z) (proj : bool) (non_box_cons : option (XT -> Q)),
    let out := src_filter inverse_transf U lb ub tol_mesh fl_X fl_X_max_idx proj non_box_cons in
    ((proj = true -> box_ok lb ub) -> Forall (in_box lb ub) out) /\
    (forall c, non_box_cons = Some c -> Forall (fun r => Qle_bool (c (inverse_transf r)) (0 # 1) = true) out) /\
    NoDup out /\ NoDup (map (rkey (half_tol tol_mesh)) out) /\
    Forall (fun r => exists u, In u U /\ r = (if proj then clamp_row lb ub u else u)) out.
Proof. exact source_properties. Qed.
Print Assumptions C17_source_properties.

(* The CALL SITES (a pin of closed data, regenerated from every module of the package outside pybads/testing): contraints_check
   is defined once, imported only from pybads.function_logger, never patched, and called at exactly four places - the
   initial design, the search step, the poll step (against the hard bounds, without projection) and every generation of
   the ES search - each of the form `<set> = contraints_check(<set>, lb, ub, tol_mesh, <logger>, <proj>, <non_box_cons>)`
   with the user's constraint passed on, the snap to the search grid BEFORE the call, and no sibling statement
   rewriting the filtered set after it (the ES loop re-seeds its next generation, which is filtered again). *)
Theorem C17_call_sites_are_source : src_filter_calls = model_filter_calls.
Proof. exact filter_calls_are_model. Qed.
Print Assumptions C17_call_sites_are_source.

(* Non-vacuity: the generated program run on the example of Props/C17.v (projection creates a duplicate,
   two candidates collapse after rounding, one is infeasible, one is in the log, table with an unused row). *)
Example C17_src_example :
  src_filter (fun r => r) [[3 # 1; 0 # 1]; [5 # 1; 1 # 1]; [0 # 1; 0 # 1]; [1 # 4; 0 # 1]; [-1 # 1; 2 # 1]; [2 # 1; 0 # 1]]
    [Some (-2 # 1); Some (-2 # 1)] [Some (2 # 1); None] (1 # 1) [[0 # 1; 0 # 1]; [7 # 1; 7 # 1]] 0 true
    (Some (fun r => match r with [x; y] => y - (3 # 2) | _ => 1 end)%Q)
  = [[0 # 1; 0 # 1]; [2 # 1; 0 # 1]; [2 # 1; 1 # 1]].
Proof. vm_compute. reflexivity. Qed.
