(* C13 / C03 — the two history-based decisions in terms of RECORDED VALUES.
   "quartered when mesh acceleration is enabled and the run is stalling" and "the termination message names a
   stopping condition that actually holds": with the side condition hist_ok (Model/SkeletonHist.v; evaluated in
   Coq by the tie on every loop iteration of every deterministic real run) the historic-improvement numbers the
   code computes are the rounded difference between the history row it reads and the current incumbent value.
   Proofs in Proofs/SkeletonHistProofs.v. *)
From Coq Require Import ZArith QArith List Bool.
From PV Require Import Model.Val Model.Skeleton Model.SkeletonHist Proofs.SkeletonHistProofs.
Import ListNotations.
Open Scope Z_scope.

(* A poll step lowers the mesh exponent by 2 (quarters the mesh) only when acceleration is on, more than
   accelerate_mesh_steps poll iterations have completed, and the incumbent value recorded accelerate_mesh_steps
   iterations ago minus the current one is (up to one binary64 rounding of the difference) below tol_fun. *)
Theorem C13_quarter_means_stalling :
  forall (o : opts) (SI : Q) (ev : poll_ev) (s : st),
    poll_hist_ok o SI ev s = true -> k s <= o_maxgrid o ->
    let s' := poll_phase o SI ev s in
    exn s' = false -> k s' = k s - 2 ->
    exists h fb, pe_hist ev = Some h /\ (h < o_tolfun o)%Q /\ o_accel o = true /\ o_accel_steps o < piter s' /\
                 hist_f s' (piter s' - o_accel_steps o) = Some fb /\ approx_sub h fb (i_f (cur s')) = true.
Proof. exact quarter_in_history_terms. Qed.
Print Assumptions C13_quarter_means_stalling.

(* A run reported as stalled (message 4) compared the incumbent value recorded tol_stall_iters poll iterations
   ago with the final one, and their difference is (up to one rounding) below tol_fun; the row read is a row of
   the recorded history, not the closing row. *)
Theorem C03_stall_message_in_history_terms :
  forall (o : opts) (s : st) (ev : iter_ev),
    fin s = false -> exn s = false -> o_det o = true -> iter_hist_ok o s ev = true ->
    let s' := step_iter o s ev in
    fin s' = true -> exn s' = false -> msg s' = 4 ->
    exists h fb, ie_stall ev = Some h /\ (h < o_tolfun o)%Q /\
                 hist_f s' (piter s' - o_stall o) = Some fb /\ approx_sub h fb (i_f (cur s')) = true /\
                 0 <= piter s' - o_stall o < Z.of_nat (List.length (hist s')) - 1.
Proof. exact stall_message_in_history_terms. Qed.
Print Assumptions C03_stall_message_in_history_terms.

(* Non-vacuity: a state with five recorded iterates of value 10, a failed poll at poll iteration 4 with
   acceleration after 3 steps: the premises hold and the mesh is quartered. *)
Example C13_quarter_example :
  let o := mkO 2 100 50 3 (-20) true 3 5 true 0 1 0 2 10 true (1 # 1000) true true in
  let c := mkI [0%Q; 0%Q] 10 10 0 in
  let s := mkSt (-1) (-12) 0 0 0 4 30 30 c [] (repeat (mkH c 30 0) 5) false 0 false in
  let ev := mkPE 0 [] (Some 0%Q) in
  poll_hist_ok o 1 ev s = true /\ k s <= o_maxgrid o /\
  exn (poll_phase o 1 ev s) = false /\ k (poll_phase o 1 ev s) = k s - 2.
Proof. vm_compute. repeat split; try reflexivity. discriminate. Qed.
