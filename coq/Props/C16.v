(* C16 — numerical failure of a GP hyper-parameter fit never aborts the optimisation.
   Only statements; proofs in Proofs/FitRetryProofs.v (closed).  Model: Model/FitRetry.v — the three controllers
   around gpyreg.GP.fit as state machines over the LENGTHS handed to fit, driven by a fault oracle
   [fails : nat -> bool] (fit invocation j raises LinAlgError) and a drop-count oracle.

   What is proved is the CONTROL logic (which exception can leave the controller, what it returns, that the arrays
   stay aligned).  Why a Cholesky fails and whether resampled hyper-parameters succeed is gpyreg numerics (oracle).
   "All other guarantees (bounds, budget, truthful result) continue to hold for that run" is NOT a theorem of this
   file: the run-level theorems of C01-C04 quantify over all GP answers and are owned by other files; here that
   clause is checked by the run monitors on every fault-injected real run (props/C16.py). *)
From Coq Require Import ZArith List Bool String Arith Lia.
From PV Require Import Model.FitRetry Proofs.FitRetryProofs.
Import ListNotations.
Open Scope Z_scope.

(* At EVERY fit attempt of _robust_gp_fit_ (any fault pattern, any drop counts, any remove_points_after_tries),
   |X| = |Y| and the noise argument is None, a scalar, or an array of |X| entries — so GP.fit's reshape can never
   raise; and the only exceptions that can leave the controller are the two named in [benign]
   (all 10 attempts failed / the training set ran empty).  True of the code as repaired by a4552d2. *)
Theorem C16_lengths_aligned :
  forall (rpat : Z) (fails : nat -> bool) (drops : nat -> nat) (j n : nat) (s2 : s2len) (tmp : option nat),
    aligned n n s2 tmp ->
    let r := robust_fit true rpat fails drops j n n s2 tmp in
    Forall attempt_aligned (rf_trace r) /\ benign r.
Proof. exact lengths_aligned. Qed.
Print Assumptions C16_lengths_aligned.

(* The pre-repair controller (local s2 not shrunk by the drop mask; [repaired = false]) breaks it with two faults:
   33 rows with a noise vector, faults at attempts 0 and 1, 3 rows dropped -> the third fit receives |X| = 30, |s2| = 33
   and GP.fit raises ValueError (cannot reshape).  Seeded mutant C16-revert-s2-shrink replays this on the real code. *)
Theorem C16_lengths_refuted_without_repair :
  exists (fails : nat -> bool) (drops : nat -> nat) (n : nat) (tr : list attempt) (a : attempt),
    (forall j, fails j = true <-> (j < 2)%nat) /\
    aligned n n (S2Arr n) (Some n) /\
    robust_fit false 1 fails drops 0 n n (S2Arr n) (Some n) = RFStuck "ValueError: cannot reshape s2"%string tr /\
    nth_error tr 2 = Some a /\ a_X a = 30%nat /\ a_s2 a = S2Arr 33 /\ ~ attempt_aligned a.
Proof. exact lengths_refuted_without_repair. Qed.
Print Assumptions C16_lengths_refuted_without_repair.

(* Fewer than 10 consecutive faults (the i-th attempt, i < 10, is the first that does not fail) and a training set
   that the drop step cannot exhaust (each drop removes at most max(1, d) rows): _robust_gp_fit_ returns after exactly
   i + 1 fit attempts with [res] bound and success = 1 (no failure) or 0 (some failure).  Covers single faults,
   runs of 2-4 (and up to 9) consecutive faults, in deterministic (s2 = None) and noisy (noise vector) modes. *)
Theorem C16_robust_fit_total :
  forall (rpat : Z) (fails : nat -> bool) (drops : nat -> nat) (d j n i : nat) (s2 : s2len) (tmp : option nat),
    (forall j', (drops j' <= d)%nat) ->
    aligned n n s2 tmp ->
    (i < 10)%nat ->
    (forall i', (i' < i)%nat -> fails (j + i')%nat = true) ->
    fails (j + i)%nat = false ->
    (i * Nat.max 1 d < n)%nat ->
    exists tr,
      robust_fit true rpat fails drops j n n s2 tmp = RFReturned (if Nat.eqb i 0 then 1 else 0) tr /\
      List.length tr = S i.
Proof. exact robust_fit_total. Qed.
Print Assumptions C16_robust_fit_total.

(* OUTSIDE the property's range (1-4 consecutive faults), reported as observations, not gated on:
   ten consecutive faults — the function never returns: at `return gp, new_hyp, res, success` the name [res] is
   unbound (UnboundLocalError) instead of the intended success = -1 ... *)
Theorem C16_ten_faults_refuted :
  (forall repaired rpat fails drops j nX nY s2 tmp,
      (forall i, (i < 10)%nat -> fails (j + i)%nat = true) ->
      exists why t, robust_fit repaired rpat fails drops j nX nY s2 tmp = RFStuck why t) /\
  (exists (fails : nat -> bool) (drops : nat -> nat) (n : nat) (tr : list attempt),
      aligned n n S2None None /\
      robust_fit true 1 fails drops 0 n n S2None None = RFStuck "UnboundLocalError: res unbound"%string tr /\
      List.length tr = 10%nat).
Proof. split; [exact ten_faults_never_return | exact ten_faults_refuted]. Qed.
Print Assumptions C16_ten_faults_refuted.

(* ... and a small training set (5 rows: the first local refit of a deterministic run) is emptied by the drop step
   after 6 consecutive faults: np.argmin of an empty matrix raises ValueError. *)
Theorem C16_rows_exhausted_refuted :
  exists (fails : nat -> bool) (drops : nat -> nat) (tr : list attempt),
    (forall j, fails j = true <-> (j < 6)%nat) /\
    robust_fit true 1 fails drops 0 5 5 S2None None = RFStuck "ValueError: argmin of an empty sequence"%string tr /\
    List.length tr = 6%nat.
Proof. exact rows_exhausted_refuted. Qed.
Print Assumptions C16_rows_exhausted_refuted.

(* Initial training: if attempt k is the first that does not fail, the `while not fitted` loop ends after exactly
   k + 1 fit invocations (for every finite run of faults; hyper-parameter start: given / prior sample / zeros at
   the third failure) ... *)
Theorem C16_init_training_terminates :
  forall (fails : nat -> bool) (j k fuel : nat),
    (forall i, (i < k)%nat -> fails (j + i)%nat = true) ->
    fails (j + k)%nat = false ->
    (k < fuel)%nat ->
    init_training fuel fails false j = IReturned (S k) (branch_of k).
Proof. exact init_training_terminates. Qed.
Print Assumptions C16_init_training_terminates.

(* ... and under a permanently failing fit it never ends (there is no attempt bound): whatever fuel the model is
   given, it is used up.  Stated, not gated on (liveness needs "the fit eventually succeeds"). *)
Theorem C16_init_training_unbounded :
  forall (fails : nat -> bool) (j fuel : nat),
    (forall i, fails i = true) -> init_training fuel fails false j = IOutOfFuel fuel.
Proof. exact init_training_never_ends. Qed.
Print Assumptions C16_init_training_unbounded.

(* Posterior-update fallback of local_gp_fitting: a LinAlgError in gp.update(hyp=...) is caught, priors and
   hyper-parameters are restored and exit_flag = -2 is returned (no exception); without a failure the exit flag of the
   refit is passed through.  Third conjunct (observation): if the recomputation inside the handler
   (set_hyperparameters -> gp.update) fails as well, nothing catches it. *)
Theorem C16_update_fallback :
  forall (exit_flag : option Z),
    update_fallback exit_flag true false = UReturned (Some (-2)) true /\
    (forall h, update_fallback exit_flag false h = UReturned exit_flag false) /\
    (exists why, update_fallback exit_flag true true = UStuck why).
Proof. exact update_fallback_ok. Qed.
Print Assumptions C16_update_fallback.

(* ---- premises are satisfiable / the model computes: specified-noise refit on 44 rows, faults at attempts 0-3,
   drops 4, 3, 3 (as recorded from a real run): returns success 0 after 5 attempts with all columns shrunk together *)
Example C16_example_four_faults :
  robust_fit true 1 (fun j => Nat.ltb j 4) (fun j => nth j [0; 4; 3; 3]%nat 0%nat) 0 44 44 (S2Arr 44) (Some 44%nat) =
  RFReturned 0 [ mkA 44 44 (S2Arr 44) (Some 44%nat); mkA 44 44 (S2Arr 44) (Some 44%nat); mkA 40 40 (S2Arr 40) (Some 40%nat);
                 mkA 37 37 (S2Arr 37) (Some 37%nat); mkA 34 34 (S2Arr 34) (Some 34%nat) ] /\
  aligned 44 44 (S2Arr 44) (Some 44%nat) /\ (4 * Nat.max 1 4 < 44)%nat.
Proof. split; [vm_compute; reflexivity | split; [repeat split | cbn; lia]]. Qed.
Example C16_example_init :
  init_training 100 (fun j => Nat.ltb j 4) false 0 = IReturned 5 BrPriorSample /\
  init_training 100 (fun j => Nat.ltb j 3) false 0 = IReturned 4 BrZeros.
Proof. split; vm_compute; reflexivity. Qed.
