(* C05final — the TAIL of optimize() in the run-level model IS the source (properties C05, C19, C03).
   gen/Src_final.v is regenerated on every ./check run by translate/final.py from pybads/bads/bads.py (every statement of optimize()
   after the main loop: the guard of the noisy end-game, the choice of the returned iterate, the final re-sampling, self.x, the
   construction of the OptimizeResult) and from pybads/bads/optimize_result.py (set_attributes); anything the translator does not
   understand poisons the generated file.  The theorems below state that the hand-written definitions of Model/Skeleton.v
   ([final_phase], [final_samples]), Model/FinalSrc.v and Model/History.v ([set_attributes_keys]) are EQUAL, for all arguments, to the
   regenerated ones.  Statements only; proofs in Proofs/FinalSourceProofs.v.  Oracles (universally quantified): the argmin over the
   quantile scores, sqrt(2) * erfcinv(.), the re-estimated history values, the observations, NumPy's mean and standard deviation. *)
From Coq Require Import ZArith QArith List Bool String.
From PV Require Import Model.Val Model.Skeleton Model.SkeletonValid Model.SkeletonNoisy Model.History Model.FinalLib gen.Src_final Model.FinalSrc
  Proofs.SkeletonFinal Proofs.FinalSourceProofs.
Import ListNotations.
Open Scope Z_scope.

(* C05: the final phase of the skeleton, every decision read from the source: whether the noisy end-game runs (uncertainty level and
   completed poll iterations), whether the chosen iterate is re-sampled, how many logger calls the loop makes, and the vector stored
   as yval_vec (the fresh observations, supplemented by the observed value of the chosen iterate when there is exactly one).  level is
   optim_state['uncertainty_handling_level']; sdsq, cf, cs, sdsup, spec are the inputs of the generated vector that the y vector
   does not depend on. *)
Theorem C05_final_phase_is_source : forall (o : opts) (nfs level : Z) (ev : final_ev) (s : st) (sdsq : list Q) (cf cs sdsup : Q) (spec : bool),
  o_det o = (level =? 0) -> 0 <= level ->
  final_phase o nfs ev s =
  if exn s then mkFO s [] [] false else
  if negb (src_final_guard level (piter s)) then mkFO s [] [] false else
  match nth_error (hist s) (fe_idx ev) with
  | None => mkFO s [] [] false
  | Some h =>
      let c := mkI (i_u (h_inc h)) (i_y (h_inc h)) (fe_f ev) (fe_s ev) in
      let s1 := set_cur s c in
      if negb (src_fs_guard nfs) then mkFO s1 [] [] false else
      let '(s2, ys, sds) := final_samples s1 (i_u c) (Z.to_nat (src_fs_count nfs)) (fe_obs ev) [] [] in
      if exn s2 then mkFO s2 ys sds true else
      mkFO (set_cur s2 (mkI (i_u c) (i_y c) (fe_mean ev) (fe_sem ev))) (src_fs_yvec ys sdsq (i_y c) cf cs sdsup spec) sds true
  end.
Proof. exact final_phase_is_source. Qed.
Print Assumptions C05_final_phase_is_source.

(* ... where the generated pieces are: the guard, the loop bound (= the size of both allocated vectors), the size-1 test, the supplement *)
Theorem C05_resampling_block_is_source :
  (forall level piter, src_final_guard level piter = (0 <? level) && (0 <? piter)) /\
  (forall nfs, src_fs_guard nfs = negb (nfs <=? 0)) /\
  (forall nfs, src_fs_count nfs = nfs /\ src_fs_alloc_y nfs = src_fs_count nfs /\ src_fs_alloc_sd nfs = src_fs_count nfs) /\
  (forall n, src_fs_suppl_guard n = (n =? 1)) /\
  (forall ys sds cy cf cs sdsup spec, src_fs_yvec ys sds cy cf cs sdsup spec = match ys with [y] => [y; cy] | _ => ys end) /\
  (forall ys sds cy cf cs sdsup spec,
     src_fs_sdvec ys sds cy cf cs sdsup spec = match ys with [_] => if spec then sds ++ [sdsup] else sds | _ => sds end).
Proof. exact (conj final_guard_is_source (conj fs_guard_is_source (conj fs_count_is_source (conj suppl_guard_is_source (conj yvec_is_source sdvec_is_source))))). Qed.
Print Assumptions C05_resampling_block_is_source.

(* PARTIAL: the skeleton's SD vector [fo_sdvec] holds only the SDs reported with the fresh samples; it is the PREFIX of the vector the
   code stores.  Missing: the supplement entry the code appends when exactly one final sample is taken under specified noise -
   the value src_fs_sdsuppl computes from the log (C05_sd_supplement_is_sd_at_x below), which the skeleton does not carry. *)
Theorem C05_sd_vector_is_source_partial : forall ys sds cy cf cs sdsup spec,
  firstn (List.length sds) (src_fs_sdvec ys sds cy cf cs sdsup spec) = sds.
Proof. exact sdvec_prefix. Qed.
Print Assumptions C05_sd_vector_is_source_partial.

(* C05 (repair of the finding ysd-supplement-not-at-x): the SD paired with the supplemented observation is the SD LOGGED AT THE RETURNED POINT.
   src_fs_sdsuppl is generated from the statements that compute the supplement (the search of the logged rows X[: Xn + 1] for self.u, the choice of the
   first match, the read of S): for every log, point and row count, if some logged row equals u the supplement is the SD of the FIRST such row;
   if none does it is the SD of the last logged row (the code's fallback).  The old form S[Xn] generates another definition and fails this proof. *)
Theorem C05_sd_supplement_is_sd_at_x :
  (forall logX logS u xn i r,
     0 <= xn -> (i <= Z.to_nat xn)%nat ->
     nth_error logX i = Some r -> qrow_eqb r u = true ->
     (forall j r', (j < i)%nat -> nth_error logX j = Some r' -> qrow_eqb r' u = false) ->
     src_fs_sdsuppl logX logS u xn = nth i logS 0%Q) /\
  (forall logX logS u xn,
     0 <= xn -> (forall j r', (j <= Z.to_nat xn)%nat -> nth_error logX j = Some r' -> qrow_eqb r' u = false) ->
     src_fs_sdsuppl logX logS u xn = nth (Z.to_nat xn) logS 0%Q).
Proof. exact sd_supplement_is_sd_at_x. Qed.
Print Assumptions C05_sd_supplement_is_sd_at_x.

(* C05: the four restored incumbent fields come from ONE history row: the generated index expressions of yval, fval, fsd and u are the
   same expression - the argmin over the scores without their first row, plus one - the generated keys are the four columns in that
   order, the score of a row is fval + sigma * fsd with sigma the oracle sqrt(2) * erfcinv(2 * final_quantile); hence whatever the
   generated selection returns is row i of all four columns for one i >= 1 (and the argmin is an index of its argument). *)
Theorem C05_returned_iterate_is_one_history_row :
  (forall am piter,
     src_sel_idx_y am piter = src_sel_idx_u am piter /\ src_sel_idx_f am piter = src_sel_idx_u am piter /\
     src_sel_idx_s am piter = src_sel_idx_u am piter /\ src_sel_idx_u am piter = am + src_sel_skip /\ src_sel_skip = 1) /\
  src_sel_keys = ["yval"; "fval"; "fsd"; "u"]%string /\
  (forall sigma f s fq, src_sel_score sigma f s = (f + sigma * s)%Q /\ src_sel_quantile_arg fq = ((2 # 1) * fq)%Q) /\
  (forall sigma t hu piter c,
     src_sel_row sigma t hu piter = Some c ->
     let i := src_am sigma (col "fval" t) (col "fsd" t) + 1 in
     nthz hu i = Some (i_u c) /\ nthz (col "yval" t) i = Some (i_y c) /\
     nthz (col "fval" t) i = Some (i_f c) /\ nthz (col "fsd" t) i = Some (i_s c)) /\
  (forall l, l <> [] -> 0 <= argmin_first l < Z.of_nat (List.length l)).
Proof. exact (conj sel_indices_are_one (conj sel_keys_are_source (conj sel_score_is_source (conj sel_row_is_one_row argmin_first_range)))). Qed.
Print Assumptions C05_returned_iterate_is_one_history_row.

(* C05: the final samples are taken with record_duplicate_data = False at self.u (generated call site), and the skeleton's
   re-sampling - whatever the observations, also when one of them raises - leaves the number of logged rows unchanged and calls the
   target only at the point it was given. *)
Theorem C05_final_samples_not_recorded :
  src_fs_record_flag = false /\ src_fs_call_arg = 0 /\
  forall n obs s u ys sds,
    nrows (fst (fst (final_samples s u n obs ys sds))) = nrows s /\
    exists l, calls (fst (fst (final_samples s u n obs ys sds))) = calls s ++ l /\ Forall (fun c => fst c = u) l.
Proof. exact final_samples_not_recorded. Qed.
Print Assumptions C05_final_samples_not_recorded.

(* C05: fval is the mean and fsd the standard deviation divided by sqrt(size) of the vector that is stored as yval_vec (generated:
   which vector the two statistics are taken of, the divisor); the side condition est_ok, built from the generated definitions and
   evaluated in Coq on every recorded end-game, says that the floats NumPy returned agree with the exact values to 1e-9. *)
Theorem C05_estimate_is_source :
  src_fs_fval_is_mean_of_yvec = true /\ src_fs_fsd_is_std_over_sqrt = true /\ (forall n, src_fs_sem_div n = n) /\
  forall yvec fval fsd, est_ok yvec fval fsd = true ->
    yvec <> [] /\ q_approx fval (Qred (qmean yvec)) = true /\
    q_approx (Qred (fsd * fsd * qlen yvec)) (Qred (qvar yvec)) = true /\ Qle_bool 0 fsd = true.
Proof. exact estimate_is_source. Qed.
Print Assumptions C05_estimate_is_source.

(* C03: the number of logger calls of the tail.  The calls the final phase appends to the call list number at most
   src_final_calls = (noise_final_samples if the generated guards hold, else 0), and exactly that many - which is then
   noise_final_samples itself - when the re-sampling ran, no sample raised and enough observations were supplied. *)
Theorem C03_final_calls_bounded_is_source : forall (o : opts) (nfs level : Z) (ev : final_ev) (s : st),
  o_det o = (level =? 0) -> 0 <= level ->
  let f := final_phase o nfs ev s in
  src_final_calls level (piter s) nfs = (if (0 <? level) && (0 <? piter s) && (0 <? nfs) then nfs else 0) /\
  exists l, calls (fo_st f) = calls s ++ l /\
            Z.of_nat (List.length l) <= src_final_calls level (piter s) nfs /\
            0 <= src_final_calls level (piter s) nfs /\
            (exn (fo_st f) = false -> final_obs_ok nfs ev = true -> fo_sampled f = true ->
             Z.of_nat (List.length l) = src_final_calls level (piter s) nfs /\ src_final_calls level (piter s) nfs = nfs).
Proof. intros o nfs level ev s H L f. split; [apply final_calls_is_source | exact (final_calls_bounded o nfs level ev s H L)]. Qed.
Print Assumptions C03_final_calls_bounded_is_source.

(* C19: which attribute of the optimiser goes to which key of the OptimizeResult.  The hand-written table of Model/FinalSrc.v is the
   generated assembly list of set_attributes; its keys, in order, are the key list of the container model (Model/History.v); the
   result is built from the optimiser itself, after self.x = inverse_transf(self.u); x, fval, fsd, func_count, iterations, mesh_size,
   message, x0 and random_seed are read from the attributes / state entries of the same name. *)
Theorem C19_result_fields_are_source :
  result_sources = src_result_assembly /\ map fst src_result_assembly = set_attributes_keys /\
  src_result_ctor_arg = "self"%string /\ src_x_source = "inverse_transf(self.u)"%string /\
  assoc_str "x" src_result_assembly = Some "bads.x.copy()"%string /\
  assoc_str "fval" src_result_assembly = Some "bads.fval"%string /\
  assoc_str "fsd" src_result_assembly = Some "bads.fsd"%string /\
  assoc_str "func_count" src_result_assembly = Some "bads.function_logger.func_count"%string /\
  assoc_str "iterations" src_result_assembly = Some "bads.optim_state['iter']"%string /\
  assoc_str "mesh_size" src_result_assembly = Some "bads.mesh_size"%string /\
  assoc_str "message" src_result_assembly = Some "bads.optim_state['termination_msg']"%string /\
  assoc_str "x0" src_result_assembly = Some "bads.x0.copy()"%string /\
  assoc_str "random_seed" src_result_assembly = Some "bads.optim_state['random_seed']"%string.
Proof. exact result_fields_are_source. Qed.
Print Assumptions C19_result_fields_are_source.

(* the generated definitions on a concrete end-game: every branch *)
Example C05_final_src_example :
  src_final_guard 1 3 = true /\ src_final_guard 0 3 = false /\ src_final_guard 2 0 = false /\
  src_final_calls 1 3 10 = 10 /\ src_final_calls 1 0 10 = 0 /\ src_final_calls 1 3 0 = 0 /\
  src_fs_yvec [1 # 2] [1 # 3] (7 # 1) (0 # 1) (0 # 1) (9 # 1) true = [1 # 2; 7 # 1] /\
  src_fs_sdvec [1 # 2] [1 # 3] (7 # 1) (0 # 1) (0 # 1) (9 # 1) true = [1 # 3; 9 # 1] /\
  src_fs_yvec [1 # 2; 3 # 2] [1 # 3; 1 # 3] (7 # 1) (0 # 1) (0 # 1) (9 # 1) true = [1 # 2; 3 # 2] /\
  src_am (1 # 1) [0 # 1; 5 # 1; 2 # 1; 2 # 1] [0 # 1; 0 # 1; 1 # 2; 1 # 4] = 2 /\
  src_sel_row (1 # 1) [("yval", [9 # 1; 8 # 1; 7 # 1; 6 # 1]); ("fval", [0 # 1; 5 # 1; 2 # 1; 2 # 1]); ("fsd", [0 # 1; 0 # 1; 1 # 2; 1 # 4])]%string
              [[0 # 1]; [1 # 1]; [2 # 1]; [3 # 1]] 3 = Some (mkI [3 # 1] (6 # 1) (2 # 1) (1 # 4)).
Proof. exact final_src_example. Qed.
