(* C12 (source tie) — Model/Logger.v's [record] / [step] and Model/LoggerExtent.v's [new_record] are what
   pybads/function_logger/function_logger.py says TODAY.  coq/gen/Src_logger.v is regenerated from the source by translate/logger.py
   on every run (fail-closed whitelist; symbolic execution of _record with _expand_arrays inlined); Model/LoggerSrc.v says what the
   generated programs mean.  Statements only; proofs in Proofs/LoggerSourceProofs.v. *)
From Coq Require Import ZArith QArith List String Bool.
From PV Require Import Model.XQ Model.Val Model.Logger Model.LoggerSrc Proofs.LoggerSourceProofs.
From PV Require Model.LoggerExtent.
From PV Require Import gen.Src_logger.
Import ListNotations.
Open Scope Z_scope.

(* _record: for EVERY state, X_max_idx, point, value, SD and record flag, running the program generated from the source gives exactly
   the state and the result of the model's [record], and (Xn, X_max_idx, capacity) move by the extent model's rule.
   [merge_defined] is the standing assumption of C12 (a row that a specified-noise observation is merged into has an SD; otherwise
   the code writes NaN and the interpreter is stuck). *)
Theorem C12_record_is_source :
  forall (s : lstate) (xm : Z) (x xo : list Q) (fv : Q) (fsd : option Q) (rp : bool),
    merge_defined s x fsd ->
    exists xm',
      run_record src_record s xm x xo fv fsd rp = Some (fst (record s x xo fv fsd rp), xm', snd (record s x xo fv fsd rp)) /\
      ext_of (fst (record s x xo fv fsd rp)) xm' =
      LoggerExtent.ext_step (ext_of s xm) (grew s (fst (record s x xo fv fsd rp))).
Proof. exact record_is_source. Qed.
Print Assumptions C12_record_is_source.

(* the two paths of the source that write an existing row: the merge (first row EQUAL to x: Y, S, n_evals; returns the merged Y) and
   the not-recorded hit (last row equal to x: n_evals only); the merge expressions of the source evaluate to [merge_row]:
   Y' = (tau_n Y + tau_1 f) / (tau_n + tau_1), 1 / S'^2 = tau_n + tau_1 with tau_n = 1 / S^2, tau_1 = 1 / fsd^2, n' = n + 1. *)
Theorem C12_merge_formula_is_source :
  exists ey es en,
    upd_leaves src_record =
      [(IFirst (MRows RAll), Some ey, Some es, Some en, ey); (ILast (MRows RAll), None, None, Some en, FVal)] /\
    forall v r tn sd, r_tau r = Some tn -> v_fsd v = Some sd ->
      let r' := merge_row (v_fv v) sd r in
      fevq v (Some r) ey = Some (r_y r') /\
      option_map tau_of (fev v (Some r) es) = Some (match r_tau r' with Some t => t | None => 0%Q end) /\
      nev (Some r) en = Some (r_n r').
Proof. exact merge_formula_is_source. Qed.
Print Assumptions C12_merge_formula_is_source.

(* growth: both new-record paths of the source move (Xn, X_max_idx, capacity) exactly as LoggerExtent.new_record, write every table at
   the new Xn and return it; _expand_arrays grows by max(ceil(Xn / 2), 1); finalize cuts at Xn + 1; unused rows are NaN (zeros for
   n_evals) in __init__ and in _expand_arrays; the counters start at 0 / -1. *)
Theorem C12_growth_is_source :
  List.length (new_leaves src_record) = 2%nat /\
  (forall l, In l (new_leaves src_record) -> forall e : LoggerExtent.ext,
     let '(at_, xn', cap', xmax', ri) := l in
     let ev := zeval (LoggerExtent.xn e) (LoggerExtent.cap e) (LoggerExtent.xmax e) in
     LoggerExtent.mkExt (ev xn') (ev xmax') (ev cap') = LoggerExtent.new_record e /\ ev at_ = ev xn' /\ ev ri = ev xn') /\
  (forall n cp xm, zeval n cp xm src_expand_amount = LoggerExtent.growth n) /\
  (forall n cp xm, zeval n cp xm src_finalize_cut = n + 1) /\
  src_init_fills = model_fills /\ src_expand_fills = model_fills /\ src_init_counters = model_init_counters.
Proof. exact growth_is_source. Qed.
Print Assumptions C12_growth_is_source.

(* one op (call / add / finalize) with EVERY piece taken from the source — validity tests, defaulting of the SD in add, position of
   the counters relative to _record, _record itself — is the model's [step]. *)
Theorem C12_step_is_source :
  forall (s : lstate) (xm : Z) (o : op),
    op_merge_defined s o ->
    exists xm',
      step_gen src_record src_call_events src_add_events (s, xm) o = Some (fst (step s o), xm', snd (step s o)) /\
      ext_of (fst (step s o)) xm' =
      match o with
      | Finalize => LoggerExtent.mkExt (Z.of_nat (List.length (rows s)) - 1) xm (Z.of_nat (List.length (rows s)))
      | _ => LoggerExtent.ext_step (ext_of s xm) (grew s (fst (step s o)))
      end.
Proof. exact step_is_source. Qed.
Print Assumptions C12_step_is_source.

(* __call__ and add in statement order (what is evaluated, tested, passed to _record, counted, returned) *)
Theorem C12_call_add_are_source :
  src_call_events = model_call_events /\ src_add_events = model_add_events.
Proof. exact call_add_are_source. Qed.
Print Assumptions C12_call_add_are_source.

(* Non-vacuity: a two-record specified-noise state satisfies the premise and a third observation at the first point is merged by the
   generated program: (1*3 + 4*4) / (1 + 4) = 19/5 at row 0. *)
Example C12_src_example :
  let s := fst (run_with merge_index (init_logger 1 true true)
                  [Call [1#1; 2#1] [1#1; 2#1] (OkVal (3#1) (Some (1#1))) true; Call [3#1; 2#1] [3#1; 2#1] (OkVal (5#1) (Some (1#1))) true]) in
  merge_defined s [1#1; 2#1] (Some (1#2)) /\
  exists s' xm', run_record src_record s 1 [1#1; 2#1] [1#1; 2#1] (4#1) (Some (1#2)) true = Some (s', xm', Ret (19#5) (Some (1#2)) (Some 0%nat)).
Proof. exact source_example. Qed.
