(* C05 — noisy targets: the reported estimate is the mean of fresh samples at the returned x.
   Statements only; proofs in Proofs/SkeletonFinal.v.  The final phase is Model/Skeleton.v
   [final_phase]; oracles: the index chosen by the quantile rule, the re-estimated (fval, fsd),
   the observations, NumPy's mean and SEM (checked against the exact values by [final_est_ok]). *)
From Coq Require Import ZArith QArith Qabs List Bool.
From PV Require Import Model.Val Model.Skeleton Model.SkeletonValid Model.SkeletonNoisy Proofs.SkeletonFinal.
Import ListNotations.
Open Scope Z_scope.

(* The returned point is one of the recorded iterates, and (with the side condition that the noisy
   re-estimation keeps the incumbent point) it was evaluated EARLIER in the run.
   "Evaluated" is membership of the pair (point, observed value) in the call list up to Qeq: the side
   condition noisy_u_ok compares the re-estimated incumbent's pair with Qeq_bool (all the harness can check),
   so a point written as 2#2 where the call list has 1#1 is the same point but not Leibniz-equal
   (witness: Proofs/SkeletonFinal.v [returned_x_leibniz_refuted]). *)
Theorem C05_returned_x_is_evaluated_iterate :
  forall (k0 ks0 : Z) (o : opts) (l : list init_call) (fsd0 : Q) (evs : list iter_ev) (nfs : Z) (fev : final_ev),
    let s := run k0 ks0 o l fsd0 evs in
    let f := run_full k0 ks0 o l fsd0 evs nfs fev in
    noisy_u_ok o (init_phase k0 ks0 o l fsd0) evs = true ->
    (exists c, In c l /\ ic_record c = true /\ e_fault (ic_eval c) = false) ->
    exn s = false -> o_det o = false -> 0 < piter s -> (fe_idx fev < List.length (hist s))%nat ->
    (exists h, nth_error (hist s) (fe_idx fev) = Some h /\ i_u (cur (fo_st f)) = i_u (h_inc h) /\ i_y (cur (fo_st f)) = i_y (h_inc h)) /\
    (exists u' y, In (u', Some y) (calls s) /\ Forall2 Qeq u' (i_u (cur (fo_st f))) /\ (y == i_y (cur (fo_st f)))%Q).
Proof. exact returned_x_is_evaluated_iterate. Qed.
Print Assumptions C05_returned_x_is_evaluated_iterate.

(* The last noise_final_samples target calls are made at that x, are not recorded in the log, and
   yval_vec / the SD vector consist of exactly those fresh observations (supplemented by the earlier
   observation at x when only one final sample is configured). *)
Theorem C05_last_calls_at_x :
  forall (o : opts) (nfs : Z) (fev : final_ev) (s : st),
    let f := final_phase o nfs fev s in
    fo_sampled f = true -> exn (fo_st f) = false -> final_obs_ok nfs fev = true ->
    let u := i_u (cur (fo_st f)) in
    let fresh := firstn (Z.to_nat nfs) (fe_obs fev) in
    calls (fo_st f) = calls s ++ map (fun ob => (u, Some (snd (fst ob)))) fresh /\
    List.length fresh = Z.to_nat nfs /\ 0 < nfs /\
    fc (fo_st f) = fc s + nfs /\ nrows (fo_st f) = nrows s /\
    fo_sdvec f = map snd fresh /\
    (nfs <> 1 -> fo_yvec f = map (fun ob => snd (fst ob)) fresh) /\
    (nfs = 1 -> exists y, fresh = [y] /\ fo_yvec f = [snd (fst y); i_y (cur (fo_st f))]).
Proof. exact last_calls_at_x. Qed.
Print Assumptions C05_last_calls_at_x.

(* fval is the mean of yval_vec and fsd its standard error (exact rationals; the floats NumPy returned
   are within 1e-9 relative, as checked by final_est_ok on every real run). *)
Theorem C05_estimate_is_mean_and_sem :
  forall (o : opts) (nfs : Z) (fev : final_ev) (s : st),
    let f := final_phase o nfs fev s in
    fo_sampled f = true -> exn (fo_st f) = false -> final_est_ok f = true ->
    fo_yvec f <> [] /\
    (Qabs (i_f (cur (fo_st f)) - qmean (fo_yvec f)) <= approx_eps * (1 + Qabs (qmean (fo_yvec f))))%Q /\
    (Qabs (i_s (cur (fo_st f)) * i_s (cur (fo_st f)) * qlen (fo_yvec f) - qvar (fo_yvec f))
       <= approx_eps * (1 + Qabs (qvar (fo_yvec f))))%Q.
Proof. exact estimate_is_mean_and_sem. Qed.
Print Assumptions C05_estimate_is_mean_and_sem.

(* No re-sampling for deterministic targets, for runs that end in iteration 0, or when
   noise_final_samples = 0: the state (incl. the call list) is untouched apart from the incumbent choice. *)
Theorem C05_no_resampling_otherwise :
  forall (o : opts) (nfs : Z) (fev : final_ev) (s : st),
    let f := final_phase o nfs fev s in
    fo_sampled f = false -> calls (fo_st f) = calls s /\ fc (fo_st f) = fc s /\ fo_yvec f = [] /\
    (o_det o = true \/ piter s <= 0 \/ exn s = true -> fo_st f = s).
Proof. exact no_resampling_otherwise. Qed.
Print Assumptions C05_no_resampling_otherwise.

(* Noise detection: identical values => not stochastic; a difference above tol_noise => stochastic. *)
Theorem C05_noise_test :
  forall (y0 y1 tol : Q), (0 <= tol)%Q ->
    ((y0 == y1)%Q -> noise_detected y0 y1 tol = false) /\
    ((tol < Qabs (y0 - y1))%Q <-> noise_detected y0 y1 tol = true).
Proof. exact noise_test. Qed.
Print Assumptions C05_noise_test.

Example C05_example : exists o nfs fev s,
  fo_sampled (final_phase o nfs fev s) = true /\ final_est_ok (final_phase o nfs fev s) = true /\ nfs = 3.
Proof. exact final_example. Qed.
