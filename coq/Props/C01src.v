(* C01src — the points contraints_check hands to the user's constraint function lie in the box it filters
   against, as a statement about the SOURCE PROGRAM (gen/Src_filter.v, regenerated from
   pybads/function_logger/constraints_check.py on every run by translate/filter.py).
   Statements only; proofs in Proofs/FilterSourceProofs.v. *)
From Coq Require Import ZArith QArith List Bool String.
From PV Require Import Model.Filter Model.FilterSrc Proofs.FilterProofs Proofs.FilterSourceProofs gen.Src_filter.
Import ListNotations.
Open Scope Z_scope.

(* For ALL inputs (with projection: a non-empty box): the rows V that reach the constraint stage of the source
   are inside the box [lb, ub]; the source applies the user's function to exactly the images inverse_transf(r),
   r in V, and to nothing else; and every row it returns is one of them.  (The box is the hard box at the poll
   site and the inward-rounded search box, C01_search_box_within_hard_box, at the other three sites -
   C17_call_sites_are_source; original-space containment of the image is C01_original_space_clamp.) *)
Theorem C01_constraint_points_in_box_are_source :
  forall (XT : Type) (inverse_transf : qrow -> XT) (U : list qrow) (lb ub : list bnd) (tol_mesh : Q)
         (fl_X : list qrow) (fl_X_max_idx : Z) (proj : bool) (non_box_cons : option (XT -> Q)),
    (proj = true -> box_ok lb ub) ->
    let V := src_stage3 tol_mesh fl_X fl_X_max_idx (src_stage2 (src_stage1 U lb ub proj)) in
    Forall (in_box lb ub) V /\
    src_filter inverse_transf U lb ub tol_mesh fl_X fl_X_max_idx proj non_box_cons = src_stage4 inverse_transf non_box_cons V /\
    (forall c, non_box_cons = Some c ->
       src_stage4 inverse_transf non_box_cons V = take_mask V (vals_cmp CLe (map c (map inverse_transf V)) (0 # 1))) /\
    (forall r, In r (src_filter inverse_transf U lb ub tol_mesh fl_X fl_X_max_idx proj non_box_cons) -> In r V).
Proof. exact constraint_points_in_box. Qed.
Print Assumptions C01_constraint_points_in_box_are_source.
