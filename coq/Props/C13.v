(* C13 — mesh size doubles after a successful poll (up to a cap), shrinks after a failure.
   Statements only; proofs in Proofs/SkeletonCtrl.v.  mesh_size = 2^k, search mesh = 2^ks. *)
From Coq Require Import ZArith QArith List Bool.
From PV Require Import Model.Val Model.Skeleton Model.SkeletonValid Proofs.SkeletonCtrl.
Import ListNotations.
Open Scope Z_scope.

(* the best improvement found by a poll = max(0, improvements of the points it evaluated) *)
Definition poll_result (o : opts) (ev : poll_ev) (s : st) : pacc :=
  poll_loop o (pe_ncand ev) (pe_evals ev) (mkP s 0 (cur s) 0).

(* Mesh invariant for every reachable state: the exponent never exceeds the cap (0 by default: the
   mesh is a power of two not exceeding 1) and the search mesh never exceeds the poll mesh. *)
Theorem C13_mesh_invariant :
  forall (k0 ks0 : Z) (o : opts) (l : list init_call) (fsd0 : Q) (evs : list iter_ev),
    ctrl_sane o -> k0 <= o_maxgrid o -> ks0 <= k0 ->
    let s := run k0 ks0 o l fsd0 evs in
    k s <= o_maxgrid o /\ ks s <= k s.
Proof. exact mesh_invariant. Qed.
Print Assumptions C13_mesh_invariant.

(* The poll update: +1 (capped) iff the best poll improvement exceeds the sufficient improvement;
   otherwise -1, or -2 exactly when acceleration is enabled, enough iterations have passed and the
   historic improvement is below tol_fun. *)
Theorem C13_poll_update :
  forall (o : opts) (SI : Q) (ev : poll_ev) (s : st),
    let a := poll_result o ev s in
    let s' := poll_phase o SI ev s in
    exn s' = false ->
    (qltb SI (p_best a) = true /\ k s' = Z.min (k s + 1) (o_maxgrid o)) \/
    (qltb SI (p_best a) = false /\
     ((k s' = k s - 2 /\ o_accel o = true /\ o_accel_steps o < piter s /\
       exists h, pe_hist ev = Some h /\ (h < o_tolfun o)%Q) \/
      (k s' = k s - 1 /\ ~ (o_accel o = true /\ o_accel_steps o < piter s /\
                            exists h, pe_hist ev = Some h /\ (h < o_tolfun o)%Q)))).
Proof. exact poll_update. Qed.
Print Assumptions C13_poll_update.

(* ... where the best improvement is the maximum of 0 and the improvements of the evaluated points *)
Theorem C13_poll_best_is_max :
  forall (o : opts) (ev : poll_ev) (s : st),
    let a := poll_result o ev s in
    (0 <= p_best a)%Q /\
    (p_best a == 0 \/ exists e, In e (pe_evals ev) /\ p_best a = e_impr e)%Q /\
    (forall u y, In (u, Some y) (calls (p_s a)) -> In (u, Some y) (calls s) \/
                 exists e, In e (pe_evals ev) /\ e_u e = u /\ e_y e = y /\ (e_impr e <= p_best a)%Q).
Proof. exact poll_best_is_max. Qed.
Print Assumptions C13_poll_best_is_max.

(* Outside polls the mesh never changes (default search_mesh_expand = 0): an iteration that does not
   poll leaves k unchanged, and the search step never touches it. *)
Theorem C13_only_polls_change_mesh :
  forall (o : opts) (s : st) (ev : iter_ev),
    o_sme o = 0 ->
    let s0 := lock_ks o s in
    let s1 := if want_search o s0 then search_phase o (ie_SI ev) (ie_search ev) s0 else s0 in
    k s1 = k s /\ (snd (poll_decision o s1) = false -> k (step_iter o s ev) = k s).
Proof. exact only_polls_change_mesh. Qed.
Print Assumptions C13_only_polls_change_mesh.

(* With a positive search_mesh_expand the mesh DOES grow on search sprees (the premise above is needed). *)
Example C13_spree_expansion_exists : exists o s ev,
  0 < o_sme o /\ snd (poll_decision o s) = false /\ k (step_iter o s ev) = k s + 1.
Proof. exact spree_expansion_exists. Qed.

(* An iteration that ends with message 3 (stopped by the mesh tolerance) leaves a mesh exponent below
   tol_mesh's.  The premise [exn (step_iter o s ev) = false] is needed at the level of ONE step from an
   ARBITRARY state: if the target raises during the iteration the step returns the state with its old
   message, and an arbitrary (unreachable) non-finished s may already carry msg = 3.  It is implied by
   [fin (step_iter o s ev) = true], and the run-level theorem below needs no such premise. *)
Theorem C13_tolmesh_msg :
  forall (o : opts) (s : st) (ev : iter_ev),
    o_sme o = 0 -> fin s = false -> exn s = false ->
    exn (step_iter o s ev) = false ->
    msg (step_iter o s ev) = 3 -> k (step_iter o s ev) < o_tolmesh o.
Proof. exact tolmesh_msg. Qed.
Print Assumptions C13_tolmesh_msg.

(* Run level, every oracle stream: a run whose message is 3 is finished and its final mesh exponent is
   below tol_mesh's (reachable non-finished states carry message 0, so no exception can fake it). *)
Theorem C13_tolmesh_msg_run :
  forall (k0 ks0 : Z) (o : opts) (l : list init_call) (fsd0 : Q) (evs : list iter_ev),
    o_sme o = 0 ->
    let s := run k0 ks0 o l fsd0 evs in
    msg s = 3 -> fin s = true /\ k s < o_tolmesh o.
Proof. exact tolmesh_msg_run. Qed.
Print Assumptions C13_tolmesh_msg_run.
