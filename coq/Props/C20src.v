(* C20 — the hand-written model of the Options CLASS (Model/Options.v: step / run / construct) IS the program regenerated
   from the source.  Only statements here; proofs in Proofs/OptionsSourceProofs.v.

   coq/gen/Src_optionsclass.v is written by translate/optionsclass.py from pybads/bads/options.py and pybads/bads/bads.py on
   every ./check C20 (never committed), in the language of Model/OptionsSrc.v:
     src_init      Options.__init__ in statement order: super().__init__() ; descriptions ; self["useroptions"] = set() ;
                   load_options_file(default file) ; [user given and names "useroptions"] raise ValueError ;
                   [user given] self.update(user) ; [user given] self["useroptions"].update(user.keys())
     src_load      load_options_file: LBind (exec of every evaluation parameter into the MODULE globals) BEFORE
                   LFor test [self[key] = eval(value) — in the method's frame; descriptions]   over the file's entries in order
     src_validate  validate_option_names: collect column 0 of every file ; for key in self.keys(): if test: raise ValueError
     src_construct BADS.__init__: Options(basic, {"D": self.D}, options) ; load_options_file(advanced, {"D": self.D}) ;
                   validate_option_names([basic, advanced])
   A dropped / added / reordered statement, a changed test, exception class, file or argument changes these definitions and
   the theorems below stop checking; anything outside the translator's whitelist (another namespace for eval / exec, a cache,
   a class attribute, an overridden update / get, a second loader anywhere in the package) makes it emit no definition at all.
   The translation is itself validated on every run: T1 and T2 of props/C20.py evaluate run_src / run_construct on the
   same cases as the hand-written model, against the real class.

   The TESTS are compared semantically (for every key, protected set, set of file names, caller dict), so e.g.
   `not (key in uo or key == "useroptions")` for `key not in uo and key != "useroptions"` still checks.
   [wf_inst x]: the reserved entry is not in x's store (the model keeps it apart as [useropts]); it holds of every object of the
   empty process and is preserved by every operation ([C20_wf_preserved]). *)
From Coq Require Import ZArith List String Bool.
From PV Require Import Model.Options Model.OptionsSrc gen.Src_optionsclass Proofs.OptionsSourceProofs.
Import ListNotations.
Open Scope Z_scope.

(* load_options_file of the source = the model's Load, on every object in every process state: WHEN the evaluation
   parameters are bound (before the loop, into the module global shared by all objects), WHICH entries are skipped (those
   named in the protected set, and the reserved name), that each default is evaluated in the state left by the entries before
   it, and that a NameError leaves the entries stored so far. *)
Theorem C20_load_is_source :
  forall (w : world) (i : nat) (f : file) (oD : option Z),
    step_src src_class w (Load i f oD) = step w (Load i f oD).
Proof. exact load_is_source. Qed.
Print Assumptions C20_load_is_source.

(* ... and the loop alone, for every protected set, store and global D *)
Theorem C20_load_frame_is_source :
  forall (f : file) (oD g : option Z) (st : store) (uo : list string),
    run_load src_load f oD (mkFrame g st (Some uo)) =
    (mkFrame (bind_D oD g) (fst (load_entries (bind_D oD g) uo f st)) (Some uo),
     if snd (load_entries (bind_D oD g) uo f st) then Some "NameError"%string else None).
Proof. exact src_load_frame. Qed.
Print Assumptions C20_load_frame_is_source.

(* Options.__init__ of the source = the model's Init (defaults first, with an EMPTY protected set; then the reserved-name
   test; then the user's entries in the caller's order; then the protected set = the user's keys; no object is bound on a
   raise), and the three option statements of BADS.__init__ = the model's construct, in that order, stopping at a raise. *)
Theorem C20_init_order_is_source :
  (forall (w : world) (i : nat) (f : file) (oD : option Z) (ou : option nat),
      step_src src_class w (Init i f oD ou) = step w (Init i f oD ou)) /\
  (forall (w : world) (i : nat) (b a : file) (D : Z) (ou : option nat),
      (forall j, wf_inst (insts w j)) ->
      run_construct src_class src_construct w i b a D ou = construct w i b a D ou).
Proof. exact (conj init_is_source construct_is_source). Qed.
Print Assumptions C20_init_order_is_source.

(* validate_option_names of the source = the model's Validate on every object the class can produce *)
Theorem C20_validate_is_source :
  forall (w : world) (i : nat) (nms : list string),
    wf_inst (insts w i) -> step_src src_class w (Validate i nms) = step w (Validate i nms).
Proof. exact validate_is_source. Qed.
Print Assumptions C20_validate_is_source.

Theorem C20_wf_preserved :
  forall (w : world) (o : op), (forall j, wf_inst (insts w j)) -> forall j, wf_inst (insts (fst (step w o)) j).
Proof. exact step_wf. Qed.
Print Assumptions C20_wf_preserved.

(* every sequence of operations on any number of objects, from the empty process with any caller dicts (the shape of tie T1) *)
Theorem C20_class_is_source :
  forall (ops : list op) (cs : list (nat * store)),
    run_src src_class (with_callers world0 cs) ops = run (with_callers world0 cs) ops.
Proof. exact (fun ops cs => run_is_source ops _ (world0_wf cs)). Qed.
Print Assumptions C20_class_is_source.

(* _read_config_file (whose rules translate/options.py copies to read the .ini files) is the text it was when copied: a pin *)
Theorem C20_read_config_pinned : src_read_config = read_config_text.
Proof. exact read_config_is_source. Qed.
Print Assumptions C20_read_config_pinned.

(* the generated programs run: a user key protected from the second load, the unknown name rejected by validation *)
Example C20_src_example :
  let b : file := [("n"%string, [dname]); ("tol"%string, [])] in
  let a : file := [("m"%string, [dname; "n"%string])] in
  let w := with_callers world0 [(0%nat, [("n"%string, VUser 9)]); (1%nat, [("zz"%string, VUser 1)])] in
  get "m"%string (store_of (insts (fst (run_construct src_class src_construct w 0 b a 3 (Some 0%nat))) 0))
    = Some (VDefault "m" [(dname, VInt 3); ("n"%string, VUser 9)]) /\
  snd (run_construct src_class src_construct w 0 b a 3 (Some 0%nat)) = Done /\
  snd (run_construct src_class src_construct w 1 b a 3 (Some 1%nat)) = Raised "ValueError".
Proof. vm_compute. repeat split. Qed.
