(* C18 — the search step evaluates the acquisition-optimal candidate, once.
   Only statements here; every proof is in Proofs/ESSelectProofs.v.  Model: Model/ESSelect.v
   (es_search.py l.44-69 and l.134-215, search_hedge.py l.58-67, bads.py l.1630-1655).
   Oracle inputs, universally quantified: the survivors of every generation with their acquisition
   values, numbers or NaN (any number of generations, any population sizes, empty generations anywhere), the ceil'ed weight vector w0, the
   positive numbers e_i = exp(beta (g_i - max g)) of any score history, the uniform draw. *)
From Coq Require Import ZArith QArith List String Bool.
From PV Require Import Model.Val Model.ESSelect Proofs.ESSelectProofs.
Import ListNotations.
Open Scope Z_scope.

(* The evolution strategy returns a lowest-acquisition survivor.  [gens] = the filtered population of
   each pass of the loop with its LCB values; the code accumulates ALL of them, ranks, returns the head.
   Premise: at least ONE generation has a survivor (any of them: the first, a later one, with empty
   generations before, between or after).  An acquisition value is a number or NaN ([None]); [zle] is
   the order np.argsort uses (numbers by value, NaN after every number). *)
Theorem C18_es_returns_min :
  forall (row : Type) (lamb : nat) (gens : list (list (row * zv))),
    (1 <= lamb)%nat -> Exists (fun g => g <> []) gens ->
    exists (u : row) (z : zv),
      es_run row lamb gens = ESPoint u z /\
      In (u, z) (List.concat gens) /\
      forall c : row * zv, In c (List.concat gens) -> zle z (snd c).
Proof. exact es_returns_min. Qed.
Print Assumptions C18_es_returns_min.

(* The same in plain numbers: as soon as ONE survivor of ANY generation carries a number q0, the strategy
   returns a survivor whose value is a number, the least of all numeric values of all survivors of all
   generations; a NaN-valued candidate is never preferred. *)
Theorem C18_es_returns_min_number :
  forall (row : Type) (lamb : nat) (gens : list (list (row * zv))) (u0 : row) (q0 : Q),
    (1 <= lamb)%nat -> In (u0, Some q0) (List.concat gens) ->
    exists (u : row) (q : Q),
      es_run row lamb gens = ESPoint u (Some q) /\
      In (u, Some q) (List.concat gens) /\
      (forall (u' : row) (q' : Q), In (u', Some q') (List.concat gens) -> (q <= q')%Q) /\
      (forall u' : row, In (u', None) (List.concat gens) -> es_run row lamb gens <> ESPoint u' None).
Proof. exact es_returns_min_number. Qed.
Print Assumptions C18_es_returns_min_number.

(* With no premise at all: a returned point is never invented, it is one of the accumulated survivors,
   and `z[0]` is never out of range once `us` is non-empty. *)
Theorem C18_es_result_is_survivor :
  forall (row : Type) (lamb : nat) (gens : list (list (row * zv))),
    es_run row lamb gens <> ESStuck /\
    forall (u : row) (z : zv), es_run row lamb gens = ESPoint u z -> In u (map fst (List.concat gens)).
Proof. exact es_result_sound. Qed.
Print Assumptions C18_es_result_is_survivor.

(* All candidates of every generation filtered out (populations shrunk to zero): the strategy returns the
   empty search set (repo commit 692d1d7; before it `us[0]` raised IndexError), the filter can only
   select from it, and the search step then evaluates nothing — a failed search. *)
Theorem C18_es_all_filtered_is_failed_search :
  forall (row : Type) (lamb : nat) (gens : list (list (row * zv))),
    Forall (fun g => g = []) gens ->
    es_run row lamb gens = ESEmpty /\ forall z : list Q, search_trace row [] z = [].
Proof. exact es_all_filtered_failed_search. Qed.
Print Assumptions C18_es_all_filtered_is_failed_search.

(* ... and ONLY then: the empty search set means that no generation had a survivor. *)
Theorem C18_es_empty_only_if_all_filtered :
  forall (row : Type) (lamb : nat) (gens : list (list (row * zv))),
    (1 <= lamb)%nat -> es_run row lamb gens = ESEmpty -> Forall (fun g => g = []) gens.
Proof. exact es_empty_only_if_all_filtered. Qed.
Print Assumptions C18_es_empty_only_if_all_filtered.

(* A generation without survivors — in ANY position — changes nothing: the run returns what it returns
   without that generation, so a later empty generation does not lose earlier survivors (es_search.py
   l.166 after the repair: the fallback fills z_new, of length u_new.shape[0] = 0, and no longer wipes
   z_candidates).  More generally the result depends only on the accumulated survivors. *)
Theorem C18_es_later_empty_generation :
  forall (row : Type) (lamb : nat) (gens1 gens2 : list (list (row * zv))),
    es_run row lamb (gens1 ++ [] :: gens2) = es_run row lamb (gens1 ++ gens2) /\
    ((1 <= lamb)%nat -> List.concat gens1 <> [] -> es_run row lamb (gens1 ++ [] :: gens2) <> ESEmpty).
Proof. exact es_empty_generation_skipped. Qed.
Print Assumptions C18_es_later_empty_generation.

Theorem C18_es_depends_on_survivors_only :
  forall (row : Type) (lamb : nat) (gens gens' : list (list (row * zv))),
    List.concat gens = List.concat gens' -> es_run row lamb gens = es_run row lamb gens'.
Proof. exact es_run_concat. Qed.
Print Assumptions C18_es_depends_on_survivors_only.

(* Every survivor lies in the mesh-rounded box: contraints_check(proj=True) clamps each candidate to
   [lb_search, ub_search] and afterwards only selects rows. *)
Theorem C18_survivors_in_box :
  forall (U survivors : list (list Q)) (lb ub : list Q),
    Forall2 Qle lb ub ->
    (forall u, In u U -> List.length u = List.length lb) ->
    (forall s, In s survivors -> In s (map (fun u => clamp_row u lb ub) U)) ->
    forall s, In s survivors -> in_box s lb ub.
Proof. exact survivors_in_box. Qed.
Print Assumptions C18_survivors_in_box.

(* The search step evaluates set[argmin z] (first minimum) of the filtered search set; the
   `isfinite(index_acq)` fallback is dead for a non-empty set. *)
Theorem C18_search_argmin :
  forall (row : Type) (set : list row) (z : list Q),
    List.length z = List.length set -> set <> [] ->
    exists (i : nat) (u : row) (m : Q),
      search_eval row set z = Some u /\ nth_error set i = Some u /\ nth_error z i = Some m /\
      (forall j q, nth_error z j = Some q -> (m <= q)%Q) /\
      (forall j q, (j < i)%nat -> nth_error z j = Some q -> (m < q)%Q) /\
      acq_guard_fires (argmin z) = false.
Proof. exact search_argmin. Qed.
Print Assumptions C18_search_argmin.

(* At most one evaluation per search step; none iff the filtered set is empty. *)
Theorem C18_one_eval :
  forall (row : Type) (set : list row) (z : list Q),
    (List.length (search_trace row set z) <= 1)%nat /\
    (set = [] -> search_trace row set z = []) /\
    (List.length z = List.length set -> set <> [] ->
       exists u, search_trace row set z = [Call u] /\ search_eval row set z = Some u).
Proof. exact search_one_eval. Qed.
Print Assumptions C18_one_eval.

(* The rank-selection mask, for ALL mu >= 1, lamb >= 1 and every weight vector with the three facts the
   correspondence checks on the actual ceil'ed vector (entries >= 1, non-increasing, mu+lamb entries —
   hence sum >= lamb): the mask has lamb+1 entries, starts at 0, moves by steps of 0 or 1, so
   mask[j] <= j. *)
Theorem C18_mask_valid :
  forall (mu lamb : Z) (w0 : list Z),
    1 <= mu -> 1 <= lamb -> Z.of_nat (List.length w0) = mu + lamb ->
    (forall x, In x w0 -> 1 <= x) ->
    (forall (i : nat) (a b : Z), nth_error w0 i = Some a -> nth_error w0 (S i) = Some b -> b <= a) ->
    exists m : list Z,
      selection_mask w0 lamb = MOk m /\
      Z.of_nat (List.length m) = lamb + 1 /\
      nth_error m 0 = Some 0 /\
      (forall (j : nat) (a b : Z), nth_error m j = Some a -> nth_error m (S j) = Some b -> b = a \/ b = a + 1) /\
      (forall (j : nat) (a : Z), nth_error m j = Some a -> 0 <= a <= Z.of_nat j).
Proof. exact mask_valid_full. Qed.
Print Assumptions C18_mask_valid.

(* Hence `us[selection_mask[0:ll]]`, ll = min(lamb, us.shape[0]), never indexes out of range and yields
   exactly ll parents, all of them rows of us (mu = us.shape[0]). *)
Theorem C18_mask_index_safe :
  forall (A : Type) (us : list A) (lamb : nat) (w0 : list Z),
    (1 <= List.length us)%nat -> (1 <= lamb)%nat ->
    List.length w0 = (List.length us + lamb)%nat ->
    (forall x, In x w0 -> 1 <= x) ->
    (forall (i : nat) (a b : Z), nth_error w0 i = Some a -> nth_error w0 (S i) = Some b -> b <= a) ->
    exists (m : list Z) (ps : list A),
      selection_mask w0 (Z.of_nat lamb) = MOk m /\ parents us m lamb = Some ps /\
      List.length ps = Nat.min lamb (List.length us) /\ forall x, In x ps -> In x us.
Proof. exact @mask_index_safe. Qed.
Print Assumptions C18_mask_index_safe.

(* The model's `while` loop is run with fuel (sum of positive parts) + 1; that is always enough:
   the loop ends because its condition is false (any weight vector, lamb >= 0). *)
Theorem C18_mask_fuel_suffices :
  forall (w : list Z) (lamb : Z),
    0 <= lamb -> zsum (shrink w lamb) - lamb <= count_pos (shrink w lamb).
Proof. exact shrink_fuel_suffices. Qed.
Print Assumptions C18_mask_fuel_suffices.

(* The strategy is drawn from a proper distribution: for ANY score history (e_i > 0) and
   n * gamma <= 1 the probabilities sum to 1, each is at least the floor gamma, and for a draw
   0 <= rand < 1 the choice `argwhere(rand < cumsum(prob))[0]` exists and is the first index whose
   cumulative probability exceeds rand.  Exact arithmetic: in binary64 cumsum[-1] may round below 1;
   if rand fell in that gap the code would raise IndexError on `[0]` of an empty argwhere (the
   `len(...) == 0` fallback on the next line comes too late) — an observation, see C18_hedge_gap. *)
Theorem C18_hedge_distribution :
  forall (e : list Q) (gamma : Q),
    e <> [] -> Forall (fun x => 0 < x)%Q e ->
    (inject_Z (Z.of_nat (List.length e)) * gamma <= 1)%Q ->
    (qsum (hedge_probs e gamma) == 1)%Q /\
    (forall p, In p (hedge_probs e gamma) -> (gamma <= p)%Q) /\
    List.length (hedge_probs e gamma) = List.length e /\
    forall rand : Q, (0 <= rand)%Q -> (rand < 1)%Q ->
      exists k : nat, hedge_choice rand (hedge_probs e gamma) = Some k /\ (k < List.length e)%nat /\
        (qsum (firstn k (hedge_probs e gamma)) <= rand)%Q /\
        (rand < qsum (firstn (S k) (hedge_probs e gamma)))%Q.
Proof. exact hedge_distribution. Qed.
Print Assumptions C18_hedge_distribution.

(* Non-vacuity on concrete states; the second conjunct of C18_hedge_gap is the stuck choice. *)
Example C18_es_example :
  es_run nat 2 [[(1%nat, Some (3#1)); (2%nat, Some (1#1)); (3%nat, Some (5#2))]; [(4%nat, Some (2#1)); (5%nat, Some (1#2))]]
  = ESPoint 5%nat (Some (1#2)).
Proof. exact es_example_ok. Qed.

Example C18_es_example_all_filtered : es_run nat 2 [[]; []] = ESEmpty.
Proof. exact es_example_all_filtered. Qed.

(* a later generation without survivors; then a population whose acquisition values are NaN *)
Example C18_es_example_later_generation_empty :
  es_run nat 2 [[(1%nat, Some (3#1)); (2%nat, Some (1#1))]; []] = ESPoint 2%nat (Some (1#1)) /\
  es_run nat 2 [[(1%nat, Some (3#1)); (2%nat, Some (1#1))]; []; [(3%nat, None); (4%nat, None)]] = ESPoint 2%nat (Some (1#1)).
Proof. exact es_example_later_generation_empty. Qed.

Example C18_mask_example :
  selection_mask [2; 1; 1; 1; 1; 1; 1; 1] 5 = MOk [0; 1; 1; 2; 3; 4] /\
  parents [10; 11; 12] [0; 1; 1; 2; 3; 4] 5 = Some [10; 11; 11].
Proof. exact mask_example. Qed.

Example C18_hedge_gap :
  hedge_choice (9#10) (hedge_probs [1#1; 1#3] (1#8)) = Some 1%nat /\
  hedge_choice 1 [1#2; 1#2] = None.
Proof. exact hedge_example. Qed.

Example C18_search_example :
  search_trace nat [7%nat; 8%nat; 9%nat] [3#1; 1#1; 1#1] = [Call 8%nat] /\ search_trace nat [] [] = [].
Proof. exact search_example. Qed.
