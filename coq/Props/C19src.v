(* C19 (source tie) — Model/History.v's containers are what pybads/utils/iteration_history.py and pybads/bads/optimize_result.py say
   TODAY.  coq/gen/Src_history.v is regenerated from the source by translate/history.py on every run (fail-closed whitelist);
   Model/HistorySrc.v says what the generated programs mean (statement blocks with calls between the methods:
   record_iteration -> record -> _expand_array -> __setitem__).  Statements only; proofs in Proofs/HistorySourceProofs.v.
   G s = the container in state s with check_keys = True (what __init__ leaves, C19_history_init_is_source). *)
From Coq Require Import ZArith List String Bool.
From PV Require Import Model.Val Model.History Model.HistoryTie Model.HistorySrc Proofs.HistorySourceProofs.
From PV Require Import gen.Src_history.
Import ListNotations.
Open Scope string_scope.
Open Scope Z_scope.

(* record(key, value, iteration): for EVERY state, key, value (incl. one the container already owns) and iteration, running the body
   generated from the source - the two guards and their class, `self[key] = np.full([1], None)` on a fresh key THROUGH __setitem__
   (which deep-copies), the growth test `len(self[key]) <= iteration` and the amount `iteration + 1 - len(self[key])` passed to
   _expand_array (np.append + np.full, again through __setitem__), the deep copy of the value and the cell it is stored in - gives
   exactly do_record's state (dict, allocation counter) and result; an unsized scalar under the key raises TypeError. *)
Theorem C19_record_is_source :
  forall (s : hstate) (k : string) (v : value) (i : Z),
    run_record src_history (G s) k v i = (G (fst (do_record s k v i)), of_result (snd (do_record s k v i))).
Proof. exact record_is_source. Qed.
Print Assumptions C19_record_is_source.

(* h[key] = val: the key check (only once check_keys is on; unknown key => ValueError, state unchanged) and the deep copy *)
Theorem C19_history_setitem_is_source :
  forall (s : hstate) (k : string) (v : src),
    run_setitem src_history (G s) k v = (G (fst (do_setitem s k v)), of_result (snd (do_setitem s k v))).
Proof. exact setitem_is_source. Qed.
Print Assumptions C19_history_setitem_is_source.

(* every op of the model (h[k] = v, record, record_iteration with its own guard and per-key check, h[k], del h[k], an in-place change
   by the environment) with every method body taken from the source is the model's step *)
Theorem C19_history_step_is_source :
  forall (s : hstate) (o : op), step_gen src_history (G s) o = (G (fst (step s o)), snd (step s o)).
Proof. exact history_step_is_source. Qed.
Print Assumptions C19_history_step_is_source.

(* IterationHistory(keys): check_keys off, every key bound to None through __setitem__, check_keys on *)
Theorem C19_history_init_is_source :
  forall keys : list string, run_init src_history keys = (G (init_history keys), Normal).
Proof. exact history_init_is_source. Qed.
Print Assumptions C19_history_init_is_source.

(* OptimizeResult: r[key] = val.  The list _keys of the source is the model's result_keys; a key outside it is rejected with
   ValueError and the state is unchanged; a known key is bound to ONE deep copy of val (replace or append); and this is rstep. *)
Theorem C19_result_setitem_is_source :
  forall (s : rstate) (k : string) (v : value),
    rp_keys src_result = result_keys /\
    run_rsetitem src_result s k v =
    (if mem_str k result_keys
     then let (v', n') := copy1 (rnext s) v in (mkR (put k v' (ritems s)) n', Normal)
     else (s, Raised "ValueError")) /\
    (fst (run_rsetitem src_result s k v), to_rresult (snd (run_rsetitem src_result s k v))) = rstep s (RSet k v).
Proof. exact result_setitem_is_source. Qed.
Print Assumptions C19_result_setitem_is_source.

(* every op on the result (r[k] = v, r[k], r.k with KeyError turned into AttributeError, del r[k], an in-place change) *)
Theorem C19_result_step_is_source :
  forall (s : rstate) (o : rop), rstep_gen src_result s o = rstep s o.
Proof. exact result_step_is_source. Qed.
Print Assumptions C19_result_step_is_source.

(* Non-vacuity: through the GENERATED programs, record("a", <the caller's object Ext 0 holding 7>, 2) on a fresh history grows the
   array to 3 cells with two padding cells and stores a container-owned copy; an undeclared key is rejected; so is a result key
   outside _keys. *)
Example C19_src_example :
  exists g, run_init src_history ["a"; "b"] = (g, Normal) /\
    let (g1, r1) := step_gen src_history g (Record "a" (mkV (VZ 7) (Ext 0)) 2) in
    r1 = Ok /\ cells_of (g_h g1) "a" = Some [None; None; Some (mkV (VZ 7) (Own 2))] /\
    snd (step_gen src_history g1 (Record "zz" (mkV (VZ 7) Imm) 0)) = Err "ValueError" /\
    snd (rstep_gen src_result init_result (RSet "nope" (mkV (VZ 1) Imm))) = RErr "ValueError".
Proof. exact source_example. Qed.
