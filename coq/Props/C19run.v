(* C19 (part 2, run level) — what the optimisation loop records in the iteration history, from the
   skeleton model of optimize() (Model/Skeleton.v).  Statements only; proofs in Proofs/SkeletonFinal.v.
   Part 1 (container laws) is Props/C19.v. *)
From Coq Require Import ZArith QArith List Bool.
From PV Require Import Model.Val Model.Skeleton Model.SkeletonValid Model.SkeletonNoisy Proofs.SkeletonFinal.
Import ListNotations.
Open Scope Z_scope.

(* Every recorded iterate is a point that was evaluated, and its recorded observed value is a value the
   logger returned for a call at that point (under specified noise the logger returns the merged mean of
   the observations made there — within their range by C12_merged_is_weighted_mean); its recorded
   func_count never exceeds the current count.  All noise modes; [noisy_u_ok] is the side condition on
   the end-of-iteration re-estimation/swap evaluated by the tie on every real run. *)
Theorem C19_rows_are_evaluated_pairs :
  forall (k0 ks0 : Z) (o : opts) (l : list init_call) (fsd0 : Q) (evs : list iter_ev),
    noisy_u_ok o (init_phase k0 ks0 o l fsd0) evs = true ->
    (exists c, In c l /\ ic_record c = true /\ e_fault (ic_eval c) = false) ->
    let s := run k0 ks0 o l fsd0 evs in
    forall h, In h (hist s) ->
      (exists u' y', In (u', Some y') (calls s) /\ Forall2 Qeq u' (i_u (h_inc h)) /\ (y' == i_y (h_inc h))%Q) /\
      h_fc h <= fc s.
Proof. exact rows_are_evaluated_pairs. Qed.
Print Assumptions C19_rows_are_evaluated_pairs.

(* recorded func_count is non-decreasing in the iteration index *)
Theorem C19_func_count_nondecreasing :
  forall (k0 ks0 : Z) (o : opts) (l : list init_call) (fsd0 : Q) (evs : list iter_ev),
    let s := run k0 ks0 o l fsd0 evs in
    forall (i j : nat) (a b : hrow), (i <= j)%nat ->
      nth_error (hist s) i = Some a -> nth_error (hist s) j = Some b -> h_fc a <= h_fc b.
Proof. exact func_count_nondecreasing. Qed.
Print Assumptions C19_func_count_nondecreasing.

(* deterministic targets (and any run that ends in iteration 0): the returned incumbent IS the last
   recorded iterate, with the same value and the final func_count *)
Theorem C19_result_is_last_row :
  forall (k0 ks0 : Z) (o : opts) (l : list init_call) (fsd0 : Q) (evs : list iter_ev),
    let s := run k0 ks0 o l fsd0 evs in
    fin s = true -> exn s = false -> (o_det o = true \/ piter s = 0) ->
    exists h, nth_error (hist s) (List.length (hist s) - 1) = Some h /\ h_inc h = cur s /\ h_fc h = fc s.
Proof. exact result_is_last_row. Qed.
Print Assumptions C19_result_is_last_row.

(* stochastic targets: the returned point and observed value are those of the recorded iterate chosen by
   the quantile rule (C05_returned_x_is_evaluated_iterate gives the rest) *)
Theorem C19_noisy_result_is_a_row :
  forall (o : opts) (nfs : Z) (fev : final_ev) (s : st),
    let f := final_phase o nfs fev s in
    exn s = false -> o_det o = false -> 0 < piter s -> (fe_idx fev < List.length (hist s))%nat ->
    exists h, nth_error (hist s) (fe_idx fev) = Some h /\
              i_u (cur (fo_st f)) = i_u (h_inc h) /\ i_y (cur (fo_st f)) = i_y (h_inc h).
Proof. exact noisy_result_is_a_row. Qed.
Print Assumptions C19_noisy_result_is_a_row.
