(* C13 (grid half) — mesh sizes, their exponents, the snapped mesh tolerance, the forcing function and the improvement,
   stated about the code's OWN expressions: every [src_*] is a definition of gen/Src_grid.v regenerated on every run by
   translate/grid.py from pybads/bads/bads.py (_init_optim_state_, the head of the loop of optimize(), _poll_step_,
   _eval_improvement_).  Exponents are integers (Z), mesh sizes exact rationals (Q, [Qpower p k] = p^k); the snapping
   (np.ceil of a quotient of np.log), the forcing function (a real power) and the SD arm of _eval_improvement_ (np.sqrt,
   scipy's erfcinv as an uninterpreted function) are over R and depend on the standard library's real-number axioms.
   Statements only; proofs in Proofs/GridProofs.v (closed) and Proofs/GridProofsR.v (reals).
   Documented option premises: poll_mesh_multiplier p > 1 (default 2), max_poll_grid_number <= 0 (so k <= 0),
   search_grid_multiplier >= 1, search_grid_number >= 0. *)
From Coq Require Import ZArith QArith List Bool Reals.
From PV Require Import gen.Src_grid.
From PV Require Import Model.Val Model.Skeleton Proofs.GridProofs Proofs.GridProofsR.
Import ListNotations.
Open Scope Z_scope.

(* every place that computes a mesh size computes p^k, exactly: optimize() (poll and search mesh), _init_optim_state_
   (both), the end of _poll_step_ *)
Theorem C13_mesh_is_power :
  forall (p : Q) (k : Z),
    src_loop_mesh_size p k = Qpower p k /\ src_init_mesh_size p k = Qpower p k /\ src_poll_mesh_size p k = Qpower p k /\
    src_loop_search_mesh_size p k = Qpower p k /\ src_init_search_mesh_size p k = Qpower p k.
Proof. exact mesh_size_is_power. Qed.
Print Assumptions C13_mesh_is_power.

(* positive; at most 1 when the exponent is at most 0; strictly monotone in the exponent *)
Theorem C13_mesh_order :
  forall (p : Q) (a b : Z), (1 < p)%Q ->
    (0 < src_loop_mesh_size p a)%Q /\ (a <= 0 -> (src_loop_mesh_size p a <= 1)%Q) /\
    ((src_loop_mesh_size p a < src_loop_mesh_size p b)%Q <-> a < b).
Proof. exact mesh_order_all. Qed.
Print Assumptions C13_mesh_order.

(* the termination test of optimize(), `optim_state["mesh_size"] < optim_state["tol_mesh"]`, on a mesh p^k and a snapped
   tolerance p^t IS the exponent comparison k < t that Model/Skeleton.v uses ([terminate], o_tolmesh = t) *)
Theorem C13_tolmesh_test_is_exponent_test :
  forall (p : Q) (k t : Z), (1 < p)%Q ->
    src_loop_tolmesh_stop (src_loop_mesh_size p k) (Qpower p t) = (k <? t).
Proof. exact tolmesh_stop_is_exponent_test. Qed.
Print Assumptions C13_tolmesh_test_is_exponent_test.

(* the three source expressions for the exponent of the search mesh, and that the hand-written controller of
   Model/Skeleton.v ([lock_ks], the failed arm of [poll_phase]) uses exactly them *)
Theorem C13_search_exponent_is_source :
  (forall k sgm sgn, src_init_search_size_integer k sgm sgn = Z.min 0 (k * sgm - sgn)) /\
  (forall o s, ks (lock_ks o s) = src_loop_search_size_integer (o_locked o) (ks s) (k s) (o_sgm o) (o_sgn o) /\ k (lock_ks o s) = k s) /\
  (forall o SI ev s,
     let a := poll_loop o (pe_ncand ev) (pe_evals ev) (mkP s 0 (cur s) 0) in
     let s' := poll_phase o SI ev s in
     exn s' = false ->
     (qltb SI (p_best a) = true -> ks s' = ks s) /\
     (qltb SI (p_best a) = false -> ks s' = src_poll_search_size_integer (ks s) (k s') (o_sgm o) (o_sgn o))).
Proof. exact search_exponent_is_source. Qed.
Print Assumptions C13_search_exponent_is_source.

(* the search mesh never exceeds the poll mesh: with the search size locked (default) whatever it was before; unlocked,
   if it did not before; at construction; and a failed poll only ever lowers the search exponent, to at most the new k *)
Theorem C13_search_mesh_le_poll_mesh :
  forall (p : Q) (ks_in k sgm sgn : Z), (1 <= p)%Q ->
    (k <= 0 -> 1 <= sgm -> 0 <= sgn ->
       (src_loop_search_mesh_size p (src_loop_search_size_integer true ks_in k sgm sgn) <= src_loop_mesh_size p k)%Q /\
       (src_init_search_mesh_size p (src_init_search_size_integer k sgm sgn) <= src_init_mesh_size p k)%Q /\
       src_poll_search_size_integer ks_in k sgm sgn <= ks_in /\ src_poll_search_size_integer ks_in k sgm sgn <= k) /\
    (ks_in <= k ->
       (src_loop_search_mesh_size p (src_loop_search_size_integer false ks_in k sgm sgn) <= src_loop_mesh_size p k)%Q).
Proof. exact search_mesh_le_poll_mesh_all. Qed.
Print Assumptions C13_search_mesh_le_poll_mesh.

(* the snapped tolerance optim_state['tol_mesh'] = p ** ceil(log(tol_mesh) / log(p)) is the LEAST power of p that is
   >= tol_mesh (over the reals) ... *)
Theorem C13_tol_mesh_snap_least_power :
  forall (p tol : R), (1 < p)%R -> (0 < tol)%R ->
    exists c : Z, src_init_tol_mesh p tol = powerRZ p c /\
                  (tol <= powerRZ p c)%R /\ (powerRZ p (c - 1) < tol)%R /\ (forall z : Z, (tol <= powerRZ p z)%R -> c <= z).
Proof. exact tol_mesh_snap_least_power. Qed.
Print Assumptions C13_tol_mesh_snap_least_power.

(* ... hence for a mesh size that is a power of p, being below the snapped tolerance is being below the user's tol_mesh;
   and a tol_mesh that already is a power of p is kept *)
Theorem C13_tol_mesh_snap_same_stop :
  forall (p tol : R) (k t : Z), (1 < p)%R -> (0 < tol)%R ->
    ((powerRZ p k < src_init_tol_mesh p tol)%R <-> (powerRZ p k < tol)%R) /\
    src_init_tol_mesh p (powerRZ p t) = powerRZ p t.
Proof. exact tol_mesh_snap_stop_all. Qed.
Print Assumptions C13_tol_mesh_snap_same_stop.

(* the forcing function: tol_improvement * mesh ** forcing_exponent, floored at tol_fun under the sloppy policy; never
   negative for tol_improvement >= 0; a finer mesh never asks for more; the search and the poll step use the same value *)
Theorem C13_sufficient_improvement :
  forall (sloppy : bool) (ti m1 m2 fe tf : R),
    src_loop_sufficient_improvement sloppy ti m1 fe tf = (if sloppy then Rmax (ti * Rpower m1 fe) tf else ti * Rpower m1 fe)%R /\
    (tf <= src_loop_sufficient_improvement true ti m1 fe tf)%R /\
    ((0 <= ti)%R -> (0 <= src_loop_sufficient_improvement sloppy ti m1 fe tf)%R) /\
    ((0 <= ti)%R -> (0 <= fe)%R -> (0 < m1 <= m2)%R ->
       (src_loop_sufficient_improvement sloppy ti m1 fe tf <= src_loop_sufficient_improvement sloppy ti m2 fe tf)%R) /\
    src_loop_self_sufficient_improvement sloppy ti m1 fe tf = src_loop_sufficient_improvement sloppy ti m1 fe tf.
Proof. exact sufficient_improvement_all. Qed.
Print Assumptions C13_sufficient_improvement.

(* (C04/C13) _eval_improvement_: without SDs the improvement is f_base - f_new, positive iff f_new < f_base ... *)
Theorem C13_improvement_without_sd :
  forall fb fn : Q,
    (src_impr_none fb fn == fb - fn)%Q /\ ((0 < src_impr_none fb fn)%Q <-> (fn < fb)%Q) /\ ((src_impr_none fb fn <= 0)%Q <-> (fb <= fn)%Q).
Proof. exact impr_none_spec. Qed.
Print Assumptions C13_improvement_without_sd.

(* ... with SDs equal to 0 (a deterministic target) it is the same, whatever the quantile and whatever erfcinv is; with the
   default quantile 1/2 (erfcinv(1) = 0) the SDs do not enter at all; in general it is the difference shifted by the
   quantile of the combined SD *)
Theorem C13_improvement_with_sd :
  forall (erfcinv : R -> R) (fb fn sb sn q : R),
    src_impr_sd erfcinv fb fn 0 0 q = (fb - fn)%R /\
    ((0 < src_impr_sd erfcinv fb fn 0 0 q)%R <-> (fn < fb)%R) /\
    (erfcinv 1%R = 0%R -> src_impr_sd erfcinv fb fn sb sn (1 / 2) = (fb - fn)%R) /\
    src_impr_sd erfcinv fb fn sb sn q = ((fb - fn) - sqrt 2 * erfcinv (2 * q) * sqrt (sb ^ 2 + sn ^ 2))%R.
Proof. exact impr_sd_all. Qed.
Print Assumptions C13_improvement_with_sd.

Example C13grid_premises_satisfiable :
  Qeq_bool (src_loop_mesh_size (2 # 1) (-3)) (1 # 8) = true /\
  src_loop_search_size_integer true 0 (-3) 2 10 = -16 /\
  src_poll_search_size_integer (-10) (-1) 2 10 = -12 /\
  src_loop_tolmesh_stop (src_loop_mesh_size (2 # 1) (-20)) (Qpower (2 # 1) (-19)) = true.
Proof. vm_compute. repeat split. Qed.
