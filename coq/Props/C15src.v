(* C15 (source tie) — Model/GPSet.v's [gsn] / [fevals_data] / [add_and_update] / [set_training] are what
   pybads/bads/gaussian_process_train.py says TODAY, and the local fits / posterior updates of pybads/bads/bads.py are centred where
   the model of C15 says.  coq/gen/Src_gpset.v is regenerated from the source by translate/gpset.py on every run (fail-closed
   whitelist, symbolic execution of get_grid_search_neighbors); Model/GPSetSrc.v says what the generated programs mean.
   Statements only; proofs in Proofs/GPSetSourceProofs.v.  Conventions shared with Model/GPSet.v: udist is an oracle (one row of
   distances per row of the log handed to it), np.argsort is the stable sort by (distance, index), x ** k is exact. *)
From Coq Require Import ZArith QArith List String Bool.
From PV Require Import Model.Val Model.GPSet Model.GPSetSrc Proofs.GPSetSourceProofs.
From PV Require Import gen.Src_gpset.
Import ListNotations.
Open Scope Z_scope.

(* get_grid_search_neighbors: for EVERY log (full arrays, any length), X_max_idx, oracle distance matrix with one row per prefix
   row, radius and size options, running the program generated from the source returns exactly the rows of the model's [gsn]
   (which rows of the log are measured, row minimum, the radius rule dist <= radius^2, n_train_min / n_train_max / buffer / X_max_idx + 1,
   the first ntrain indices of the sort, X and Y and S ** 2 gathered at them) and stores the model's ntrain.
   With any other number of distance rows the generated program is stuck (second statement). *)
Theorem C15_selection_is_source :
  forall (xmax : Z) (dmat : list (list Q)) (radius2 : Q) (n_min n_max buffer : Z) (full : list lrow),
    -1 <= xmax -> xmax + 1 <= Z.of_nat (List.length full) ->
    List.length dmat = Z.to_nat (xmax + 1) ->
    run_gsn src_gsn xmax dmat radius2 n_min n_max buffer full = Some (gsn xmax dmat radius2 n_min n_max buffer full) /\
    run_gsn_ntrain src_gsn xmax dmat radius2 n_min n_max buffer full = Some (gsn_ntrain xmax dmat radius2 n_min n_max buffer).
Proof. exact selection_is_source. Qed.
Print Assumptions C15_selection_is_source.

Theorem C15_selection_measures_the_prefix :
  forall (xmax : Z) (dmat : list (list Q)) (radius2 : Q) (n_min n_max buffer : Z) (full : list lrow),
    -1 <= xmax -> xmax + 1 <= Z.of_nat (List.length full) ->
    List.length dmat <> Z.to_nat (xmax + 1) ->
    run_gsn src_gsn xmax dmat radius2 n_min n_max buffer full = None.
Proof. exact selection_needs_one_distance_per_row. Qed.
Print Assumptions C15_selection_measures_the_prefix.

(* _get_fevals_data: the flagged rows, S ** 2 *)
Theorem C15_initial_set_is_source :
  forall (flags : list bool) (log : list lrow), run_fevals src_fevals flags log = fevals_data flags log.
Proof. exact fevals_is_source. Qed.
Print Assumptions C15_initial_set_is_source.

(* add_and_update_gp (what is appended to gp.X / gp.y / gp.s2, under which condition, sd ** 2; the statement raises exactly when the
   model says None) and the head of local_gp_fitting (gp.X, gp.y always replaced by the selection, gp.s2 only when a noise column is
   returned), for EVERY GP data set / observation / selection; the two call sites of add_and_update_gp append the point just handed to
   the logger with the value and SD the logger returned; no other function stores gp.X / gp.y / gp.s2 (census). *)
Theorem C15_append_is_source :
  (forall (g : gpdata) (x : row) (y : Q) (sd : option Q) (specify : bool),
     run_add src_add x y sd specify g = add_and_update g x y sd specify) /\
  (forall (noise_flag : bool) (ts : list lrow) (g : gpdata),
     run_settrain src_settrain noise_flag ts g = Some (set_training noise_flag g ts)) /\
  src_append_sites = model_append_sites /\ src_gp_writers = model_gp_writers.
Proof.
  exact (conj append_is_source (conj settrain_is_source append_sites_are_source)).
Qed.
Print Assumptions C15_append_is_source.

(* which point each local fit is centred on: the working surrogate on the incumbent self.u (search and poll), the throw-away copy on
   the search point just evaluated, each stored surrogate of the history on its own history row; the centre handed to
   local_gp_fitting is the point get_grid_search_neighbors hands to udist, with the GP's length scales and optim_state's
   lb / ub / scale / periodic_vars (canonical text — a pin). *)
Theorem C15_fit_centres_are_source :
  src_fit_sites = model_fit_sites /\ src_centre_flow = model_centre_flow /\ src_udist_args = model_udist_args.
Proof. exact fit_centres_are_source. Qed.
Print Assumptions C15_fit_centres_are_source.

(* Non-vacuity: the example of Props/C15.v (6 logged rows + 1 beyond X_max_idx, a two-column distance row, ties inside and at the
   cut) through the GENERATED program. *)
Example C15_src_example :
  run_gsn src_gsn 5 [[1#1]; [1#4; 2#1]; [0#1]; [8#1]; [1#4]; [1#1]] (1#1) 2 3 1 ex_gsn_log
  = Some [ ([0#1; 0#1], 1#1, Some (1#1)); ([1#2; 0#1], 3#1, Some (1#16)); ([1#2; 0#1], 4#1, Some (1#64)) ].
Proof. exact source_example. Qed.
