(* C04 — deterministic targets: the result is the best evaluated point, reported truthfully.
   Statements only; proofs in Proofs/SkeletonInc.v.  Premises: deterministic target, default
   improvement policy (sloppy_improvement), and the oracle side conditions [det_ok] that the tie
   evaluates on every event of every real run (Model/SkeletonValid.v). *)
From Coq Require Import ZArith QArith List Bool.
From PV Require Import Model.Val Model.Skeleton Model.SkeletonValid Proofs.SkeletonInc.
Import ListNotations.
Open Scope Z_scope.

Theorem C04_result_is_best_evaluated :
  forall (k0 ks0 : Z) (o : opts) (l : list init_call) (fsd0 : Q) (evs : list iter_ev),
    o_sloppy o = true -> det_ok k0 ks0 o l fsd0 evs = true ->
    let s := run k0 ks0 o l fsd0 evs in
    exn s = false ->        (* the run returned a result: no target fault is propagating (C10).  Needed: a fault in
                               the middle of a poll leaves earlier, better poll values in [calls] with [cur] unchanged *)
    calls s <> [] -> (exists c, In c l /\ ic_record c = true /\ e_fault (ic_eval c) = false) ->
    (exists y, In (i_u (cur s), Some y) (calls s) /\ (y == i_y (cur s))%Q) /\   (* x was evaluated, with that value *)
    (i_f (cur s) == i_y (cur s))%Q /\ (i_s (cur s) == 0)%Q /\                    (* fval is the observed value, fsd = 0 *)
    (forall u y, In (u, Some y) (calls s) -> (i_y (cur s) <= y)%Q).              (* nothing evaluated is strictly lower *)
Proof. exact result_is_best_evaluated. Qed.
Print Assumptions C04_result_is_best_evaluated.

(* The premise [exn s = false] above is needed: with every other premise in place, a target fault in the
   middle of a poll step propagates before the incumbent is updated, leaving a strictly better evaluated
   value in [calls]. *)
Theorem C04_fault_premise_needed :
  exists k0 ks0 o l fsd0 evs,
    o_sloppy o = true /\ det_ok k0 ks0 o l fsd0 evs = true /\
    let s := run k0 ks0 o l fsd0 evs in
    exn s = true /\ calls s <> [] /\
    (exists c, In c l /\ ic_record c = true /\ e_fault (ic_eval c) = false) /\
    exists u y, In (u, Some y) (calls s) /\ (y < i_y (cur s))%Q.
Proof. exact best_evaluated_needs_no_fault. Qed.
Print Assumptions C04_fault_premise_needed.

(* The incumbent value recorded per iteration never increases. *)
Theorem C04_history_monotone :
  forall (k0 ks0 : Z) (o : opts) (l : list init_call) (fsd0 : Q) (evs : list iter_ev),
    o_sloppy o = true -> det_ok k0 ks0 o l fsd0 evs = true ->
    let s := run k0 ks0 o l fsd0 evs in
    forall (i j : nat) (a b : hrow), (i <= j)%nat ->
      nth_error (hist s) i = Some a -> nth_error (hist s) j = Some b ->
      (i_f (h_inc b) <= i_f (h_inc a))%Q.
Proof. exact history_monotone. Qed.
Print Assumptions C04_history_monotone.

(* Every recorded iterate is an evaluated point with its observed value (used by C19). *)
Theorem C04_history_rows_evaluated :
  forall (k0 ks0 : Z) (o : opts) (l : list init_call) (fsd0 : Q) (evs : list iter_ev),
    o_sloppy o = true -> det_ok k0 ks0 o l fsd0 evs = true ->
    (exists c, In c l /\ ic_record c = true /\ e_fault (ic_eval c) = false) ->
    let s := run k0 ks0 o l fsd0 evs in
    forall h, In h (hist s) ->
      (exists y, In (i_u (h_inc h), Some y) (calls s) /\ (y == i_y (h_inc h))%Q) /\ h_fc h <= fc s.
Proof. exact history_rows_evaluated. Qed.
Print Assumptions C04_history_rows_evaluated.

(* C06 (per-run clause): never worse than the first evaluated point (the mesh-snapped start). *)
Theorem C04_never_worse_than_start :
  forall (k0 ks0 : Z) (o : opts) (l : list init_call) (fsd0 : Q) (evs : list iter_ev) (c0 : init_call) (r : list init_call),
    o_sloppy o = true -> det_ok k0 ks0 o l fsd0 evs = true ->
    l = c0 :: r -> e_fault (ic_eval c0) = false ->
    let s := run k0 ks0 o l fsd0 evs in
    exn s = false -> (i_f (cur s) <= e_y (ic_eval c0))%Q.
Proof. exact never_worse_than_start. Qed.
Print Assumptions C04_never_worse_than_start.

(* Non-default policy: without sloppy_improvement a strictly better evaluated point below the forcing
   threshold is discarded, so the premise o_sloppy = true is needed. *)
Theorem C04_nondefault_refuted :
  exists k0 ks0 o l fsd0 evs,
    o_sloppy o = false /\ o_det o = true /\
    let s := run k0 ks0 o l fsd0 evs in
    exists u y, In (u, Some y) (calls s) /\ (y < i_y (cur s))%Q.
Proof. exact nondefault_refuted. Qed.
Print Assumptions C04_nondefault_refuted.

Example C04_premises_satisfiable : exists k0 ks0 o l fsd0 evs,
  o_sloppy o = true /\ det_ok k0 ks0 o l fsd0 evs = true /\ (3 <= List.length (calls (run k0 ks0 o l fsd0 evs)))%nat /\
  (1 <= List.length evs)%nat.
Proof. exact premises_satisfiable_c04. Qed.
