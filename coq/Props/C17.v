(* C17 — candidate filtering: no duplicates, nothing infeasible or already evaluated.
   Only statements here; every proof is in Proofs/FilterProofs.v.  The model is Model/Filter.v
   ([filter_candidates] = pybads/function_logger/constraints_check.py `contraints_check`): rows and
   bounds are exact rationals, a bound [None] is infinite, the user's constraint is an oracle
   [qrow -> bool] (true = violated) on the internal row, [logX] is X[:X_max_idx+1].

   Four clauses of the property hold of the code for ALL candidate arrays, boxes, tolerances,
   logs and constraint oracles (C17_in_box, C17_feasible, C17_nodup, C17_subset).  The fifth,
   "not coinciding (within half the mesh tolerance) with any point already evaluated", is FALSE
   of the code: C17_fresh_refuted gives a witness, C17_log_irrelevant shows the evaluation log
   never influences the result, C17_fresh_refuted_everywhere shows that ANY in-box point -
   evaluated before or not - survives when proposed alone. *)
From Coq Require Import ZArith QArith List Bool Sorted.
From PV Require Import Model.Filter Proofs.FilterProofs.
Import ListNotations.
Open Scope Z_scope.

(* Every row handed on lies in the box it was filtered against: lb_i <= r_i <= ub_i for every
   coordinate.  With projection this needs the box to be non-empty (lb_i <= ub_i wherever both are
   finite; otherwise maximum(minimum(u,ub),lb) = lb > ub, see filter_in_box_needs_box_ok in
   Proofs/FilterProofs.v); without projection it needs nothing. *)
Theorem C17_in_box :
  forall (proj : bool) (lb ub : list bnd) (tol : Q) (logX : list qrow)
         (cons : option (qrow -> bool)) (U : list qrow),
    (proj = true -> box_ok lb ub) ->
    Forall (in_box lb ub) (filter_candidates proj lb ub tol logX cons U).
Proof. exact filter_in_box. Qed.
Print Assumptions C17_in_box.

(* With a constraint function supplied, every row handed on satisfies it. *)
Theorem C17_feasible :
  forall (proj : bool) (lb ub : list bnd) (tol : Q) (logX : list qrow) (c : qrow -> bool) (U : list qrow),
    Forall (fun r => c r = false) (filter_candidates proj lb ub tol logX (Some c) U).
Proof. exact filter_feasible. Qed.
Print Assumptions C17_feasible.

(* Rows handed on are pairwise distinct - as lists, as rational vectors, and even after rounding
   to the half-tolerance lattice round(r / (tol/2)) (np.round = half to even). *)
Theorem C17_nodup :
  forall (proj : bool) (lb ub : list bnd) (tol : Q) (logX : list qrow)
         (cons : option (qrow -> bool)) (U : list qrow),
    let out := filter_candidates proj lb ub tol logX cons U in
    NoDup out /\
    ForallOrdPairs (fun a b => ~ Forall2 Qeq a b) out /\
    NoDup (map (rkey (half_tol tol)) out).
Proof. exact filter_nodup_all. Qed.
Print Assumptions C17_nodup.

(* Nothing is invented: every row handed on is an input row (no projection) or the projection
   max(min(u, ub), lb) of an input row; and no more rows come out than went in. *)
Theorem C17_subset :
  forall (proj : bool) (lb ub : list bnd) (tol : Q) (logX : list qrow)
         (cons : option (qrow -> bool)) (U : list qrow),
    let out := filter_candidates proj lb ub tol logX cons U in
    Forall (fun r => exists u, In u U /\ r = (if proj then clamp_row lb ub u else u)) out /\
    (List.length out <= List.length U)%nat.
Proof. exact filter_subset_all. Qed.
Print Assumptions C17_subset.

(* Observation (not claimed by the property, compared by the tie): the output is strictly
   increasing in the lexicographic order of the rounded rows, not in input order. *)
Theorem C17_output_order :
  forall (proj : bool) (lb ub : list bnd) (tol : Q) (logX : list qrow)
         (cons : option (qrow -> bool)) (U : list qrow),
    StronglySorted (fun a b => lex_compare (rkey (half_tol tol) a) (rkey (half_tol tol) b) = Lt)
                   (filter_candidates proj lb ub tol logX cons U).
Proof. exact filter_sorted_strict. Qed.
Print Assumptions C17_output_order.

(* REFUTED clause: "no row handed on coincides, within half the mesh tolerance, with a point
   already evaluated".  Witness: box [-2,2]^2, tol_mesh 1, log {(0,0), (1,-1)}, the single candidate
   (1,-1): it is handed on although it IS the logged point (1,-1). *)
Theorem C17_fresh_refuted :
  exists (proj : bool) (lb ub : list bnd) (tol : Q) (logX : list qrow) (U : list qrow) (r x : qrow),
    In r (filter_candidates proj lb ub tol logX None U) /\ In x logX /\
    rkey (half_tol tol) r = rkey (half_tol tol) x /\ r = x.
Proof. exact filter_fresh_refuted. Qed.
Print Assumptions C17_fresh_refuted.

(* Why: the candidates are stacked ABOVE the log and np.unique reports first occurrences, so the
   "removal of previously evaluated vectors" removes nothing - the log has no influence at all. *)
Theorem C17_log_irrelevant :
  forall (proj : bool) (lb ub : list bnd) (tol : Q) (logX : list qrow)
         (cons : option (qrow -> bool)) (U : list qrow),
    filter_candidates proj lb ub tol logX cons U = filter_candidates proj lb ub tol [] cons U.
Proof. exact filter_log_irrelevant. Qed.
Print Assumptions C17_log_irrelevant.

(* In particular ANY in-box point proposed alone is handed on, whatever has been evaluated. *)
Theorem C17_fresh_refuted_everywhere :
  forall (lb ub : list bnd) (tol : Q) (logX : list qrow) (u : qrow),
    in_boxb lb ub u = true -> filter_candidates false lb ub tol logX None [u] = [u].
Proof. exact filter_single_survives. Qed.
Print Assumptions C17_fresh_refuted_everywhere.

(* Non-vacuity: a 2-D call with projection onto a non-empty box, a duplicate created by the
   projection, two candidates collapsing after rounding, an infeasible candidate and a logged
   point among the candidates.  Input order (3,0) (5,1) (0,0) (1/4,0) (-1,2) (2,0); output in
   lexicographic order of the rounded rows. *)
Example C17_premises_satisfiable :
  box_ok [Some (-2 # 1); Some (-2 # 1)] [Some (2 # 1); None] /\
  filter_candidates true [Some (-2 # 1); Some (-2 # 1)] [Some (2 # 1); None] (1 # 1)
    [[0 # 1; 0 # 1]]
    (Some (fun r => match r with [x; y] => Qle_bool (2 # 1) y | _ => true end))
    [[3 # 1; 0 # 1]; [5 # 1; 1 # 1]; [0 # 1; 0 # 1]; [1 # 4; 0 # 1]; [-1 # 1; 2 # 1]; [2 # 1; 0 # 1]]
  = [[0 # 1; 0 # 1]; [2 # 1; 0 # 1]; [2 # 1; 1 # 1]].
Proof. exact filter_example. Qed.
