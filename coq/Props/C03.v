(* C03 — optimize() terminates within the evaluation budget and counts honestly.
   Statements only; proofs in Proofs/SkeletonCtrl.v.  All theorems quantify over EVERY oracle
   stream: every possible sequence of search outcomes (empty / failure / incremental / success)
   and poll outcomes (0..2D evaluations, good or not), every target value and GP answer. *)
From Coq Require Import ZArith QArith List Bool.
From PV Require Import Model.Val Model.Skeleton Model.SkeletonValid Proofs.SkeletonCtrl.
Import ListNotations.
Open Scope Z_scope.

(* Termination: for every infinite stream of oracle answers the loop is finished (or an exception
   from the target is propagating) after at most iter_bound iterations — no non-progress cycle. *)
Theorem C03_terminates :
  forall (k0 ks0 : Z) (o : opts) (l : list init_call) (fsd0 : Q) (stream : nat -> iter_ev),
    1 <= o_maxiter o ->
    exists n : nat, (n <= iter_bound o)%nat /\
      let s := run k0 ks0 o l fsd0 (map stream (seq 0 n)) in fin s = true \/ exn s = true.
Proof. exact loop_terminates. Qed.
Print Assumptions C03_terminates.

(* Budget: if the initial design fits in the budget, func_count never exceeds max_fun_evals —
   after init and after every loop iteration, whatever the oracles answer. *)
Theorem C03_budget :
  forall (k0 ks0 : Z) (o : opts) (l : list init_call) (fsd0 : Q) (evs : list iter_ev),
    fc (init_phase k0 ks0 o l fsd0) <= o_maxfe o ->
    fc (run k0 ks0 o l fsd0 evs) <= o_maxfe o.
Proof. exact budget_respected. Qed.
Print Assumptions C03_budget.

(* Iterations: poll_iteration never exceeds max_iter - 1. *)
Theorem C03_maxiter :
  forall (k0 ks0 : Z) (o : opts) (l : list init_call) (fsd0 : Q) (evs : list iter_ev),
    1 <= o_maxiter o ->
    piter (run k0 ks0 o l fsd0 evs) <= o_maxiter o - 1.
Proof. exact maxiter_respected. Qed.
Print Assumptions C03_maxiter.

(* Honest counting: func_count = number of target invocations that returned a valid value, and the
   number of target invocations is that plus at most one (the faulty call that ended the run). *)
Theorem C03_func_count_exact :
  forall (k0 ks0 : Z) (o : opts) (l : list init_call) (fsd0 : Q) (evs : list iter_ev),
    let s := run k0 ks0 o l fsd0 evs in
    fc s = n_valid (calls s) /\
    Z.of_nat (List.length (calls s)) = fc s + (if exn s then 1 else 0).
Proof. exact func_count_exact_run. Qed.
Print Assumptions C03_func_count_exact.

(* Truthful message: when an iteration finishes the run, the message names a condition that holds
   in the exit state (kobs = mesh exponent the test looked at; without search-spree expansion it is
   the final mesh exponent, see C13_tolmesh_msg). *)
Theorem C03_msg_truthful :
  forall (o : opts) (s : st) (ev : iter_ev),
    fin s = false -> exn s = false ->
    let s' := step_iter o s ev in
    fin s' = true ->
    (msg s' = 1 /\ o_maxfe o <= fc s') \/
    (msg s' = 2 /\ o_maxiter o - 1 <= piter s') \/
    (msg s' = 3 /\ exists kobs, kobs < o_tolmesh o /\ (o_sme o = 0 -> kobs = k s')) \/
    (msg s' = 4 /\ o_stall o - 1 < piter s' /\ exists h, ie_stall ev = Some h /\ (h < o_tolfun o)%Q).
Proof. exact msg_truthful. Qed.
Print Assumptions C03_msg_truthful.

(* A finished or failed run takes no further step: no evaluation after termination. *)
Theorem C03_finished_is_final :
  forall (o : opts) (s : st) (evs : list iter_ev),
    fin s = true \/ exn s = true -> run_loop o s evs = s.
Proof. exact finished_is_final. Qed.
Print Assumptions C03_finished_is_final.

(* Non-vacuity: a concrete two-iteration run that searches, polls and terminates. *)
Example C03_example_run_terminates : exists evs o l,
  fin (run 0 (-10) o l 0 evs) = true /\ 1 <= o_maxiter o /\ (2 <= List.length evs)%nat.
Proof. exact example_run_terminates. Qed.
