(* C12 — "growing the cache ... never alter any other record": the EXTENT of the log that other components read
   (X_max_idx: training-set selection, candidate filter) always covers every record, for every cache size and every
   sequence of evaluations, and the tables always have room for the last record.  Model: Model/LoggerExtent.v
   (tied op by op to the real FunctionLogger: Xn, X_max_idx and the capacity after every evaluation). *)
From Coq Require Import ZArith List Bool.
From PV Require Import Model.LoggerExtent Proofs.LoggerExtentProofs.
Import ListNotations.
Open Scope Z_scope.

Theorem C12_extent_covers_every_record :
  forall (cache_size : Z) (ops : list bool), 0 <= cache_size ->
    let e := ext_run cache_size ops in
    xmax e = xn e /\
    xn e + 1 = Z.of_nat (List.length (filter (fun b => b) ops)) /\
    (0 <= xn e -> xn e < cap e).
Proof. exact extent_covers_every_record. Qed.
Print Assumptions C12_extent_covers_every_record.

(* Non-vacuity: a cache of 2 rows and five new records: the tables grow 2 -> 3 -> 5 and the extent follows. *)
Example C12_extent_example :
  ext_trace (ext_init 2) [true; true; false; true; true; true] =
  [(0, 0, 2); (1, 1, 2); (1, 1, 2); (2, 2, 3); (3, 3, 5); (4, 4, 5)].
Proof. vm_compute. reflexivity. Qed.
