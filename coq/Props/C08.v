(* C08 — problem definitions validated exactly: invalid raise ValueError, valid accepted.
   Only statements here; every proof is in Proofs/BoundsCheckProofs.v.

   [construct d] (Model/BoundsCheck.v) is the executable model of BADS.__init__ + _bounds_check_ on a
   definition d = (x0, lb, ub, plb, pub), each vector optional, values finite / +-inf / NaN, ANY
   dimension: [Reject r] = ValueError raised by test r, [Crash c] = another exception class (D = 0 only),
   [Accept n] = the normalised problem.  [invalid d] (Model/BoundsSpec.v) is the property's list
   written declaratively on the raw definition.  All theorems quantify over all definitions of all
   dimensions; they are proved per coordinate and lifted over the list, not by enumeration.
   The constructor never calls the target: there is no such operation in the model (checked on the
   real code by the tie). *)
From Coq Require Import ZArith QArith List Bool.
From PV Require Import Model.XQ Model.BoundsCheck Model.BoundsSpec Proofs.BoundsCheckProofs.
Import ListNotations.

(* Accepted => normal form.  All five vectors have the same length D >= 1; in every coordinate
   the hard bounds are the given ones (or -inf/+inf), lb <= plb < pub <= ub, the plausible bounds are
   finite, the coordinate is bounded on both sides or on none, and x0 is either a finite point with
   LB_eff <= x0 <= UB_eff, hence strictly inside finite hard bounds, or (only when no finite point was
   given) drawn later by the constructor from [plb, pub], which then lies within [LB_eff, UB_eff]
   ([normal_coord], BoundsSpec.v).  The strictness carries the
   premise that the bound is not a non-zero number of magnitude <= realmin: see
   C08_x0_on_bound_denormal_refuted. *)
Theorem C08_accept_sound :
  forall (d : defn) (n : norm), construct d = Accept n ->
  exists D, dim_of d = Some D /\ (1 <= D)%nat
    /\ (forall v, In v (given d) -> List.length v = D)
    /\ List.length (n_lb n) = D /\ List.length (n_ub n) = D
    /\ List.length (n_plb n) = D /\ List.length (n_pub n) = D
    /\ match n_x0 n with
       | Given x => List.length x = D
       | Drawn => exists i, (i < D)%nat /\ xisfinite (x0_at d i) = false
       end
    /\ forall i, (i < D)%nat -> normal_coord d n i.
Proof. exact accept_sound. Qed.
Print Assumptions C08_accept_sound.

(* "Invalid raise ValueError": every definition on the property's list is rejected with ValueError,
   whatever else is wrong with it (D >= 1; an empty x0 makes option loading divide by zero). *)
Theorem C08_invalid_rejected :
  forall d : defn, nonempty d -> invalid d -> exists r, construct d = Reject r.
Proof. exact invalid_rejected. Qed.
Print Assumptions C08_invalid_rejected.

(* Conversely, every ValueError except the one of the SECOND order test (after the repairs) is
   justified by the list.  _partial: the unrestricted equivalence is false, see the *_refuted
   theorems below; the exact class on which it holds is C08_reject_complete. *)
Theorem C08_reject_sound_partial :
  forall (d : defn) (r : reason), construct d = Reject r -> r <> RStrictBounds2 -> invalid d.
Proof. exact reject_sound_partial. Qed.
Print Assumptions C08_reject_sound_partial.

(* Exact decision of the list on regular definitions: x0 has no NaN coordinate or is not given at all
   (absent / NaN everywhere), no hard bound is a non-zero number of magnitude <= realmin, and no
   plausible box lies entirely inside one of the 0.1% margins of its hard box ([regular]). *)
Theorem C08_reject_complete :
  forall d : defn, regular d -> nonempty d ->
    ((exists r, construct d = Reject r) <-> invalid d).
Proof. exact reject_complete. Qed.
Print Assumptions C08_reject_complete.

(* "Valid accepted", same class: no ValueError and no other exception. *)
Theorem C08_valid_accepted :
  forall d : defn, regular d -> nonempty d -> ~ invalid d -> exists n, construct d = Accept n.
Proof. exact valid_accepted. Qed.
Print Assumptions C08_valid_accepted.

(* No other exception: the only non-ValueError raise site after the checks, np.random.uniform(plb, pub)
   with a non-finite range (OverflowError), is unreachable for every definition (D = 0 aside). *)
Theorem C08_never_overflows : forall d : defn, construct d <> Crash COverflow.
Proof. exact never_overflows. Qed.
Print Assumptions C08_never_overflows.

(* An infinite starting coordinate is invalid (not a point of the box) and raises ValueError. *)
Theorem C08_inf_x0_rejected :
  forall (d : defn) (D i : nat),
    nonempty d -> dim_of d = Some D -> (i < D)%nat -> xisinf (x0_at d i) = true ->
    invalid d /\ exists r, construct d = Reject r.
Proof. exact inf_x0_rejected. Qed.
Print Assumptions C08_inf_x0_rejected.

(* The accepted problem is exactly the documented repair of the input ([repaired], BoundsSpec.v):
   hard bounds unchanged; x0 clamped to [LB_eff, UB_eff]; plb/pub (defaulting to lb/ub) pulled to
   [LB_eff, UB_eff]; and, only if some coordinate of the clamped x0 sits on an effective bound,
   plb/pub expanded to contain x0.  The code's global "if any(...)" guards around the first two
   repairs are shown to be no-ops. *)
Theorem C08_normalisation_minimal :
  forall (d : defn) (n : norm), construct d = Accept n ->
  exists D, dim_of d = Some D /\
    let edge := existsb on_edge (map (coord_at d) (seq 0 D)) in
    forall i, (i < D)%nat ->
      let r := repaired edge (coord_at d i) in
         nthx (n_lb n) i = lb_at d i /\ nthx (n_ub n) i = ub_at d i
      /\ nthx (n_plb n) i = cpl r /\ nthx (n_pub n) i = cpu r
      /\ match n_x0 n with Given x => nthx x i = cx r | Drawn => True end.
Proof. exact normalisation_minimal. Qed.
Print Assumptions C08_normalisation_minimal.

(* ... and the repairs change nothing that is already inside. *)
Theorem C08_repairs_identity_inside :
  forall c : coord,
     (xle (LBe c) (cx c) = true -> xle (cx c) (UBe c) = true -> clamp c = cx c)
  /\ (xle (LBe c) (cpl c) = true -> cpl (repaired false c) = cpl c)
  /\ (xle (cpu c) (UBe c) = true -> cpu (repaired false c) = cpu c)
  /\ (forall e, cl (repaired e c) = cl c /\ cu (repaired e c) = cu c).
Proof. exact repairs_identity_inside. Qed.
Print Assumptions C08_repairs_identity_inside.

(* ---- refuted clauses (faithful model; each witness is replayed on the real constructor) ---- *)

(* "Every other definition is accepted" is false: lb=0, ub=1, plb=0.9995, pub=1, x0=0.5 is ordered,
   finite, distinct, inside — and is rejected by the second order test, because pub is pulled to
   UB_eff = 0.999 < plb. *)
Theorem C08_margin_box_refuted :
  exists d, nonempty d /\ ~ invalid d /\ construct d = Reject RStrictBounds2.
Proof. exact margin_box_refuted. Qed.
Print Assumptions C08_margin_box_refuted.

(* x0 = (NaN, 1), lb = (0,0), ub = (1,1): rejected (NaN leaks into plb through the expansion), while
   x0 = (NaN, 0.5) is accepted with x0 redrawn. *)
Theorem C08_nan_coordinate_refuted :
  exists d, nonempty d /\ ~ invalid d /\ construct d = Reject RStrictBounds2.
Proof. exact nan_coordinate_refuted. Qed.
Print Assumptions C08_nan_coordinate_refuted.

(* lb = x0 = realmin, ub = 2 realmin: accepted with x0 left ON the hard bound (the special case
   |lb| <= realmin sets LB_eff = 1e-3*range < lb). *)
Theorem C08_x0_on_bound_denormal_refuted :
  exists d n x l, construct d = Accept n /\ n_x0 n = Given [x] /\ n_lb n = [l] /\
                  xisfinite l = true /\ xlt l x = false.
Proof. exact x0_on_bound_denormal_refuted. Qed.
Print Assumptions C08_x0_on_bound_denormal_refuted.

(* Non-vacuity: D = 3, a bounded coordinate with x0 ON its upper bound 2 (moved to 1.996, the
   plausible upper bound follows it), a fully unbounded coordinate whose x0 = 7 lies outside its
   plausible box (expanded), a bounded coordinate whose plausible bounds equal the hard ones (pulled
   inside).  It is regular and not invalid, so the premises above are satisfiable. *)
Example C08_example_accepted :
  construct ex_defn = Accept ex_norm /\ regular ex_defn /\ ~ invalid ex_defn.
Proof. exact example_accepted. Qed.
