(* C07 — a fixed random_seed makes runs reproducible, independent of process history.
   Only statements here; proofs are in Proofs/SeedingProofs.v, the model in Model/Seeding.v, and
   [src_rng_sites] / [src_layout] in gen/Src_rng_sites.v, which translate/rng_sites.py regenerates from
   the CURRENT source of /repo/pybads and of the installed gpyreg on every run.

   Reading guide.  A process has a global NumPy stream (Some (seed, draws since seeding) | None), the
   module global D of options.py, and "everything else" (foreign_garbage).  Foreign operations
   (ForeignDraw / ForeignSeed / ForeignConstruct / ForeignOptimize / ForeignTouch) change these
   arbitrarily.  The instance under test is  Construct ; <foreign ops> ; Optimize .  [observe] returns
   everything the instance can see of the process: the identity (seed, index) of its random x0 draw, the
   D its defaults were evaluated with, the identities of all draws of optimize() — whose number and
   continuation are decided by an ARBITRARY function [beh] of what was seen so far, so this covers the
   target's own noise draws — and, iff the scan found a site outside the allowed classes or an order
   fact fails, the process state such a site could read.  The instance's run is a function of [observe].

   What this model CANNOT exhibit (covered only by the dynamic tie in harness/run_repro.py): nondeterminism
   below Python (BLAS/LAPACK threading, SciPy/NumPy internals), PYTHONHASHSEED-dependent iteration order
   that is not a syntactic set iteration, gpyreg/SciPy behaviour beyond the scanned call sites, and
   value flow the scanner does not follow (time taint is function-local; attributes/containers are not
   tracked). *)
From Coq Require Import ZArith List String Bool.
From PV Require Import Model.Seeding Proofs.SeedingProofs gen.Src_rng_sites.
Import ListNotations.
Open Scope Z_scope.

(* ---- the premises, decided by computation on the regenerated table (static tie of P1, P2) ---- *)

(* P1 + P2: every randomness / process-global-state site of pybads and gpyreg is in an allowed class
   AND the class is one its category and seed provenance justify.  A new unseeded default_rng(), a
   hash()-derived seed, a module-level cache, a `global` statement ... makes this fail. *)
Theorem C07_premises_hold_in_source : forallb allowed_site src_rng_sites = true.
Proof. vm_compute. reflexivity. Qed.
Print Assumptions C07_premises_hold_in_source.

(* the weaker reading asked for in the plan: no site is Unclassified *)
Theorem C07_no_unclassified_site : forallb (fun s => allowed_kind (s_kind s)) src_rng_sites = true.
Proof. vm_compute. reflexivity. Qed.
Print Assumptions C07_no_unclassified_site.

(* The order facts: __init__ seeds before anything that may draw; optimize() re-seeds before anything
   that may draw; the only seed write is np.random.seed(int(options["random_seed"])) guarded by
   "is not None"; options.py re-binds D before evaluating defaults on every load; no lazy default. *)
Theorem C07_seed_order_holds_in_source : layout_ok src_layout = true.
Proof. vm_compute. reflexivity. Qed.
Print Assumptions C07_seed_order_holds_in_source.

(* ---- the property ---- *)

(* For ALL initial process states, ALL foreign histories h1 h2 before construction and ALL foreign
   operations m1 m2 interleaved between construction and optimisation, ALL seeds, dimensions, x0
   given or omitted, and ALL behaviours of the instance: the observables are equal.  Stated for the
   layout and the site table read from the source as it is now. *)
Theorem C07_history_independent :
  forall (s0 s0' : pstate) (h1 h2 m1 m2 : list fop) (seed D : Z) (x0_given : bool)
         (beh : inst -> list draw_id -> bool) (fuel : nat),
    observe src_layout (leaks_of src_rng_sites) s0 h1 (Some seed) D x0_given m1 beh fuel =
    observe src_layout (leaks_of src_rng_sites) s0' h2 (Some seed) D x0_given m2 beh fuel.
Proof.
  exact (history_independent_of_scan src_layout src_rng_sites
           C07_seed_order_holds_in_source C07_premises_hold_in_source).
Qed.
Print Assumptions C07_history_independent.

(* the same for every layout satisfying the order facts (not only today's source) *)
Theorem C07_history_independent_any_layout :
  forall (L : layout), layout_ok L = true ->
  forall (s0 s0' : pstate) (h1 h2 m1 m2 : list fop) (seed D : Z) (x0_given : bool)
         (beh : inst -> list draw_id -> bool) (fuel : nat),
    observe L false s0 h1 (Some seed) D x0_given m1 beh fuel =
    observe L false s0' h2 (Some seed) D x0_given m2 beh fuel.
Proof. exact history_independent. Qed.
Print Assumptions C07_history_independent_any_layout.

(* The random starting point drawn when x0 is omitted is draw 0 of the stream seeded with the
   instance's seed, after every history — even if other sites leaked. *)
Theorem C07_x0_draw_independent :
  forall (leaks : bool) (s0 : pstate) (h : list fop) (seed D : Z),
    i_x0 (fst (construct src_layout leaks (Some seed) D false (run_foreign s0 h))) = X0Drawn (Some (seed, O)).
Proof.
  intros leaks s0 h seed D.
  apply (x0_draw_independent src_layout leaks); vm_compute; reflexivity.
Qed.
Print Assumptions C07_x0_draw_independent.

(* Every draw made by optimize() — by the algorithm or by the target — is element k of the stream
   seeded with the instance's seed, k counting from the start of optimize(). *)
Theorem C07_optimize_draws_are_the_seeded_stream :
  forall (leaks : bool) (s0 : pstate) (h m : list fop) (seed D : Z) (x0_given : bool)
         (beh : inst -> list draw_id -> bool) (fuel k : nat) (d : draw_id),
    nth_error (o_draws (snd (observe src_layout leaks s0 h (Some seed) D x0_given m beh fuel))) k = Some d ->
    d = Some (seed, k).
Proof.
  intros leaks s0 h m seed D x0g beh fuel k d.
  apply (optimize_draws_are_the_seeded_stream src_layout leaks); vm_compute; reflexivity.
Qed.
Print Assumptions C07_optimize_draws_are_the_seeded_stream.

(* Quantifying over all start states is not stronger than over all histories of a fresh interpreter. *)
Theorem C07_histories_reach_every_stream_state :
  forall (sd : Z) (k : nat), stream (run_foreign fresh [ForeignSeed sd; ForeignDraw k]) = Some (sd, k).
Proof. exact foreign_reaches_any_stream. Qed.
Print Assumptions C07_histories_reach_every_stream_state.

(* ---- necessity of the premises (non-vacuity): each one dropped, the model exhibits dependence ---- *)

(* random_seed = None: the run depends on the history. *)
Theorem C07_unseeded_refuted :
  exists (h1 h2 : list fop) (D : Z) (x0g : bool) (beh : inst -> list draw_id -> bool) (fuel : nat),
    observe good_layout false fresh h1 None D x0g [] beh fuel <>
    observe good_layout false fresh h2 None D x0g [] beh fuel.
Proof. exact unseeded_refuted. Qed.
Print Assumptions C07_unseeded_refuted.

(* without the re-seed at the start of optimize(): foreign draws between construct and optimize matter *)
Theorem C07_no_reseed_refuted :
  exists (m1 m2 : list fop) (sd D : Z) (beh : inst -> list draw_id -> bool) (fuel : nat),
    observe (mk_layout true false true true true) false fresh [] (Some sd) D true m1 beh fuel <>
    observe (mk_layout true false true true true) false fresh [] (Some sd) D true m2 beh fuel.
Proof. exact no_reseed_refuted. Qed.
Print Assumptions C07_no_reseed_refuted.

(* constructor seeding AFTER the x0 draw: the random starting point depends on the history *)
Theorem C07_seed_after_x0_refuted :
  exists (h1 h2 : list fop) (sd D : Z),
    i_x0 (fst (observe (mk_layout false true true true true) false fresh h1 (Some sd) D false [] two_draws 5)) <>
    i_x0 (fst (observe (mk_layout false true true true true) false fresh h2 (Some sd) D false [] two_draws 5)).
Proof. exact seed_after_x0_refuted. Qed.
Print Assumptions C07_seed_after_x0_refuted.

(* defaults served without re-binding D (module-level cache): D of an earlier problem leaks *)
Theorem C07_stale_D_refuted :
  exists (h1 h2 : list fop) (sd D : Z),
    observe (mk_layout true true true false true) false fresh h1 (Some sd) D true [] two_draws 5 <>
    observe (mk_layout true true true false true) false fresh h2 (Some sd) D true [] two_draws 5.
Proof. exact stale_D_refuted. Qed.
Print Assumptions C07_stale_D_refuted.

(* a lazily evaluated default reading the module global: interleaved constructions matter *)
Theorem C07_lazy_global_refuted :
  exists (m1 m2 : list fop) (sd D : Z),
    observe (mk_layout true true true true false) false fresh [] (Some sd) D true m1 two_draws 5 <>
    observe (mk_layout true true true true false) false fresh [] (Some sd) D true m2 two_draws 5.
Proof. exact lazy_global_refuted. Qed.
Print Assumptions C07_lazy_global_refuted.

(* one site outside the allowed classes: the run may depend on any other process state *)
Theorem C07_leak_refuted :
  exists (h1 h2 : list fop) (sd D : Z),
    observe good_layout true fresh h1 (Some sd) D true [] two_draws 5 <>
    observe good_layout true fresh h2 (Some sd) D true [] two_draws 5.
Proof. exact leak_refuted. Qed.
Print Assumptions C07_leak_refuted.

(* ---- non-vacuity of the positive statement: a concrete non-trivial pair of histories, evaluated ---- *)
Example C07_example_histories :
  observe src_layout (leaks_of src_rng_sites) fresh
    [ForeignOptimize None 13 4; ForeignConstruct 5 (Some 3) false 1; ForeignDraw 17]
    (Some 42) 2 false
    [ForeignConstruct 1 None false 9; ForeignSeed 8; ForeignOptimize (Some 5) 100 2]
    two_draws 10
  = (mk_inst (Some 42) 2 (X0Drawn (Some (42, O))) (Some 2) None,
     mk_opt_obs [Some (42, O); Some (42, 1%nat)] None None).
Proof. vm_compute. reflexivity. Qed.

(* the table is not empty and contains the sites the model is about *)
Example C07_table_nontrivial :
  (10 <=? count_kind GlobalStream src_rng_sites)%nat = true /\
  (1 <=? count_kind SeededFromRunData src_rng_sites)%nat = true /\
  (3 <=? count_kind RebindEveryLoad src_rng_sites)%nat = true /\
  existsb (fun s => match s_cat s with CSeedWrite => String.eqb (s_fun s) "BADS._init_random_seed_" | _ => false end)
          src_rng_sites = true.
Proof. vm_compute. repeat split; reflexivity. Qed.
