(* C02src — the two feasibility checks of the starting point, as they stand in the source.
   Statements only; proofs in Proofs/FilterSourceProofs.v.  [src_init_events] / [src_state_events] are
   REGENERATED on every run (translate/filter.py) from BADS.__init__ and BADS._init_optim_state_: every
   statement that stores self.x0, uses the constraint function, initialises the optimiser state, creates
   the function logger (no target call can precede it), binds or touches the snapped start u0 - IN SOURCE
   ORDER.  Model/FilterSrc.v [run_start] says what the events do. *)
From Coq Require Import ZArith QArith List Bool String.
From PV Require Import Model.Filter Model.FilterSrc Proofs.FilterSourceProofs gen.Src_filter.
Import ListNotations.
Open Scope Z_scope.

(* (1) The events and their order: non_box_cons(self.x0) > 0 is tested after _bounds_check_ and the random
   draw of an absent start, before _init_optim_state_ and before the logger exists; inside
   _init_optim_state_ the constraint is tested at inverse_transf(u0) AFTER the snap and AFTER both
   pull-backs into the box, before u0 is stored, with np.any, `> 0` and ValueError.
   (2) What they do, for EVERY start, grid arithmetic, transform, constraint function and box test: the
   construction is rejected with ValueError before the logger exists (hence before any target call) iff
   the constraint reports a violation (NOT value <= 0) at x0 or at the image of the snapped AND pulled-back
   start u0 = pull_hi (pull_lo (snap x0)) - the [start_check c x0 u0] of Props/C02.v - and otherwise u0 is
   what is stored (if it passes the box test). *)
Theorem C02_start_checks_are_source :
  (src_init_events = [EvBoundsCheck; EvRandomStart; EvConsCheck ArgX0 CGt AggNone "ValueError"; EvInitState; EvMakeLogger] /\
   src_state_events = [EvSnap; EvPullLow; EvPullHigh; EvConsCheck ArgInvU0 CGt AggAny "ValueError"; EvStoreU; EvBoxTest "ValueError"]) /\
  forall (XT : Type) (x0 : XT) (snap : XT -> qrow) (pull_lo pull_hi : qrow -> qrow) (inverse_transf : qrow -> XT)
         (non_box_cons : option (XT -> Q)) (inbox : qrow -> bool),
    let u0 := pull_hi (pull_lo (snap x0)) in
    let violated x := match non_box_cons with Some f => negb (Qle_bool (f x) (0 # 1)) | None => false end in
    run_start x0 snap pull_lo pull_hi inverse_transf non_box_cons inbox src_init_events src_state_events
    = if violated x0 then Rejected "ValueError" false
      else if violated (inverse_transf u0) then Rejected "ValueError" false
      else if inbox u0 then Accepted (Some u0) else Rejected "ValueError" false.
Proof. exact (conj start_events_are_model start_checks_run). Qed.
Print Assumptions C02_start_checks_are_source.

(* Non-vacuity: a start that is feasible where given but infeasible once snapped and pulled back. *)
Example C02_src_example :
  run_start [3 # 10] (fun x => [0 # 1]) (fun u => u) (fun u => map (fun t => t + (1 # 4))%Q u) (fun u => u)
            (Some (fun x => match x with [t] => (t - (3 # 10)) * (t - (3 # 10)) | _ => 0 end)%Q) (fun _ => true)
            src_init_events src_state_events
  = Rejected "ValueError" false.
Proof. vm_compute. reflexivity. Qed.
