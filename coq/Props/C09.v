(* C09 — every valid problem runs to completion in every supported mode.
   What a proof can carry here: DEFINEDNESS of the reads the listed crashes come from, on the
   skeleton model, for every oracle stream.  (Shape/dtype errors inside NumPy, gpyreg, SciPy are
   outside the model; the mode-matrix panel samples them.)  Proofs in Proofs/SkeletonFinal.v. *)
From Coq Require Import ZArith QArith List Bool.
From PV Require Import Model.Val Model.Skeleton Model.SkeletonValid Model.SkeletonNoisy Proofs.SkeletonFinal.
Import ListNotations.
Open Scope Z_scope.

(* The history has exactly one row per completed poll iteration (+1 for the closing row), so every
   index the loop reads is in range. *)
Theorem C09_history_length :
  forall (k0 ks0 : Z) (o : opts) (l : list init_call) (fsd0 : Q) (evs : list iter_ev),
    let s := run k0 ks0 o l fsd0 evs in
    0 <= piter s /\
    Z.of_nat (List.length (hist s)) = piter s + (if fin s then 1 else 0).
Proof. exact history_length. Qed.
Print Assumptions C09_history_length.

(* the tol_stall_iters test reads history[piter - stall] and the acceleration test history[piter - steps]:
   both indices are within the rows recorded so far *)
Theorem C09_history_reads_in_range :
  forall (k0 ks0 : Z) (o : opts) (l : list init_call) (fsd0 : Q) (evs : list iter_ev),
    let s := run k0 ks0 o l fsd0 evs in
    fin s = false -> exn s = false -> 1 <= o_stall o -> 1 <= o_accel_steps o ->
    (o_stall o - 1 < piter s -> 0 <= piter s - o_stall o < Z.of_nat (List.length (hist s))) /\
    (o_accel_steps o < piter s -> 0 <= piter s - o_accel_steps o < Z.of_nat (List.length (hist s))).
Proof. exact history_reads_in_range. Qed.
Print Assumptions C09_history_reads_in_range.

(* the final selection q_beta[1:] is non-empty exactly when the code enters it (noisy, piter > 0): an
   index 1 <= i <= piter exists and every such index addresses a recorded row *)
Theorem C09_final_selection_defined :
  forall (k0 ks0 : Z) (o : opts) (l : list init_call) (fsd0 : Q) (evs : list iter_ev),
    let s := run k0 ks0 o l fsd0 evs in
    fin s = true -> exn s = false -> 0 < piter s ->
    (2 <= List.length (hist s))%nat /\
    forall i : nat, (1 <= i)%nat -> (Z.of_nat i <= piter s) -> exists h, nth_error (hist s) i = Some h.
Proof. exact final_selection_defined. Qed.
Print Assumptions C09_final_selection_defined.

(* a poll never evaluates more points than its candidate set holds (each evaluation removes one
   candidate), nor more than 2D *)
Theorem C09_poll_within_candidates :
  forall (o : opts) (ev : poll_ev) (s : st),
    let a := poll_loop o (pe_ncand ev) (pe_evals ev) (mkP s 0 (cur s) 0) in
    0 <= pe_ncand ev -> 0 <= o_D o ->
    0 <= p_cnt a /\ p_cnt a <= pe_ncand ev /\ p_cnt a <= 2 * o_D o /\
    Z.of_nat (List.length (calls (p_s a))) <= Z.of_nat (List.length (calls s)) + p_cnt a + 1.
Proof. exact poll_within_candidates. Qed.
Print Assumptions C09_poll_within_candidates.

(* yval_vec is defined exactly when the re-sampling branch ran *)
Theorem C09_yval_vec_defined :
  forall (o : opts) (nfs : Z) (fev : final_ev) (s : st),
    let f := final_phase o nfs fev s in
    exn (fo_st f) = false -> final_obs_ok nfs fev = true ->
    (fo_sampled f = true <-> (o_det o = false /\ 0 < piter s /\ 0 < nfs /\ exn s = false /\
                              (fe_idx fev < List.length (hist s))%nat)) /\
    (fo_sampled f = true -> fo_yvec f <> []).
Proof. exact yval_vec_defined. Qed.
Print Assumptions C09_yval_vec_defined.
