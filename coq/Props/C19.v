(* C19 — iteration history and OptimizeResult are consistent records of the run.
   Only statements here; every proof is in Proofs/HistoryProofs.v.
   Model: Model/History.v (IterationHistory and OptimizeResult as dicts of identity-tagged values;
   copy.deepcopy with its memo; in-place mutation by the environment as an op).
   Vocabulary: Model/HistorySpec.v (wf, id_known, touches, is_blank, recordable, rwf).

   Part 1 (this builder): laws of the two containers, for arbitrary states / op sequences.
   Part 2 (the lead, from the skeleton model of optimize()): what the loop records. *)
From Coq Require Import ZArith List String Bool.
From PV Require Import Model.Val Model.History Model.HistorySpec Proofs.HistoryProofs.
(* the comparator evaluated by the correspondence check; required here only so that building this file
   builds it too (no theorem depends on it) *)
From PV Require Model.HistoryTie.
Import ListNotations.
Open Scope Z_scope.

(* After ANY op sequence (assignments, records, record_iteration, reads, deletions, in-place mutation
   of any object by the environment; known and unknown keys; any iteration numbers; values whose
   identity tags are arbitrary, even forged) every mutable object held by the history was allocated by
   the history itself (by copy.deepcopy): no object of the caller is ever stored. *)
Theorem C19_reachable_wf :
  forall (keys : list string) (ops : list op), wf (run (init_history keys) ops).
Proof. exact wf_reachable. Qed.
Print Assumptions C19_reachable_wf.

(* record(k, v, i) succeeded  ==>  cell (k, i) holds a copy of v: the same content, and — unless v is
   immutable — a new object allocated during this very call. *)
Theorem C19_record_get :
  forall (s : hstate) (k : string) (v : value) (i : Z) (s' : hstate),
    step s (Record k v i) = (s', Ok) ->
    exists v', cell_at s' k (Z.to_nat i) = Some (Some v') /\
               payload v' = payload v /\
               (vid v = Imm -> v' = v) /\
               (vid v <> Imm -> exists m, vid v' = Own m /\ (next s <= m < next s')%nat).
Proof. exact record_get. Qed.
Print Assumptions C19_record_get.

(* Frame: every other key is untouched (same objects); every other cell of the same key keeps its
   content; and when no growth was needed (i < old length) the array object and all its other cells
   are the very same objects (the write is in place, so a reference obtained earlier sees it),
   whereas after a growth the array is a new object (an earlier reference is stale). *)
Theorem C19_frame :
  forall (s : hstate) (k : string) (v : value) (i : Z) (s' : hstate),
    step s (Record k v i) = (s', Ok) ->
    (forall k', k' <> k -> lookup k' (items s') = lookup k' (items s)) /\
    (forall j, j <> Z.to_nat i -> (j < len_of s k)%nat ->
       option_map cell_payload (cell_at s' k j) = option_map cell_payload (cell_at s k j)) /\
    ((Z.to_nat i < len_of s k)%nat ->
       (exists a cs cs', lookup k (items s) = Some (SArr a cs) /\ lookup k (items s') = Some (SArr a cs')) /\
       forall j, j <> Z.to_nat i -> cell_at s' k j = cell_at s k j).
Proof. exact record_frame. Qed.
Print Assumptions C19_frame.

(* Growth: the array under k has length max(old length, i+1) (old length 0 when the key held None);
   every new cell other than i is None. *)
Theorem C19_grow_padding :
  forall (s : hstate) (k : string) (v : value) (i : Z) (s' : hstate),
    step s (Record k v i) = (s', Ok) ->
    len_of s' k = Nat.max (len_of s k) (S (Z.to_nat i)) /\
    forall j, (len_of s k <= j < len_of s' k)%nat -> j <> Z.to_nat i -> cell_at s' k j = Some None.
Proof. exact record_grow_padding. Qed.
Print Assumptions C19_grow_padding.

(* Errors: negative iteration or unknown key => ValueError; ANY error of record leaves the state
   unchanged; and record succeeds whenever i >= 0 and the key holds None or an array. *)
Theorem C19_errors_preserve_state :
  forall (s : hstate) (k : string) (v : value) (i : Z),
    (i < 0 \/ lookup k (items s) = None -> step s (Record k v i) = (s, Err "ValueError")) /\
    (forall s' e, step s (Record k v i) = (s', Err e) -> s' = s) /\
    (0 <= i -> recordable s k -> snd (step s (Record k v i)) = Ok).
Proof. exact record_errors. Qed.
Print Assumptions C19_errors_preserve_state.

(* h[k] = v: unknown key => ValueError, state unchanged; known key => a deep copy is stored
   (new array object, cells with the same content, all their mutable objects new), other keys untouched. *)
Theorem C19_setitem :
  forall (s : hstate) (k : string) (v : src),
    (lookup k (items s) = None -> step s (SetItem k v) = (s, Err "ValueError")) /\
    (forall st0, lookup k (items s) = Some st0 ->
     exists s', step s (SetItem k v) = (s', Ok) /\
       (forall k', k' <> k -> lookup k' (items s') = lookup k' (items s)) /\
       match v with
       | SrcNone => lookup k (items s') = Some SNone
       | SrcScalar p => lookup k (items s') = Some (SScalar p)
       | SrcArr cs => exists cs', lookup k (items s') = Some (SArr (next s) cs') /\
                                  payloads cs' = payloads cs /\
                                  Forall (cell_below (S (next s)) (next s')) cs'
       end).
Proof. intros s k v. split; [apply setitem_errors | apply setitem_get]. Qed.
Print Assumptions C19_setitem.

(* No aliasing: after record(k, v, i), changing v in place does not change cell (k, i) — for every
   value the caller can hold in that state, including an object it read out of the history itself. *)
Theorem C19_no_alias :
  forall (s : hstate) (k : string) (v : value) (i : Z) (s' : hstate) (p : val),
    wf s -> id_known s (vid v) ->
    step s (Record k v i) = (s', Ok) ->
    cell_at (fst (step s' (Mutate (vid v) p))) k (Z.to_nat i) = cell_at s' k (Z.to_nat i).
Proof. exact record_no_alias. Qed.
Print Assumptions C19_no_alias.

(* Stronger: in a reachable state, an in-place change of ANY object of the environment changes nothing. *)
Theorem C19_env_mutation_invisible :
  forall (s : hstate) (n : nat) (p : val), wf s -> fst (step s (Mutate (Ext n) p)) = s.
Proof. exact env_mutation_invisible. Qed.
Print Assumptions C19_env_mutation_invisible.

(* Whole sequences: the content of cell (k, i) at the end is the content of the LAST successful
   record at (k, i), whatever happened before and whatever ops that do not write (k, i) came after
   (records elsewhere incl. growths of k, other keys, reads, failed calls, environment mutations). *)
Theorem C19_last_record_wins :
  forall (keys : list string) (ops1 : list op) (k : string) (v : value) (i : Z) (ops2 : list op),
    snd (step (run (init_history keys) ops1) (Record k v i)) = Ok ->
    Forall (fun o => ~ touches k (Z.to_nat i) o) ops2 ->
    option_map cell_payload (cell_at (run (init_history keys) (ops1 ++ Record k v i :: ops2)) k (Z.to_nat i))
    = Some (Some (payload v)).
Proof. exact last_record_wins. Qed.
Print Assumptions C19_last_record_wins.

(* ... and a cell that no op wrote holds nothing (absent or None padding). *)
Theorem C19_unrecorded_is_blank :
  forall (keys : list string) (ops : list op) (k : string) (i : nat),
    Forall (fun o => ~ touches k i o) ops -> is_blank (run (init_history keys) ops) k i.
Proof. exact unrecorded_is_blank. Qed.
Print Assumptions C19_unrecorded_is_blank.

(* record_iteration(dict, i): negative i => ValueError, nothing written; all keys recordable => exactly
   the records in dict order; first unknown key => ValueError AFTER the preceding pairs were recorded
   (the code does not roll back — stated as it is). *)
Theorem C19_record_iteration :
  forall (s : hstate) (kvs : list (string * value)) (i : Z),
    (i < 0 -> step s (RecordIteration kvs i) = (s, Err "ValueError")) /\
    (0 <= i -> (forall k, In k (map fst kvs) -> recordable s k) ->
     step s (RecordIteration kvs i) = (run s (map (fun kv => Record (fst kv) (snd kv) i) kvs), Ok)) /\
    (0 <= i -> forall pre k v post, kvs = pre ++ (k, v) :: post ->
     (forall k', In k' (map fst pre) -> recordable s k') -> ~ In k (map fst pre) -> lookup k (items s) = None ->
     step s (RecordIteration kvs i) = (run s (map (fun kv => Record (fst kv) (snd kv) i) pre), Err "ValueError")).
Proof. exact record_iteration_law. Qed.
Print Assumptions C19_record_iteration.

(* OptimizeResult: exactly 21 distinct names; a known name is accepted and a copy stored, other
   fields untouched; an unknown name => ValueError, state unchanged; a present field reads the same
   by key and by attribute; a missing one => KeyError / AttributeError; after any op sequence only
   names of _keys are present. *)
Theorem C19_result_keys :
  (List.length result_keys = 21%nat /\ NoDup result_keys) /\
  (forall s k v, In k result_keys ->
     exists v' s', rstep s (RSet k v) = (s', ROk) /\ lookup k (ritems s') = Some v' /\
                   payload v' = payload v /\
                   (forall k', k' <> k -> lookup k' (ritems s') = lookup k' (ritems s))) /\
  (forall s k v, ~ In k result_keys -> rstep s (RSet k v) = (s, RErr "ValueError")) /\
  (forall s k v, lookup k (ritems s) = Some v ->
     rstep s (RGet k) = (s, RRef v) /\ rstep s (RGetAttr k) = (s, RRef v)) /\
  (forall s k, lookup k (ritems s) = None ->
     rstep s (RGet k) = (s, RErr "KeyError") /\ rstep s (RGetAttr k) = (s, RErr "AttributeError")) /\
  (forall ops k v, lookup k (ritems (rrun init_result ops)) = Some v -> In k result_keys).
Proof. exact result_keys_law. Qed.
Print Assumptions C19_result_keys.

(* The result holds copies: after any op sequence no object of the optimiser is stored, so nothing
   the optimiser later does to its own objects can change the result; and after r[k] = v, changing v
   in place does not change r[k]. *)
Theorem C19_result_copies :
  (forall ops, rwf (rrun init_result ops)) /\
  (forall s n p, rwf s -> fst (rstep s (RMutate (Ext n) p)) = s) /\
  (forall s k v s' p, rwf s -> (match vid v with Own m => (m < rnext s)%nat | _ => True end) ->
     rstep s (RSet k v) = (s', ROk) ->
     lookup k (ritems (fst (rstep s' (RMutate (vid v) p)))) = lookup k (ritems s')).
Proof.
  split; [exact rwf_reachable|]. split; [exact result_env_mutation_invisible|exact result_no_alias].
Qed.
Print Assumptions C19_result_copies.

(* OptimizeResult(bads): EVERY one of the 21 declared fields is present after set_attributes, holds the
   content read from the optimiser, and is readable by key and by attribute (same object).
   (Holds since commit 39edf28; before it the field status was never assigned — see below.) *)
Theorem C19_result_fields_readable :
  forall (vals : string -> value) (k : string),
    In k result_keys ->
    exists v', lookup k (ritems (set_attributes init_result vals)) = Some v' /\
               payload v' = payload (vals k) /\
               rstep (set_attributes init_result vals) (RGet k) = (set_attributes init_result vals, RRef v') /\
               rstep (set_attributes init_result vals) (RGetAttr k) = (set_attributes init_result vals, RRef v').
Proof.
  intros vals k Hin. apply set_attributes_fields. apply set_attributes_complete; auto.
Qed.
Print Assumptions C19_result_fields_readable.

(* Historical refutation (kept as a regression witness, like C12_frame_refuted_elementwise): with the
   assignments set_attributes made before the repair (all but status) the clause "each field readable by
   key and by attribute" was false.  The key-list tie compares set_attributes_keys with the source on
   every run, so a return of the defect breaks the correspondence and the monitor reports the real result. *)
Theorem C19_status_unset_refuted_before_fix :
  exists k, In k result_keys /\ forall vals,
    let r := rrun init_result (map (fun k => RSet k (vals k)) set_attributes_keys_before_39edf28) in
    snd (rstep r (RGet k)) = RErr "KeyError" /\ snd (rstep r (RGetAttr k)) = RErr "AttributeError".
Proof. exact status_unset_refuted_before_fix. Qed.
Print Assumptions C19_status_unset_refuted_before_fix.

(* Non-vacuity: a concrete history with growth, padding, an overwrite-free re-record, a failing call,
   a mutation of a recorded source and a record_iteration; the premises of C19_last_record_wins hold
   for cell (u, 3) over its last four ops. *)
Example C19_example :
  let s := run (init_history ["u"; "yval"]%string) ex_ops in
  option_map payloads (cells_of s "u") = Some [Some (VZ 10); Some (VZ 13); None; Some (VZ 11)] /\
  option_map payloads (cells_of s "yval") = Some [Some (VZ 5); Some (VZ 6)] /\
  snd (step (run (init_history ["u"; "yval"]%string) (firstn 5 ex_ops)) (Record "zz" (ex_v 1 Imm) 0)) = Err "ValueError" /\
  Forall (fun o => ~ touches "u" 3 o) (skipn 4 ex_ops).
Proof. exact history_example. Qed.

(* --- run-level theorems (added by the lead from the skeleton model) --- *)
