(* C17 (grid half) — the rounding that decides "same point within half the mesh tolerance" in contraints_check, stated
   about the code's OWN expressions: [src_cc_tol], [src_cc_key_candidate], [src_cc_key_logged] are regenerated on every
   run by translate/grid.py from pybads/function_logger/constraints_check.py
       tol = tol_mesh / 2.0 ;  u1 = np.round(U_new / tol) ;  u2 = np.round(function_logger.X[: X_max_idx + 1] / tol)
   (per coordinate; [np_round] = round-half-to-even, compared with NumPy on every run).  With these equalities the
   theorems of Props/C17.v, which speak of [rkey (half_tol tol)] and [Qround_even] of Model/Filter.v, speak about the
   source's rounded rows.  Statements only; proofs in Proofs/GridProofs.v. *)
From Coq Require Import ZArith QArith Qabs List Bool.
From PV Require Import gen.Src_grid.
From PV Require Import Model.Filter Proofs.GridProofs.
Import ListNotations.
Open Scope Z_scope.

(* the model's rounding IS np.round of the generated prelude; the model's key of a row IS the source's rounded row *)
Theorem C17_rounding_key_is_source :
  (forall x : Q, np_round x = Qround_even x) /\
  (forall tol : Q, (src_cc_tol tol == half_tol tol)%Q) /\
  (forall (tol : Q) (r : qrow), map inject_Z (rkey (half_tol tol) r) = map (fun x => src_cc_key_candidate x tol) r).
Proof. exact rounding_key_is_source. Qed.
Print Assumptions C17_rounding_key_is_source.

(* candidates and logged points are rounded by the same expression, so "equal keys" in the model is "equal rounded rows"
   in the source, candidate against candidate and candidate against log alike *)
Theorem C17_same_key_iff_source_rows_equal :
  forall (tol : Q) (a b : qrow),
    (forall x : Q, src_cc_key_candidate x tol = src_cc_key_logged x tol) /\
    (rkey (half_tol tol) a = rkey (half_tol tol) b <->
     map (fun x => src_cc_key_candidate x tol) a = map (fun x => src_cc_key_logged x tol) b).
Proof. exact same_key_iff_source. Qed.
Print Assumptions C17_same_key_iff_source_rows_equal.

(* what the rounding means: the key is a nearest integer to x / (tol_mesh / 2); two coordinates with the same key differ
   by at most tol_mesh / 2 *)
Theorem C17_same_key_within_half_tol :
  forall (tol x y : Q), (0 < tol)%Q -> (src_cc_key_candidate x tol == src_cc_key_logged y tol)%Q -> (Qabs (x - y) <= tol / (2 # 1))%Q.
Proof. exact same_key_within_half_tol. Qed.
Print Assumptions C17_same_key_within_half_tol.

Example C17grid_premises_satisfiable :
  Qeq_bool (src_cc_key_candidate (5 # 4)%Q (1 # 1)%Q) (2 # 1)%Q = true /\ Qeq_bool (src_cc_key_logged (7 # 4)%Q (1 # 1)%Q) (4 # 1)%Q = true /\
  rkey (half_tol (1 # 1)%Q) [(5 # 4)%Q; (7 # 4)%Q] = [2; 4].
Proof. vm_compute. repeat split. Qed.
