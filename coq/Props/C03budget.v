(* C03 (and the reserve clause of C05) — the evaluation budget END TO END, in the USER's terms.
   Statements only; proofs in Proofs/BudgetProofs.v.

   Model/Budget.v computes, from the options the user passes (max_fun_evals, fun_eval_start, noise_final_samples,
   tol_stall_iters, the declared uncertainty level, D) and two oracles (outcome of the noise test; number of design rows
   that survive the filter), what BADS._init_mesh_ / init_sobol / BADS._init_optimization_ leave behind: the number of
   initial target calls, the loop's max_fun_evals, the reserve noise_final_samples, tol_stall_iters, the level.
   [whole_run b ...] is Model/Skeleton.v's run_full with exactly these values in the places where Props/C03.v takes
   them as inputs (o_maxfe, o_det, o_stall, nfs).  All theorems quantify over EVERY oracle stream of the skeleton. *)
From Coq Require Import ZArith QArith List Bool.
From PV Require Import Model.Val Model.Skeleton Model.SkeletonValid Model.SkeletonNoisy Model.Budget gen.Src_budget
                       Proofs.BudgetProofs.
Import ListNotations.
Open Scope Z_scope.

(* The model is the source: every arithmetic definition of Model/Budget.v equals the definition regenerated from
   pybads/bads/bads.py and pybads/init_functions/init_sobol.py by translate/budget.py on every run. *)
Theorem C03_budget_model_is_source :
  (forall level, noise_test_runs level = src_noise_test_cond level) /\
  level_set = src_level_set /\
  (forall mfe, single_eval mfe = src_single_eval mfe) /\
  (forall level, is_noisy level = src_noisy_cond level) /\
  (forall fes mfe, fes_noisy fes mfe = src_fes_noisy fes mfe) /\
  (forall fes, design_wanted fes = src_design_cond fes) /\
  (forall fes mfe, fes_capped fes mfe = src_fes_capped fes mfe) /\
  (site_x0_record = src_site_x0_record /\ site_test_record = src_site_test_record /\
   site_design_record = src_site_design_record /\ site_final_record = src_site_final_record) /\
  (forall f, sobol_n0 f = src_sobol_n0 f) /\
  (forall n D, sobol_bump_test n D = src_sobol_bump_test n D) /\
  (forall n, sobol_bump n = src_sobol_bump n) /\
  (forall n, sobol_rows_of n = src_sobol_rows n) /\
  (forall level, is_noisy level = src_reserve_cond level) /\
  (forall stall, stall_eff stall = src_stall stall) /\
  (forall mfe nfs fc, nfs_eff mfe nfs fc = src_nfs mfe nfs fc) /\
  (forall mfe nfs fc, maxfe_eff mfe nfs fc = src_maxfe mfe nfs fc) /\
  (forall maxfe fc, term_budget maxfe fc = src_term_budget maxfe fc) /\
  (forall maxfe fc, poll_guard_budget maxfe fc = src_poll_guard_budget maxfe fc) /\
  (forall level piter, final_outer level piter = src_final_outer level piter) /\
  (forall nfs, final_cond nfs = src_final_cond nfs) /\
  (forall nfs, final_count nfs = src_final_count nfs) /\
  logger_sites = [src_sites_init_mesh; src_sites_optimize; src_sites_search; src_sites_poll].
Proof. exact model_is_source. Qed.
Print Assumptions C03_budget_model_is_source.

(* ... and the skeleton's poll guard, termination test and final phase read the budget through those expressions. *)
Theorem C03_skeleton_reads_the_budget :
  (forall o ncand a, poll_guard o ncand a = true -> poll_guard_budget (o_maxfe o) (fc (p_s a)) = true) /\
  (forall o kobs stall s, term_budget (o_maxfe o) (fc s) = true -> o_maxiter o - 1 <=? piter s = false ->
      kobs <? o_tolmesh o = false -> o_stall o - 1 <? piter s = false -> terminate o kobs stall s = (true, 1)) /\
  (forall o nfs fev s, exn s = false ->
      fo_sampled (final_phase o nfs fev s) = true ->
      final_outer (if o_det o then 0 else 1) (piter s) = true /\ final_cond nfs = true).
Proof. exact skeleton_reads_the_budget. Qed.
Print Assumptions C03_skeleton_reads_the_budget.

(* THE PROPERTY.  For every oracle stream: if the initial design fits in the budget the USER gave (and
   noise_final_samples is not negative), the total number of target invocations of the whole run - initial design,
   main loop, final re-sampling, including a call that raised - never exceeds the USER's max_fun_evals. *)
Theorem C03_total_calls_within_user_budget :
  forall (b : binp) (k0 ks0 : Z) (o : opts) (l : list init_call) (fsd0 : Q) (evs : list iter_ev) (fev : final_ev),
    Z.of_nat (List.length l) <= bo_init_calls (budget b) ->     (* the initial calls are the modelled ones (fewer if one faults) *)
    bo_init_calls (budget b) <= bi_mfe b ->                     (* PRECONDITION: the budget is at least the initial design *)
    0 <= bi_nfs b ->
    total_calls (whole_run b k0 ks0 o l fsd0 evs fev) <= bi_mfe b.
Proof. exact total_calls_within_user_budget. Qed.
Print Assumptions C03_total_calls_within_user_budget.

(* The reserve is exactly min(noise_final_samples, what the initial design left), the loop gets the rest, and under the
   precondition neither is negative and the loop budget still covers the initial design. *)
Theorem C03_reserve_exact :
  forall b : binp, let r := budget b in
    is_noisy (bo_level r) = true ->
    bo_nfs r = Z.min (bi_nfs b) (bi_mfe b - bo_init_calls r) /\
    bo_maxfe r + bo_nfs r = bi_mfe b /\
    bo_stall r = 2 * bi_stall b /\
    (bo_init_calls r <= bi_mfe b -> 0 <= bi_nfs b ->
       0 <= bo_nfs r <= bi_nfs b /\ bo_init_calls r <= bo_maxfe r <= bi_mfe b).
Proof. exact reserve_exact. Qed.
Print Assumptions C03_reserve_exact.

(* Deterministic runs reserve nothing, keep tol_stall_iters, and the final phase evaluates nothing. *)
Theorem C03_det_reserves_nothing :
  forall (b : binp) (k0 ks0 : Z) (o : opts) (l : list init_call) (fsd0 : Q) (evs : list iter_ev) (fev : final_ev),
    is_noisy (bo_level (budget b)) = false ->
    bo_maxfe (budget b) = bi_mfe b /\ bo_nfs (budget b) = bi_nfs b /\ bo_stall (budget b) = bi_stall b /\
    fo_st (whole_run b k0 ks0 o l fsd0 evs fev) = run k0 ks0 (with_budget b o) l fsd0 evs /\
    fo_sampled (whole_run b k0 ks0 o l fsd0 evs fev) = false.
Proof. exact det_reserves_nothing. Qed.
Print Assumptions C03_det_reserves_nothing.

(* Which runs are stochastic: a declared level is kept; an undeclared target becomes level 1 exactly when the noise
   test says the two evaluations at x0 differ. *)
Theorem C03_noise_level_rule :
  forall b : binp, let r := budget b in
    (1 <= bi_level0 b -> bo_level r = bi_level0 b) /\
    (bi_level0 b < 1 -> bi_differ b = true -> bo_level r = 1) /\
    (bi_level0 b < 1 -> bi_differ b = false -> bo_level r = bi_level0 b /\ is_noisy (bo_level r) = false).
Proof. exact level_rule. Qed.
Print Assumptions C03_noise_level_rule.

(* The initial design, in the user's terms.  With f = min(fun_eval_start', max_fun_evals - 1) (fun_eval_start' = the
   option, or min(max(20, option), max_fun_evals) for stochastic targets): the design is a power of two with
   f <= rows <= max(2f - 1, 2D), never equal to D, and the initial calls are at most 2 + that.
   NOT true: "rows <= max_fun_evals - 1" (see C03_design_exceeds_budget_refuted). *)
Theorem C03_design_size_bounds :
  forall b : binp, let r := budget b in
    design_runs b = true -> 0 <= bi_survive b <= bo_rows r ->
    let f := fes_capped (bo_fes r) (bi_mfe b) in
    1 <= f /\ f <= bo_rows r /\ bo_rows r <= Z.max (2 * f - 1) (2 * bi_D b) /\ bo_rows r <> bi_D b /\
    (exists n, 0 <= n /\ bo_rows r = 2 ^ n) /\
    bo_init_calls r <= 2 + Z.max (2 * f - 1) (2 * bi_D b).
Proof. exact design_size_bounds. Qed.
Print Assumptions C03_design_size_bounds.

(* Sufficient conditions on the user's options for the precondition.  Deterministic targets: max_fun_evals >=
   2 + max(2 fun_eval_start - 1, 2D) (defaults: 2D + 2).  Stochastic targets with fun_eval_start <= 20 and D <> 32:
   the design has exactly 32 rows whenever max_fun_evals >= 21, so max_fun_evals >= 34 suffices (33 when declared) -
   and below that the design EXCEEDS the budget. *)
Theorem C03_budget_sufficient_det :
  forall b : binp, let r := budget b in
    is_noisy (bo_level r) = false -> 0 <= bi_D b -> 0 <= bi_survive b <= bo_rows r ->
    2 + Z.max (2 * bi_fes b - 1) (2 * bi_D b) <= bi_mfe b ->
    bo_init_calls r <= bi_mfe b.
Proof. exact budget_sufficient_det. Qed.
Print Assumptions C03_budget_sufficient_det.

Theorem C03_budget_sufficient_noisy :
  forall b : binp, let r := budget b in
    is_noisy (bo_level r) = true -> 0 <= bi_survive b <= bo_rows r ->
    bi_fes b <= 20 -> bi_D b <> 32 -> 21 <= bi_mfe b ->
    bo_crash r = false /\ bo_fes r = 20 /\ bo_rows r = 32 /\
    (34 <= bi_mfe b -> bo_init_calls r <= bi_mfe b).
Proof. exact budget_sufficient_noisy. Qed.
Print Assumptions C03_budget_sufficient_noisy.

(* The message "reached max_fun_evals" in the USER's terms: the iteration that stops the run with message 1 has
   func_count >= the user's max_fun_evals for deterministic targets, >= max_fun_evals minus the reserve otherwise. *)
Theorem C03_budget_message_in_user_terms :
  forall (b : binp) (o : opts) (s : st) (ev : iter_ev),
    fin s = false -> exn s = false ->
    let s' := step_iter (with_budget b o) s ev in
    fin s' = true -> msg s' = 1 ->
    (is_noisy (bo_level (budget b)) = false -> bi_mfe b <= fc s') /\
    (is_noisy (bo_level (budget b)) = true -> bi_mfe b - bo_nfs (budget b) <= fc s').
Proof. exact budget_message_in_user_terms. Qed.
Print Assumptions C03_budget_message_in_user_terms.

(* C05, reserve clause: when the final re-sampling completes it spends exactly the reserve
   min(noise_final_samples, max_fun_evals - initial calls); a run stopped by the budget then ends at the USER's budget. *)
Theorem C05_resampling_spends_the_reserve :
  forall (b : binp) (k0 ks0 : Z) (o : opts) (l : list init_call) (fsd0 : Q) (evs : list iter_ev) (fev : final_ev),
    let f := whole_run b k0 ks0 o l fsd0 evs fev in
    let s := run k0 ks0 (with_budget b o) l fsd0 evs in
    fo_sampled f = true -> exn (fo_st f) = false -> final_obs_ok (bo_nfs (budget b)) fev = true ->
    is_noisy (bo_level (budget b)) = true /\
    bo_nfs (budget b) = Z.min (bi_nfs b) (bi_mfe b - bo_init_calls (budget b)) /\
    fc (fo_st f) = fc s + bo_nfs (budget b) /\
    (bo_maxfe (budget b) <= fc s -> bi_mfe b <= fc (fo_st f)).
Proof. exact resampling_spends_the_reserve. Qed.
Print Assumptions C05_resampling_spends_the_reserve.

(* ---- false outside the precondition (each witness is replayed on the real code by props/C03.py) ---- *)

(* "The initial design is capped by max_fun_evals - 1" is FALSE: the cap is applied before rounding up to a power of
   two.  Declared noise, D = 2, max_fun_evals = 25: 33 initial calls; the reserve becomes -8 and the loop budget 33. *)
Theorem C03_design_exceeds_budget_refuted :
  exists b : binp, 2 <= bi_mfe b /\ 0 <= bi_nfs b /\ bo_crash (budget b) = false /\
    0 <= bi_survive b <= bo_rows (budget b) /\
    bi_mfe b < bo_init_calls (budget b) /\
    bo_nfs (budget b) < 0 /\
    bi_mfe b < bo_maxfe (budget b).
Proof. exact design_exceeds_budget_refuted. Qed.
Print Assumptions C03_design_exceeds_budget_refuted.

(* The premise 0 <= noise_final_samples is needed: a negative value is accepted and ADDED to the loop budget.
   Declared noise, D = 2, max_fun_evals = 40, noise_final_samples = -10: a run with 45 target calls. *)
Theorem C03_negative_nfs_exceeds_budget_refuted :
  exists (b : binp) (k0 ks0 : Z) (o : opts) (l : list init_call) (fsd0 : Q) (evs : list iter_ev) (fev : final_ev),
    Z.of_nat (List.length l) = bo_init_calls (budget b) /\ bo_init_calls (budget b) <= bi_mfe b /\
    bi_nfs b < 0 /\ bi_mfe b < total_calls (whole_run b k0 ks0 o l fsd0 evs fev).
Proof. exact negative_nfs_exceeds_budget_refuted. Qed.
Print Assumptions C03_negative_nfs_exceeds_budget_refuted.

(* KNOWN FINDING (message clause).  Under the precondition a stochastic run can stop with the message "reached maximum
   number of function evaluations options['max_fun_evals']" and FEWER target calls than the user's max_fun_evals: the loop
   stops at max_fun_evals - reserve, and when that happens before the first poll iteration completes the re-sampling is
   skipped and the reserve is never spent.  Declared noise, D = 2, max_fun_evals = 36: 33 calls, message 1. *)
Theorem C03_budget_message_unspent_reserve_refuted :
  exists (b : binp) (k0 ks0 : Z) (o : opts) (l : list init_call) (fsd0 : Q) (evs : list iter_ev) (fev : final_ev),
    let f := whole_run b k0 ks0 o l fsd0 evs fev in
    Z.of_nat (List.length l) = bo_init_calls (budget b) /\ bo_init_calls (budget b) <= bi_mfe b /\ 0 <= bi_nfs b /\
    fin (fo_st f) = true /\ msg (fo_st f) = 1 /\ exn (fo_st f) = false /\
    0 < bo_nfs (budget b) /\ fo_sampled f = false /\
    total_calls f < bi_mfe b.
Proof. exact budget_message_unspent_reserve_refuted. Qed.
Print Assumptions C03_budget_message_unspent_reserve_refuted.

(* Non-vacuity: auto-detected noise, D = 2, max_fun_evals = 45: 34 initial calls, reserve 10, loop budget 35. *)
Example C03_budget_example : exists b : binp,
  is_noisy (bo_level (budget b)) = true /\ bo_init_calls (budget b) = 34 /\ bo_init_calls (budget b) <= bi_mfe b /\
  bo_nfs (budget b) = 10 /\ bo_maxfe (budget b) = 35 /\ bo_rows (budget b) = 32 /\ design_runs b = true.
Proof. exact budget_example. Qed.
