(* C02 — non-box constraints: no infeasible point is evaluated or returned.
   Statements only; proofs in Proofs/SkeletonBox.v.  The user's constraint function is an arbitrary
   function [c] of the point (true = violated), assumed deterministic and compatible with numeric
   equality of coordinates; it is judged at the internal point through the same inverse image the
   logger uses (one expression in the code, checked bitwise by the tie). *)
From Coq Require Import ZArith QArith List Bool Morphisms.
From PV Require Import Model.Val Model.Skeleton Model.SkeletonValid Model.SkeletonNoisy Model.Filter Model.SkeletonBox.
From PV Require Import Proofs.FilterProofs Proofs.SkeletonBox.
Import ListNotations.
Open Scope Z_scope.

(* every row contraints_check returns when a constraint is supplied satisfies it *)
Theorem C02_filter_feasible :
  forall (proj : bool) (lb ub : list bnd) (tol : Q) (logX : list qrow) (c : qrow -> bool) (U : list qrow),
    Forall (fun r => c r = false) (filter_candidates proj lb ub tol logX (Some c) U).
Proof. exact filter_feasible. Qed.
Print Assumptions C02_filter_feasible.

(* no infeasible point is ever evaluated (initial design, search, poll, final re-sampling) and the
   returned point is feasible *)
Theorem C02_no_infeasible_call :
  forall (k0 ks0 : Z) (o : opts) (l : list init_call) (fsd0 : Q) (evs : list iter_ev) (nfs : Z) (fev : final_ev)
         (c : qrow -> bool) (u0 : qrow) (F : list (list qrow)),
    (forall a b, Forall2 Qeq a b -> c a = c b) ->
    c u0 = false ->                                              (* the constructor rejects an infeasible start *)
    (forall S, In S F -> Forall (fun r => c r = false) S) ->     (* C02_filter_feasible for each recorded filter call *)
    prov_okb u0 F (eval_points l evs) = true ->
    noisy_u_ok o (init_phase k0 ks0 o l fsd0) evs = true ->
    (exists ic, In ic l /\ ic_record ic = true /\ e_fault (ic_eval ic) = false) ->
    let f := run_full k0 ks0 o l fsd0 evs nfs fev in
    (forall u r, In (u, r) (calls (fo_st f)) -> c u = false) /\
    (exn (fo_st f) = false -> c (i_u (cur (fo_st f))) = false).
Proof. exact no_infeasible_call. Qed.
Print Assumptions C02_no_infeasible_call.

(* an infeasible (mesh-snapped) start is rejected before the target is ever called: in the model of
   construction + initialisation, a rejected start means an empty call list *)
Definition start_check (c : qrow -> bool) (x0 u0 : qrow) : bool := negb (c x0) && negb (c u0).
Theorem C02_infeasible_start_rejected :
  forall (c : qrow -> bool) (x0 u0 : qrow) (k0 ks0 : Z) (o : opts) (l : list init_call) (fsd0 : Q) (evs : list iter_ev),
    let calls_of_run := if start_check c x0 u0 then calls (run k0 ks0 o l fsd0 evs) else [] in
    (c x0 = true \/ c u0 = true) -> calls_of_run = [].
Proof. exact infeasible_start_rejected. Qed.
Print Assumptions C02_infeasible_start_rejected.

Example C02_premises_satisfiable : exists (c : qrow -> bool) u0 F pts,
  (forall a b, Forall2 Qeq a b -> c a = c b) /\ c u0 = false /\ (forall S, In S F -> Forall (fun r => c r = false) S) /\
  prov_okb u0 F pts = true /\ (2 <= List.length pts)%nat /\ (exists v, c v = true).
Proof. exact feas_premises_satisfiable. Qed.
