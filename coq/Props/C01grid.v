(* C01 (grid half) — the arithmetic that keeps the search box and the starting point inside the hard box,
   stated about the code's OWN expressions.  Every [src_*] below is a definition of gen/Src_grid.v, regenerated
   on every run by translate/grid.py from pybads/search/grid_functions.py (force_to_grid) and pybads/bads/bads.py
   (_update_search_bounds_, _init_optim_state_, the head of the loop of optimize()); it is the per-coordinate
   reading of the NumPy statements (a masked assignment A[A<B] = A[A<B] + m is `if A <? B then A + m else A`), over
   exact rationals (binary64 is exact here for dyadic inputs and a power-of-two mesh), and it is compared with the
   real code on generated inputs on every run (harness/comp_grid.py).  Statements only; proofs in Proofs/GridProofs.v.
   m is the search mesh size; only 0 < m is assumed unless stated. *)
From Coq Require Import ZArith QArith Qabs List Bool.
From PV Require Import gen.Src_grid.
From PV Require Import Model.Filter Model.SkeletonBox Proofs.GridProofs.
Import ListNotations.
Open Scope Z_scope.

(* force_to_grid(x, m) is an integer multiple of m, within m/2 of x, no grid point is closer, and it is idempotent *)
Theorem C01_force_to_grid :
  forall (x m : Q), (0 < m)%Q ->
    (exists z : Z, src_force_to_grid x m == inject_Z z * m)%Q /\
    (Qabs (src_force_to_grid x m - x) <= m / (2 # 1))%Q /\
    (forall z : Z, Qabs (src_force_to_grid x m - x) <= Qabs (inject_Z z * m - x))%Q /\
    (src_force_to_grid (src_force_to_grid x m) m == src_force_to_grid x m)%Q.
Proof. exact force_to_grid_all. Qed.
Print Assumptions C01_force_to_grid.

(* the search box of _update_search_bounds_: lb_search is THE least grid point >= lb and ub_search THE greatest grid
   point <= ub; in particular lb <= lb_search < lb + m and ub - m < ub_search <= ub, for EVERY lb, ub (no order assumed) *)
Theorem C01_search_box_extreme_grid_points :
  forall (lb ub m : Q), (0 < m)%Q ->
    (lb <= src_usb_lb_search lb m)%Q /\ (src_usb_lb_search lb m < lb + m)%Q /\
    (src_usb_ub_search ub m <= ub)%Q /\ (ub - m < src_usb_ub_search ub m)%Q /\
    (exists z : Z, src_usb_lb_search lb m == inject_Z z * m)%Q /\
    (exists z : Z, src_usb_ub_search ub m == inject_Z z * m)%Q /\
    (forall z : Z, lb <= inject_Z z * m -> src_usb_lb_search lb m <= inject_Z z * m)%Q /\
    (forall z : Z, inject_Z z * m <= ub -> inject_Z z * m <= src_usb_ub_search ub m)%Q.
Proof. exact search_box_extreme_all. Qed.
Print Assumptions C01_search_box_extreme_grid_points.

(* precisely when the rounded box is non-empty: iff some grid point lies in [lb, ub]; a box at least one step wide
   always is ... *)
Theorem C01_search_box_nonempty_iff :
  forall (lb ub m : Q), (0 < m)%Q ->
    ((src_usb_lb_search lb m <= src_usb_ub_search ub m)%Q <-> exists z : Z, (lb <= inject_Z z * m)%Q /\ (inject_Z z * m <= ub)%Q) /\
    ((lb + m <= ub)%Q -> (src_usb_lb_search lb m <= src_usb_ub_search ub m)%Q).
Proof. exact search_box_nonempty_all. Qed.
Print Assumptions C01_search_box_nonempty_iff.

(* ... and "lb <= ub implies lb_search <= ub_search" is FALSE: a box narrower than a step can lose all its grid points
   (lb = 1/4, ub = 1/2, mesh 1: the rounded "box" is [1, 0]).  Unreachable in BADS: see C01_start_in_box_unit_geometry. *)
Theorem C01_search_box_nonempty_refuted :
  exists lb ub m : Q, (0 < m)%Q /\ (lb <= ub)%Q /\ (src_usb_ub_search ub m < src_usb_lb_search lb m)%Q.
Proof. exact search_box_nonempty_refuted. Qed.
Print Assumptions C01_search_box_nonempty_refuted.

(* the copy of the code in _init_optim_state_ and the call in the loop of optimize() compute the same two functions *)
Theorem C01_search_box_sites_agree :
  forall (b m : Q),
    src_init_lb_search b m = src_usb_lb_search b m /\ src_init_ub_search b m = src_usb_ub_search b m /\
    src_loop_lb_search b m = src_usb_lb_search b m /\ src_loop_ub_search b m = src_usb_ub_search b m.
Proof. exact init_search_box_is_usb. Qed.
Print Assumptions C01_search_box_sites_agree.

(* whole boxes, infinite bounds included (an infinite bound is a fixed point of the code: None stays None): the rounded
   box satisfies the premise [box_withinb] of C01_filter_output_in_hard_box in every dimension *)
Theorem C01_search_box_within_hard_box :
  forall (LB UB : list bnd) (m : Q), (0 < m)%Q -> List.length LB = List.length UB ->
    box_withinb (map (fun l => option_map (fun x => src_usb_lb_search x m) l) LB)
                (map (fun u => option_map (fun x => src_usb_ub_search x m) u) UB) LB UB = true.
Proof. exact search_box_withinb. Qed.
Print Assumptions C01_search_box_within_hard_box.

(* the gridised starting point after the two nudges ("Adjust points that fall outside bounds due to gridization"):
   it is on the grid, and if the transformed x0 is inside a box at least one step wide it is inside the box - so the
   constructor's re-check, which rejects exactly the points outside [lb, ub], accepts it *)
Theorem C01_start_nudged_in_box :
  forall (x lb ub m : Q), (0 < m)%Q ->
    (exists z : Z, src_init_u0 x lb ub m == inject_Z z * m)%Q /\
    src_init_self_u x lb ub m = src_init_u0 x lb ub m /\
    ((lb <= x)%Q -> (x <= ub)%Q -> (lb + m <= ub)%Q ->
       (lb <= src_init_u0 x lb ub m)%Q /\ (src_init_u0 x lb ub m <= ub)%Q /\
       src_init_u0_rejected (src_init_u0 x lb ub m) lb ub = false).
Proof. exact start_nudged_all. Qed.
Print Assumptions C01_start_nudged_in_box.

Theorem C01_start_recheck_exact :
  forall (u0 lb ub : Q), src_init_u0_rejected u0 lb ub = false <-> (lb <= u0)%Q /\ (u0 <= ub)%Q.
Proof. exact init_u0_rejected_iff. Qed.
Print Assumptions C01_start_recheck_exact.

(* BADS's own geometry: the plausible box is mapped onto [-1, 1] (C11), so the internal hard box contains [-1, 1], and
   the search mesh is at most 1 (C13): starting point and search box are always fine *)
Theorem C01_start_in_box_unit_geometry :
  forall (x lb ub m : Q), (0 < m)%Q -> (m <= 1)%Q -> (lb <= - (1))%Q -> (1 <= ub)%Q -> (lb <= x)%Q -> (x <= ub)%Q ->
    (lb <= src_init_u0 x lb ub m)%Q /\ (src_init_u0 x lb ub m <= ub)%Q /\ (src_usb_lb_search lb m <= src_usb_ub_search ub m)%Q.
Proof. exact init_u0_in_box_unit. Qed.
Print Assumptions C01_start_in_box_unit_geometry.

(* ... and there the nudges never fire: the constructor widens the plausible box to contain x0, so the transformed x0 lies in
   [-1, 1]; 1 and -1 are grid points of every search mesh 2^ks (ks <= 0), hence so does the nearest grid point.  (This is why a
   change confined to the nudge can have NO failing input on real BADS objects; harness/comp_grid.py runs the located statements
   on arbitrary boxes to exercise it.) *)
Theorem C01_start_no_nudge_unit_geometry :
  forall (x lb ub : Q) (ks : Z), ks <= 0 -> (lb <= - (1))%Q -> (1 <= ub)%Q -> (- (1) <= x)%Q -> (x <= 1)%Q ->
    let m := src_init_search_mesh_size (2 # 1) ks in
    (src_init_u0 x lb ub m == src_force_to_grid x m)%Q /\ (- (1) <= src_init_u0 x lb ub m)%Q /\ (src_init_u0 x lb ub m <= 1)%Q.
Proof. exact start_no_nudge_unit. Qed.
Print Assumptions C01_start_no_nudge_unit_geometry.

(* without the width premise the clause is FALSE: inside a box narrower than a step the nudges can push a valid start out
   (lb = 1/4 <= x0 = 3/8 <= ub = 1/2, mesh 1): the constructor then raises ValueError rather than evaluate outside *)
Theorem C01_start_nudged_in_any_box_refuted :
  exists x lb ub m : Q, (0 < m)%Q /\ (lb <= x)%Q /\ (x <= ub)%Q /\ src_init_u0_rejected (src_init_u0 x lb ub m) lb ub = true.
Proof. exact init_u0_narrow_rejected. Qed.
Print Assumptions C01_start_nudged_in_any_box_refuted.

(* the hand-written definitions of Model/SkeletonBox.v ARE the source expressions *)
Theorem C01_hand_model_is_source :
  forall (x m : Q), to_grid x m = src_force_to_grid x m /\ lb_search1 x m = src_usb_lb_search x m /\ ub_search1 x m = src_usb_ub_search x m.
Proof. exact hand_model_is_source. Qed.
Print Assumptions C01_hand_model_is_source.

Example C01grid_premises_satisfiable :
  (0 < 1 # 1024)%Q /\ ((- (5 # 2)) <= (3 # 10))%Q /\ ((3 # 10) <= (5 # 2))%Q /\
  Qeq_bool (src_init_u0 (3 # 10) (- (5 # 2)) (5 # 2) (1 # 1024)) (307 # 1024) = true /\
  Qeq_bool (src_usb_lb_search (- (24999 # 10000)) (1 # 1024)) (- (2559 # 1024)) = true.
Proof. vm_compute. repeat split; intro; discriminate. Qed.
