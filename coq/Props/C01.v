(* C01 — hard box bounds are never left.   Statements only; proofs in Proofs/SkeletonBox.v, Proofs/SkeletonBoxR.v
   (run level, filter, search box) and Proofs/TransformProofs.v (the clamp, over the expressions
   regenerated from variables_transformer.py on every run).

   Two independent lines of defence, both proved:
   (A) ORIGINAL space: every point the logger passes to the target, every row the filter passes to the
       constraint function and the returned x are  inverse_transf(u) = min(max(ginv u, lb), ub):
       inside the user's box for EVERY internal point u whatsoever (C01_original_space_clamp).
   (B) INTERNAL space: every internal point handed to the logger is the checked start, a row of a set
       returned by contraints_check against a box inside the hard internal box, or (final re-sampling) a
       recorded iterate; hence inside the transformed box (C01_internal_points_in_box). *)
From Coq Require Import ZArith QArith List Bool Reals.
From Coquelicot Require Import Rbar.
From PV Require Import Model.Val Model.Skeleton Model.SkeletonValid Model.SkeletonNoisy Model.Filter Model.SkeletonBox.
From PV Require Import gen.Src_grid.
From PV Require Import Proofs.FilterProofs Proofs.SkeletonBox Proofs.SkeletonBoxR Proofs.TransformProofs Proofs.GridProofs.
Import ListNotations.
Open Scope Z_scope.

(* (A) the last operation of inverse_transf (and of __call__) is the clamp: whatever the inverse map
   returns — any real, +-infinity — the result is inside the hard box *)
Theorem C01_original_space_clamp :
  forall (a : arm) (l : bool) (lb : Rbar) (plb pub : R) (ub : Rbar),
    arm_ok a l -> valid_box l lb plb pub ub ->
    forall y : Rbar, Rbar_le lb (inverse_transf a l lb plb pub ub y) /\
                     Rbar_le (inverse_transf a l lb plb pub ub y) ub.
Proof. exact original_space_clamp. Qed.
Print Assumptions C01_original_space_clamp.

(* (B1) every set contraints_check returns against a box inside the hard internal box lies in the hard box *)
Theorem C01_filter_output_in_hard_box :
  forall (proj : bool) (lb' ub' LB UB : list bnd) (tol : Q) (logX : list qrow) (cons : option (qrow -> bool)) (U : list qrow),
    box_withinb lb' ub' LB UB = true -> (proj = true -> box_ok lb' ub') ->
    Forall (in_box LB UB) (filter_candidates proj lb' ub' tol logX cons U).
Proof. exact filter_output_in_hard_box. Qed.
Print Assumptions C01_filter_output_in_hard_box.

(* (B2) the inward-rounded search box is inside the hard box, for every bound and every mesh size m > 0
   (in particular every power of two).  The statement is about the code's OWN expressions: [src_usb_lb_search],
   [src_usb_ub_search] are regenerated from BADS._update_search_bounds_ on every run (gen/Src_grid.v, translate/grid.py);
   more about them, the copy in _init_optim_state_ and the nudged starting point in Props/C01grid.v. *)
Theorem C01_search_box_inside :
  forall (lb ub m : Q), (0 < m)%Q ->
    (lb <= src_usb_lb_search lb m)%Q /\ (src_usb_lb_search lb m < lb + m)%Q /\
    (src_usb_ub_search ub m <= ub)%Q /\ (ub - m < src_usb_ub_search ub m)%Q /\
    (lb + m <= ub -> src_usb_lb_search lb m <= src_usb_ub_search ub m)%Q.
Proof. exact search_box_inside_wide. Qed.
Print Assumptions C01_search_box_inside.

(* (B3) the skeleton only ever calls the target at points supplied by the evaluation oracles, or — in the
   final re-sampling — at the point of a recorded iterate *)
Theorem C01_calls_are_oracle_points :
  forall (k0 ks0 : Z) (o : opts) (l : list init_call) (fsd0 : Q) (evs : list iter_ev) (nfs : Z) (fev : final_ev),
    let f := run_full k0 ks0 o l fsd0 evs nfs fev in
    forall u r, In (u, r) (calls (fo_st f)) ->
      In u (eval_points l evs) \/
      exists h, nth_error (hist (run k0 ks0 o l fsd0 evs)) (fe_idx fev) = Some h /\ u = i_u (h_inc h).
Proof. exact calls_are_oracle_points. Qed.
Print Assumptions C01_calls_are_oracle_points.

(* (B) all together: every internal point handed to the logger during the whole run — initial design,
   every search step, every poll step, final re-sampling — is inside the hard internal box *)
Theorem C01_internal_points_in_box :
  forall (k0 ks0 : Z) (o : opts) (l : list init_call) (fsd0 : Q) (evs : list iter_ev) (nfs : Z) (fev : final_ev)
         (LB UB : list bnd) (u0 : qrow) (F : list (list qrow)),
    in_box LB UB u0 ->
    (forall S, In S F -> Forall (in_box LB UB) S) ->
    prov_okb u0 F (eval_points l evs) = true ->
    noisy_u_ok o (init_phase k0 ks0 o l fsd0) evs = true ->
    (exists c, In c l /\ ic_record c = true /\ e_fault (ic_eval c) = false) ->
    let f := run_full k0 ks0 o l fsd0 evs nfs fev in
    (forall u r, In (u, r) (calls (fo_st f)) -> in_box LB UB u) /\
    (exn (fo_st f) = false -> in_box LB UB (i_u (cur (fo_st f)))).       (* the returned point too *)
Proof. exact internal_points_in_box. Qed.
Print Assumptions C01_internal_points_in_box.

(* what happens without the premise lb <= ub of the projection: the corner case is real *)
Example C01_projection_needs_ordered_box :
  exists lb ub u, ~ box_ok lb ub /\ ~ in_box lb ub (clamp_row lb ub u).
Proof. exact projection_needs_ordered_box. Qed.

Example C01_premises_satisfiable : exists LB UB u0 F pts,
  in_box LB UB u0 /\ (forall S, In S F -> Forall (in_box LB UB) S) /\ prov_okb u0 F pts = true /\ (3 <= List.length pts)%nat.
Proof. exact box_premises_satisfiable. Qed.
