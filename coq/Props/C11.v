(* C11 — the variable transform is a faithful, order-preserving bijection onto the unit box.
   Only statements here; every proof is in Proofs/TransformProofs.v.

   Objects.  src_* : the expressions of variables_transformer.py as re-translated on this run
   (gen/Src_transform.v).  One coordinate at a time (every NumPy operation involved is element-wise):
     l                 this coordinate's entry of apply_log_t
     a : arm           which branch of the constructor's if/elif/else built g and ginv
                       (AllLin: no flag set, AllLog: all set, Mixed: maskindex sum); arm_ok a l = consistent with l
     lb ub : Rbar      hard bounds, possibly infinite;  plb pub : R   plausible bounds (the code demands finite)
     valid_box l lb plb pub ub  :=  lb <= plb < pub <= ub  /\  (l = true -> 0 < lb)
     g, ginv           self.g / self.ginv   (mu, gamma computed AFTER plb, pub were replaced by their logs when l)
     call, inverse_transf   VariableTransformer.__call__ / .inverse_transf: the map followed by the clamp to the
                       stored transformed bounds g(lb), g(ub) / to the original bounds, on extended reals.
   NOT proved here (no verified libm): the binary64 rounding clause "round trip error below 1e-9 of the box
   width"; it is measured on the real object on every run (harness/comp_transform.py). *)
From Coq Require Import Reals Bool Lra.
From Coquelicot Require Import Rbar.
From PV Require Import gen.Src_transform Proofs.TransformProofs.
Open Scope R_scope.

(* ---- faithful: ginv o g = id on the hard box.  (x <= fmax holds for every finite binary64 number; it is what
        makes the source's min(finfo.max, exp(.)) cap inactive.) *)
Theorem C11_inverse_left :
  forall (a : arm) (l : bool) (lb : Rbar) (plb pub : R) (ub : Rbar) (x : R),
    arm_ok a l -> valid_box l lb plb pub ub ->
    Rbar_le lb (Finite x) -> Rbar_le (Finite x) ub -> (l = true -> x <= src_fmax) ->
    ginv a l plb pub (g a l plb pub x) = x.
Proof. exact inverse_left. Qed.
Print Assumptions C11_inverse_left.

(* ---- g o ginv = id: for every y on a linear coordinate; on a log coordinate exactly as long as the
        finfo.max cap is inactive, i.e. y is at most the image of the largest finite double. *)
Theorem C11_inverse_right :
  forall (a : arm) (l : bool) (lb : Rbar) (plb pub : R) (ub : Rbar) (y : R),
    arm_ok a l -> valid_box l lb plb pub ub ->
    (l = true -> y <= g a l plb pub src_fmax) ->
    g a l plb pub (ginv a l plb pub y) = y.
Proof. exact inverse_right. Qed.
Print Assumptions C11_inverse_right.

(* ---- the public methods: inside the hard box the clamps are inactive and
        inverse_transf(__call__(x)) = x. *)
Theorem C11_public_roundtrip :
  forall (a : arm) (l : bool) (lb : Rbar) (plb pub : R) (ub : Rbar) (x : R),
    arm_ok a l -> valid_box l lb plb pub ub ->
    Rbar_le lb (Finite x) -> Rbar_le (Finite x) ub -> (l = true -> x <= src_fmax) ->
    call a l lb plb pub ub (Finite x) = Finite (g a l plb pub x) /\
    inverse_transf a l lb plb pub ub (call a l lb plb pub ub (Finite x)) = Finite x.
Proof. exact public_roundtrip_both. Qed.
Print Assumptions C11_public_roundtrip.

(* ---- order: g and ginv are strictly increasing (log coordinate: on positive points / below the cap),
        ginv is non-decreasing everywhere, and the clamped public maps never reverse two points. *)
Theorem C11_monotone :
  forall (a : arm) (l : bool) (lb : Rbar) (plb pub : R) (ub : Rbar),
    arm_ok a l -> valid_box l lb plb pub ub ->
    (forall x x' : R, (l = true -> 0 < x) -> x < x' -> g a l plb pub x < g a l plb pub x') /\
    (forall y y' : R, (l = true -> y' <= g a l plb pub src_fmax) -> y < y' ->
                      ginv a l plb pub y < ginv a l plb pub y') /\
    (forall y y' : R, y <= y' -> ginv a l plb pub y <= ginv a l plb pub y') /\
    (forall x x' : R, (l = true -> 0 < x) -> x <= x' ->
                      Rbar_le (call a l lb plb pub ub (Finite x)) (call a l lb plb pub ub (Finite x'))) /\
    (forall y y' : Rbar, Rbar_le y y' ->
                      Rbar_le (inverse_transf a l lb plb pub ub y) (inverse_transf a l lb plb pub ub y')).
Proof. exact monotone_all. Qed.
Print Assumptions C11_monotone.

(* ---- plausible bounds go to -1 and +1 (log coordinate: with mu, gamma built from ln plb, ln pub). *)
Theorem C11_plausible_to_unit :
  forall (a : arm) (l : bool) (lb : Rbar) (plb pub : R) (ub : Rbar),
    arm_ok a l -> valid_box l lb plb pub ub ->
    g a l plb pub plb = -1 /\ g a l plb pub pub = 1.
Proof. exact plausible_to_unit. Qed.
Print Assumptions C11_plausible_to_unit.

(* ---- outputs never leave the box, for EVERY input (finite, far outside, +-infinity):
        __call__ lands in [g lb, g ub] (the stored transformed bounds, which are ordered),
        inverse_transf lands in [lb, ub]. *)
Theorem C11_outputs_in_box :
  forall (a : arm) (l : bool) (lb : Rbar) (plb pub : R) (ub : Rbar),
    arm_ok a l -> valid_box l lb plb pub ub ->
    Rbar_le (gbar a l plb pub lb) (gbar a l plb pub ub) /\
    (forall x : Rbar, Rbar_le (gbar a l plb pub lb) (call a l lb plb pub ub x) /\
                      Rbar_le (call a l lb plb pub ub x) (gbar a l plb pub ub)) /\
    (forall y : Rbar, Rbar_le lb (inverse_transf a l lb plb pub ub y) /\
                      Rbar_le (inverse_transf a l lb plb pub ub y) ub).
Proof. exact outputs_in_box_all. Qed.
Print Assumptions C11_outputs_in_box.

(* the clamp lemma on its own, for the clamps exactly as written in the source (order of min / max),
   any bounds with lb <= ub, any value *)
Theorem C11_clamps_as_written :
  forall v lb ub : Rbar, Rbar_le lb ub ->
    (Rbar_le lb (src_clamp_fwd_gen xmin xmax v lb ub) /\ Rbar_le (src_clamp_fwd_gen xmin xmax v lb ub) ub) /\
    (Rbar_le lb (src_clamp_inv_gen xmin xmax v lb ub) /\ Rbar_le (src_clamp_inv_gen xmin xmax v lb ub) ub).
Proof. exact clamps_as_written. Qed.
Print Assumptions C11_clamps_as_written.

(* ---- which coordinates are log-transformed: exactly when nonlinear scaling is enabled (BADS then passes
        NaN = "decide" for the flag), all four bounds are positive and the plausible range spans a decade. *)
Theorem C11_log_rule :
  forall (nonlinear_scaling : bool) (lb ub : Rbar) (plb pub : R) (l : bool),
    src_log_flag (src_bads_logflag nonlinear_scaling) lb ub plb pub l ->
    (l = true <->
     nonlinear_scaling = true /\
     Rbar_lt (Finite 0) lb /\ Rbar_lt (Finite 0) ub /\ 0 < plb /\ 0 < pub /\ pub / plb >= 10).
Proof. exact log_flag_spec. Qed.
Print Assumptions C11_log_rule.

(* ---- otherwise the map is affine; on a log coordinate it is affine in ln x; in every arm (in particular the
        maskindex sum of the mixed arm) a coordinate sees only its own formula. *)
Theorem C11_affine_or_log :
  forall (a : arm) (l : bool) (plb pub : R), arm_ok a l ->
    (l = false -> forall x, g a l plb pub x = (x - src_mu plb pub) / src_gamma plb pub) /\
    (l = false -> forall y, ginv a l plb pub y = src_gamma plb pub * y + src_mu plb pub) /\
    (l = true -> forall x, 0 < x ->
        g a l plb pub x = (ln x - src_mu (ln plb) (ln pub)) / src_gamma (ln plb) (ln pub)) /\
    (l = true -> forall y,
        ginv a l plb pub y = Rmin src_fmax (exp (src_gamma (ln plb) (ln pub) * y + src_mu (ln plb) (ln pub)))).
Proof. exact affine_or_log. Qed.
Print Assumptions C11_affine_or_log.

(* ---- the |x| + (x == 0) guard: np.log is never handed 0 or a negative number, whatever the input;
        inside a log coordinate's box the guard is the identity. *)
Theorem C11_log_argument_positive :
  (forall x : R, 0 < src_zlog_arg x) /\ (forall x : R, 0 < x -> src_zlog_arg x = x).
Proof. exact log_argument_positive. Qed.
Print Assumptions C11_log_argument_positive.

(* ---- valid_box is what the constructor enforces: its order check (as translated) plus lb > 0 on a log
        coordinate (which the rule gives, C11_log_rule). *)
Theorem C11_constructor_order_check :
  forall (l : bool) (lb : Rbar) (plb pub : R) (ub : Rbar),
    src_order_check lb plb pub ub -> (l = true -> Rbar_lt (Finite 0) lb) -> valid_box l lb plb pub ub.
Proof. exact order_check_spec. Qed.
Print Assumptions C11_constructor_order_check.

(* ---- the premises are satisfiable on non-trivial boxes ------------------------------------------------ *)

(* linear coordinate with infinite hard bounds in the mixed arm *)
Example ex_valid_unbounded : valid_box false m_infty (-2) 2 p_infty /\ arm_ok Mixed false.
Proof. unfold valid_box; simpl. repeat split; try lra; discriminate. Qed.

(* log coordinate (1, 2, 1e12, 1e13): valid, flagged by the translated rule — the box the real constructor rejects *)
Example ex_valid_large_log_box :
  valid_box true (Finite 1) 2 1000000000000 (Finite 10000000000000) /\
  src_log_flag (src_bads_logflag true) (Finite 1) (Finite 10000000000000) 2 1000000000000 true /\
  (forall x, 1 <= x <= 10000000000000 ->
     ginv AllLog true 2 1000000000000 (g AllLog true 2 1000000000000 x) = x).
Proof.
  assert (Hv : valid_box true (Finite 1) 2 1000000000000 (Finite 10000000000000))
    by (unfold valid_box; simpl; repeat split; lra).
  split; [exact Hv|]. split.
  - unfold src_log_flag, src_bads_logflag, src_log_rule; simpl. split; [intros _|reflexivity]. repeat split; lra.
  - intros x Hx. apply (inverse_left AllLog true (Finite 1) 2 1000000000000 (Finite 10000000000000) x);
      simpl; try reflexivity; try exact Hv; try lra.
    intros _. assert (H := fmax_pos). unfold src_fmax in *. lra.
Qed.

(* just below the decade the coordinate stays linear: pub/plb = 9.99 *)
Example ex_below_decade_linear :
  forall l, src_log_flag (src_bads_logflag true) (Finite 1) (Finite 20) 1 (999 / 100) l -> l = false.
Proof.
  intros l H. destruct l; [|reflexivity]. exfalso.
  apply (log_flag_spec true) in H. destruct H as [H _]. specialize (H eq_refl). lra.
Qed.
