(* C10 — target failures and invalid target values surface immediately and unchanged.
   Statements only; proofs in Proofs/SkeletonInc.v (run level) — the logger-level half (a raising /
   invalid call leaves the whole log and func_count unchanged and returns the exception) is
   C10_logger_fault_transparent below, over Model/Logger.v. *)
From Coq Require Import ZArith QArith List String Bool.
From PV Require Import Model.Val Model.Skeleton Model.SkeletonValid Model.Logger Proofs.SkeletonInc.
Import ListNotations.
Open Scope Z_scope.

(* Run level, for EVERY position of the faulty call (initial point, noise test, design, any search
   step, any poll step): once a call faults, the exception flag is set, the faulty call is the LAST
   entry of the call list (the target is not called again), and func_count counts exactly the valid
   calls before it.  There is no handler: the flag is absorbing. *)
Theorem C10_fault_is_last_call :
  forall (k0 ks0 : Z) (o : opts) (l : list init_call) (fsd0 : Q) (evs : list iter_ev),
    let s := run k0 ks0 o l fsd0 evs in
    forall (i : nat) (u : list Q), nth_error (calls s) i = Some (u, None) ->
      S i = List.length (calls s) /\ exn s = true /\ fc s = Z.of_nat i.
Proof. exact fault_is_last_call. Qed.
Print Assumptions C10_fault_is_last_call.

Theorem C10_exception_absorbing :
  forall (o : opts) (s : st) (evs : list iter_ev), exn s = true -> run_loop o s evs = s.
Proof. exact exception_absorbing. Qed.
Print Assumptions C10_exception_absorbing.

(* Conversely an exception only ever comes from a faulty target call. *)
Theorem C10_exception_only_from_fault :
  forall (k0 ks0 : Z) (o : opts) (l : list init_call) (fsd0 : Q) (evs : list iter_ev),
    let s := run k0 ks0 o l fsd0 evs in
    exn s = true -> exists u, last (calls s) ([], Some 0%Q) = (u, None).
Proof. exact exception_only_from_fault. Qed.
Print Assumptions C10_exception_only_from_fault.

(* Logger level: a call whose target raises or returns an invalid value (or, under specified noise,
   an invalid SD) changes nothing — no row, no counter — and returns the exception. *)
Theorem C10_logger_fault_transparent :
  forall (s : lstate) (x xo : list Q) (oc : outcome) (recordp : bool),
    (match oc with
     | Raise _ => True | BadVal _ => True
     | OkVal _ sd => he_flag s = true /\ sd_ok sd = false
     end) ->
    fst (step s (Call x xo oc recordp)) = s /\
    (exists cls, snd (step s (Call x xo oc recordp)) = Exn cls) /\
    (forall e, oc = Raise e -> snd (step s (Call x xo oc recordp)) = Exn e).
Proof. exact logger_fault_transparent. Qed.
Print Assumptions C10_logger_fault_transparent.

Example C10_fault_example : exists k0 ks0 o l fsd0 evs,
  exn (run k0 ks0 o l fsd0 evs) = true /\ (2 <= List.length (calls (run k0 ks0 o l fsd0 evs)))%nat.
Proof. exact fault_example. Qed.
