(* C08 — the hand-written model of BADS._bounds_check_ IS the program regenerated from the source.
   Only statements here; proofs in Proofs/BoundsSourceProofs.v.

   coq/gen/Src_bounds.v is written by translate/bounds.py from pybads/bads/bads.py on every ./check run (never committed):
     src_prog : list step     the body of _bounds_check_ in statement order —
                              STest tag [B1; B2; ..]   for   if np.any(B1) or np.any(B2) ..: raise ValueError(<message of class tag>)
                              SRepair vs [G1; ..] f    for   if np.any(G1) or ..: <vector of vs> = <expression> ...
     src_lb_eff, src_ub_eff   the effective-bounds block (bounds_range, the 1e-3 margin, the realmin special case, infinities)
     src_head : list hstmt    BADS.__init__ up to the call + the head of _bounds_check_, over the five OPTIONAL vectors
     src_check                := run_prog src_prog  (Model/BoundsSrc.v: the first failing test rejects with its tag; a repair
                              whose guard holds for SOME coordinate is applied to EVERY coordinate, at its position)
   A changed comparison, constant, operand, message class, a dropped / added / reordered test or repair changes these
   definitions, and the theorems below stop checking; a statement outside the translator's whitelist makes it raise and emit
   no definition at all.  The translation itself is validated on every run: src_check is evaluated by Coq on the same
   definitions as the hand-written model and compared with the real constructor (props/C08.py).

   Every theorem is for ALL coordinates c / ALL rows cs of ANY length (pointwise equality of predicates, not enumeration). *)
From Coq Require Import ZArith QArith List Bool String.
From PV Require Import Model.XQ Model.Val Model.BoundsCheck Model.BoundsSrc gen.Src_bounds Proofs.BoundsSourceProofs.
Import ListNotations.

(* The tests of check_coords, in its order, with the reason each raises, are the tests of the source in the source's order
   (test_eqv: same message class, and the per-coordinate predicates agree on every coordinate; for a test written
   `np.any(A) or np.any(B)` the predicate is A | B).  The real-valuedness test of the source (l.376-387) can never fire on
   extended rationals; it is kept, at its position. *)
Theorem C08_tests_are_source :
  Forall2 test_eqv
    [ (reason_tag RNonFinitePB, t_nonfinite_pb);
      (TAG_NOTREAL, fun _ => false);
      (reason_tag RFixed, t_fixed);
      (reason_tag RMatchingPB, t_matching);
      (reason_tag RX0Outside, t_x0_outside);
      (reason_tag RTooClose, t_too_close);
      (reason_tag RStrictBounds1, t_order_bad);
      (reason_tag RStrictBounds2, t_order_bad);
      (reason_tag RHalfBounds, t_half) ]
    (tests_of src_prog).
Proof. exact tests_are_source. Qed.
Print Assumptions C08_tests_are_source.

(* LB_eff / UB_eff of the model are the ones the source computes (statement by statement: the masked stores
   `LB_eff[mask] = ...` read per coordinate, in their order). *)
Theorem C08_effective_bounds_are_source :
  forall c : coord, LBe c = src_lb_eff c /\ UBe c = src_ub_eff c.
Proof. exact effective_bounds_are_source. Qed.
Print Assumptions C08_effective_bounds_are_source.

(* The three repairs (which vectors they assign, their guards, their per-coordinate maps), in the source's order, and the
   positions of tests (true) and repairs (false) in the body. *)
Theorem C08_repairs_are_source :
  Forall2 repair_eqv
    [ ("cx"%string, t_x0_near, clamp_x);
      ("cpl+cpu"%string, t_pb_near, pull_pb);
      ("cpl+cpu"%string, t_x0_edge, expand_pb) ]
    (repairs_of src_prog)
  /\ shape_of src_prog = [true; true; true; true; true; true; false; true; false; false; true; true].
Proof. exact (conj repairs_are_source positions_are_source). Qed.
Print Assumptions C08_repairs_are_source.

(* THE CHECK: for every row of coordinates, check_coords gives exactly what the generic interpreter gives on the generated
   program — the same rejection (by message class) or the same repaired coordinates. *)
Theorem C08_check_is_source :
  forall cs : list coord, tag_checked (check_coords cs) = src_check cs.
Proof. exact check_is_source. Qed.
Print Assumptions C08_check_is_source.

(* THE HEAD: what BADS.__init__ does to the five OPTIONAL vectors before the call (plausible bounds default to the hard
   ones, bads:UnknownDims, x0 = NaN row, D, infinite hard bounds) and what the head of _bounds_check_ does before its first
   test (absent plausible bounds copied from the hard ones for N0 = 1, the shape test), translated into src_head and run by
   Model/BoundsSrc.v's run_head: for EVERY definition it is [assemble].  (D = 0 -> ZeroDivisionError comes from the option
   files evaluated right after self.D is set; that part of HDim's meaning is not translated, it is tied dynamically.) *)
Theorem C08_assemble_is_source :
  forall d : defn, head_view (assemble d) = run_head src_head (head_of_defn d).
Proof. exact assemble_is_source. Qed.
Print Assumptions C08_assemble_is_source.

(* ... hence the model's constructor is the constructor around the two generated programs (the function the tie evaluates
   on every generated definition against the real constructor). *)
Theorem C08_construct_is_source :
  forall d : defn, outcome_val (construct d) = construct_with2 src_head src_prog d.
Proof. exact construct_is_source. Qed.
Print Assumptions C08_construct_is_source.

(* Caller and tail, as data: BADS.__init__ passes (x0.copy(), lb, ub, plb, pub) positionally and unpacks the result in the
   same order, _bounds_check_ returns the five vectors in that order, and the only statement of __init__ on the vectors
   after the check is the uniform draw of a non-finite x0 from [plb, pub] ([finish]; canonical text: this pins the source, the
   reading is Model/BoundsCheck.v's and is tied dynamically). *)
Theorem C08_call_is_source :
  model_arg_order = src_arg_order /\ model_arg_order = src_return_order /\ model_post_check = src_post_check.
Proof. exact call_is_source. Qed.
Print Assumptions C08_call_is_source.

(* Non-vacuity: on a D = 3 row (x0 ON an upper bound; an unbounded coordinate whose x0 = 7 lies outside its plausible
   box; plausible bounds equal to the hard ones) the generated program repairs all three coordinates and accepts; on a
   fixed variable it rejects with the class of bads:FixedVariables. *)
Example C08_src_example :
  src_check ex_cs = SAccept ex_cs' /\ ex_cs' <> ex_cs
  /\ src_check [mkC (fq 1 1) (fq 1 1) (fq 1 1) (fq 1 1) (fq 1 1)] = SReject "Fixed".
Proof. exact src_example. Qed.
