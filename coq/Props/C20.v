(* C20 — Options: user settings win, unknown names rejected, no leaks between instances.
   Only statements here; proofs are in Proofs/OptionsProofs.v.  The model is Model/Options.v (M12):
   an Options object = (store, protected names); the process has ONE module-global D shared by all
   objects; caller-owned dicts live in a heap [callers].  A default is an uninterpreted function
   [VDefault key args] of the values its free names have when it is evaluated.
   [basic_entries]/[advanced_entries] are regenerated from the two .ini files on every run
   (translate/options.py -> gen/Src_options.v), so the three [real_files_*] statements below are
   re-checked by computation against what the files say NOW.

   Observation point (DESIGN, scope note): the options of an instance right after ITS construction
   = Init(basic, D, user) ; Load(advanced, D) ; Validate(basic+advanced)   (BADS.__init__ l.171-186). *)
From Coq Require Import ZArith List String Bool.
From PV Require Import Model.Options Proofs.OptionsProofs gen.Src_options.
Import ListNotations.
Open Scope Z_scope.

(* ---------------------------------------------------------------- any file contents *)

(* A user option holds exactly the supplied value after a construction that completes: for every
   pair of files, every dimension, every user dict (a Python dict: distinct keys), whatever state the
   process and the other instances are in. *)
Theorem C20_user_wins :
  forall (w : world) (i : nat) (b a : file) (D : Z) (u : nat),
    NoDup (keys (callers w u)) -> snd (construct w i b a D (Some u)) = Done ->
    forall k v, In (k, v) (callers w u) ->
      get k (store_of (insts (fst (construct w i b a D (Some u))) i)) = Some v.
Proof. exact user_wins. Qed.
Print Assumptions C20_user_wins.

(* ... and is never overwritten by defaults afterwards: no load of any file, with any (or no) D,
   writes a protected key. *)
Theorem C20_user_value_survives_loads :
  forall (w : world) (i : nat) (k : string) (v : value) (f : file) (oD : option Z),
    In k (useropts (insts w i)) -> get k (store_of (insts w i)) = Some v ->
    In k (useropts (insts (fst (step w (Load i f oD))) i)) /\
    get k (store_of (insts (fst (step w (Load i f oD))) i)) = Some v.
Proof. exact user_value_survives_loads. Qed.
Print Assumptions C20_user_value_survives_loads.

(* A default of the ADVANCED file that reads a user-supplied option is evaluated on the user's value.
   (True condition: the reader is loaded after update(user), i.e. it is an advanced-file key the user
   did not supply.  A dependency inside the BASIC file would not see it — Example below — which is why
   [deps_ok] demands that the basic file reads no option.) *)
Theorem C20_dependent_defaults_see_user_value :
  forall (w : world) (i : nat) (b a : file) (D : Z) (u : nat)
         (k' : string) (deps' : list string) (k : string) (v : value),
    NoDup (keys (callers w u)) -> snd (construct w i b a D (Some u)) = Done -> NoDup (names a) ->
    In (k', deps') a -> ~ In k' (keys (callers w u)) -> k' <> reserved ->
    In k deps' -> k <> dname -> In (k, v) (callers w u) ->
    exists args, get k' (store_of (insts (fst (construct w i b a D (Some u))) i)) = Some (VDefault k' args) /\
                 get k args = Some v.
Proof. exact dependent_defaults_see_user_value. Qed.
Print Assumptions C20_dependent_defaults_see_user_value.

(* For EVERY user dict: construction raises ValueError exactly when some user key is defined in
   neither file or is the reserved name "useroptions", and otherwise completes. *)
Theorem C20_unknown_rejected :
  forall (w : world) (i : nat) (b a : file) (D : Z) (u : nat),
    (snd (construct w i b a D (Some u)) = Raised "ValueError" <->
     exists k, In k (keys (callers w u)) /\ (~ In k (names b ++ names a) \/ k = reserved)) /\
    (snd (construct w i b a D (Some u)) = Done <->
     forall k, In k (keys (callers w u)) -> In k (names b ++ names a) /\ k <> reserved).
Proof. exact unknown_rejected. Qed.
Print Assumptions C20_unknown_rejected.

(* The reserved name in the user's dict (the repaired finding): ValueError, no Options object is bound,
   no instance and no caller dict is written. *)
Theorem C20_reserved_name_rejected :
  forall (w : world) (i : nat) (b a : file) (D : Z) (u : nat),
    In reserved (keys (callers w u)) ->
    snd (construct w i b a D (Some u)) = Raised "ValueError" /\
    (forall j, insts (fst (construct w i b a D (Some u))) j = insts w j) /\
    (forall v, callers (fst (construct w i b a D (Some u))) v = callers w v).
Proof. exact reserved_name_rejected. Qed.
Print Assumptions C20_reserved_name_rejected.

(* validate_option_names on any object in any state: raises iff a stored key is not a file name;
   changes nothing. *)
Theorem C20_validate_exact :
  forall (w : world) (i : nat) (nms : list string),
    fst (step w (Validate i nms)) = w /\
    (snd (step w (Validate i nms)) = Raised "ValueError" <->
     exists k, In k (keys (store_of (insts w i))) /\ ~ In k nms).
Proof. exact validate_exact. Qed.
Print Assumptions C20_validate_exact.

(* Noninterference.  For EVERY sequence of operations of any number of instances (constructions
   split into their Init/Load/Validate steps and interleaved arbitrarily, extra loads with other
   dimensions, runs that adjust options) in which every load passes its own D (as BADS always does):
   the state of instance i, and the outcome of each of its operations, are those of running i's
   operations ALONE from any other process state w' (any left-over global D, any other instances). *)
Theorem C20_no_leak :
  forall (ops : list op) (w w' : world) (i : nat),
    Forall binds_D ops ->
    (forall u, callers w' u = callers w u) -> insts w' i = insts w i ->
    insts (fst (run w ops)) i = insts (fst (run w' (proj i ops))) i /\
    outs_of i ops (snd (run w ops)) = snd (run w' (proj i ops)).
Proof. exact no_leak. Qed.
Print Assumptions C20_no_leak.

(* Every other option holds its default for the instance's OWN dimension: in any interleaving as
   above, an instance constructed with (D, user) (its Init did not raise) over files satisfying the static condition holds
   the user's values and, for every other key e of the files, e's default text applied to D and to
   the FINAL values of the keys e reads (so a dependent default is the function of the user's value
   where the user supplied one, and of the documented default otherwise). *)
Theorem C20_defaults_for_own_D :
  forall (ops : list op) (w : world) (i : nat) (b a : file) (D : Z) (u : nat) (o2 o3 : outcome),
    Forall binds_D ops -> files_ok b a -> NoDup (keys (callers w u)) ->
    proj i ops = construct_ops i b a D (Some u) ->
    outs_of i ops (snd (run w ops)) = [Done; o2; o3] ->
    let st := store_of (insts (fst (run w ops)) i) in
    (forall k v, In (k, v) (callers w u) -> get k st = Some v) /\
    (forall e, In e (b ++ a) -> ~ In (fst e) (keys (callers w u)) -> get (fst e) st = Some (spec_value D st e)).
Proof. exact defaults_for_own_D. Qed.
Print Assumptions C20_defaults_for_own_D.

(* The caller's dict is never written, by any sequence of operations on any dicts (update() copies
   entries; a dict naming the reserved key is rejected before anything is done with it). *)
Theorem C20_caller_dict_untouched :
  forall (ops : list op) (w : world) (u : nat), callers (fst (run w ops)) u = callers w u.
Proof. exact caller_dict_untouched. Qed.
Print Assumptions C20_caller_dict_untouched.

(* ---------------------------------------------------------------- the real files (recomputed every run) *)

(* static condition: no name twice or in both files, no reserved name, the basic file reads nothing
   but D, every advanced default reads only D and keys that precede it in load order *)
Lemma real_files_dependencies_ok : deps_ok basic_entries advanced_entries = true.
Proof. vm_compute. reflexivity. Qed.
Print Assumptions real_files_dependencies_ok.

Lemma real_files_depends_on_D_exact :
  depends_on_D = map fst (filter (fun e => mem dname (snd e)) (basic_entries ++ advanced_entries)).
Proof. vm_compute. reflexivity. Qed.
Print Assumptions real_files_depends_on_D_exact.

(* the property for BADS as shipped: any process history, any D, any user dict *)
Theorem C20_real_files :
  forall (ops : list op) (w : world) (i : nat) (D : Z) (u : nat) (o2 o3 : outcome),
    Forall binds_D ops -> NoDup (keys (callers w u)) ->
    proj i ops = construct_ops i basic_entries advanced_entries D (Some u) ->
    outs_of i ops (snd (run w ops)) = [Done; o2; o3] ->
    let st := store_of (insts (fst (run w ops)) i) in
    (forall k v, In (k, v) (callers w u) -> get k st = Some v) /\
    (forall e, In e (basic_entries ++ advanced_entries) -> ~ In (fst e) (keys (callers w u)) ->
               get (fst e) st = Some (spec_value D st e)).
Proof.
  intros ops w i D u o2 o3 Hb Hnd Hp Ho.
  exact (defaults_for_own_D ops w i basic_entries advanced_entries D u o2 o3 Hb
           (deps_ok_files_ok _ _ real_files_dependencies_ok) Hnd Hp Ho).
Qed.
Print Assumptions C20_real_files.

(* ... and it raises ValueError exactly for user dicts with a name the two real files do not define
   ("useroptions" is such a name) *)
Theorem C20_real_files_unknown_rejected :
  forall (w : world) (i : nat) (D : Z) (u : nat),
    (snd (construct w i basic_entries advanced_entries D (Some u)) = Raised "ValueError" <->
     exists k, In k (keys (callers w u)) /\ ~ In k (names basic_entries ++ names advanced_entries)) /\
    (snd (construct w i basic_entries advanced_entries D (Some u)) = Done <->
     forall k, In k (keys (callers w u)) -> In k (names basic_entries ++ names advanced_entries)).
Proof.
  intros w i D u.
  exact (unknown_rejected_files w i basic_entries advanced_entries D u
           (fo_reserved _ _ (deps_ok_files_ok _ _ real_files_dependencies_ok))).
Qed.
Print Assumptions C20_real_files_unknown_rejected.

(* regression witness of the repaired finding "reserved-name-useroptions-accepted" on the real files *)
Example C20_reserved_name_witness :
  let w := with_callers world0 [(0%nat, [(reserved, VSet ["n_basis"%string])])] in
  let r := construct w 0 basic_entries advanced_entries 2 (Some 0%nat) in
  snd r = Raised "ValueError" /\
  callers (fst r) 0 = [(reserved, VSet ["n_basis"%string])] /\
  store_of (insts (fst r) 0) = [].
Proof. vm_compute. repeat split; reflexivity. Qed.

(* ---------------------------------------------------------------- non-vacuity and corner cases *)

(* two instances with different D and overrides, constructions interleaved step by step: the
   premises of C20_no_leak / C20_defaults_for_own_D hold and the stores are the ones predicted *)
Example C20_interleaving_witness :
  store_of (insts (fst (run wAB interleaved)) 0) =
    [("n"%string, VDefault "n" [(dname, VInt 2)]); ("disp"%string, VDefault "disp" []); ("tol"%string, VUser 7);
     ("noise"%string, VDefault "noise" [("tol"%string, VUser 7)]);
     ("m"%string, VDefault "m" [(dname, VInt 2); ("n"%string, VDefault "n" [(dname, VInt 2)])])] /\
  store_of (insts (fst (run wAB interleaved)) 1) =
    [("n"%string, VUser 9); ("disp"%string, VDefault "disp" []); ("tol"%string, VDefault "tol" []);
     ("noise"%string, VDefault "noise" [("tol"%string, VDefault "tol" [])]);
     ("m"%string, VDefault "m" [(dname, VInt 5); ("n"%string, VUser 9)])] /\
  Forall binds_D interleaved /\
  proj 0 interleaved = construct_ops 0 fA fB 2 (Some 0%nat) /\
  outs_of 0 interleaved (snd (run wAB interleaved)) = [Done; Done; Done].
Proof. exact interleaved_stores. Qed.

(* on the real files: user tol_fun is seen by tol_noise and hedge_beta; D-dependent defaults use own D
   although another instance with D = 6 was constructed in between *)
Example C20_real_files_witness :
  let w := with_callers world0 [(0%nat, [("tol_fun"%string, VUser 7); ("max_iter"%string, VUser 8)]); (1%nat, [])] in
  let ops := [Init 0 basic_entries (Some 3) (Some 0%nat); Init 1 basic_entries (Some 6) (Some 1%nat);
              Load 0 advanced_entries (Some 3); Load 1 advanced_entries (Some 6);
              Validate 0 (names basic_entries ++ names advanced_entries)] in
  let st := store_of (insts (fst (run w ops)) 0) in
  get "tol_noise"%string st = Some (VDefault "tol_noise" [("tol_fun"%string, VUser 7)]) /\
  get "hedge_beta"%string st = Some (VDefault "hedge_beta" [("tol_fun"%string, VUser 7)]) /\
  get "max_iter"%string st = Some (VUser 8) /\
  get "max_fun_evals"%string st = Some (VDefault "max_fun_evals" [(dname, VInt 3)]) /\
  get "n_basis"%string st = Some (VDefault "n_basis" [(dname, VInt 3)]) /\
  snd (run w ops) = [Done; Done; Done; Done; Done] /\
  List.length st = 181%nat.
Proof. vm_compute. repeat split; reflexivity. Qed.

(* the premise "every load passes D" is necessary: with empty evaluation_parameters the D left by
   another instance is read *)
Example C20_leak_if_D_not_passed :
  get "n"%string (store_of (insts (fst (run world0 [Init 0 fA (Some 5) None; Init 1 fA None None])) 1)) =
  Some (VDefault "n" [(dname, VInt 5)]).
Proof. exact leak_without_binding. Qed.

(* a dependency inside the basic file would miss the user's value (rejected by deps_ok) *)
Example C20_basic_dependency_misses_user_value :
  let w := with_callers world0 [(0%nat, [("tol"%string, VUser 7)])] in
  get "noise"%string (store_of (insts (fst (construct w 0 fBad [] 2 (Some 0%nat))) 0)) =
    Some (VDefault "noise" [("tol"%string, VDefault "tol" [])]) /\
  get "tol"%string (store_of (insts (fst (construct w 0 fBad [] 2 (Some 0%nat))) 0)) = Some (VUser 7) /\
  deps_ok fBad [] = false.
Proof. exact basic_dependency_misses_user_value. Qed.

(* observation (not gated on): optimize() replaces some options — also user-supplied ones — by a
   function of their old value; running the same instance twice compounds the adjustment *)
Example C20_run_adjusts_and_compounds :
  let w := with_callers world0 [(0%nat, [("tol"%string, VUser 7)])] in
  let w1 := fst (construct w 0 fA fB 2 (Some 0%nat)) in
  get "tol"%string (store_of (insts w1 0)) = Some (VUser 7) /\
  get "tol"%string (store_of (insts (fst (run w1 [Adjust 0 ["tol"%string]])) 0)) = Some (VAdjusted "tol" (VUser 7)) /\
  get "tol"%string (store_of (insts (fst (run w1 [Adjust 0 ["tol"%string]; Adjust 0 ["tol"%string]])) 0)) =
    Some (VAdjusted "tol" (VAdjusted "tol" (VUser 7))).
Proof. exact adjust_compounds. Qed.
