(* C12 — the evaluation log records exactly what was observed, where it was observed.
   Only statements here; every proof is in Proofs/LoggerProofs.v. *)
From Coq Require Import ZArith QArith List String Bool.
From PV Require Import Model.Val Model.Logger Model.LoggerSpec Proofs.LoggerProofs.
Import ListNotations.
Open Scope Z_scope.

(* Refinement: after ANY op sequence (any cache size, any mix of new points, repeats, partial
   coincidences, record flags, additions, faults) the concrete arrays represent exactly the abstract
   log of LoggerSpec.v: one record per recorded point in call order, coordinates in correspondence,
   the value returned there (or the precision-weighted mean with combined precision under
   specified noise), exact counts. *)
Theorem C12_refines :
  forall (cache : Z) (noise he : bool) (ops : list op),
    wf_cfg noise he ops ->
    state_rep (fst (run_with merge_index (init_logger cache noise he) ops)) (spec_run noise he ops).
Proof. exact logger_refines. Qed.
Print Assumptions C12_refines.

(* Frame: an op at point p never changes a row whose internal point differs from p
   (in particular rows sharing only SOME coordinates with p) — any state, no premise. *)
Theorem C12_other_rows_untouched :
  forall (s : lstate) (o : op) (i : nat) (r : row),
    nth_error (rows s) i = Some r ->
    qlist_eqb (r_x r) (op_point o) = false ->
    nth_error (rows (fst (step s o))) i = Some r.
Proof. exact step_frame. Qed.
Print Assumptions C12_other_rows_untouched.

(* Growing the cache is invisible: rows, counters and results do not depend on the capacity. *)
Theorem C12_growth_invisible :
  forall (s : lstate) (c' : Z) (o : op),
    rows (fst (step (set_cap s c') o)) = rows (fst (step s o)) /\
    func_count (fst (step (set_cap s c') o)) = func_count (fst (step s o)) /\
    snd (step (set_cap s c') o) = snd (step s o).
Proof. exact step_cap_irrelevant. Qed.
Print Assumptions C12_growth_invisible.

(* func_count = number of calls that returned a valid value, for every history. *)
Theorem C12_func_count_exact :
  forall (cache : Z) (noise he : bool) (ops : list op),
    wf_cfg noise he ops ->
    func_count (fst (run_with merge_index (init_logger cache noise he) ops)) =
    Z.of_nat (List.length (filter (fun o => match o with Call _ _ oc _ => valid_call he oc | _ => false end) ops)).
Proof. exact func_count_exact. Qed.
Print Assumptions C12_func_count_exact.

(* Under specified noise the stored value is the precision-weighted mean of the observations made
   at that point and the stored precision is the sum of their precisions (S^2 * sum 1/sd^2 = 1). *)
Theorem C12_merged_is_weighted_mean :
  forall (cache : Z) (ops : list op) (i : nat) (r : row) (a : arec),
    nth_error (rows (fst (run_with merge_index (init_logger cache true true) ops))) i = Some r ->
    nth_error (recs (spec_run true true ops)) i = Some a ->
    exists t, r_tau r = Some t /\ (t == sum_tau (a_obs a))%Q /\ (0 < t)%Q /\
              (r_y r == sum_wy (a_obs a) / sum_tau (a_obs a))%Q.
Proof. exact merged_is_weighted_mean. Qed.
Print Assumptions C12_merged_is_weighted_mean.

(* Call order: records are only ever appended; an existing record keeps its position and point. *)
Theorem C12_call_order_preserved :
  forall (noise he : bool) (a : aspec) (o : op) (i : nat) (r : arec),
    nth_error (recs a) i = Some r ->
    exists r', nth_error (recs (spec_step noise he a o)) i = Some r' /\
               a_x r' = a_x r /\ a_xo r' = a_xo r /\
               (at_x (op_point o) r = false -> r' = r).
Proof. exact spec_order_preserved. Qed.
Print Assumptions C12_call_order_preserved.

(* Under specified noise no two rows ever hold the same point, so the "more than one match"
   error of _record is unreachable and every repeat is merged into the point's own row. *)
Theorem C12_no_double_match :
  forall (cache : Z) (ops : list op) (i j : nat) (ri rj : row),
    let s := fst (run_with merge_index (init_logger cache true true) ops) in
    nth_error (rows s) i = Some ri -> nth_error (rows s) j = Some rj ->
    qlist_eqb (r_x ri) (r_x rj) = true -> i = j.
Proof. exact he_rows_distinct. Qed.
Print Assumptions C12_no_double_match.

(* Historical refutation (kept as a regression witness): with the merge index the code used
   before the repair — first row sharing ANY coordinate — the frame property is false. *)
Theorem C12_frame_refuted_elementwise :
  exists (ops : list op) (i : nat) (r r' : row),
    let s0 := fst (run_with merge_index_elementwise (init_logger 4 true true) (removelast ops)) in
    let s1 := fst (run_with merge_index_elementwise (init_logger 4 true true) ops) in
    nth_error (rows s0) i = Some r /\ nth_error (rows s1) i = Some r' /\
    qlist_eqb (r_x r) (op_point (last ops Finalize)) = false /\ r_n r' <> r_n r.
Proof. exact frame_refuted_elementwise. Qed.
Print Assumptions C12_frame_refuted_elementwise.

(* Non-vacuity: a concrete history with merges, partial coincidences and growth meets wf_cfg. *)
Example C12_premises_satisfiable :
  wf_cfg true true
    [Call [1#1; 5#1] [1#1; 5#1] (OkVal (6#1) (Some (1#1))) true;
     Call [1#1; 2#1] [1#1; 2#1] (OkVal (3#1) (Some (1#1))) true;
     Call [3#1; 2#1] [3#1; 2#1] (OkVal (5#1) (Some (1#1))) true;
     Call [1#1; 2#1] [1#1; 2#1] (OkVal (4#1) (Some (1#2))) true] /\
  List.length (rows (fst (run_with merge_index (init_logger 1 true true)
    [Call [1#1; 5#1] [1#1; 5#1] (OkVal (6#1) (Some (1#1))) true;
     Call [1#1; 2#1] [1#1; 2#1] (OkVal (3#1) (Some (1#1))) true;
     Call [3#1; 2#1] [3#1; 2#1] (OkVal (5#1) (Some (1#1))) true;
     Call [1#1; 2#1] [1#1; 2#1] (OkVal (4#1) (Some (1#2))) true]))) = 3%nat.
Proof. exact premises_satisfiable. Qed.
