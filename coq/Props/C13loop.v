(* C13loop — the decision logic of the run-level model IS the source (properties C13, C03, C04).
   gen/Src_loop.v is regenerated on every ./check run by translate/loop.py from pybads/bads/bads.py: the statements of
   optimize() (loop head, search decision, poll-skip block, the four termination tests, history / re-evaluation guards, the
   iteration counter), of _search_step_ (counter, success / improved, bookkeeping) and of _poll_step_ (loop guard, best-so-far
   update, "Evaluate poll", the mesh update block) are located by structure and translated expression by expression; anything
   the translator does not understand poisons the generated file.  The theorems below state that the hand-written definitions
   of Model/Skeleton.v are EQUAL, for all arguments, to the regenerated ones.  Statements only; proofs in
   Proofs/LoopSourceProofs.v.  Oracle floats (improvements, the two historic improvements, the sufficient improvement) are
   universally quantified rationals; a mesh size is read through its exponent (Props/C13grid.v proves that reading). *)
From Coq Require Import ZArith QArith List Bool.
From PV Require Import Model.Val Model.Skeleton Model.SkeletonValid gen.Src_loop Proofs.SkeletonCtrl Proofs.LoopSourceProofs.
Import ListNotations.
Open Scope Z_scope.

(* C13: the mesh rule of _poll_step_.  After a poll whose evaluations did not raise, the mesh exponent, the search-size exponent
   and the incumbent of the skeleton are what the source's block computes from: good = (sufficient improvement < best improvement),
   the exponent before, max_poll_grid_number, accelerate_mesh, optim_state["iter"], accelerate_mesh_steps, the historic
   improvement h returned by _eval_improvement_ (when the code computes it), tol_fun, the search-size exponent before,
   search_grid_multiplier, search_grid_number.  The exponent of the mesh size stored at the end is the new exponent. *)
Theorem C13_mesh_rule_is_source : forall (o : opts) (SI : Q) (ev : poll_ev) (s : st) (h : Q),
  let a := poll_loop o (pe_ncand ev) (pe_evals ev) (mkP s src_poll_best0 (cur s) src_poll_count0) in
  let s1 := p_s a in
  exn s1 = false ->
  (pe_hist ev = Some h \/ (pe_hist ev = None /\ src_accel_guard (o_accel o) (piter s1) (o_accel_steps o) = false)) ->
  let good := Qlt_b SI (p_best a) in
  let mr f := f good (k s1) (o_maxgrid o) (o_accel o) (piter s1) (o_accel_steps o) h (o_tolfun o) (ks s1) (o_sgm o) (o_sgn o) in
  poll_phase o SI ev s =
  set_ctrl (if src_poll_moved (p_best a) SI (o_sloppy o) then set_cur s1 (p_inc a) else s1)
           (mr src_poll_k) (mr src_poll_ks) (scount s1) (ssucc s1) (spree s1)
  /\ mr src_poll_mesh_exp = mr src_poll_k.
Proof. exact poll_phase_is_source. Qed.
Print Assumptions C13_mesh_rule_is_source.

(* ... where the poll loop of the skeleton starts from the source's initial values, continues under the source's guard
   (the third conjunct of the skeleton's guard, "candidates are left", is the source's first conjunct) and does the source's
   best-so-far update and counter increment per evaluated point. *)
Theorem C13_poll_loop_is_source :
  (forall s, mkP s 0 (cur s) 0 = mkP s src_poll_best0 (cur s) src_poll_count0) /\
  (forall o ncand a,
     poll_guard o ncand a = src_poll_guard (p_cnt a <? ncand) (fc (p_s a)) (o_maxfe o) (p_cnt a) (o_D o) && negb (exn (p_s a))) /\
  (forall o ncand e r a, poll_guard o ncand a = true -> exn (do_eval (p_s a) e) = false ->
     poll_loop o ncand (e :: r) a =
     poll_loop o ncand r (mkP (do_eval (p_s a) e) (src_poll_best (e_impr e) (p_best a))
                              (if src_poll_better (e_impr e) (p_best a) then inc_of e else p_inc a) (src_poll_count (p_cnt a)))).
Proof. exact (conj poll_start_is_source (conj poll_guard_is_source poll_loop_step_is_source)). Qed.
Print Assumptions C13_poll_loop_is_source.

(* The code keeps two variables (poll_best_improvement and certain_good_poll, the latter updated only when the former is); the
   skeleton keeps the first and recomputes "good" at the end.  They agree after ANY sequence of improvements when the sufficient
   improvement is non-negative (a side condition evaluated on every recorded iteration: Model/SkeletonValid.v) ... *)
Theorem C13_good_poll_is_source : forall (SI : Q) (imprs : list Q), Qle_bool 0 SI = true ->
  let r := src_poll_fold SI imprs (src_poll_best0, src_poll_good0) in
  snd r = qltb SI (fst r) /\ fst r = fold_left (fun b i => if qltb b i then i else b) imprs src_poll_best0.
Proof. intros SI imprs H. split; [exact (good_poll_is_source SI imprs H) | apply poll_fold_best]. Qed.
Print Assumptions C13_good_poll_is_source.

(* ... and differ outside that premise: for a negative sufficient improvement and a poll without evaluations the code's flag is
   False (mesh halved) while the recomputed one is True. *)
Theorem C13_good_poll_negative_SI_refuted : exists SI,
  snd (src_poll_fold SI [] (src_poll_best0, src_poll_good0)) = false /\
  qltb SI (fst (src_poll_fold SI [] (src_poll_best0, src_poll_good0))) = true.
Proof. exact good_poll_negative_SI_refuted. Qed.
Print Assumptions C13_good_poll_negative_SI_refuted.

(* C13 / C06: the block of optimize() that decides whether to poll: search counters, search spree, the optional enlargement
   of the mesh after a spree of successful searches, do_poll_step. *)
Theorem C13_poll_decision_is_source : forall (o : opts) (s : st),
  let pd (T : Type) (f : Z -> Z -> Z -> bool -> Z -> Z -> Z -> Z -> Z -> T) :=
    f (scount s) (o_ntry o) (ssucc s) (o_skip o) (spree s) (o_sme o) (o_smi o) (k s) (o_maxgrid o) in
  poll_decision o s = (set_ctrl s (pd _ src_pd_k) (ks s) (pd _ src_pd_scount) (pd _ src_pd_ssucc) (pd _ src_pd_spree), pd _ src_pd_dopoll).
Proof. exact poll_decision_is_source. Qed.
Print Assumptions C13_poll_decision_is_source.

(* the head of the loop: the search-size lock and the decision to search *)
Theorem C13_loop_head_is_source :
  (forall o s, lock_ks o s = set_ctrl s (k s) (src_lock_ks (o_locked o) (k s) (ks s) (o_sgm o) (o_sgn o)) (scount s) (ssucc s) (spree s)) /\
  (forall o s, want_search o s = src_want_search (scount s) (o_ntry o) (nrows s) (o_D o)) /\
  (forall k0 ks0 o, let s := init_state k0 ks0 o in
     fin s = src_init_fin /\ piter s = src_init_piter /\ ssucc s = src_init_ssucc /\ spree s = src_init_spree).
Proof. exact (conj lock_ks_is_source (conj want_search_is_source init_is_source)). Qed.
Print Assumptions C13_loop_head_is_source.

(* C03: the four termination tests of optimize() in their order ("later ones overwrite"), with their comparators and message
   numbers.  h is the historic improvement of the stall test; when the code does not compute it (its guard is false) any h does. *)
Theorem C03_termination_is_source :
  (forall o kobs s h,
     terminate o kobs (Some h) s =
     (src_term_fin (fc s) (o_maxfe o) (piter s) (o_maxiter o) kobs (o_tolmesh o) (o_stall o) h (o_tolfun o),
      src_term_msg (fc s) (o_maxfe o) (piter s) (o_maxiter o) kobs (o_tolmesh o) (o_stall o) h (o_tolfun o))) /\
  (forall o kobs s h, src_stall_guard (piter s) (o_stall o) = false ->
     terminate o kobs None s =
     (src_term_fin (fc s) (o_maxfe o) (piter s) (o_maxiter o) kobs (o_tolmesh o) (o_stall o) h (o_tolfun o),
      src_term_msg (fc s) (o_maxfe o) (piter s) (o_maxiter o) kobs (o_tolmesh o) (o_stall o) h (o_tolfun o))) /\
  (forall piter stall iter steps, src_stall_index piter stall = piter - stall /\ src_accel_index iter steps = iter - steps).
Proof. exact (conj terminate_is_source (conj terminate_is_source_no_stall hist_index_is_source)). Qed.
Print Assumptions C03_termination_is_source.

(* C03: one whole iteration of the while loop of optimize(), every decision read from the source: whether to search, whether to
   poll, the mesh size the tol_mesh test sees (the one of the loop head unless a poll ran), finished / message, whether the
   iteration is recorded in the history, whether a stochastic run re-estimates its incumbent, the iteration counter. *)
Theorem C03_loop_iteration_is_source : forall (o : opts) (s : st) (ev : iter_ev) (h : Q) (level : Z),
  fin s = false -> exn s = false ->
  let s0 := lock_ks o s in
  let s1 := if src_want_search (scount s0) (o_ntry o) (nrows s0) (o_D o) then search_phase o (ie_SI ev) (ie_search ev) s0 else s0 in
  exn s1 = false ->
  let s2 := fst (poll_decision o s1) in
  let dp := src_pd_dopoll (scount s1) (o_ntry o) (ssucc s1) (o_skip o) (spree s1) (o_sme o) (o_smi o) (k s1) (o_maxgrid o) in
  let s3 := if dp then poll_phase o (ie_SI ev) (ie_poll ev) s2 else s2 in
  exn s3 = false ->
  (ie_stall ev = Some h \/ (ie_stall ev = None /\ src_stall_guard (piter s3) (o_stall o) = false)) ->
  o_det o = (level =? 0) -> 0 <= level ->
  let kobs := src_mesh_obs dp (src_head_mesh_exp (k s)) (k s3) in
  let f := src_term_fin (fc s3) (o_maxfe o) (piter s3) (o_maxiter o) kobs (o_tolmesh o) (o_stall o) h (o_tolfun o) in
  let m := src_term_msg (fc s3) (o_maxfe o) (piter s3) (o_maxiter o) kobs (o_tolmesh o) (o_stall o) h (o_tolfun o) in
  step_iter o s ev =
  mkSt (k s3) (ks s3) (scount s3) (ssucc s3) (spree s3) (src_next_piter f dp (piter s3)) (fc s3) (nrows s3)
       (if src_reeval_guard level dp (piter s3) then match ie_noisy ev with Some c => c | None => cur s3 end else cur s3)
       (calls s3)
       (if src_record_hist dp f then hist s3 ++ [mkH (cur s3) (fc s3) kobs] else hist s3)
       f m false.
Proof. exact step_iter_is_source. Qed.
Print Assumptions C03_loop_iteration_is_source.

(* C04 / C06: when the incumbent moves.  Search step: the counter, success = (SI < improvement), improved = (0 < improvement and
   sloppy_improvement) or success, the incumbent is replaced exactly when improved, search_success counts the successes.
   Poll step: the best point replaces the incumbent exactly when (0 < best and sloppy_improvement) or SI < best. *)
Theorem C04_improvement_rule_is_source :
  (forall o SI ev s,
     match se_eval ev with
     | None => search_phase o SI ev s = set_ctrl s (k s) (ks s) (src_search_scount (scount s)) (ssucc s) (spree s)
     | Some e =>
         let s2 := do_eval (set_ctrl s (k s) (ks s) (src_search_scount (scount s)) (ssucc s) (spree s)) e in
         let success := src_search_success (e_impr e) SI in
         let improved := src_search_improved (e_impr e) SI (o_sloppy o) in
         exn s2 = false ->
         search_phase o SI ev s =
         set_ctrl (if src_search_moves improved success then set_cur s2 (inc_of e) else s2)
                  (k s2) (ks s2) (scount s2) (src_search_ssucc improved success (ssucc s2)) (spree s2)
     end) /\
  (forall o SI ev s h,
     let a := poll_loop o (pe_ncand ev) (pe_evals ev) (mkP s src_poll_best0 (cur s) src_poll_count0) in
     exn (p_s a) = false ->
     (pe_hist ev = Some h \/ (pe_hist ev = None /\ src_accel_guard (o_accel o) (piter (p_s a)) (o_accel_steps o) = false)) ->
     cur (poll_phase o SI ev s) = if src_poll_moved (p_best a) SI (o_sloppy o) then p_inc a else cur (p_s a)).
Proof. exact (conj search_phase_is_source poll_moved_is_source). Qed.
Print Assumptions C04_improvement_rule_is_source.

(* the stobads branches of the three methods are outside the model (ASSUMPTION stobads = False); their number is pinned so that
   a new one is noticed *)
Theorem C13_stobads_sites_pinned : src_stobads_sites = 4.
Proof. exact stobads_sites_is_source. Qed.
Print Assumptions C13_stobads_sites_pinned.

(* hypotheses are satisfiable; every branch of the mesh rule on a concrete state *)
Example C13_mesh_rule_example :
  exn (p_s (poll_loop ex_o (pe_ncand ex_ev) (pe_evals ex_ev) (mkP ex_s src_poll_best0 (cur ex_s) src_poll_count0))) = false /\
  k (poll_phase ex_o (1 # 2) ex_ev ex_s) = -2 /\
  src_poll_k false 0 0 true 5 3 (1 # 1000) (1 # 100) 0 1 0 = -2 /\
  src_poll_k false 0 0 true 3 3 (1 # 1000) (1 # 100) 0 1 0 = -1 /\
  src_poll_k true (-1) 0 true 5 3 (1 # 1000) (1 # 100) 0 1 0 = 0 /\
  src_poll_k true 0 0 true 5 3 (1 # 1000) (1 # 100) 0 1 0 = 0.
Proof. exact mesh_rule_example. Qed.
