(* C06 (poll part) — first step of the MADS descent argument, as a theorem about the poll model
   of C14 (Model/PollDirs.v).  Only statements; proofs in Proofs/PollDet.v (MathComp, axiom-free,
   no classical reasoning: the index set 'I_(D+D) is finite).
   Quantification as in C14_positive_span: every dimension D, every mesh ratio n >= 1, every outcome
   of the random choices (choices_ok).  M below is the model's 2D x D array of generated directions
   vstack(B, -B), read as a matrix over rat; (g *m d^T) 0 0 is the dot product g . d. *)
From Coq Require Import ZArith List.
From PV Require Import Model.PollDirs Proofs.PollDirsProofs Proofs.PollDet.
From mathcomp Require Import all_ssreflect all_fingroup all_algebra ssrZ.
Import GRing.Theory Num.Theory.
Local Open Scope ring_scope.
Delimit Scope Z_scope with coqZ.

(* General form: whenever the rows of M positively span, every non-zero g has a row d with g . d < 0. *)
Theorem C06_descent_from_positive_span :
  forall (F : realFieldType) (m D : nat) (M : 'M[F]_(m, D)),
    (forall v : 'rV[F]_D, exists c : 'rV[F]_m, (forall k, 0 <= c 0 k) /\ v = c *m M) ->
    forall g : 'rV[F]_D, g != 0 ->
    exists k : 'I_m, (g *m (row k M)^T) 0 0 < 0.
Proof. exact descent_dir. Qed.
Print Assumptions C06_descent_from_positive_span.

(* For every non-zero gradient g at least one of the 2D generated poll directions is a descent
   direction: g . d < 0. *)
Theorem C06_poll_descent :
  forall (D : nat) (n : Z) (draws : list (list Z)) (sdraws : list Z) (perm : list nat),
    choices_ok D n draws sdraws perm ->
    forall g : 'rV[rat]_D, g != 0 ->
    exists k : 'I_(D + D),
      (g *m (row k (map_mx ZtoQ (mx_of (D + D) D
                      (poll_dirs (poll_basis D n draws sdraws perm)))))^T) 0 0 < 0.
Proof. exact dirs_descent. Qed.
Print Assumptions C06_poll_descent.

(* Default mesh (n = 1, see C14_default_mesh_ratio_is_one): the descent direction is a signed
   coordinate direction +-e_i (one entry of absolute value 1, all others 0). *)
Theorem C06_poll_descent_default :
  forall (D : nat) (draws : list (list Z)) (sdraws : list Z) (perm : list nat),
    choices_ok D 1%coqZ draws sdraws perm ->
    let M := map_mx ZtoQ (mx_of (D + D) D (poll_dirs (poll_basis D 1%coqZ draws sdraws perm))) in
    forall g : 'rV[rat]_D, g != 0 ->
    exists (k : 'I_(D + D)) (i : 'I_D),
      (g *m (row k M)^T) 0 0 < 0 /\ `|M k i| = 1 /\ forall j : 'I_D, j != i -> M k j = 0.
Proof. exact dirs_descent_default. Qed.
Print Assumptions C06_poll_descent_default.
