(* C15 — the GP surrogate is always conditioned on real, nearby observations.
   Only statements; proofs in Proofs/GPSetProofs.v (closed) and Proofs/LcbProofs.v (real numbers).
   Model: Model/GPSet.v (get_grid_search_neighbors, _get_fevals_data, add_and_update_gp, the assignment of
   gp.X/gp.y/gp.s2 in local_gp_fitting), distances = oracle rationals recorded from the real udist. *)
From Coq Require Import ZArith QArith List Bool Permutation Sorted Reals.
From PV Require Import Model.Val Model.GPSet Proofs.GPSetProofs gen.Src_lcb Proofs.LcbProofs.
Import ListNotations.
Open Scope Z_scope.

(* The training set is the set of logged points nearest to the incumbent, ordered by distance:
   for EVERY log (any length, repeated points, any SD column), every distance vector, radius and
   size options, the output is the first ntrain rows of the log sorted by (distance, index) —
   [srt] is a permutation of the (distance-tagged) log, so the output is a sub-multiset of the log;
   it is sorted by distance; every omitted row is at least as far as every kept row; and each
   sorted entry carries the row and the distance stored at its own index. *)
Theorem C15_training_set_is_nearest :
  forall (dists : list Q) (radius2 : Q) (n_min n_max buffer : Z) (log : list lrow),
    let n := Z.to_nat (ntrain_of n_min n_max buffer (count_within dists radius2) (Z.of_nat (List.length log))) in
    let srt := sorted_log dists log in
    training_set dists radius2 n_min n_max buffer log = map (fun e => out_row (e_r e)) (firstn n srt) /\
    Permutation srt (tag dists log) /\
    (List.length dists = List.length log -> map e_r (tag dists log) = log) /\
    StronglySorted lex_le srt /\
    (forall k o, In k (firstn n srt) -> In o (skipn n srt) -> (e_d k <= e_d o)%Q) /\
    (forall e, In e srt -> nth_error log (e_i e) = Some (e_r e) /\ nth_error dists (e_i e) = Some (e_d e)).
Proof. exact training_set_is_nearest. Qed.
Print Assumptions C15_training_set_is_nearest.

(* Size: exactly what the formula gives.  ntrain = min(max(n_min, n_max - buffer, min(n_max, #within radius)), #logged);
   hence min(n_min, #logged) <= ntrain <= #logged and ntrain <= max(n_max, n_min, n_max - buffer)
   (= max(n_max, n_min) for a non-negative buffer).  NOTE: when n_min > n_max the configured maximum is exceeded
   (the minimum wins) — that is what the code does and what is stated here. *)
Theorem C15_size_bounds :
  forall (dists : list Q) (radius2 : Q) (n_min n_max buffer : Z) (log : list lrow),
    List.length dists = List.length log ->
    0 <= n_min ->
    let nlogged := Z.of_nat (List.length log) in
    let n := ntrain_of n_min n_max buffer (count_within dists radius2) nlogged in
    n = Z.min (Z.max (Z.max n_min (n_max - buffer)) (Z.min n_max (count_within dists radius2))) nlogged /\
    Z.of_nat (List.length (training_set dists radius2 n_min n_max buffer log)) = n /\
    Z.min n_min nlogged <= n /\ n <= nlogged /\
    n <= Z.max (Z.max n_max n_min) (n_max - buffer) /\
    (0 <= buffer -> n <= Z.max n_max n_min).
Proof. exact size_bounds. Qed.
Print Assumptions C15_size_bounds.

(* Every training pair is a logged evaluation: output row j is the log row of a selected index i
   (distinct j, distinct i), input and value identical, noise = SD squared. *)
Theorem C15_pairs_are_logged :
  forall (dists : list Q) (radius2 : Q) (n_min n_max buffer : Z) (log : list lrow),
    let idx := selected_indices dists radius2 n_min n_max buffer log in
    NoDup idx /\
    Forall2 (fun i o => exists r, nth_error log i = Some r /\
                                  lr_x o = lr_x r /\ lr_y o = lr_y r /\
                                  lr_s o = option_map (fun s => Qred (s * s)) (lr_s r))
            idx (training_set dists radius2 n_min n_max buffer log).
Proof. exact pairs_are_logged. Qed.
Print Assumptions C15_pairs_are_logged.

(* Supplied noise enters as a variance: s2_j = S_i * S_i for the selected row i (no noise value when none is logged). *)
Theorem C15_noise_is_variance :
  forall (dists : list Q) (radius2 : Q) (n_min n_max buffer : Z) (log : list lrow) (j : nat) (o : lrow),
    nth_error (training_set dists radius2 n_min n_max buffer log) j = Some o ->
    exists i r,
      nth_error (selected_indices dists radius2 n_min n_max buffer log) j = Some i /\
      nth_error log i = Some r /\
      match lr_s r with
      | Some s => exists v, lr_s o = Some v /\ (v == s * s)%Q
      | None => lr_s o = None
      end.
Proof. exact noise_is_variance. Qed.
Print Assumptions C15_noise_is_variance.

(* Posterior update: add_and_update_gp appends exactly the observation it is given (the pair the logger just
   returned — checked at run level), the SD squared when noise is specified, and touches nothing else. *)
Theorem C15_append_is_new_observation :
  forall (g : gpdata) (x : row) (y : Q) (sd : option Q) (specify : bool) (g' : gpdata),
    add_and_update g x y sd specify = Some g' ->
    g_X g' = g_X g ++ [x] /\ g_y g' = g_y g ++ [y] /\
    match specify, sd with
    | true, Some s => exists l v, g_s2 g = Some l /\ g_s2 g' = Some (l ++ [Some v]) /\ (v == s * s)%Q
    | _, _ => g_s2 g' = g_s2 g
    end.
Proof. exact append_is_new_observation. Qed.
Print Assumptions C15_append_is_new_observation.

(* Initial fit (_get_fevals_data): all flagged log rows, in log order, SD squared. *)
Theorem C15_initial_set_is_the_log :
  forall (flags : list bool) (log : list lrow),
    fevals_data flags log = map out_row (map snd (filter fst (combine flags log))).
Proof. exact fevals_are_logged. Qed.
Print Assumptions C15_initial_set_is_the_log.

(* The function as called (full arrays + X_max_idx + udist's matrix) is training_set on the log prefix. *)
Theorem C15_called_on_prefix :
  forall xmax dmat radius2 n_min n_max buffer full,
    -1 <= xmax -> xmax + 1 <= Z.of_nat (List.length full) ->
    gsn xmax dmat radius2 n_min n_max buffer full =
    training_set (map dist_rowmin dmat) radius2 n_min n_max buffer (log_prefix xmax full).
Proof. exact gsn_is_training_set. Qed.
Print Assumptions C15_called_on_prefix.

(* Acquisition: the body of acq_fcn_lcb, re-translated from /repo on every run (gen/Src_lcb.v), is
   GP mean - sqrt(beta_t) * GP standard deviation with beta_t = 2 nu ln(D t^2 pi^2 / (6 delta)),
   nu = 1/5, delta = 1/10, t = func_count + 1 (f_s2 = GP variance, so sqrt f_s2 = GP standard deviation).
   Real-number statement: depends on the stdlib real axioms printed below. *)
Theorem C15_lcb_is_documented :
  forall D func_count f_mu f_s2 : R,
    (lcb_z D func_count f_mu f_s2 =
     f_mu - sqrt (2 * (1 / 5) * ln (D * (func_count + 1) ^ 2 * PI ^ 2 / (6 * (1 / 10)))) * sqrt f_s2)%R.
Proof. exact lcb_is_documented. Qed.
Print Assumptions C15_lcb_is_documented.

(* REFUTED clause (known finding "stale-pair-after-merged-repeat", replayed on the real code by the plug-in):
   "whenever the posterior is updated each training pair is a logged evaluation, noise = logged SD squared" fails
   when, under specified noise, the new observation is a REPEAT of a logged point that is already in the GP's
   training set.  The logger merges it into row i (value -> precision-weighted mean y', SD -> combined s'); the GP
   keeps the pre-merge pair (x, y_old, s_old^2) and add_and_update_gp appends (x, y', sd^2) next to it.
   Witness: log [(0 ; 0 ; SD 5/3), (1 ; 2 ; SD 1/2)], both rows selected, then the observation (25, SD 5/4) at 0:
   merged value 16, merged SD 1; the GP then holds (0, 0, 25/9) — not in the log — and (0, 16, 25/16) — noise not 1. *)
Theorem C15_pairs_logged_after_repeat_refuted :
  exists (log : list lrow) (dists : list Q) (i : nat) (x : row) (y_old s_old y_new sd y' s' : Q),
    nth_error log i = Some (x, y_old, Some s_old) /\
    (y' == (y_old / (s_old * s_old) + y_new / (sd * sd)) / (1 / (s_old * s_old) + 1 / (sd * sd)))%Q /\
    (1 / (s' * s') == 1 / (s_old * s_old) + 1 / (sd * sd))%Q /\
    let g := set_training true (mkG [] [] None) (training_set dists (9#1) 1 5 0 log) in
    pairs_logged g log = true /\
    exists g', add_and_update g x y' (Some sd) true = Some g' /\
               pairs_logged g' (merge_row i y' s' log) = false.
Proof. exact pairs_logged_after_repeat_refuted. Qed.
Print Assumptions C15_pairs_logged_after_repeat_refuted.

(* ---- premises are satisfiable / the model computes on a non-trivial state ----
   6 logged rows (rows 1 and 4 are the same point evaluated twice, different values), D = 2, SDs logged,
   distances with a tie (rows 1, 4) and a tie at the cut (rows 0, 5); n_min 2, n_max 3, buffer 1, radius^2 = 1:
   within radius = 4 -> ntrain = min(max(2, 2, min(3, 4)), 6) = 3; kept = rows 2, 1, 4 (index order inside the tie). *)
Definition ex_log : list lrow :=
  [ ([1#1; 0#1], 5#1, Some (1#2)); ([1#2; 0#1], 3#1, Some (1#4)); ([0#1; 0#1], 1#1, Some (1#1));
    ([2#1; 2#1], 9#1, Some (3#1)); ([1#2; 0#1], 4#1, Some (1#8)); ([0#1; 1#1], 6#1, Some (2#1)) ].
Definition ex_dists : list Q := [1#1; 1#4; 0#1; 8#1; 1#4; 1#1].
Example C15_example_selection :
  selected_indices ex_dists (1#1) 2 3 1 ex_log = [2%nat; 1%nat; 4%nat] /\
  training_set ex_dists (1#1) 2 3 1 ex_log =
    [ ([0#1; 0#1], 1#1, Some (1#1)); ([1#2; 0#1], 3#1, Some (1#16)); ([1#2; 0#1], 4#1, Some (1#64)) ] /\
  List.length ex_dists = List.length ex_log.
Proof. vm_compute. repeat split; reflexivity. Qed.
Example C15_example_append :
  add_and_update (mkG [[0#1]] [1#1] (Some [Some (1#4)])) [1#2] (3#1) (Some (1#2)) true =
  Some (mkG [[0#1]; [1#2]] [1#1; 3#1] (Some [Some (1#4); Some (1#4)])).
Proof. vm_compute. reflexivity. Qed.
