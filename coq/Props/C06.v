(* C06 — BADS actually minimises smooth unimodal targets within the default budget.
   The property has two parts of different nature:
   * PER-RUN clause ("never returns a point worse than the mesh-snapped starting point", every single
     run): a theorem, below (corollary of the incumbent invariant of C04).
   * POPULATION clause (>= 90% of a panel of >= 60 random rotated quadratics within 1e-3; median
     evaluations-to-1e-2 <= 40*D): a statistical statement about the numerics of the GP fit and the ES
     sampler.  No executable Gallina model expresses gpyreg's hyper-parameter optimiser, so this clause
     is NOT decidable by proof; the check runs the panel as a search for a failing panel (a concrete
     counter-example is a violation under any technique) and records a passing panel as a SAMPLE.
   The structural hypotheses of the MADS convergence argument are theorems elsewhere and re-exported in
   Props/C06poll.v (poll directions positively span, so a descent direction is always polled),
   C13_poll_update (mesh refined on failure, coarsened on success), C04 (accept only on strict decrease). *)
From Coq Require Import ZArith QArith List Bool.
From PV Require Import Model.Val Model.Skeleton Model.SkeletonValid Proofs.SkeletonInc Proofs.SkeletonCtrl.
Import ListNotations.
Open Scope Z_scope.

Theorem C06_never_worse_than_start :
  forall (k0 ks0 : Z) (o : opts) (l : list init_call) (fsd0 : Q) (evs : list iter_ev) (c0 : init_call) (r : list init_call),
    o_sloppy o = true -> det_ok k0 ks0 o l fsd0 evs = true ->
    l = c0 :: r -> e_fault (ic_eval c0) = false ->
    let s := run k0 ks0 o l fsd0 evs in
    exn s = false -> (i_f (cur s) <= e_y (ic_eval c0))%Q.
Proof. exact never_worse_than_start. Qed.
Print Assumptions C06_never_worse_than_start.

(* the incumbent value never increases from one recorded iteration to the next *)
Theorem C06_monotone_progress :
  forall (k0 ks0 : Z) (o : opts) (l : list init_call) (fsd0 : Q) (evs : list iter_ev),
    o_sloppy o = true -> det_ok k0 ks0 o l fsd0 evs = true ->
    let s := run k0 ks0 o l fsd0 evs in
    forall (i j : nat) (a b : hrow), (i <= j)%nat ->
      nth_error (hist s) i = Some a -> nth_error (hist s) j = Some b ->
      (i_f (h_inc b) <= i_f (h_inc a))%Q.
Proof. exact history_monotone. Qed.
Print Assumptions C06_monotone_progress.

(* the run always stops: within the iteration bound, whatever the oracles answer *)
Theorem C06_always_stops :
  forall (k0 ks0 : Z) (o : opts) (l : list init_call) (fsd0 : Q) (stream : nat -> iter_ev),
    1 <= o_maxiter o ->
    exists n : nat, (n <= iter_bound o)%nat /\
      let s := run k0 ks0 o l fsd0 (map stream (seq 0 n)) in fin s = true \/ exn s = true.
Proof. exact loop_terminates. Qed.
Print Assumptions C06_always_stops.
