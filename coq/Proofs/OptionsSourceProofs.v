(* OptionsSourceProofs.v — the hand-written model of the Options class (Model/Options.v) equals the programs regenerated
   from pybads/bads/options.py and BADS.__init__ (gen/Src_optionsclass.v, language + interpreter in Model/OptionsSrc.v).
   The tests of the source are compared SEMANTICALLY (for every key / protected set / set of file names / caller dict), so
   a behaviour-preserving rewrite of a test still checks; the statement structure is compared by running the interpreter. *)
From Coq Require Import ZArith List String Bool.
From PV Require Import Model.Options Model.OptionsSrc Proofs.OptionsProofs gen.Src_optionsclass.
Import ListNotations.
Open Scope Z_scope.

(* ------------------------------------------------------------------ generic: a guarded entries loop is load_entries *)
Lemma run_for_is_load (c : cond) (body : list bstmt) (gd : option Z) (uo : list string) :
  (forall k, ceval (mkCenv k uo [] None) c = negb (skipped uo k)) ->
  (forall k deps st, run_body body gd k deps st =
       match eval_default gd st k deps with None => (st, true) | Some v => (upd k v st, false) end) ->
  forall es st, run_for c body gd uo es st = load_entries gd uo es st.
Proof.
  intros Hc Hb. induction es as [|[k deps] r IH]; intros st; cbn [run_for load_entries]; [reflexivity|].
  rewrite Hc. destruct (skipped uo k); cbn [negb]; [apply IH|].
  rewrite Hb. destruct (eval_default gd st k deps) as [v|]; [apply IH | reflexivity].
Qed.

Lemma mem_reserved_cons (k : string) (v : value) (r : store) :
  mem reserved (keys ((k, v) :: r)) = String.eqb reserved k || mem reserved (keys r).
Proof. reflexivity. Qed.

Lemma filter_not_reserved (u : store) : mem reserved (keys u) = false -> filter not_reserved u = u.
Proof.
  induction u as [|[k v] r IH]; intros H; [reflexivity|].
  rewrite mem_reserved_cons in H. apply orb_false_iff in H. destruct H as [H1 H2].
  cbn [filter]. unfold not_reserved at 1. cbn [fst]. rewrite String.eqb_sym, H1. cbn [negb]. rewrite (IH H2). reflexivity.
Qed.

Lemma get_reserved_none (u : store) : mem reserved (keys u) = false -> get reserved u = None.
Proof.
  induction u as [|[k v] r IH]; intros H; [reflexivity|].
  rewrite mem_reserved_cons in H. apply orb_false_iff in H. destruct H as [H1 H2].
  cbn [get]. rewrite H1. exact (IH H2).
Qed.

(* ------------------------------------------------------------------ load_options_file *)
Lemma src_load_frame (f : file) (oD g : option Z) (st : store) (uo : list string) :
  run_load src_load f oD (mkFrame g st (Some uo)) =
  (mkFrame (bind_D oD g) (fst (load_entries (bind_D oD g) uo f st)) (Some uo),
   if snd (load_entries (bind_D oD g) uo f st) then Some "NameError"%string else None).
Proof.
  unfold src_load. cbn [run_load fr_gd fr_st fr_uo].
  rewrite run_for_is_load.
  - destruct (load_entries (bind_D oD g) uo f st) as [st' err]. cbn [fst snd]. destruct err; reflexivity.
  - intros k. cbn [ceval ce_key ce_uo]. unfold skipped, reserved.
    destruct (mem k uo); destruct (String.eqb k "useroptions"); reflexivity.
  - intros k deps st0. cbn [run_body]. destruct (eval_default (bind_D oD g) st0 k deps); reflexivity.
Qed.

Theorem load_is_source (w : world) (i : nat) (f : file) (oD : option Z) :
  step_src src_class w (Load i f oD) = step w (Load i f oD).
Proof.
  unfold step_src, src_class. cbn [cs_load step]. rewrite src_load_frame.
  destruct (load_entries (bind_D oD (gD w)) (useropts (insts w i)) f (store_of (insts w i))) as [st' err].
  cbn [fst snd fr_gd fr_st fr_uo]. destruct err; reflexivity.
Qed.

(* ------------------------------------------------------------------ Options.__init__ *)
Theorem init_is_source (w : world) (i : nat) (f : file) (oD : option Z) (ou : option nat) :
  step_src src_class w (Init i f oD ou) = step w (Init i f oD ou).
Proof.
  unfold step_src, src_class. cbn [cs_load cs_init step]. unfold src_init.
  cbn [run_init ceval fr_gd fr_st fr_uo]. rewrite src_load_frame.
  destruct (load_entries (bind_D oD (gD w)) [] f []) as [st1 err]. cbn [fst snd].
  destruct err; [reflexivity|].
  destruct ou as [u|]; cbn [user_of run_init ceval ce_user andb fr_gd fr_st fr_uo]; [|reflexivity].
  fold reserved. destruct (mem reserved (keys (callers w u))) eqn:E; [reflexivity|].
  rewrite (filter_not_reserved _ E), (get_reserved_none _ E). reflexivity.
Qed.

(* ------------------------------------------------------------------ validate_option_names *)
Lemma validate_for_is_model (c : cond) (uo nms : list string) (st : store) :
  (forall k, ceval (mkCenv k uo nms None) c = negb (String.eqb k reserved) && negb (mem k nms)) ->
  ~ In reserved (keys st) ->
  existsb (fun k => ceval (mkCenv k uo nms None) c) (reserved :: keys st) =
  negb (forallb (fun kv => mem (fst kv) nms) st).
Proof.
  intros Hc Hr. cbn [existsb]. rewrite Hc, seqb_refl. cbn [negb andb orb].
  induction st as [|[k v] r IH]; [reflexivity|].
  cbn [keys map fst existsb forallb]. fold (keys r). rewrite Hc.
  assert (Hk : String.eqb k reserved = false).
  { apply seqb_false. intro; subst. apply Hr. left. reflexivity. }
  rewrite Hk. cbn [negb andb]. rewrite negb_andb. f_equal. apply IH. intro H. apply Hr. right. exact H.
Qed.

Theorem validate_is_source (w : world) (i : nat) (nms : list string) :
  wf_inst (insts w i) -> step_src src_class w (Validate i nms) = step w (Validate i nms).
Proof.
  intros Hwf. unfold step_src, src_class. cbn [cs_validate step]. unfold src_validate.
  cbn [run_validate self_keys fr_uo fr_st app]. f_equal.
  rewrite validate_for_is_model; [| | exact Hwf].
  - destruct (forallb (fun kv => mem (fst kv) nms) (store_of (insts w i))); reflexivity.
  - intros k. cbn [ceval ce_key ce_names ce_uo]. unfold reserved.
    destruct (mem k nms); destruct (String.eqb k "useroptions"); try destruct (mem k (useropts (insts w i))); reflexivity.
Qed.

(* ------------------------------------------------------------------ the reserved entry never enters the store *)
Lemma load_no_reserved (gd : option Z) (uo : list string) (f : file) (st : store) :
  ~ In reserved (keys st) -> ~ In reserved (keys (fst (load_entries gd uo f st))).
Proof.
  intros H. apply get_none_notin. rewrite load_keeps_skipped.
  - apply get_none_notin. exact H.
  - unfold skipped. rewrite seqb_refl. apply orb_true_r.
Qed.

Lemma step_wf (w : world) (o : op) :
  (forall j, wf_inst (insts w j)) -> forall j, wf_inst (insts (fst (step w o)) j).
Proof.
  intros Hw j. destruct o as [i f oD ou|i f oD|i nms|i ks]; cbn [step].
  - destruct (load_entries (bind_D oD (gD w)) [] f []) as [st1 err] eqn:E.
    assert (H1 : ~ In reserved (keys st1)).
    { replace st1 with (fst (load_entries (bind_D oD (gD w)) [] f [])) by (rewrite E; reflexivity).
      apply load_no_reserved. intros []. }
    destruct err; [apply Hw|]. destruct ou as [u|].
    + destruct (mem reserved (keys (callers w u))) eqn:Er; cbn [fst insts]; [apply Hw|].
      unfold set_at. destruct (Nat.eqb j i); [|apply Hw]. unfold wf_inst. cbn [store_of].
      intro Hin. apply update_store_keys_iff in Hin. destruct Hin as [Hin|Hin]; [exact (H1 Hin)|].
      apply mem_false in Er. exact (Er Hin).
    + cbn [fst insts]. unfold set_at. destruct (Nat.eqb j i); [exact H1 | apply Hw].
  - destruct (load_entries (bind_D oD (gD w)) (useropts (insts w i)) f (store_of (insts w i))) as [st' err] eqn:E.
    cbn [fst insts]. unfold set_at. destruct (Nat.eqb j i); [|apply Hw]. unfold wf_inst. cbn [store_of].
    replace st' with (fst (load_entries (bind_D oD (gD w)) (useropts (insts w i)) f (store_of (insts w i)))) by (rewrite E; reflexivity).
    apply load_no_reserved. apply Hw.
  - apply Hw.
  - cbn [fst insts]. unfold set_at. destruct (Nat.eqb j i); [|apply Hw]. unfold wf_inst. cbn [store_of].
    specialize (Hw i). unfold wf_inst in Hw. revert Hw. generalize (store_of (insts w i)) as st.
    unfold adjust_store. induction ks as [|k r IH]; intros st Hs; cbn [fold_left]; [exact Hs|].
    apply IH. destruct (get k st) as [v|] eqn:G; [|exact Hs].
    intro Hin. apply keys_upd in Hin. destruct Hin as [Hin|Hin]; [|exact (Hs Hin)].
    subst k. apply get_some_in_keys in G. exact (Hs G).
Qed.

Theorem step_is_source (w : world) (o : op) :
  (forall j, wf_inst (insts w j)) -> step_src src_class w o = step w o.
Proof.
  intros Hw. destruct o as [i f oD ou|i f oD|i nms|i ks].
  - apply init_is_source.
  - apply load_is_source.
  - apply validate_is_source. apply Hw.
  - reflexivity.
Qed.

(* every op sequence, from every well-formed world (in particular from the empty process) *)
Theorem run_is_source (ops : list op) :
  forall w, (forall j, wf_inst (insts w j)) -> run_src src_class w ops = run w ops.
Proof.
  induction ops as [|o r IH]; intros w Hw; cbn [run_src run]; [reflexivity|].
  rewrite (step_is_source w o Hw). pose proof (step_wf w o Hw) as Hw1.
  destruct (step w o) as [w1 out]. cbn [fst] in Hw1. rewrite (IH w1 Hw1). reflexivity.
Qed.

Lemma world0_wf (cs : list (nat * store)) : forall j, wf_inst (insts (with_callers world0 cs) j).
Proof. intros j. unfold wf_inst. cbn. intros []. Qed.

(* ------------------------------------------------------------------ BADS.__init__ *)
Lemma is_done_Done (o : outcome) : is_done o = true -> o = Done.
Proof. destruct o; [reflexivity | discriminate]. Qed.

Theorem construct_is_source (w : world) (i : nat) (b a : file) (D : Z) (ou : option nat) :
  (forall j, wf_inst (insts w j)) ->
  run_construct src_class src_construct w i b a D ou = construct w i b a D ou.
Proof.
  intros Hw. unfold src_construct, construct.
  cbn [run_construct kop file_of flat_map]. rewrite app_nil_r.
  rewrite (step_is_source w _ Hw). pose proof (step_wf w (Init i b (Some D) ou) Hw) as Hw1.
  destruct (step w (Init i b (Some D) ou)) as [w1 o1]. cbn [fst] in Hw1.
  destruct (is_done o1) eqn:E1; [|reflexivity].
  rewrite (step_is_source w1 _ Hw1). pose proof (step_wf w1 (Load i a (Some D)) Hw1) as Hw2.
  destruct (step w1 (Load i a (Some D))) as [w2 o2]. cbn [fst] in Hw2.
  destruct (is_done o2) eqn:E2; [|reflexivity].
  rewrite (step_is_source w2 _ Hw2).
  destruct (step w2 (Validate i (names b ++ names a))) as [w3 o3].
  destruct (is_done o3) eqn:E3; [|reflexivity]. rewrite (is_done_Done _ E3). reflexivity.
Qed.

(* ------------------------------------------------------------------ pins *)
Definition read_config_text : string :=
  "def _read_config_file(options_path: str): conf = configparser.ConfigParser(comment_prefixes='', allow_no_value=True) conf.optionxform = str conf.read(options_path) option_list = list() description = '' for section in conf.sections(): for key, value in conf.items(section): if '#' in key: description = key.strip('# ') else: option_list.append([key, value, description]) description = '' if len(option_list) == 0: raise ValueError('The option file at {} does not contain options.'.format(options_path)) return np.array(option_list)".

Lemma read_config_is_source : src_read_config = read_config_text.
Proof. reflexivity. Qed.
