(* PollDirsProofs.v — stdlib proofs about Model/PollDirs.v (entry formula of the basis, bounds,
   the default n = 1 case, the poll-loop bookkeeping).  The linear algebra (determinant, positive
   span) is in Proofs/PollDet.v (MathComp), which uses [poll_basis_entry] as the bridge. *)
From Coq Require Import ZArith QArith Qround Lia Lqa List Bool Permutation Arith.
From PV Require Import Model.Val Model.PollDirs.
Import ListNotations.
Open Scope Z_scope.

(* ---------------------------------------------------------------- well-formed random choices *)

(* strictly-lower draws come from randint(1, 2n) = {1..2n-1}; the other draws are arbitrary
   (np.tril(.,-1) discards them) *)
Definition lower_ok (D : nat) (n : Z) (draws : list (list Z)) : Prop :=
  forall i j, (i < D)%nat -> (j < i)%nat -> 1 <= entry draws i j <= 2 * n - 1.
(* sign draws come from randint(1, 3) = {1, 2} *)
Definition signs_ok (D : nat) (sdraws : list Z) : Prop :=
  List.length sdraws = D /\ Forall (fun s => s = 1 \/ s = 2) sdraws.
(* rnd.permutation permutes the D rows *)
Definition perm_ok (D : nat) (perm : list nat) : Prop :=
  List.length perm = D /\ NoDup perm /\ Forall (fun p => (p < D)%nat) perm.
Definition choices_ok (D : nat) (n : Z) (draws : list (list Z)) (sdraws : list Z) (perm : list nat) : Prop :=
  1 <= n /\ lower_ok D n draws /\ signs_ok D sdraws /\ perm_ok D perm.

(* entry (a, b) of  tril(draws - n, -1) + eye * diag  *)
Definition pre_entry (n : Z) (draws : list (list Z)) (sdraws : list Z) (a b : nat) : Z :=
  if (b <? a)%nat then entry draws a b - n
  else if (a =? b)%nat then n * (2 * nth a sdraws 0 - 3)
  else 0.

(* ---------------------------------------------------------------- mk / entry *)

Lemma nth_map_seq : forall (A : Type) (f : nat -> A) (D k : nat) (d : A),
  (k < D)%nat -> nth k (map f (seq 0 D)) d = f k.
Proof.
  intros A f D k d Hk.
  rewrite (nth_indep _ d (f 0%nat)) by (rewrite map_length, seq_length; exact Hk).
  rewrite map_nth. rewrite seq_nth by exact Hk. reflexivity.
Qed.

Lemma entry_mk : forall D f i j, (i < D)%nat -> (j < D)%nat -> entry (mk D f) i j = f i j.
Proof.
  intros D f i j Hi Hj. unfold entry, mk.
  rewrite nth_map_seq by exact Hi. rewrite nth_map_seq by exact Hj. reflexivity.
Qed.

Lemma mk_length : forall D f, List.length (mk D f) = D.
Proof. intros. unfold mk. rewrite map_length, seq_length. reflexivity. Qed.

Lemma mk_row_length : forall D f r, In r (mk D f) -> List.length r = D.
Proof.
  intros D f r Hr. unfold mk in Hr. apply in_map_iff in Hr. destruct Hr as [i [Hi _]].
  subst r. rewrite map_length, seq_length. reflexivity.
Qed.

Lemma poll_basis_length : forall D n draws sdraws perm,
  List.length (poll_basis D n draws sdraws perm) = D.
Proof. intros. unfold poll_basis, transpose. apply mk_length. Qed.

Lemma poll_basis_row_length : forall D n draws sdraws perm r,
  In r (poll_basis D n draws sdraws perm) -> List.length r = D.
Proof. intros D n draws sdraws perm r. unfold poll_basis, transpose. apply mk_row_length. Qed.

Lemma nth_diag_of : forall n sdraws j, (j < List.length sdraws)%nat ->
  nth j (diag_of n sdraws) 0 = n * (2 * nth j sdraws 0 - 3).
Proof.
  intros n sdraws j Hj. unfold diag_of.
  rewrite (nth_indep _ 0 ((fun s => n * (2 * s - 3)) 0)) by (rewrite map_length; exact Hj).
  rewrite (map_nth (fun s => n * (2 * s - 3))). reflexivity.
Qed.

Lemma pre_basis_entry : forall D n draws sdraws a b,
  List.length sdraws = D -> (a < D)%nat -> (b < D)%nat ->
  entry (pre_basis D n draws sdraws) a b = pre_entry n draws sdraws a b.
Proof.
  intros D n draws sdraws a b Hl Ha Hb. unfold pre_basis, add_diag, tril_strict, shift, pre_entry.
  rewrite entry_mk by assumption. rewrite entry_mk by assumption.
  destruct (b <? a)%nat eqn:Elt.
  - rewrite entry_mk by assumption.
    apply Nat.ltb_lt in Elt.
    destruct (a =? b)%nat eqn:Eeq; [apply Nat.eqb_eq in Eeq; lia | lia].
  - destruct (a =? b)%nat eqn:Eeq.
    + apply Nat.eqb_eq in Eeq. subst b. rewrite nth_diag_of by lia. lia.
    + lia.
Qed.

Lemma perm_ok_lt : forall D perm j, perm_ok D perm -> (j < D)%nat -> (nth j perm 0%nat < D)%nat.
Proof.
  intros D perm j [Hl [_ Hall]] Hj. rewrite Forall_forall in Hall. apply Hall.
  apply nth_In. lia.
Qed.

Lemma perm_ok_inj : forall D perm i j, perm_ok D perm -> (i < D)%nat -> (j < D)%nat ->
  nth i perm 0%nat = nth j perm 0%nat -> i = j.
Proof.
  intros D perm i j [Hl [Hnd _]] Hi Hj He.
  rewrite (NoDup_nth perm 0%nat) in Hnd. apply Hnd; [lia | lia | exact He].
Qed.

Lemma perm_ok_surj : forall D perm i, perm_ok D perm -> (i < D)%nat ->
  exists j, (j < D)%nat /\ nth j perm 0%nat = i.
Proof.
  intros D perm i [Hl [Hnd Hall]] Hi.
  assert (Hincl : incl (seq 0 D) perm).
  { apply NoDup_length_incl.
    - exact Hnd.
    - rewrite seq_length. lia.
    - intros p Hp. rewrite Forall_forall in Hall. apply in_seq. specialize (Hall p Hp). lia. }
  assert (Hin : In i perm) by (apply Hincl; apply in_seq; lia).
  destruct (In_nth perm i 0%nat Hin) as [j [Hj1 Hj2]]. exists j. split; [lia | exact Hj2].
Qed.

(* THE BRIDGE (list side): entry (i, j) of the executable basis is entry (perm j, i) of the
   lower-triangular matrix  tril(draws - n, -1) + diag(n (2 s - 3)). *)
Lemma poll_basis_entry : forall D n draws sdraws perm i j,
  List.length sdraws = D -> perm_ok D perm -> (i < D)%nat -> (j < D)%nat ->
  entry (poll_basis D n draws sdraws perm) i j = pre_entry n draws sdraws (nth j perm 0%nat) i.
Proof.
  intros D n draws sdraws perm i j Hl Hp Hi Hj. unfold poll_basis, transpose, permute_rows.
  rewrite entry_mk by assumption. rewrite entry_mk by assumption.
  apply pre_basis_entry; [exact Hl | apply perm_ok_lt; assumption | exact Hi].
Qed.

(* ---------------------------------------------------------------- +- pairing *)

Lemma entry_neg_rows : forall M i j, entry (neg_rows M) i j = - entry M i j.
Proof.
  intros M i j. unfold entry, neg_rows.
  change (@nil Z) with (map Z.opp []) at 1. rewrite (map_nth (map Z.opp)).
  change 0 with (Z.opp 0) at 1. rewrite (map_nth Z.opp). reflexivity.
Qed.

Lemma poll_dirs_length : forall B, List.length (poll_dirs B) = (2 * List.length B)%nat.
Proof. intros. unfold poll_dirs, neg_rows. rewrite app_length, map_length. lia. Qed.

Lemma poll_dirs_upper : forall B i j, (i < List.length B)%nat -> entry (poll_dirs B) i j = entry B i j.
Proof. intros B i j Hi. unfold entry, poll_dirs. rewrite app_nth1 by exact Hi. reflexivity. Qed.

Lemma poll_dirs_lower : forall B i j, entry (poll_dirs B) (List.length B + i) j = - entry B i j.
Proof.
  intros B i j. unfold entry at 1. unfold poll_dirs. rewrite app_nth2 by lia.
  replace (List.length B + i - List.length B)%nat with i by lia.
  apply entry_neg_rows.
Qed.

(* ---------------------------------------------------------------- entries bounded by n *)

Lemma sign_pm : forall sdraws a, Forall (fun s => s = 1 \/ s = 2) sdraws -> (a < List.length sdraws)%nat ->
  2 * nth a sdraws 0 - 3 = 1 \/ 2 * nth a sdraws 0 - 3 = -1.
Proof.
  intros sdraws a Hall Ha. rewrite Forall_forall in Hall.
  destruct (Hall (nth a sdraws 0) (nth_In _ _ Ha)) as [H | H]; rewrite H; [right | left]; reflexivity.
Qed.

Lemma pre_entry_bounded : forall D n draws sdraws a b,
  1 <= n -> lower_ok D n draws -> signs_ok D sdraws -> (a < D)%nat -> (b < D)%nat ->
  Z.abs (pre_entry n draws sdraws a b) <= n.
Proof.
  intros D n draws sdraws a b Hn Hlow [Hl Hs] Ha Hb. unfold pre_entry.
  destruct (b <? a)%nat eqn:Elt.
  - apply Nat.ltb_lt in Elt. specialize (Hlow a b Ha Elt). lia.
  - destruct (a =? b)%nat eqn:Eeq.
    + destruct (sign_pm sdraws a Hs) as [H | H]; [lia | rewrite H; lia | rewrite H; lia].
    + lia.
Qed.

Lemma entries_bounded : forall D n draws sdraws perm i j,
  choices_ok D n draws sdraws perm -> (i < D)%nat -> (j < D)%nat ->
  Z.abs (entry (poll_basis D n draws sdraws perm) i j) <= n.
Proof.
  intros D n draws sdraws perm i j [Hn [Hlow [Hs Hp]]] Hi Hj.
  rewrite poll_basis_entry; [ | apply Hs | exact Hp | exact Hi | exact Hj ].
  apply pre_entry_bounded with (D := D); try assumption.
  apply perm_ok_lt; assumption.
Qed.

(* strictly-lower entries are even bounded by n - 1 (the draw is from {1-n..n-1}) *)
Lemma pre_entry_lower_bounded : forall D n draws sdraws a b,
  lower_ok D n draws -> (a < D)%nat -> (b < a)%nat ->
  Z.abs (pre_entry n draws sdraws a b) <= n - 1.
Proof.
  intros D n draws sdraws a b Hlow Ha Hb. unfold pre_entry.
  assert (E : (b <? a)%nat = true) by (apply Nat.ltb_lt; exact Hb). rewrite E.
  specialize (Hlow a b Ha Hb). lia.
Qed.

(* ---------------------------------------------------------------- default: n = 1 *)

Lemma pre_entry_n1 : forall D draws sdraws a b,
  lower_ok D 1 draws -> (a < D)%nat ->
  pre_entry 1 draws sdraws a b = if (a =? b)%nat then 2 * nth a sdraws 0 - 3 else 0.
Proof.
  intros D draws sdraws a b Hlow Ha. unfold pre_entry.
  destruct (b <? a)%nat eqn:Elt.
  - apply Nat.ltb_lt in Elt. specialize (Hlow a b Ha Elt).
    destruct (a =? b)%nat eqn:Eeq; [apply Nat.eqb_eq in Eeq; lia | lia].
  - destruct (a =? b)%nat; lia.
Qed.

(* with n = 1 the basis is a signed permutation matrix: B[i][j] = +-1 if i = perm[j], else 0 *)
Lemma default_entry : forall D draws sdraws perm i j,
  choices_ok D 1 draws sdraws perm -> (i < D)%nat -> (j < D)%nat ->
  entry (poll_basis D 1 draws sdraws perm) i j =
  if (nth j perm 0%nat =? i)%nat then 2 * nth i sdraws 0 - 3 else 0.
Proof.
  intros D draws sdraws perm i j [_ [Hlow [Hs Hp]]] Hi Hj.
  rewrite poll_basis_entry; [ | apply Hs | exact Hp | exact Hi | exact Hj ].
  rewrite (pre_entry_n1 D) by (try assumption; apply perm_ok_lt; assumption).
  destruct (nth j perm 0%nat =? i)%nat eqn:E; [ | reflexivity].
  apply Nat.eqb_eq in E. rewrite E. reflexivity.
Qed.

Lemma default_is_coordinate : forall D draws sdraws perm,
  choices_ok D 1 draws sdraws perm ->
  let B := poll_basis D 1 draws sdraws perm in
  (forall j, (j < D)%nat -> exists i, (i < D)%nat /\ Z.abs (entry B i j) = 1 /\
      forall i', (i' < D)%nat -> i' <> i -> entry B i' j = 0) /\
  (forall i, (i < D)%nat -> exists j, (j < D)%nat /\ Z.abs (entry B i j) = 1 /\
      forall j', (j' < D)%nat -> j' <> j -> entry B i j' = 0).
Proof.
  intros D draws sdraws perm Hok B. subst B.
  pose proof Hok as [_ [_ [[Hsl Hs] Hp]]].
  split.
  - intros j Hj. exists (nth j perm 0%nat).
    assert (Hpj : (nth j perm 0%nat < D)%nat) by (apply perm_ok_lt; assumption).
    split; [exact Hpj | split].
    + rewrite default_entry by assumption. rewrite Nat.eqb_refl.
      destruct (sign_pm sdraws (nth j perm 0%nat) Hs) as [H | H]; [lia | rewrite H; reflexivity | rewrite H; reflexivity].
    + intros i' Hi' Hne. rewrite default_entry by assumption.
      destruct (nth j perm 0%nat =? i')%nat eqn:E; [apply Nat.eqb_eq in E; congruence | reflexivity].
  - intros i Hi. destruct (perm_ok_surj D perm i Hp Hi) as [j [Hj Hji]].
    exists j. split; [exact Hj | split].
    + rewrite default_entry by assumption. rewrite Hji, Nat.eqb_refl.
      destruct (sign_pm sdraws i Hs) as [H | H]; [lia | rewrite H; reflexivity | rewrite H; reflexivity].
    + intros j' Hj' Hne. rewrite default_entry by assumption.
      destruct (nth j' perm 0%nat =? i)%nat eqn:E; [ | reflexivity].
      apply Nat.eqb_eq in E. exfalso. apply Hne.
      apply (perm_ok_inj D perm j' j Hp Hj' Hj). congruence.
Qed.

(* ---------------------------------------------------------------- default mesh settings give n = 1 *)

Lemma default_exponent_gap : forall k, k <= 0 -> search_size_integer 2 10 k - k <= -10.
Proof. intros k Hk. unfold search_size_integer. lia. Qed.

Lemma round_small : forall q : Q, (0 <= q)%Q -> (q < 1 # 2)%Q -> round_half_even q = 0.
Proof.
  intros q H0 H1. unfold round_half_even.
  assert (Hf : Qfloor q = 0).
  { assert (A : (0 <= Qfloor q)%Z) by (change 0 with (Qfloor 0); apply Qfloor_resp_le; exact H0).
    assert (B : (Qfloor q < 1)%Z).
    { rewrite Zlt_Qlt. apply Qle_lt_trans with (y := q); [apply Qfloor_le | ].
      change (inject_Z 1) with 1%Q. lra. }
    lia. }
  rewrite Hf.
  destruct ((q - inject_Z 0) ?= (1 # 2))%Q eqn:E.
  - apply Qeq_alt in E. assert (F : (inject_Z 0 == 0)%Q) by reflexivity. lra.
  - reflexivity.
  - apply Qgt_alt in E. assert (F : (inject_Z 0 == 0)%Q) by reflexivity. lra.
Qed.

Lemma pow2_pos_exp : forall k, 0 <= k -> pow2 k = inject_Z (2 ^ k).
Proof. intros k Hk. unfold pow2. destruct (0 <=? k) eqn:E; [reflexivity | apply Z.leb_gt in E; lia]. Qed.

Lemma pow2_nonpos : forall k, k <= 0 -> (pow2 k == 1 / inject_Z (2 ^ (- k)))%Q.
Proof.
  intros k Hk. unfold pow2. destruct (0 <=? k) eqn:E.
  - apply Z.leb_le in E. assert (k = 0) by lia. subst k. reflexivity.
  - assert (P : 0 < 2 ^ (- k)) by (apply Z.pow_pos_nonneg; lia).
    unfold Qeq, Qdiv, Qinv, Qmult, inject_Z. cbn [Qnum Qden].
    destruct (2 ^ (- k)) eqn:Ep; try lia. cbn [Qnum Qden Z.to_pos]. lia.
Qed.

(* ratio of the two meshes when both exponents are <= 0 and ks <= k *)
Lemma pow2_ratio : forall ks k, k <= 0 -> ks <= k ->
  (pow2 ks / pow2 k == 1 / inject_Z (2 ^ (k - ks)))%Q.
Proof.
  intros ks k Hk Hks.
  rewrite (pow2_nonpos ks) by lia. rewrite (pow2_nonpos k) by lia.
  assert (E : 2 ^ (- ks) = 2 ^ (- k) * 2 ^ (k - ks)).
  { rewrite <- Z.pow_add_r by lia. f_equal. lia. }
  rewrite E. rewrite inject_Z_mult.
  assert (P1 : 0 < 2 ^ (- k)) by (apply Z.pow_pos_nonneg; lia).
  assert (P2 : 0 < 2 ^ (k - ks)) by (apply Z.pow_pos_nonneg; lia).
  assert (Q1 : ~ (inject_Z (2 ^ (- k)) == 0)%Q).
  { intro H. unfold Qeq, inject_Z in H. cbn [Qnum Qden] in H. lia. }
  assert (Q2 : ~ (inject_Z (2 ^ (k - ks)) == 0)%Q).
  { intro H. unfold Qeq, inject_Z in H. cbn [Qnum Qden] in H. lia. }
  field. split; assumption.
Qed.

Lemma inv_small : forall m : Z, 2 ^ 10 <= m -> (0 <= 1 / inject_Z m)%Q /\ (1 / inject_Z m < 1 # 2)%Q.
Proof.
  intros m Hm. change (2 ^ 10) with 1024 in Hm.
  destruct m as [ | p | p]; try lia.
  unfold Qdiv, Qinv, Qmult, Qle, Qlt, inject_Z. cbn [Qnum Qden Z.mul Pos.mul]. split; lia.
Qed.

(* With the default options (poll_mesh_multiplier 2, search_grid_multiplier 2, search_grid_number 10,
   max_poll_grid_number 0 so the mesh exponent k is never positive) the mesh ratio is 2^(ks-k) <=
   2^-10, which rounds to 0, hence n_max = 1. *)
Lemma default_n_is_one : forall k, k <= 0 ->
  poll_n (pow2 (search_size_integer 2 10 k)) (pow2 k) = 1.
Proof.
  intros k Hk. unfold poll_n.
  pose proof (default_exponent_gap k Hk) as Hgap.
  set (ks := search_size_integer 2 10 k) in *.
  assert (Hks : ks <= k) by lia.
  assert (R : round_half_even (pow2 ks / pow2 k) = 0).
  { assert (P : 2 ^ 10 <= 2 ^ (k - ks)) by (apply Z.pow_le_mono_r; lia).
    destruct (inv_small (2 ^ (k - ks))) as [I J]; [exact P | ].
    apply round_small; rewrite pow2_ratio by lia; assumption. }
  rewrite R. reflexivity.
Qed.

(* ---------------------------------------------------------------- poll loop bookkeeping *)

Section PollLoop.
  Variable A : Type.

  Lemma remove_nth_perm : forall (l : list A) (c : nat) (x : A),
    nth_error l c = Some x -> Permutation l (x :: remove_nth c l).
  Proof.
    induction l as [ | a r IH]; intros c x H.
    - destruct c; discriminate H.
    - destruct c as [ | c]; cbn [nth_error remove_nth] in *.
      + injection H as H. subst a. apply Permutation_refl.
      + specialize (IH c x H).
        apply Permutation_trans with (l' := a :: x :: remove_nth c r).
        * apply perm_skip. exact IH.
        * apply perm_swap.
  Qed.

  (* the evaluated points are distinct positions of the candidate set: together with the rows
     left over at the end they are a rearrangement of it *)
  Lemma poll_loop_sub : forall (choices : list nat) (b : nat) (cands : list A),
    exists rest, Permutation cands (poll_loop b cands choices ++ rest).
  Proof.
    induction choices as [ | c rest IH]; intros b cands.
    - exists cands. destruct b; apply Permutation_refl.
    - destruct b as [ | b]; [exists cands; apply Permutation_refl | ].
      cbn [poll_loop]. destruct (nth_error cands c) as [x | ] eqn:E.
      + destruct (IH b (remove_nth c cands)) as [left Hleft]. exists left.
        apply Permutation_trans with (l' := x :: remove_nth c cands).
        * apply remove_nth_perm. exact E.
        * cbn [app]. apply perm_skip. exact Hleft.
      + exists cands. apply Permutation_refl.
  Qed.

  Lemma poll_loop_length_budget : forall (choices : list nat) (b : nat) (cands : list A),
    (List.length (poll_loop b cands choices) <= b)%nat.
  Proof.
    induction choices as [ | c rest IH]; intros b cands.
    - destruct b; cbn; lia.
    - destruct b as [ | b]; [cbn; lia | ].
      cbn [poll_loop]. destruct (nth_error cands c); cbn [List.length]; [ | lia].
      specialize (IH b (remove_nth c cands)). lia.
  Qed.

  Lemma poll_loop_length_cands : forall (choices : list nat) (b : nat) (cands : list A),
    (List.length (poll_loop b cands choices) <= List.length cands)%nat.
  Proof.
    intros choices b cands. destruct (poll_loop_sub choices b cands) as [rest H].
    apply Permutation_length in H. rewrite app_length in H. lia.
  Qed.

  Lemma poll_loop_incl : forall choices b (cands : list A), incl (poll_loop b cands choices) cands.
  Proof.
    intros choices b cands x Hx. destruct (poll_loop_sub choices b cands) as [rest H].
    apply Permutation_sym in H. apply (Permutation_in x H). apply in_or_app. left. exact Hx.
  Qed.

  Lemma nodup_app_l : forall (a b : list A), NoDup (a ++ b) -> NoDup a.
  Proof.
    induction a as [ | x r IH]; intros b H; [constructor | ].
    cbn [app] in H. inversion H as [ | y l Hnin Hnd]; subst. constructor.
    - intro Hin. apply Hnin. apply in_or_app. left. exact Hin.
    - apply (IH b). exact Hnd.
  Qed.

  Lemma poll_loop_nodup : forall choices b (cands : list A),
    NoDup cands -> NoDup (poll_loop b cands choices).
  Proof.
    intros choices b cands Hnd. destruct (poll_loop_sub choices b cands) as [rest H].
    apply (Permutation_NoDup H) in Hnd. apply nodup_app_l in Hnd. exact Hnd.
  Qed.

  (* Points evaluated in a poll step.  [dirs] the generated directions, [f d] the point tried for
     direction d (incumbent + mesh * d), [cands] the set after filtering: the filter only removes
     and reorders rows and leaves no duplicates (contraints_check with proj=False: Model/Filter). *)
  Variable Dir : Type.
  Variable f : Dir -> A.

  Lemma pick_dirs : forall (ev : list A) (dirs : list Dir),
    incl ev (map f dirs) -> exists ds, ev = map f ds /\ incl ds dirs.
  Proof.
    induction ev as [ | e r IH]; intros dirs Hincl.
    - exists []. split; [reflexivity | intros x Hx; destruct Hx].
    - assert (He : In e (map f dirs)) by (apply Hincl; left; reflexivity).
      apply in_map_iff in He. destruct He as [d [Hd1 Hd2]].
      destruct (IH dirs) as [ds [Hds1 Hds2]].
      { intros x Hx. apply Hincl. right. exact Hx. }
      exists (d :: ds). split.
      + cbn [map]. rewrite Hd1, <- Hds1. reflexivity.
      + intros x [Hx | Hx]; [subst x; exact Hd2 | apply Hds2; exact Hx].
  Qed.

  Lemma poll_points_spec : forall (dirs : list Dir) (cands : list A) (choices : list nat) (b : nat),
    incl cands (map f dirs) -> NoDup cands ->
    exists ds : list Dir,
      poll_loop b cands choices = map f ds /\ NoDup ds /\ incl ds dirs /\
      (List.length ds <= b)%nat /\ (List.length ds <= List.length cands)%nat.
  Proof.
    intros dirs cands choices b Hincl Hnd.
    destruct (pick_dirs (poll_loop b cands choices) dirs) as [ds [Hds1 Hds2]].
    { intros x Hx. apply Hincl. apply (poll_loop_incl choices b cands). exact Hx. }
    exists ds. split; [exact Hds1 | split; [ | split; [exact Hds2 | split]]].
    - apply (NoDup_map_inv f). rewrite <- Hds1. apply poll_loop_nodup. exact Hnd.
    - rewrite <- (map_length f ds), <- Hds1. apply poll_loop_length_budget.
    - rewrite <- (map_length f ds), <- Hds1. apply poll_loop_length_cands.
  Qed.
End PollLoop.

(* instance: rows of rationals, directions = rows of the generated 2D x D integer array *)
Lemma poll_points_model : forall (D : nat) (n : Z) draws sdraws perm (u : list Q) (mesh : Q)
    (cands : list (list Q)) (choices : list nat),
  let dirs := poll_dirs (poll_basis D n draws sdraws perm) in
  incl cands (poll_points u mesh dirs) -> NoDup cands ->
  exists ds : list (list Z),
    poll_loop (2 * D) cands choices = map (poll_point u mesh) ds /\
    NoDup ds /\ incl ds dirs /\ (List.length ds <= 2 * D)%nat /\ List.length dirs = (2 * D)%nat.
Proof.
  intros D n draws sdraws perm u mesh cands choices dirs Hincl Hnd.
  destruct (poll_points_spec (list Q) (list Z) (poll_point u mesh) dirs cands choices (2 * D) Hincl Hnd)
    as [ds [H1 [H2 [H3 [H4 _]]]]].
  exists ds. repeat split; try assumption.
  subst dirs. rewrite poll_dirs_length, poll_basis_length. reflexivity.
Qed.

(* ---------------------------------------------------------------- non-vacuity *)

Lemma example_choices_ok :
  choices_ok 3 4 [[5;6;7];[7;1;3];[1;3;2]] [1;2;1] [0;2;1]%nat /\
  poll_basis 3 4 [[5;6;7];[7;1;3];[1;3;2]] [1;2;1] [0;2;1]%nat = [[-4;-3;3];[0;-1;4];[0;-4;0]] /\
  poll_loop 6 [[1#1]; [2#1]; [3#1]]%Q [1; 1; 0; 0]%nat = [[2#1]; [3#1]; [1#1]]%Q.
Proof.
  split; [ | split; reflexivity].
  unfold choices_ok, lower_ok, signs_ok, perm_ok. split; [lia | split; [ | split; [ | split; [ | split]]]].
  - intros i j Hi Hj.
    assert (C : ((i = 1 /\ j = 0) \/ (i = 2 /\ j = 0) \/ (i = 2 /\ j = 1))%nat) by lia.
    destruct C as [[Ei Ej] | [[Ei Ej] | [Ei Ej]]]; subst i j; vm_compute; (split; discriminate).
  - split; [reflexivity | ].
    repeat (apply Forall_cons; [ (left; reflexivity) || (right; reflexivity) | ]). apply Forall_nil.
  - reflexivity.
  - repeat constructor; cbn; intuition discriminate.
  - repeat constructor.
Qed.
