(* LcbProofs.v — the acquisition value of acq_fcn_lcb (translated on every run into gen/Src_lcb.v)
   is the documented GP-LCB rule.  Over R: depends on the standard library's real-number axioms
   (listed by Print Assumptions in Props/C15.v and in props/C15.py ALLOWED_AXIOMS). *)
From Coq Require Import Reals Lra.
From PV Require Import gen.Src_lcb.
Open Scope R_scope.

(* documented schedule: beta_t = 2 nu ln(D t^2 pi^2 / (6 delta)), nu = 1/5, delta = 1/10, t = func_count + 1 *)
Definition beta_doc (D t : R) : R := 2 * (1 / 5) * ln (D * t ^ 2 * PI ^ 2 / (6 * (1 / 10))).

Lemma lcb_is_documented :
  forall D func_count f_mu f_s2 : R,
    lcb_z D func_count f_mu f_s2 = f_mu - sqrt (beta_doc D (func_count + 1)) * sqrt f_s2.
Proof.
  intros D fc f_mu f_s2.
  unfold lcb_z, lcb_sqrt_beta, lcb_f_s, lcb_nu, lcb_delta, lcb_t, beta_doc.
  assert (E : forall a b : R, a = b -> f_mu - sqrt a * sqrt f_s2 = f_mu - sqrt b * sqrt f_s2)
    by (intros a b H; rewrite H; reflexivity).
  apply E.
  replace (2 / 10 * 2) with (2 * (1 / 5)) by lra.
  reflexivity.
Qed.

(* the schedule is the translated sqrt_beta, and t = func_count + 1 *)
Lemma lcb_sqrt_beta_is_documented :
  forall D func_count f_mu f_s2 : R,
    lcb_sqrt_beta D func_count f_mu f_s2 = sqrt (beta_doc D (lcb_t D func_count f_mu f_s2)) /\
    lcb_t D func_count f_mu f_s2 = func_count + 1.
Proof.
  intros D fc f_mu f_s2.
  unfold lcb_sqrt_beta, lcb_nu, lcb_delta, lcb_t, beta_doc.
  split; [| reflexivity].
  replace (2 / 10 * 2) with (2 * (1 / 5)) by lra.
  reflexivity.
Qed.
