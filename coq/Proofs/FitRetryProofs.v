(* FitRetryProofs.v — proofs about Model/FitRetry.v (C16).  Closed, stdlib only. *)
From Coq Require Import ZArith List Bool String Arith Lia.
From PV Require Import Model.FitRetry.
Import ListNotations.
Open Scope Z_scope.

(* lengths on entry / at a fit attempt *)
Definition aligned (nX nY : nat) (s2 : s2len) (tmp : option nat) : Prop :=
  nX = nY /\
  match s2 with S2Arr m => m = nX | _ => True end /\
  match tmp with Some m => m = nX | None => True end.

Definition attempt_aligned (a : attempt) : Prop :=
  a_X a = a_Y a /\ match a_s2 a with S2Arr m => m = a_X a | _ => True end.

(* the only ways the repaired controller can be left by an exception *)
Definition benign (r : rf_result) : Prop :=
  match r with
  | RFReturned c _ => c = 0 \/ c = 1
  | RFStuck why _ => why = "UnboundLocalError: res unbound"%string \/
                     why = "ValueError: argmin of an empty sequence"%string
  end.

Lemma convert_ok : forall n s2, match s2 with S2Arr m => m = n | _ => True end -> convert_error n n s2 = None.
Proof.
  intros n s2 H. unfold convert_error. rewrite Nat.eqb_refl. cbn [negb].
  destruct s2 as [| | m]; try reflexivity. subst m. rewrite Nat.eqb_refl. reflexivity.
Qed.

Lemma stored_aligned : forall n s2 tmp,
    match tmp with Some m => m = n | None => True end ->
    match stored_after_fit n s2 tmp with Some m => m = n | None => True end.
Proof. intros n s2 tmp H. destruct s2; cbn; auto. Qed.

(* the drop step under alignment: both noise columns shrink with X and Y *)
Lemma drop_tmp_aligned : forall n k (t1 : option nat),
    match t1 with Some m => m = S n | None => True end ->
    exists t2,
      match t1 with
      | Some (S m) => if Nat.eqb (S m) (S n) then Some (Some (S m - k)%nat) else None
      | other => Some other
      end = Some t2 /\
      match t2 with Some m => m = (S n - k)%nat | None => True end.
Proof.
  intros n k t1 H. destruct t1 as [[| m] |].
  - discriminate H.
  - injection H as ->. rewrite Nat.eqb_refl. eexists. split; [reflexivity | reflexivity].
  - eexists. split; [reflexivity | exact I].
Qed.

Lemma drop_s2_aligned : forall n k (s2 : s2len),
    match s2 with S2Arr m => m = S n | _ => True end ->
    exists s2n,
      match s2 with
      | S2Arr m => if Nat.eqb m (S n) then Some (S2Arr (m - k)) else None
      | other => Some other
      end = Some s2n /\
      match s2n with S2Arr m => m = (S n - k)%nat | _ => True end.
Proof.
  intros n k s2 H. destruct s2 as [| | m].
  - eexists; split; [reflexivity | exact I].
  - eexists; split; [reflexivity | exact I].
  - subst m. rewrite Nat.eqb_refl. eexists; split; [reflexivity | reflexivity].
Qed.

Lemma robust_loop_aligned :
  forall rpat fails drops left i_try j nX nY s2 tmp tr,
    aligned nX nY s2 tmp -> Forall attempt_aligned tr ->
    let r := robust_loop true rpat fails drops left i_try j nX nY s2 tmp tr in
    Forall attempt_aligned (rf_trace r) /\ benign r.
Proof.
  intros rpat fails drops left.
  induction left as [| left IH]; intros i_try j nX nY s2 tmp tr Hal Htr; cbn [robust_loop].
  - cbn [rf_trace benign]. split; [apply Forall_rev; exact Htr | left; reflexivity].
  - destruct Hal as (HXY & Hs2 & Htmp). subst nY.
    rewrite (convert_ok nX s2 Hs2).
    assert (Htr' : Forall attempt_aligned (mkA nX nX s2 tmp :: tr)).
    { constructor; [| exact Htr]. split; cbn; [reflexivity | exact Hs2]. }
    destruct (fails j); cbn [negb].
    + destruct (Z.gtb (Z.of_nat i_try) (rpat - 1)).
      * destruct nX as [| n].
        -- cbn [rf_trace benign]. split; [apply Forall_rev; exact Htr' | right; reflexivity].
        -- pose proof (stored_aligned (S n) s2 tmp Htmp) as Hst.
           destruct (drop_tmp_aligned n (clip_drop (drops j) (S n)) _ Hst) as (t2 & Et2 & At2).
           destruct (drop_s2_aligned n (clip_drop (drops j) (S n)) s2 Hs2) as (s2n & Es2 & As2).
           rewrite Et2. cbn [negb]. rewrite Es2.
           apply IH; [| exact Htr'].
           split; [reflexivity | split; assumption].
      * apply IH; [| exact Htr'].
        split; [reflexivity | split; [exact Hs2 | apply stored_aligned; exact Htmp]].
    + cbn [rf_trace benign]. split; [apply Forall_rev; exact Htr' |].
      destruct (Nat.eqb i_try 0); [right | left]; reflexivity.
Qed.

Theorem lengths_aligned :
  forall (rpat : Z) (fails : nat -> bool) (drops : nat -> nat) (j n : nat) (s2 : s2len) (tmp : option nat),
    aligned n n s2 tmp ->
    let r := robust_fit true rpat fails drops j n n s2 tmp in
    Forall attempt_aligned (rf_trace r) /\ benign r.
Proof.
  intros. apply robust_loop_aligned; [assumption | constructor].
Qed.

(* without the repair: two faults are enough to hand a misaligned s2 to the third fit *)
Theorem lengths_refuted_without_repair :
  exists (fails : nat -> bool) (drops : nat -> nat) (n : nat) (tr : list attempt) (a : attempt),
    (forall j, fails j = true <-> (j < 2)%nat) /\
    aligned n n (S2Arr n) (Some n) /\
    robust_fit false 1 fails drops 0 n n (S2Arr n) (Some n) = RFStuck "ValueError: cannot reshape s2"%string tr /\
    nth_error tr 2 = Some a /\ a_X a = 30%nat /\ a_s2 a = S2Arr 33 /\ ~ attempt_aligned a.
Proof.
  exists (fun j => Nat.ltb j 2), (fun _ => 3%nat), 33%nat.
  eexists. eexists.
  split.
  { intro j. rewrite Nat.ltb_lt. tauto. }
  split; [repeat split |].
  split; [vm_compute; reflexivity |].
  split; [reflexivity |].
  split; [reflexivity |].
  split; [reflexivity |].
  intros [_ H]. cbn in H. discriminate H.
Qed.

(* fewer than 10 consecutive faults: the controller returns 0 or 1 with res bound *)
Lemma robust_loop_total :
  forall rpat fails drops d i left i_try j n s2 tmp tr,
    (forall j', (drops j' <= d)%nat) ->
    aligned n n s2 tmp ->
    (i < left)%nat ->
    (forall i', (i' < i)%nat -> fails (j + i')%nat = true) ->
    fails (j + i)%nat = false ->
    (i * Nat.max 1 d < n)%nat ->
    exists tr',
      robust_loop true rpat fails drops left i_try j n n s2 tmp tr =
      RFReturned (if Nat.eqb (i_try + i) 0 then 1 else 0) tr' /\
      List.length tr' = (List.length tr + S i)%nat.
Proof.
  intros rpat fails drops d i.
  induction i as [| i IH]; intros left i_try j n s2 tmp tr Hd Hal Hlt Hf Hs Hrows.
  - destruct left as [| left]; [lia |]. cbn [robust_loop].
    destruct Hal as (_ & Hs2 & Htmp).
    rewrite (convert_ok n s2 Hs2). rewrite Nat.add_0_r in Hs. rewrite Hs. cbn [negb].
    rewrite Nat.add_0_r. eexists. split; [reflexivity |].
    rewrite rev_length. cbn. lia.
  - destruct left as [| left]; [lia |]. cbn [robust_loop].
    destruct Hal as (_ & Hs2 & Htmp).
    rewrite (convert_ok n s2 Hs2).
    assert (Hfj : fails j = true) by (rewrite <- (Nat.add_0_r j); apply Hf; lia).
    rewrite Hfj. cbn [negb].
    assert (Hf' : forall i', (i' < i)%nat -> fails (S j + i')%nat = true).
    { intros i' Hi'. replace (S j + i')%nat with (j + S i')%nat by lia. apply Hf. lia. }
    assert (Hs' : fails (S j + i)%nat = false).
    { replace (S j + i)%nat with (j + S i)%nat by lia. exact Hs. }
    destruct (Z.gtb (Z.of_nat i_try) (rpat - 1)).
    + destruct n as [| n]; [lia |].
      pose proof (stored_aligned (S n) s2 tmp Htmp) as Hst.
      set (k := clip_drop (drops j) (S n)).
      destruct (drop_tmp_aligned n k _ Hst) as (t2 & Et2 & At2).
      destruct (drop_s2_aligned n k s2 Hs2) as (s2n & Es2 & As2).
      fold k. rewrite Et2. rewrite Es2.
      assert (Hk : (k <= Nat.max 1 d)%nat).
      { unfold k, clip_drop. specialize (Hd j). lia. }
      destruct (IH left (S i_try) (S j) (S n - k)%nat s2n t2 (mkA (S n) (S n) s2 tmp :: tr)) as (tr' & E & L).
      * exact Hd.
      * split; [reflexivity | split; assumption].
      * lia.
      * exact Hf'.
      * exact Hs'.
      * cbn [Nat.mul] in Hrows. lia.
      * exists tr'. rewrite E. split.
        -- replace (S i_try + i)%nat with (i_try + S i)%nat by lia. reflexivity.
        -- rewrite L. cbn [List.length]. lia.
    + destruct (IH left (S i_try) (S j) n s2 (stored_after_fit n s2 tmp) (mkA n n s2 tmp :: tr)) as (tr' & E & L).
      * exact Hd.
      * split; [reflexivity | split; [exact Hs2 | apply stored_aligned; exact Htmp]].
      * lia.
      * exact Hf'.
      * exact Hs'.
      * cbn [Nat.mul] in Hrows. lia.
      * exists tr'. rewrite E. split.
        -- replace (S i_try + i)%nat with (i_try + S i)%nat by lia. reflexivity.
        -- rewrite L. cbn [List.length]. lia.
Qed.

Theorem robust_fit_total :
  forall (rpat : Z) (fails : nat -> bool) (drops : nat -> nat) (d j n i : nat) (s2 : s2len) (tmp : option nat),
    (forall j', (drops j' <= d)%nat) ->
    aligned n n s2 tmp ->
    (i < 10)%nat ->
    (forall i', (i' < i)%nat -> fails (j + i')%nat = true) ->
    fails (j + i)%nat = false ->
    (i * Nat.max 1 d < n)%nat ->
    exists tr,
      robust_fit true rpat fails drops j n n s2 tmp = RFReturned (if Nat.eqb i 0 then 1 else 0) tr /\
      List.length tr = S i.
Proof.
  intros rpat fails drops d j n i s2 tmp Hd Hal Hi Hf Hs Hrows.
  destruct (robust_loop_total rpat fails drops d i n_try 0%nat j n s2 tmp [] Hd Hal Hi Hf Hs Hrows) as (tr & E & L).
  exists tr. split; [exact E | exact L].
Qed.

(* all attempts fail: the function never returns (whatever the lengths and the flag) *)
Lemma robust_loop_all_fail :
  forall repaired rpat fails drops left i_try j nX nY s2 tmp tr,
    (forall i, (i < left)%nat -> fails (j + i)%nat = true) ->
    exists why t, robust_loop repaired rpat fails drops left i_try j nX nY s2 tmp tr = RFStuck why t.
Proof.
  intros repaired rpat fails drops left.
  induction left as [| left IH]; intros i_try j nX nY s2 tmp tr Hf; cbn [robust_loop].
  - eexists. eexists. reflexivity.
  - destruct (convert_error nX nY s2); [eexists; eexists; reflexivity |].
    assert (Hfj : fails j = true) by (rewrite <- (Nat.add_0_r j); apply Hf; lia).
    rewrite Hfj. cbn [negb].
    assert (Hf' : forall i, (i < left)%nat -> fails (S j + i)%nat = true).
    { intros i Hi. replace (S j + i)%nat with (j + S i)%nat by lia. apply Hf. lia. }
    destruct (Z.gtb (Z.of_nat i_try) (rpat - 1)).
    + destruct nX as [| n]; [eexists; eexists; reflexivity |].
      match goal with |- context [match ?a with Some _ => _ | None => _ end] => destruct a end;
        [| eexists; eexists; reflexivity].
      match goal with |- context [match ?a with Some _ => _ | None => _ end] => destruct a end;
        [| eexists; eexists; reflexivity].
      apply IH. exact Hf'.
    + apply IH. exact Hf'.
Qed.

Theorem ten_faults_never_return :
  forall repaired rpat fails drops j nX nY s2 tmp,
    (forall i, (i < 10)%nat -> fails (j + i)%nat = true) ->
    exists why t, robust_fit repaired rpat fails drops j nX nY s2 tmp = RFStuck why t.
Proof. intros. apply robust_loop_all_fail. assumption. Qed.

Theorem ten_faults_refuted :
  exists (fails : nat -> bool) (drops : nat -> nat) (n : nat) (tr : list attempt),
    aligned n n S2None None /\
    robust_fit true 1 fails drops 0 n n S2None None = RFStuck "UnboundLocalError: res unbound"%string tr /\
    List.length tr = 10%nat.
Proof.
  exists (fun _ => true), (fun _ => 2%nat), 44%nat. eexists.
  split; [repeat split |].
  split; [vm_compute; reflexivity | reflexivity].
Qed.

(* the training set can also run empty before the tenth attempt (small sets, e.g. the first local refit on 5 rows) *)
Theorem rows_exhausted_refuted :
  exists (fails : nat -> bool) (drops : nat -> nat) (tr : list attempt),
    (forall j, fails j = true <-> (j < 6)%nat) /\
    robust_fit true 1 fails drops 0 5 5 S2None None = RFStuck "ValueError: argmin of an empty sequence"%string tr /\
    List.length tr = 6%nat.
Proof.
  exists (fun j => Nat.ltb j 6), (fun j => if Nat.eqb j 1 then 2%nat else 1%nat). eexists.
  split.
  { intro j. rewrite Nat.ltb_lt. tauto. }
  split; [vm_compute; reflexivity | reflexivity].
Qed.

(* ---------- init_and_train_gp ---------- *)
Lemma init_loop_terminates :
  forall fails k fuel j tf,
    (forall i, (i < k)%nat -> fails (j + i)%nat = true) ->
    fails (j + k)%nat = false ->
    (k < fuel)%nat ->
    init_loop fuel fails false j tf = IReturned (S (tf + k)) (branch_of (tf + k)).
Proof.
  intros fails k. induction k as [| k IH]; intros fuel j tf Hf Hs Hfuel.
  - destruct fuel as [| fuel]; [lia |]. cbn [init_loop]. rewrite andb_false_r.
    rewrite Nat.add_0_r in Hs. rewrite Hs. rewrite Nat.add_0_r. reflexivity.
  - destruct fuel as [| fuel]; [lia |]. cbn [init_loop]. rewrite andb_false_r.
    assert (Hfj : fails j = true) by (rewrite <- (Nat.add_0_r j); apply Hf; lia).
    rewrite Hfj.
    rewrite (IH fuel (S j) (S tf)).
    + replace (S tf + k)%nat with (tf + S k)%nat by lia. reflexivity.
    + intros i Hi. replace (S j + i)%nat with (j + S i)%nat by lia. apply Hf. lia.
    + replace (S j + k)%nat with (j + S k)%nat by lia. exact Hs.
    + lia.
Qed.

Theorem init_training_terminates :
  forall (fails : nat -> bool) (j k fuel : nat),
    (forall i, (i < k)%nat -> fails (j + i)%nat = true) ->
    fails (j + k)%nat = false ->
    (k < fuel)%nat ->
    init_training fuel fails false j = IReturned (S k) (branch_of k).
Proof. intros. unfold init_training. rewrite (init_loop_terminates fails k fuel j 0); auto. Qed.

Lemma init_loop_never_ends :
  forall fails fuel j tf,
    (forall i, fails i = true) ->
    init_loop fuel fails false j tf = IOutOfFuel (tf + fuel).
Proof.
  intros fails fuel. induction fuel as [| fuel IH]; intros j tf Hf; cbn [init_loop].
  - rewrite Nat.add_0_r. reflexivity.
  - rewrite andb_false_r. rewrite Hf. rewrite IH by exact Hf. f_equal. lia.
Qed.

Theorem init_training_never_ends :
  forall (fails : nat -> bool) (j fuel : nat),
    (forall i, fails i = true) -> init_training fuel fails false j = IOutOfFuel fuel.
Proof. intros. unfold init_training. rewrite init_loop_never_ends by assumption. reflexivity. Qed.

(* ---------- posterior-update fallback ---------- *)
Theorem update_fallback_ok :
  forall (exit_flag : option Z),
    update_fallback exit_flag true false = UReturned (Some (-2)) true /\
    (forall h, update_fallback exit_flag false h = UReturned exit_flag false) /\
    (exists why, update_fallback exit_flag true true = UStuck why).
Proof.
  intro ef. split; [reflexivity |]. split; [intro h; reflexivity |]. eexists. reflexivity.
Qed.
