(* GridProofsR.v — the real-number half of the proofs about gen/Src_grid.v: the tol_mesh snapping
   (ceil of a quotient of logarithms), the forcing function (a real power) and _eval_improvement_ with SDs
   (a square root and the uninterpreted scipy function erfcinv).  Depends on the standard library's
   real-number axioms (listed by Print Assumptions in Props/C13grid.v and declared in props/C13.py). *)
From Coq Require Import ZArith Reals Lra Lia Bool.
From PV Require Import gen.Src_grid.
Open Scope R_scope.

(* ================================================================== *)
(* 0. np.ceil                                                          *)
(* ================================================================== *)
Lemma np_ceil_spec : forall x : R, IZR (np_ceil x) - 1 < x /\ x <= IZR (np_ceil x).
Proof.
  intros x. unfold np_ceil. destruct (archimed (- x)) as [A B].
  rewrite minus_IZR. split; lra.
Qed.

Lemma np_ceil_least : forall (x : R) (z : Z), x <= IZR z -> (np_ceil x <= z)%Z.
Proof.
  intros x z H. destruct (np_ceil_spec x) as [A _].
  assert (L : IZR (np_ceil x - 1) < IZR z) by (rewrite minus_IZR; lra).
  apply lt_IZR in L. lia.
Qed.

Lemma np_ceil_IZR : forall z : Z, np_ceil (IZR z) = z.
Proof.
  intros z. destruct (np_ceil_spec (IZR z)) as [A B].
  apply le_IZR in B. assert (L : IZR (np_ceil (IZR z) - 1) < IZR z) by (rewrite minus_IZR; lra).
  apply lt_IZR in L. lia.
Qed.

(* ================================================================== *)
(* 1. the snapped mesh tolerance                                       *)
(* ================================================================== *)
Lemma ln_pos : forall p, 1 < p -> 0 < ln p.
Proof. intros p Hp. rewrite <- ln_1. apply ln_increasing; lra. Qed.

(* p^z <= / < comparisons through logarithms *)
Lemma le_powerRZ_iff : forall (p t : R) (z : Z), 1 < p -> 0 < t -> (t <= powerRZ p z <-> ln t / ln p <= IZR z).
Proof.
  intros p t z Hp Ht. pose proof (ln_pos p Hp) as Hl.
  rewrite (powerRZ_Rpower p z) by lra. unfold Rpower.
  split.
  - intros H. apply Rmult_le_reg_r with (ln p); [exact Hl|].
    unfold Rdiv. rewrite Rmult_assoc, Rinv_l by lra. rewrite Rmult_1_r.
    destruct H as [H|H].
    + left. apply exp_lt_inv. rewrite (exp_ln t Ht). exact H.
    + right. rewrite H. rewrite ln_exp. reflexivity.
  - intros H. assert (H2 : ln t <= IZR z * ln p).
    { apply Rmult_le_compat_r with (r := ln p) in H; [|lra].
      unfold Rdiv in H. rewrite Rmult_assoc, Rinv_l in H by lra. lra. }
    rewrite <- (exp_ln t Ht) at 1. destruct H2 as [H2|H2].
    + left. apply exp_increasing. exact H2.
    + right. rewrite H2. reflexivity.
Qed.

Lemma powerRZ_lt_compat : forall (p : R) (a b : Z), 1 < p -> (a < b)%Z -> powerRZ p a < powerRZ p b.
Proof.
  intros p a b Hp H. rewrite !powerRZ_Rpower by lra. apply Rpower_lt; [exact Hp | apply IZR_lt; exact H].
Qed.

Lemma powerRZ_le_compat : forall (p : R) (a b : Z), 1 < p -> (a <= b)%Z -> powerRZ p a <= powerRZ p b.
Proof.
  intros p a b Hp H. rewrite !powerRZ_Rpower by lra. apply Rle_Rpower; [lra | apply IZR_le; exact H].
Qed.

Lemma powerRZ_lt_inv : forall (p : R) (a b : Z), 1 < p -> powerRZ p a < powerRZ p b -> (a < b)%Z.
Proof.
  intros p a b Hp H. destruct (Z_lt_le_dec a b) as [L|G]; [exact L|].
  exfalso. pose proof (powerRZ_le_compat p b a Hp G). lra.
Qed.

(* the exponent chosen by the source *)
Definition snap_exponent (p tol : R) : Z := np_ceil (ln tol / ln p).

Lemma tol_mesh_snap_is_power : forall p tol, 1 < p -> src_init_tol_mesh p tol = powerRZ p (snap_exponent p tol).
Proof.
  intros p tol Hp. unfold src_init_tol_mesh, snap_exponent. cbv zeta. rewrite powerRZ_Rpower by lra. reflexivity.
Qed.

(* the snapped tolerance is the least power of the multiplier that is >= tol_mesh *)
Lemma tol_mesh_snap_spec : forall p tol, 1 < p -> 0 < tol ->
  let c := snap_exponent p tol in
  tol <= powerRZ p c /\ powerRZ p (c - 1) < tol /\ (forall z : Z, tol <= powerRZ p z -> (c <= z)%Z).
Proof.
  intros p tol Hp Ht. cbv zeta. unfold snap_exponent.
  destruct (np_ceil_spec (ln tol / ln p)) as [A B].
  set (c := np_ceil (ln tol / ln p)) in *.
  split; [apply (le_powerRZ_iff p tol c Hp Ht); exact B|].
  split.
  - apply Rnot_le_lt. intro C. apply (le_powerRZ_iff p tol (c - 1) Hp Ht) in C. rewrite minus_IZR in C. lra.
  - intros z Hz. apply np_ceil_least. apply (le_powerRZ_iff p tol z Hp Ht). exact Hz.
Qed.

(* hence, for a mesh size that is itself a power of the multiplier, comparing with the snapped tolerance is comparing with the user's *)
Lemma tol_mesh_snap_same_stop : forall p tol (k : Z), 1 < p -> 0 < tol ->
  (powerRZ p k < src_init_tol_mesh p tol <-> powerRZ p k < tol).
Proof.
  intros p tol k Hp Ht. rewrite (tol_mesh_snap_is_power p tol Hp).
  destruct (tol_mesh_snap_spec p tol Hp Ht) as (S1 & S2 & S3).
  set (c := snap_exponent p tol) in *. split.
  - intros H. apply powerRZ_lt_inv in H; [|exact Hp].
    eapply Rle_lt_trans; [|exact S2]. apply powerRZ_le_compat; [exact Hp | lia].
  - intros H. lra.
Qed.

(* a tolerance that already is a power of the multiplier is left alone *)
Lemma tol_mesh_snap_fixes_powers : forall p (t : Z), 1 < p -> src_init_tol_mesh p (powerRZ p t) = powerRZ p t.
Proof.
  intros p t Hp. rewrite (tol_mesh_snap_is_power p _ Hp). unfold snap_exponent.
  pose proof (ln_pos p Hp) as Hl.
  assert (E : ln (powerRZ p t) / ln p = IZR t).
  { rewrite powerRZ_Rpower by lra. unfold Rpower. rewrite ln_exp. field. lra. }
  rewrite E, np_ceil_IZR. reflexivity.
Qed.

(* ================================================================== *)
(* 2. the forcing function                                             *)
(* ================================================================== *)
Lemma sufficient_improvement_same : forall sloppy ti mesh fe tf,
  src_loop_self_sufficient_improvement sloppy ti mesh fe tf = src_loop_sufficient_improvement sloppy ti mesh fe tf.
Proof. intros. reflexivity. Qed.

Lemma sufficient_improvement_spec : forall (sloppy : bool) ti mesh fe tf,
  src_loop_sufficient_improvement sloppy ti mesh fe tf =
  if sloppy then Rmax (ti * Rpower mesh fe) tf else ti * Rpower mesh fe.
Proof. intros. reflexivity. Qed.

Lemma sufficient_improvement_ge_tol_fun : forall ti mesh fe tf,
  tf <= src_loop_sufficient_improvement true ti mesh fe tf.
Proof. intros. rewrite sufficient_improvement_spec. apply Rmax_r. Qed.

Lemma sufficient_improvement_nonneg : forall (sloppy : bool) ti mesh fe tf,
  0 <= ti -> 0 <= src_loop_sufficient_improvement sloppy ti mesh fe tf.
Proof.
  intros sloppy ti mesh fe tf Hti. rewrite sufficient_improvement_spec.
  assert (P : 0 <= ti * Rpower mesh fe).
  { apply Rmult_le_pos; [exact Hti|]. unfold Rpower. left. apply exp_pos. }
  destruct sloppy; [|exact P]. eapply Rle_trans; [exact P | apply Rmax_l].
Qed.

(* a finer mesh never asks for a larger improvement *)
Lemma sufficient_improvement_monotone : forall (sloppy : bool) ti m1 m2 fe tf,
  0 <= ti -> 0 <= fe -> 0 < m1 <= m2 ->
  src_loop_sufficient_improvement sloppy ti m1 fe tf <= src_loop_sufficient_improvement sloppy ti m2 fe tf.
Proof.
  intros sloppy ti m1 m2 fe tf Hti Hfe Hm. rewrite !sufficient_improvement_spec.
  assert (P : ti * Rpower m1 fe <= ti * Rpower m2 fe).
  { apply Rmult_le_compat_l; [exact Hti|]. apply Rle_Rpower_l; assumption. }
  destruct sloppy; [|exact P]. apply Rle_max_compat_r. exact P.
Qed.

(* ================================================================== *)
(* 3. _eval_improvement_                                               *)
(* ================================================================== *)
Lemma impr_none_R_spec : forall fb fn : R, src_impr_none_R fb fn = fb - fn.
Proof. intros. reflexivity. Qed.

(* zero SDs: whatever erfcinv and the quantile are, the improvement is the plain difference *)
Lemma impr_sd_zero : forall (erfcinv : R -> R) (fb fn q : R),
  src_impr_sd erfcinv fb fn 0 0 q = fb - fn.
Proof.
  intros E fb fn q. unfold src_impr_sd. cbv zeta.
  replace (0 ^ 2 + 0 ^ 2) with 0 by (simpl; ring). rewrite sqrt_0. ring.
Qed.

Lemma impr_sd_zero_sign : forall (erfcinv : R -> R) (fb fn q : R),
  (0 < src_impr_sd erfcinv fb fn 0 0 q <-> fn < fb) /\ (src_impr_sd erfcinv fb fn 0 0 q <= 0 <-> fb <= fn).
Proof. intros E fb fn q. rewrite impr_sd_zero. split; split; intros H; lra. Qed.

(* the default quantile 1/2 (erfcinv(1) = 0): the SDs do not matter at all *)
Lemma impr_sd_median : forall (erfcinv : R -> R) (fb fn sb sn : R),
  erfcinv 1 = 0 -> src_impr_sd erfcinv fb fn sb sn (1 / 2) = fb - fn.
Proof.
  intros E fb fn sb sn H1. unfold src_impr_sd. cbv zeta.
  replace (2 * (1 / 2)) with 1 by field. rewrite H1. ring.
Qed.

(* in general: difference of the values shifted by the quantile of the combined SD *)
Lemma impr_sd_spec : forall (erfcinv : R -> R) (fb fn sb sn q : R),
  src_impr_sd erfcinv fb fn sb sn q = (fb - fn) - sqrt 2 * erfcinv (2 * q) * sqrt (sb ^ 2 + sn ^ 2).
Proof. intros. unfold src_impr_sd. cbv zeta. ring. Qed.

(* ================================================================== *)
(* 4. the statements as exported to Props/C13grid.v                    *)
(* ================================================================== *)
Lemma tol_mesh_snap_least_power :
  forall (p tol : R), 1 < p -> 0 < tol ->
    exists c : Z, src_init_tol_mesh p tol = powerRZ p c /\
                  tol <= powerRZ p c /\ powerRZ p (c - 1) < tol /\ (forall z : Z, tol <= powerRZ p z -> (c <= z)%Z).
Proof.
  intros p tol Hp Ht. exists (snap_exponent p tol). split; [exact (tol_mesh_snap_is_power p tol Hp)|].
  exact (tol_mesh_snap_spec p tol Hp Ht).
Qed.

Lemma tol_mesh_snap_stop_all :
  forall (p tol : R) (k t : Z), 1 < p -> 0 < tol ->
    (powerRZ p k < src_init_tol_mesh p tol <-> powerRZ p k < tol) /\
    src_init_tol_mesh p (powerRZ p t) = powerRZ p t.
Proof.
  intros p tol k t Hp Ht. split; [exact (tol_mesh_snap_same_stop p tol k Hp Ht) | exact (tol_mesh_snap_fixes_powers p t Hp)].
Qed.

Lemma sufficient_improvement_all :
  forall (sloppy : bool) (ti m1 m2 fe tf : R),
    src_loop_sufficient_improvement sloppy ti m1 fe tf = (if sloppy then Rmax (ti * Rpower m1 fe) tf else ti * Rpower m1 fe) /\
    tf <= src_loop_sufficient_improvement true ti m1 fe tf /\
    (0 <= ti -> 0 <= src_loop_sufficient_improvement sloppy ti m1 fe tf) /\
    (0 <= ti -> 0 <= fe -> 0 < m1 <= m2 ->
       src_loop_sufficient_improvement sloppy ti m1 fe tf <= src_loop_sufficient_improvement sloppy ti m2 fe tf) /\
    src_loop_self_sufficient_improvement sloppy ti m1 fe tf = src_loop_sufficient_improvement sloppy ti m1 fe tf.
Proof.
  intros sloppy ti m1 m2 fe tf.
  split; [exact (sufficient_improvement_spec sloppy ti m1 fe tf)|].
  split; [exact (sufficient_improvement_ge_tol_fun ti m1 fe tf)|].
  split; [exact (sufficient_improvement_nonneg sloppy ti m1 fe tf)|].
  split; [exact (sufficient_improvement_monotone sloppy ti m1 m2 fe tf) | reflexivity].
Qed.

Lemma impr_sd_all :
  forall (erfcinv : R -> R) (fb fn sb sn q : R),
    src_impr_sd erfcinv fb fn 0 0 q = fb - fn /\
    (0 < src_impr_sd erfcinv fb fn 0 0 q <-> fn < fb) /\
    (erfcinv 1 = 0 -> src_impr_sd erfcinv fb fn sb sn (1 / 2) = fb - fn) /\
    src_impr_sd erfcinv fb fn sb sn q = (fb - fn) - sqrt 2 * erfcinv (2 * q) * sqrt (sb ^ 2 + sn ^ 2).
Proof.
  intros E fb fn sb sn q.
  split; [exact (impr_sd_zero E fb fn q)|]. split; [exact (proj1 (impr_sd_zero_sign E fb fn q))|].
  split; [exact (impr_sd_median E fb fn sb sn) | exact (impr_sd_spec E fb fn sb sn q)].
Qed.
