(* GPSetSourceProofs.v — the hand-written model Model/GPSet.v equals the programs generated from the source (gen/Src_gpset.v)
   under the interpreters of Model/GPSetSrc.v.  Closed, stdlib only.  The proofs about src_gsn are SEMANTIC: they use only
   (i) which rows the slices denote, (ii) the value of the integer expressions for every environment (lia), (iii) the power —
   so a behaviour-preserving rewrite of the source (min/max re-associated, operands swapped, S prefix instead of the full S array,
   radius**2 >= dist, ...) still checks, and a changed comparison / constant / bound does not. *)
From Coq Require Import ZArith QArith List Bool Lia Permutation String.
From PV Require Import Model.Val Model.GPSet Model.GPSetSrc Proofs.GPSetProofs.
From PV Require Import gen.Src_gpset.
Import ListNotations.
Open Scope Z_scope.

(* ---------------------------------------------------------------- lists *)
Lemma nth_error_firstn_lt : forall (A : Type) (l : list A) k i, (i < k)%nat -> nth_error (firstn k l) i = nth_error l i.
Proof.
  intros A l. induction l as [| a r IH]; intros k i H.
  - rewrite firstn_nil. reflexivity.
  - destruct k as [| k]; [lia |]. destruct i as [| i]; cbn [firstn nth_error]; [reflexivity |].
    apply IH. lia.
Qed.

Lemma in_firstn : forall (A : Type) (l : list A) n x, In x (firstn n l) -> In x l.
Proof.
  intros A l. induction l as [| a r IH]; intros n x H.
  - rewrite firstn_nil in H. exact H.
  - destruct n; cbn [firstn] in H; [contradiction |]. destruct H as [H | H]; [left; exact H | right; eapply IH; exact H].
Qed.

Lemma nth_error_some_lt : forall (A : Type) (l : list A) i x, nth_error l i = Some x -> (i < List.length l)%nat.
Proof. intros A l i x H. apply nth_error_Some. rewrite H. discriminate. Qed.

Lemma forall2_firstn : forall (A B : Type) (R : A -> B -> Prop) l l' n, Forall2 R l l' -> Forall2 R (firstn n l) (firstn n l').
Proof.
  intros A B R l l' n H. revert n. induction H as [| a b r r' Hab Hr IH]; intro n.
  - rewrite !firstn_nil. constructor.
  - destruct n; cbn [firstn]; constructor; auto.
Qed.

(* ---------------------------------------------------------------- the sort only looks at (distance, index) *)
Definition sim (a b : entry) : Prop := e_d a = e_d b /\ e_i a = e_i b.

Lemma insert_sim : forall x x' l l', sim x x' -> Forall2 sim l l' -> Forall2 sim (insert x l) (insert x' l').
Proof.
  intros x x' l l' Hx H. induction H as [| y y' r r' Hy Hr IH]; cbn [insert].
  - constructor; [exact Hx | constructor].
  - destruct Hx as [Hd Hi]. destruct Hy as [Hd' Hi']. rewrite <- Hd, <- Hd'.
    destruct (Qle_bool (e_d x) (e_d y)).
    + constructor; [split; assumption |]. constructor; [split; assumption | exact Hr].
    + constructor; [split; assumption |]. apply IH.
Qed.

Lemma sort_sim : forall l l', Forall2 sim l l' -> Forall2 sim (sort_entries l) (sort_entries l').
Proof.
  intros l l' H. induction H as [| x x' r r' Hx Hr IH]; cbn [sort_entries].
  - constructor.
  - apply insert_sim; assumption.
Qed.

Lemma tag_from_sim : forall dists (log log' : list lrow) i,
    List.length log = List.length log' -> Forall2 sim (tag_from i dists log) (tag_from i dists log').
Proof.
  induction dists as [| d ds IH]; intros log log' i H; cbn [tag_from].
  - constructor.
  - destruct log as [| r rs]; destruct log' as [| r' rs']; cbn [List.length] in H; try discriminate; constructor.
    + split; reflexivity.
    + apply IH. lia.
Qed.

(* ---------------------------------------------------------------- what a slice of the log denotes *)
(* [covers r xmax]: indexing rows_of r below xmax + 1 is indexing the array itself *)
Definition covers (r : rsrc) : Prop :=
  forall (A : Type) (e : zenv) (col : list A) (i : nat),
    (i < Z.to_nat (ze_xmax e + 1))%nat -> nth_error (rows_of e r col) i = nth_error col i.
(* [is_prefix r]: rows_of r is exactly the first xmax + 1 rows *)
Definition is_prefix (r : rsrc) : Prop :=
  forall (A : Type) (e : zenv) (col : list A), rows_of e r col = firstn (Z.to_nat (ze_xmax e + 1)) col.

Lemma covers_full : covers RFull.
Proof. intros A e col i H. reflexivity. Qed.

Lemma prefix_is_prefix : forall lo hi,
    (forall e, zeval e lo = 0) -> (forall e, zeval e hi = ze_xmax e + 1) -> is_prefix (RPrefix lo hi).
Proof.
  intros lo hi Hlo Hhi A e col. cbn [rows_of]. unfold slice. rewrite Hlo, Hhi. reflexivity.
Qed.

Lemma prefix_covers : forall r, is_prefix r -> covers r.
Proof. intros r H A e col i Hi. rewrite H. apply nth_error_firstn_lt. exact Hi. Qed.

(* ---------------------------------------------------------------- the generic statement about a gsn program *)
Definition ntrain_env (e : zenv) : Z :=
  ntrain_of (ze_nmin e) (ze_nmax e) (ze_buffer e) (count_within (ze_dists e) (ze_radius2 e)) (ze_xmax e + 1).

Lemma pow2_is_square : forall s, pow_cell 2 s = sq_s2 s.
Proof. intros [q |]; reflexivity. Qed.

Lemma gather_all :
  forall p e full pre KA KB,
    covers (gp_x p) -> covers (gp_y p) -> covers (gp_s p) -> gp_s_pow p = 2%nat ->
    pre = firstn (Z.to_nat (ze_xmax e + 1)) full ->
    Forall2 sim KA KB ->
    (forall a, In a KA -> nth_error pre (e_i a) = Some (e_r a)) ->
    all_some (map (fun en => gather_row p e full (e_i en)) KB) = Some (map (fun a => out_row (e_r a)) KA).
Proof.
  intros p e full pre KA KB Hx Hy Hs Hp Hpre H. induction H as [| a b ra rb Hab Hr IH]; intro Hin.
  - reflexivity.
  - cbn [map all_some].
    assert (Ha : nth_error pre (e_i a) = Some (e_r a)) by (apply Hin; left; reflexivity).
    destruct Hab as [_ Hi]. rewrite <- Hi.
    assert (Hlt : (e_i a < Z.to_nat (ze_xmax e + 1))%nat).
    { apply nth_error_some_lt in Ha. rewrite Hpre, firstn_length in Ha. lia. }
    assert (Hf : nth_error full (e_i a) = Some (e_r a)).
    { rewrite Hpre, nth_error_firstn_lt in Ha by exact Hlt. exact Ha. }
    unfold gather_row at 1.
    rewrite (Hx _ e _ _ Hlt), (Hy _ e _ _ Hlt), (Hs _ e _ _ Hlt).
    rewrite (map_nth_error lr_x _ _ Hf), (map_nth_error lr_y _ _ Hf), (map_nth_error lr_s _ _ Hf).
    rewrite Hp, pow2_is_square.
    rewrite IH by (intros a' Ha'; apply Hin; right; exact Ha').
    reflexivity.
Qed.

Lemma gsn_generic :
  forall p xmax dmat radius2 n_min n_max buffer full,
    is_prefix (gp_dist_of p) -> gp_rowmin p = true ->
    (forall e, zeval e (gp_ntrain p) = ntrain_env e) ->
    (forall e, zeval e (gp_take_lo p) = 0) ->
    (forall e, zeval e (gp_take_hi p) = ntrain_env e) ->
    covers (gp_x p) -> covers (gp_y p) -> covers (gp_s p) -> gp_s_pow p = 2%nat ->
    -1 <= xmax -> xmax + 1 <= Z.of_nat (List.length full) ->
    List.length dmat = Z.to_nat (xmax + 1) ->
    run_gsn p xmax dmat radius2 n_min n_max buffer full = Some (gsn xmax dmat radius2 n_min n_max buffer full) /\
    run_gsn_ntrain p xmax dmat radius2 n_min n_max buffer full = Some (gsn_ntrain xmax dmat radius2 n_min n_max buffer).
Proof.
  intros p xmax dmat radius2 n_min n_max buffer full Hd Hrm Hn Hlo Hhi Hx Hy Hs Hp H1 H2 Hlen.
  assert (Hdist : gsn_dists p (gsn_env xmax [] radius2 n_min n_max buffer) dmat full = Some (map dist_rowmin dmat)).
  { unfold gsn_dists. rewrite Hd. cbn [gsn_env ze_xmax]. rewrite firstn_length, map_length, Hrm.
    replace (Nat.min (Z.to_nat (xmax + 1)) (List.length full)) with (Z.to_nat (xmax + 1)) by lia.
    rewrite Hlen, Nat.eqb_refl. reflexivity. }
  split.
  - unfold run_gsn. rewrite Hdist.
    set (dists := map dist_rowmin dmat).
    set (e := gsn_env xmax dists radius2 n_min n_max buffer).
    rewrite Hlo, Hhi. unfold slice. cbn [Z.to_nat skipn].
    unfold gsn, training_set_n, kept_entries, sorted_log. fold dists.
    assert (Hne : ntrain_env e = ntrain_of n_min n_max buffer (count_within dists radius2) (xmax + 1)) by reflexivity.
    rewrite Hne.
    apply gather_all with (pre := log_prefix xmax full); try assumption.
    + reflexivity.
    + apply forall2_firstn. apply sort_sim. unfold tag. apply tag_from_sim.
      rewrite repeat_length. unfold log_prefix, dists. rewrite firstn_length, map_length. lia.
    + intros a Ha. apply in_firstn in Ha.
      apply (Permutation_in _ (sort_perm _)) in Ha. apply tag_nth in Ha. tauto.
  - unfold run_gsn_ntrain. rewrite Hdist, Hn. reflexivity.
Qed.

(* ---------------------------------------------------------------- the generated program satisfies the premises *)
Lemma src_dist_of_prefix : is_prefix (gp_dist_of src_gsn).
Proof. apply prefix_is_prefix; intro e; cbn [zeval zvar_val]; lia. Qed.

Lemma src_ntrain_value : forall e, zeval e (gp_ntrain src_gsn) = ntrain_env e.
Proof.
  intro e. unfold src_gsn, src_ntrain, ntrain_env, ntrain_of, count_within.
  cbn [gp_ntrain zeval zvar_val cmp_holds]. lia.
Qed.

Lemma src_take_lo_value : forall e, zeval e (gp_take_lo src_gsn) = 0.
Proof. intro e. cbn [src_gsn gp_take_lo zeval zvar_val]. lia. Qed.

Lemma src_take_hi_value : forall e, zeval e (gp_take_hi src_gsn) = ntrain_env e.
Proof.
  intro e. unfold src_gsn, ntrain_env, ntrain_of, count_within.
  cbn [gp_take_hi zeval zvar_val cmp_holds]. lia.
Qed.

Ltac covers_tac :=
  first [ exact covers_full
        | apply prefix_covers; apply prefix_is_prefix; intro e; cbn [zeval zvar_val]; lia ].

Lemma src_x_covers : covers (gp_x src_gsn). Proof. cbn [src_gsn gp_x]. covers_tac. Qed.
Lemma src_y_covers : covers (gp_y src_gsn). Proof. cbn [src_gsn gp_y]. covers_tac. Qed.
Lemma src_s_covers : covers (gp_s src_gsn). Proof. cbn [src_gsn gp_s]. covers_tac. Qed.

Theorem selection_is_source :
  forall xmax dmat radius2 n_min n_max buffer full,
    -1 <= xmax -> xmax + 1 <= Z.of_nat (List.length full) ->
    List.length dmat = Z.to_nat (xmax + 1) ->
    run_gsn src_gsn xmax dmat radius2 n_min n_max buffer full = Some (gsn xmax dmat radius2 n_min n_max buffer full) /\
    run_gsn_ntrain src_gsn xmax dmat radius2 n_min n_max buffer full = Some (gsn_ntrain xmax dmat radius2 n_min n_max buffer).
Proof.
  intros. apply gsn_generic; try assumption.
  - exact src_dist_of_prefix.
  - reflexivity.
  - exact src_ntrain_value.
  - exact src_take_lo_value.
  - exact src_take_hi_value.
  - exact src_x_covers.
  - exact src_y_covers.
  - exact src_s_covers.
  - reflexivity.
Qed.

(* the oracle is consulted for exactly the rows of the log prefix: with any other number of distance rows the program is stuck *)
Theorem selection_needs_one_distance_per_row :
  forall xmax dmat radius2 n_min n_max buffer full,
    -1 <= xmax -> xmax + 1 <= Z.of_nat (List.length full) ->
    List.length dmat <> Z.to_nat (xmax + 1) ->
    run_gsn src_gsn xmax dmat radius2 n_min n_max buffer full = None.
Proof.
  intros xmax dmat radius2 n_min n_max buffer full H1 H2 Hlen.
  unfold run_gsn, gsn_dists. rewrite src_dist_of_prefix. cbn [gsn_env ze_xmax].
  rewrite firstn_length, map_length.
  replace (Nat.min (Z.to_nat (xmax + 1)) (List.length full)) with (Z.to_nat (xmax + 1)) by lia.
  apply Nat.eqb_neq in Hlen. rewrite Hlen. reflexivity.
Qed.

(* ---------------------------------------------------------------- _get_fevals_data *)
Lemma fevals_generic :
  forall flags log,
    zip3 (select MFlag flags (map lr_x log)) (select MFlag flags (map lr_y log))
         (map (pow_cell 2) (select MFlag flags (map lr_s log))) = fevals_data flags log.
Proof.
  induction flags as [| f fs IH]; intro log; cbn [select combine filter map zip3 fevals_data].
  - reflexivity.
  - destruct log as [| r rs]; [reflexivity |].
    cbn [map combine filter fst]. destruct f; cbn [map snd zip3 fst].
    + unfold select in IH. rewrite IH. rewrite pow2_is_square. reflexivity.
    + unfold select in IH. apply IH.
Qed.

Theorem fevals_is_source : forall flags log, run_fevals src_fevals flags log = fevals_data flags log.
Proof. intros. exact (fevals_generic flags log). Qed.

(* ---------------------------------------------------------------- add_and_update_gp, head of local_gp_fitting *)
Theorem append_is_source :
  forall g x y sd specify, run_add src_add x y sd specify g = add_and_update g x y sd specify.
Proof.
  intros [gx gy gs] x y sd specify.
  destruct specify; destruct sd as [v |]; destruct gs as [l |]; reflexivity.
Qed.

Theorem settrain_is_source :
  forall noise_flag ts g, run_settrain src_settrain noise_flag ts g = Some (set_training noise_flag g ts).
Proof. intros noise_flag ts [gx gy gs]. destruct noise_flag; reflexivity. Qed.

(* ---------------------------------------------------------------- census *)
Theorem fit_centres_are_source :
  src_fit_sites = model_fit_sites /\ src_centre_flow = model_centre_flow /\ src_udist_args = model_udist_args.
Proof. repeat split; reflexivity. Qed.

Theorem append_sites_are_source : src_append_sites = model_append_sites /\ src_gp_writers = model_gp_writers.
Proof. split; reflexivity. Qed.

(* ---------------------------------------------------------------- non-vacuity: the example of Props/C15.v through the generated program *)
Definition ex_gsn_log : list lrow :=
  [ ([1#1; 0#1], 5#1, Some (1#2)); ([1#2; 0#1], 3#1, Some (1#4)); ([0#1; 0#1], 1#1, Some (1#1));
    ([2#1; 2#1], 9#1, Some (3#1)); ([1#2; 0#1], 4#1, Some (1#8)); ([0#1; 1#1], 6#1, Some (2#1));
    ([0#1; 0#1], 0#1, Some (7#1)) (* beyond X_max_idx = 5: not looked at *) ].
Lemma source_example :
  run_gsn src_gsn 5 [[1#1]; [1#4; 2#1]; [0#1]; [8#1]; [1#4]; [1#1]] (1#1) 2 3 1 ex_gsn_log
  = Some [ ([0#1; 0#1], 1#1, Some (1#1)); ([1#2; 0#1], 3#1, Some (1#16)); ([1#2; 0#1], 4#1, Some (1#64)) ].
Proof. vm_compute. reflexivity. Qed.
