(* BudgetProofs.v — proofs behind Props/C03budget.v: the evaluation budget end to end.
   Model: Model/Budget.v (the user's options -> initial calls, loop budget, reserve) composed with Model/Skeleton.v
   (run_full).  Part 1 ties every arithmetic definition of the model to the definition regenerated from the source
   (gen/Src_budget.v, translate/budget.py): an edit of a source expression makes one of these lemmas fail. *)
From Coq Require Import ZArith QArith List Bool Lia Arith.
From PV Require Import Model.Val Model.Skeleton Model.SkeletonValid Model.SkeletonNoisy Model.Budget gen.Src_budget
                       Proofs.SkeletonCtrl Proofs.SkeletonFinal.
Import ListNotations.
Open Scope Z_scope.

(* ================================================================== *)
(* 1. the model IS the source                                          *)
(* ================================================================== *)
Lemma gtb_is_ltb : forall a b, (a >? b) = (b <? a).
Proof. intros a b. apply Z.gtb_ltb. Qed.

Lemma geb_is_leb : forall a b, (a >=? b) = (b <=? a).
Proof. intros a b. apply Z.geb_leb. Qed.

Theorem model_is_source :
  (forall level, noise_test_runs level = src_noise_test_cond level) /\
  level_set = src_level_set /\
  (forall mfe, single_eval mfe = src_single_eval mfe) /\
  (forall level, is_noisy level = src_noisy_cond level) /\
  (forall fes mfe, fes_noisy fes mfe = src_fes_noisy fes mfe) /\
  (forall fes, design_wanted fes = src_design_cond fes) /\
  (forall fes mfe, fes_capped fes mfe = src_fes_capped fes mfe) /\
  (site_x0_record = src_site_x0_record /\ site_test_record = src_site_test_record /\
   site_design_record = src_site_design_record /\ site_final_record = src_site_final_record) /\
  (forall f, sobol_n0 f = src_sobol_n0 f) /\
  (forall n D, sobol_bump_test n D = src_sobol_bump_test n D) /\
  (forall n, sobol_bump n = src_sobol_bump n) /\
  (forall n, sobol_rows_of n = src_sobol_rows n) /\
  (forall level, is_noisy level = src_reserve_cond level) /\
  (forall stall, stall_eff stall = src_stall stall) /\
  (forall mfe nfs fc, nfs_eff mfe nfs fc = src_nfs mfe nfs fc) /\
  (forall mfe nfs fc, maxfe_eff mfe nfs fc = src_maxfe mfe nfs fc) /\
  (forall maxfe fc, term_budget maxfe fc = src_term_budget maxfe fc) /\
  (forall maxfe fc, poll_guard_budget maxfe fc = src_poll_guard_budget maxfe fc) /\
  (forall level piter, final_outer level piter = src_final_outer level piter) /\
  (forall nfs, final_cond nfs = src_final_cond nfs) /\
  (forall nfs, final_count nfs = src_final_count nfs) /\
  logger_sites = [src_sites_init_mesh; src_sites_optimize; src_sites_search; src_sites_poll].
Proof.
  repeat split; intros;
    unfold noise_test_runs, level_set, single_eval, is_noisy, fes_noisy, design_wanted, fes_capped, sobol_n0,
           sobol_bump_test, sobol_bump, sobol_rows_of, stall_eff, nfs_eff, maxfe_eff, term_budget, poll_guard_budget,
           final_outer, final_cond, final_count, logger_sites,
           src_noise_test_cond, src_level_set, src_single_eval, src_noisy_cond, src_fes_noisy, src_design_cond,
           src_fes_capped, src_sobol_n0, src_sobol_bump_test, src_sobol_bump, src_sobol_rows, src_reserve_cond,
           src_stall, src_nfs, src_maxfe, src_term_budget, src_poll_guard_budget, src_final_outer, src_final_cond,
           src_final_count, src_sites_init_mesh, src_sites_optimize, src_sites_search, src_sites_poll;
    rewrite ?gtb_is_ltb, ?geb_is_leb; reflexivity.
Qed.

(* the skeleton's readers are the modelled readers *)
Theorem skeleton_reads_the_budget :
  (forall o ncand a, poll_guard o ncand a = true -> poll_guard_budget (o_maxfe o) (fc (p_s a)) = true) /\
  (forall o kobs stall s, term_budget (o_maxfe o) (fc s) = true -> o_maxiter o - 1 <=? piter s = false ->
      kobs <? o_tolmesh o = false -> o_stall o - 1 <? piter s = false -> terminate o kobs stall s = (true, 1)) /\
  (forall o nfs fev s, exn s = false ->
      fo_sampled (final_phase o nfs fev s) = true ->
      final_outer (if o_det o then 0 else 1) (piter s) = true /\ final_cond nfs = true).
Proof.
  split; [|split].
  - intros o ncand a H. unfold poll_guard in H. unfold poll_guard_budget.
    apply andb_true_iff in H. destruct H as [H _]. apply andb_true_iff in H. destruct H as [H _].
    apply andb_true_iff in H. destruct H as [H _]. exact H.
  - intros o kobs stall s H1 H2 H3 H4. unfold terminate, term_budget in *. rewrite H1, H2, H3, H4. reflexivity.
  - intros o nfs fev s Hx Hs. unfold final_phase in Hs. rewrite Hx in Hs. cbn [orb] in Hs.
    unfold final_outer, final_cond.
    destruct (o_det o); cbn [orb] in Hs; [cbn [fo_sampled] in Hs; discriminate|].
    destruct (piter s <=? 0) eqn:Ep; [cbn [fo_sampled] in Hs; discriminate|].
    apply Z.leb_gt in Ep.
    destruct (nth_error (hist s) (fe_idx fev)); [|cbn [fo_sampled] in Hs; discriminate].
    destruct (nfs <=? 0) eqn:En; [cbn [fo_sampled] in Hs; discriminate|].
    apply Z.leb_gt in En. split; [|apply Z.ltb_lt; exact En].
    apply andb_true_iff. split; apply Z.ltb_lt; lia.
Qed.

(* ================================================================== *)
(* 2. arithmetic of the model                                          *)
(* ================================================================== *)
Lemma is_noisy_true : forall l, is_noisy l = true -> 0 < l.
Proof. intros l H. unfold is_noisy in H. apply Z.ltb_lt in H. exact H. Qed.

(* shape of the output, by cases *)
Lemma budget_noisy : forall b, is_noisy (bo_level (budget b)) = true ->
  bo_nfs (budget b) = Z.min (bi_nfs b) (bi_mfe b - bo_init_calls (budget b)) /\
  bo_maxfe (budget b) = bi_mfe b - bo_nfs (budget b) /\
  bo_stall (budget b) = 2 * bi_stall b.
Proof.
  intros b H. unfold budget in *.
  destruct (is_noisy (level_after (bi_level0 b) (bi_differ b))) eqn:E;
    cbn [bo_level bo_nfs bo_maxfe bo_stall bo_init_calls] in *.
  - unfold maxfe_eff, nfs_eff, stall_eff. repeat split; reflexivity.
  - rewrite E in H. discriminate H.
Qed.

Lemma budget_det : forall b, is_noisy (bo_level (budget b)) = false ->
  bo_nfs (budget b) = bi_nfs b /\ bo_maxfe (budget b) = bi_mfe b /\ bo_stall (budget b) = bi_stall b.
Proof.
  intros b H. unfold budget in *.
  destruct (is_noisy (level_after (bi_level0 b) (bi_differ b))) eqn:E;
    cbn [bo_level bo_nfs bo_maxfe bo_stall bo_init_calls] in *.
  - rewrite E in H. discriminate H.
  - repeat split; reflexivity.
Qed.

Lemma budget_level : forall b, bo_level (budget b) = level_after (bi_level0 b) (bi_differ b).
Proof. intros b. unfold budget. destruct (is_noisy _); reflexivity. Qed.

(* the reserve *)
Theorem reserve_exact :
  forall b : binp, let r := budget b in
    is_noisy (bo_level r) = true ->
    bo_nfs r = Z.min (bi_nfs b) (bi_mfe b - bo_init_calls r) /\
    bo_maxfe r + bo_nfs r = bi_mfe b /\
    bo_stall r = 2 * bi_stall b /\
    (bo_init_calls r <= bi_mfe b -> 0 <= bi_nfs b ->
       0 <= bo_nfs r <= bi_nfs b /\ bo_init_calls r <= bo_maxfe r <= bi_mfe b).
Proof.
  intros b r H. destruct (budget_noisy b H) as (E1 & E2 & E3). fold r in E1, E2, E3.
  split; [exact E1|]. split; [lia|]. split; [exact E3|]. intros H1 H2. lia.
Qed.

Theorem det_reserves_nothing_model :
  forall b : binp, let r := budget b in
    is_noisy (bo_level r) = false ->
    bo_maxfe r = bi_mfe b /\ bo_nfs r = bi_nfs b /\ bo_stall r = bi_stall b.
Proof. intros b r H. destruct (budget_det b H) as (E1 & E2 & E3). repeat split; assumption. Qed.

(* the level: declared noise is kept, an undeclared target becomes noisy exactly when the test says so *)
Theorem level_rule :
  forall b : binp, let r := budget b in
    (1 <= bi_level0 b -> bo_level r = bi_level0 b) /\
    (bi_level0 b < 1 -> bi_differ b = true -> bo_level r = 1) /\
    (bi_level0 b < 1 -> bi_differ b = false -> bo_level r = bi_level0 b /\ is_noisy (bo_level r) = false).
Proof.
  intros b r. unfold r. rewrite budget_level. unfold level_after, noise_test_runs, level_set, is_noisy.
  repeat split; intros.
  - destruct (bi_level0 b <? 1) eqn:E; [apply Z.ltb_lt in E; lia | reflexivity].
  - assert (E : bi_level0 b <? 1 = true) by (apply Z.ltb_lt; lia). rewrite E, H0. reflexivity.
  - rewrite H0, andb_false_r. reflexivity.
  - rewrite H0, andb_false_r. apply Z.ltb_ge. lia.
Qed.

(* ---- the Sobol design ---- *)
Lemma pow2_log2_up_lower : forall f, 1 <= f -> f <= 2 ^ Z.log2_up f.
Proof.
  intros f H. destruct (Z.eq_dec f 1) as [->|Hn]; [cbn; lia|].
  destruct (Z.log2_up_spec f) as [_ H2]; lia.
Qed.

Lemma pow2_log2_up_upper : forall f, 1 <= f -> 2 ^ Z.log2_up f <= 2 * f - 1.
Proof.
  intros f H. destruct (Z.eq_dec f 1) as [->|Hn]; [cbn; lia|].
  assert (H1 : 1 < f) by lia.
  destruct (Z.log2_up_spec f H1) as [H2 _].
  assert (Hp : 0 < Z.log2_up f) by (apply Z.log2_up_pos; exact H1).
  replace (Z.log2_up f) with (Z.succ (Z.pred (Z.log2_up f))) by lia.
  rewrite Z.pow_succ_r by lia. lia.
Qed.

Theorem sobol_rows_bounds :
  forall f D : Z, 1 <= f ->
    (exists n, 0 <= n /\ sobol_rows f D = 2 ^ n) /\
    f <= sobol_rows f D /\
    sobol_rows f D <= Z.max (2 * f - 1) (2 * D) /\
    sobol_rows f D <> D.
Proof.
  intros f D Hf. unfold sobol_rows, sobol_rows_of, sobol_exp, sobol_n0, sobol_bump_test, sobol_bump.
  pose proof (Z.log2_up_nonneg f) as Hn.
  pose proof (pow2_log2_up_lower f Hf) as Hl. pose proof (pow2_log2_up_upper f Hf) as Hu.
  set (n := Z.log2_up f) in *.
  destruct (2 ^ n =? D) eqn:E.
  - apply Z.eqb_eq in E.
    assert (Hs : 2 ^ (n + 1) = 2 * D) by (rewrite Z.pow_add_r by lia; lia).
    split; [exists (n + 1); split; [lia | reflexivity]|].
    rewrite Hs. split; [lia|]. split; [lia|]. lia.
  - apply Z.eqb_neq in E.
    split; [exists n; split; [lia | reflexivity]|].
    split; [lia|]. split; [lia|]. exact E.
Qed.

(* what the initial design costs, in the user's terms *)
Definition design_runs (b : binp) : bool :=
  negb (single_eval (bi_mfe b)) && design_wanted (bo_fes (budget b)) && negb (bo_crash (budget b)).

Lemma budget_fields : forall b,
  let lvl := level_after (bi_level0 b) (bi_differ b) in
  let skipped := single_eval (bi_mfe b) in
  let fes1 := if negb skipped && is_noisy lvl then fes_noisy (bi_fes b) (bi_mfe b) else bi_fes b in
  let design := negb skipped && design_wanted fes1 in
  let f := fes_capped fes1 (bi_mfe b) in
  let runs := design && negb (design && sobol_raises f) in
  bo_fes (budget b) = fes1 /\ bo_crash (budget b) = design && sobol_raises f /\ bo_skipped (budget b) = skipped /\
  bo_rows (budget b) = (if runs then sobol_rows f (bi_D b) else 0) /\
  bo_design (budget b) = (if runs then bi_survive b else 0) /\
  bo_init_calls (budget b) = 1 + (if noise_test_runs (bi_level0 b) then 1 else 0) + bo_design (budget b).
Proof.
  intros b. cbv zeta. unfold budget.
  destruct (is_noisy (level_after (bi_level0 b) (bi_differ b)));
    cbn [bo_fes bo_crash bo_skipped bo_rows bo_design bo_init_calls]; repeat split; reflexivity.
Qed.

Theorem init_calls_formula :
  forall b : binp, let r := budget b in
    bo_init_calls r = 1 + (if noise_test_runs (bi_level0 b) then 1 else 0) + bo_design r /\
    (design_runs b = true -> bo_design r = bi_survive b /\
       bo_rows r = sobol_rows (fes_capped (bo_fes r) (bi_mfe b)) (bi_D b) /\ 1 <= fes_capped (bo_fes r) (bi_mfe b)) /\
    (design_runs b = false -> bo_design r = 0 /\ bo_rows r = 0).
Proof.
  intros b r. unfold r, design_runs.
  destruct (budget_fields b) as (F1 & F2 & F3 & F4 & F5 & F6). cbv zeta in *.
  split; [exact F6|].
  rewrite F1, F2 in *.
  set (fes1 := if negb (single_eval (bi_mfe b)) && is_noisy (level_after (bi_level0 b) (bi_differ b))
               then fes_noisy (bi_fes b) (bi_mfe b) else bi_fes b) in *.
  set (design := negb (single_eval (bi_mfe b)) && design_wanted fes1) in *.
  split.
  - intros H. apply andb_true_iff in H. destruct H as [Hd Hc]. rewrite Hd in *. cbn [andb] in *.
    apply negb_true_iff in Hc. rewrite Hc in *. cbn [negb] in *.
    split; [exact F5|]. split; [exact F4|].
    unfold sobol_raises in Hc. apply Z.ltb_ge in Hc. exact Hc.
  - intros H. destruct design; cbn [andb] in *.
    + apply negb_false_iff in H. rewrite H in *. cbn [negb] in *. split; assumption.
    + split; assumption.
Qed.

Theorem design_size_bounds :
  forall b : binp, let r := budget b in
    design_runs b = true -> 0 <= bi_survive b <= bo_rows r ->
    let f := fes_capped (bo_fes r) (bi_mfe b) in
    1 <= f /\ f <= bo_rows r /\ bo_rows r <= Z.max (2 * f - 1) (2 * bi_D b) /\ bo_rows r <> bi_D b /\
    (exists n, 0 <= n /\ bo_rows r = 2 ^ n) /\
    bo_init_calls r <= 2 + Z.max (2 * f - 1) (2 * bi_D b).
Proof.
  intros b r Hd Hs f.
  destruct (init_calls_formula b) as (I1 & I2 & _). fold r in I1, I2.
  destruct (I2 Hd) as (J1 & J2 & J3). fold f in J2, J3.
  destruct (sobol_rows_bounds f (bi_D b) J3) as (B1 & B2 & B3 & B4).
  rewrite J2. split; [exact J3|]. split; [exact B2|]. split; [exact B3|]. split; [exact B4|]. split; [exact B1|].
  rewrite I1, J1. rewrite J2 in Hs. destruct (noise_test_runs (bi_level0 b)); lia.
Qed.

(* sufficient conditions on the USER's options for the precondition "the initial design fits in the budget" *)
Theorem budget_sufficient_det :
  forall b : binp, let r := budget b in
    is_noisy (bo_level r) = false -> 0 <= bi_D b -> 0 <= bi_survive b <= bo_rows r ->
    2 + Z.max (2 * bi_fes b - 1) (2 * bi_D b) <= bi_mfe b ->
    bo_init_calls r <= bi_mfe b.
Proof.
  intros b r Hn Hc Hs Hm.
  destruct (design_runs b) eqn:Hd.
  - destruct (design_size_bounds b Hd Hs) as (B1 & B2 & B3 & B4 & B5 & B6).
    destruct (budget_fields b) as (F1 & _). cbv zeta in F1.
    unfold r in *. rewrite budget_level in Hn. rewrite Hn in F1. rewrite andb_false_r in F1.
    rewrite F1 in B6, B1. unfold fes_capped in B6, B1. lia.
  - destruct (init_calls_formula b) as (I1 & _ & I3). fold r in I1, I3.
    destruct (I3 Hd) as (J1 & _). rewrite I1, J1. destruct (noise_test_runs (bi_level0 b)); lia.
Qed.

Theorem budget_sufficient_noisy :
  forall b : binp, let r := budget b in
    is_noisy (bo_level r) = true -> 0 <= bi_survive b <= bo_rows r ->
    bi_fes b <= 20 -> bi_D b <> 32 -> 21 <= bi_mfe b ->
    bo_crash r = false /\ bo_fes r = 20 /\ bo_rows r = 32 /\
    (34 <= bi_mfe b -> bo_init_calls r <= bi_mfe b).
Proof.
  intros b r Hn Hs Hf HD Hm.
  destruct (budget_fields b) as (F1 & F2 & F3 & F4 & F5 & F6). cbv zeta in *.
  unfold r in Hn. rewrite budget_level in Hn. rewrite Hn in *.
  assert (Es : single_eval (bi_mfe b) = false) by (unfold single_eval; apply Z.eqb_neq; lia).
  rewrite Es in *. cbn [negb andb] in *.
  assert (E20 : fes_noisy (bi_fes b) (bi_mfe b) = 20) by (unfold fes_noisy; lia).
  rewrite E20 in *.
  assert (Ec : fes_capped 20 (bi_mfe b) = 20) by (unfold fes_capped; lia).
  rewrite Ec in *.
  change (design_wanted 20) with true in *. change (sobol_raises 20) with false in *. cbn [negb andb] in *.
  assert (Er : sobol_rows 20 (bi_D b) = 32).
  { unfold sobol_rows, sobol_exp, sobol_n0, sobol_bump_test, sobol_rows_of.
    change (Z.log2_up 20) with 5. change (2 ^ 5) with 32.
    destruct (32 =? bi_D b) eqn:E; [apply Z.eqb_eq in E; congruence | reflexivity]. }
  rewrite Er in F4. fold r in F1, F2, F4, F5, F6.
  split; [exact F2|]. split; [exact F1|]. split; [exact F4|].
  intros H34. rewrite F6, F5. rewrite F4 in Hs. destruct (noise_test_runs (bi_level0 b)); lia.
Qed.

(* ================================================================== *)
(* 3. composition with the skeleton: counting target calls             *)
(* ================================================================== *)
Definition ncalls (s : st) : Z := Z.of_nat (List.length (calls s)).

Lemma ncalls_do_eval : forall s e, ncalls (do_eval s e) = ncalls s + 1.
Proof.
  intros s e. unfold ncalls. rewrite SkeletonCtrl.do_eval_calls, app_length, Nat2Z.inj_add. cbn [List.length]. lia.
Qed.

Lemma init_calls_ncalls : forall l s recd,
  ncalls (fst (init_calls s recd l)) <= ncalls s + Z.of_nat (List.length l).
Proof.
  induction l as [|c r IH]; intros s recd; cbn [init_calls List.length].
  - cbn [fst]. lia.
  - rewrite Nat2Z.inj_succ.
    destruct (exn s); [cbn [fst]; lia|].
    destruct (exn (do_eval s (ic_eval c))) eqn:E; cbn [fst].
    + rewrite ncalls_do_eval. lia.
    + specialize (IH (do_eval s (ic_eval c))
                     (if ic_record c then recd ++ [(e_u (ic_eval c), e_y (ic_eval c))] else recd)).
      rewrite ncalls_do_eval in IH. lia.
Qed.

Lemma init_phase_ncalls : forall k0 ks0 o l fsd0,
  ncalls (init_phase k0 ks0 o l fsd0) <= Z.of_nat (List.length l).
Proof.
  intros k0 ks0 o l fsd0. unfold init_phase.
  pose proof (init_calls_ncalls l (init_state k0 ks0 o) []) as H.
  destruct (init_calls (init_state k0 ks0 o) [] l) as [s recd]. cbn [fst] in H.
  assert (H0 : ncalls (init_state k0 ks0 o) = 0) by reflexivity.
  destruct (argmin_rows None recd) as [[u y]|]; unfold ncalls in *; cbn [set_cur calls] in *; lia.
Qed.

(* a fault leaves func_count where it was *)
Lemma search_phase_fault_fc : forall o SI ev s,
  exn s = false -> exn (search_phase o SI ev s) = true -> fc (search_phase o SI ev s) = fc s.
Proof.
  intros o SI ev [k0 ks0 sc ss sp pit f n c cl h fi m ex] Hx. cbn [exn] in Hx. subst ex.
  unfold search_phase, do_eval. prj.
  destruct (se_eval ev) as [e|]; [|prj; intros H; discriminate H].
  destruct (e_fault e); prj; [intros _; reflexivity|].
  destruct (qltb SI (e_impr e)); destruct (qltb 0 (e_impr e) && o_sloppy o); cbn [orb]; prj; intros H; discriminate H.
Qed.

Lemma poll_loop_fault_fc : forall o n evs a,
  exn (p_s a) = false -> exn (p_s (poll_loop o n evs a)) = true -> fc (p_s (poll_loop o n evs a)) < o_maxfe o.
Proof.
  intros o n evs. induction evs as [|e r IH]; intros a Hx Hf; cbn [poll_loop] in *.
  - congruence.
  - destruct (poll_guard o n a) eqn:G; [|congruence].
    apply poll_guard_true in G. destruct G as [G _].
    destruct (exn (do_eval (p_s a) e)) eqn:E.
    + prj. rewrite SkeletonCtrl.do_eval_exn in E. rewrite do_eval_fc, E. exact G.
    + destruct (qltb (p_best a) (e_impr e)); apply IH; prj; assumption.
Qed.

(* the invariant of the loop: counting is honest, func_count is within the loop budget, a search is attempted only
   below the budget, and a propagating fault happened strictly below the budget *)
Definition Cap (o : opts) (s : st) : Prop :=
  J s /\ Bud o s /\ (exn s = true -> fc s < o_maxfe o).

Lemma Cap_step : forall o s ev, Cap o s -> Cap o (step_iter o s ev).
Proof.
  intros o s ev (HJ & HB & HX).
  split; [apply J_step; exact HJ|]. split; [apply Bud_step; exact HB|].
  destruct (not_final_cases s) as [Hf|[Hfin Hexn]]; [rewrite step_iter_final by exact Hf; exact HX|].
  destruct HB as [B1 B2]. specialize (B2 Hfin Hexn).
  pose proof (step_iter_cases o s ev Hfin Hexn) as C. cbv zeta in C.
  destruct (it_s1_spec o s ev) as (A1 & A2 & A3 & A4 & A5 & A6 & A7 & A8 & A9 & A10 & A11 & A12).
  destruct C as [(E1 & Es)|[(E1 & E3 & Es)|(E1 & E3 & Ex & _)]].
  - (* the search call faulted *)
    rewrite Es. intros _. unfold it_s1 in *. rewrite want_search_lock in *.
    destruct (lock_ks_spec o s) as (L1 & L2 & L3 & L4 & L5 & L6 & L7 & L8 & L9 & L10 & L11 & L12 & L13).
    destruct (want_search o s) eqn:W.
    + rewrite search_phase_fault_fc; [rewrite L11; apply B2; reflexivity | congruence | exact E1].
    + congruence.
  - (* a poll call faulted *)
    rewrite Es. intros _. unfold it_s3 in *.
    destruct (poll_decision_spec o (it_s1 o s ev)) as (D1 & D2 & D3 & D4 & D5 & D6 & D7 & D8 & D9 & D10 & _).
    set (s1 := it_s1 o s ev) in *. set (s2 := fst (poll_decision o s1)) in *.
    destruct (snd (poll_decision o s1)).
    + destruct (poll_phase_spec o (ie_SI ev) (ie_poll ev) s2) as (P1 & P2 & P3 & P4 & P5 & P6 & P7 & P8 & P9 & P10 & P11 & _).
      rewrite P8. apply poll_loop_fault_fc; prj; congruence.
    + congruence.
  - intros H. congruence.
Qed.

Lemma Cap_ncalls : forall o s, Cap o s -> ncalls s <= o_maxfe o.
Proof.
  intros o s ((J1 & J2) & (B1 & _) & HX). unfold ncalls. rewrite J2.
  destruct (exn s); [specialize (HX eq_refl); lia | lia].
Qed.

Lemma Cap_init : forall k0 ks0 o l fsd0,
  Z.of_nat (List.length l) <= o_maxfe o -> Cap o (init_phase k0 ks0 o l fsd0).
Proof.
  intros k0 ks0 o l fsd0 Hl.
  destruct (init_phase_spec k0 ks0 o l fsd0) as (I1 & I2 & I3 & I4 & I5 & I6 & I7 & I8).
  pose proof (init_phase_ncalls k0 ks0 o l fsd0) as Hn.
  set (s := init_phase k0 ks0 o l fsd0) in *.
  destruct I8 as [J1 J2]. unfold ncalls in Hn.
  split; [split; assumption|]. split.
  - split.
    + destruct (exn s); lia.
    + intros _ _ Hw. unfold want_search in Hw. rewrite I3, Z.ltb_irrefl in Hw. discriminate Hw.
  - intros Hx. rewrite Hx in J2. lia.
Qed.

Theorem loop_calls_within_loop_budget :
  forall (k0 ks0 : Z) (o : opts) (l : list init_call) (fsd0 : Q) (evs : list iter_ev),
    Z.of_nat (List.length l) <= o_maxfe o ->
    ncalls (run k0 ks0 o l fsd0 evs) <= o_maxfe o.
Proof.
  intros k0 ks0 o l fsd0 evs Hl. apply Cap_ncalls. unfold run.
  apply (run_loop_inv (Cap o)); [intros s ev; apply Cap_step | apply Cap_init; exact Hl].
Qed.

(* the final phase adds at most nfs calls *)
Lemma final_samples_ncalls : forall n obs s u ys sds,
  ncalls (fst (fst (final_samples s u n obs ys sds))) <= ncalls s + Z.of_nat n.
Proof.
  induction n as [|m IH]; intros obs s u ys sds; cbn [final_samples].
  { cbn [fst]. lia. }
  rewrite Nat2Z.inj_succ.
  destruct obs as [|[[flt y] sd] r]; [cbn [fst]; lia|].
  destruct (exn s); [cbn [fst]; lia|].
  set (e := mkE u flt y y 0 0 false).
  destruct (exn (do_eval s e)); cbn [fst].
  - rewrite ncalls_do_eval. lia.
  - specialize (IH r (do_eval s e) u (ys ++ [y]) (sds ++ [sd])). rewrite ncalls_do_eval in IH. lia.
Qed.

Lemma final_phase_ncalls : forall o nfs fev s,
  ncalls (fo_st (final_phase o nfs fev s)) <= ncalls s + Z.max 0 nfs /\
  (o_det o = true -> fo_st (final_phase o nfs fev s) = s).
Proof.
  intros o nfs fev s.
  destruct (final_phase_cases o nfs fev s) as [(Hc & E) | (Hxs & Hd & Hp & [(_ & E) | (h & En & [(_ & E) | (Hn & s2 & ys & sds & Efs & [(Hx2 & E) | (Hx2 & E)])])])];
    rewrite E; cbn [fo_st]; (split; [|try (intros C; congruence); try reflexivity]).
  - lia.
  - lia.
  - unfold ncalls. cbn [set_cur calls]. lia.
  - pose proof (final_samples_ncalls (Z.to_nat nfs) (fe_obs fev) (set_cur s (fin_inc fev h)) (i_u (h_inc h)) [] []) as H.
    rewrite Efs in H. cbn [fst] in H. unfold ncalls in *. cbn [set_cur calls] in H. rewrite Z2Nat.id in H by lia. lia.
  - pose proof (final_samples_ncalls (Z.to_nat nfs) (fe_obs fev) (set_cur s (fin_inc fev h)) (i_u (h_inc h)) [] []) as H.
    rewrite Efs in H. cbn [fst] in H. unfold ncalls in *. cbn [set_cur calls] in *. rewrite Z2Nat.id in H by lia. lia.
Qed.

(* ================================================================== *)
(* 4. the end-to-end theorems                                          *)
(* ================================================================== *)
Lemma with_budget_fields : forall b o,
  o_maxfe (with_budget b o) = bo_maxfe (budget b) /\
  o_det (with_budget b o) = negb (is_noisy (bo_level (budget b))) /\
  o_stall (with_budget b o) = bo_stall (budget b) /\ o_D (with_budget b o) = bi_D b.
Proof. intros b o. unfold with_budget. cbn [o_maxfe o_det o_stall o_D]. repeat split; reflexivity. Qed.

Theorem total_calls_within_user_budget :
  forall (b : binp) (k0 ks0 : Z) (o : opts) (l : list init_call) (fsd0 : Q) (evs : list iter_ev) (fev : final_ev),
    Z.of_nat (List.length l) <= bo_init_calls (budget b) ->     (* the initial calls are the modelled ones (fewer if one faults) *)
    bo_init_calls (budget b) <= bi_mfe b ->                     (* PRECONDITION: the budget is at least the initial design *)
    0 <= bi_nfs b ->
    total_calls (whole_run b k0 ks0 o l fsd0 evs fev) <= bi_mfe b.
Proof.
  intros b k0 ks0 o l fsd0 evs fev Hl Hpre Hnfs.
  unfold total_calls, whole_run, run_full.
  destruct (with_budget_fields b o) as (W1 & W2 & W3 & W4).
  set (o' := with_budget b o) in *.
  destruct (final_phase_ncalls o' (bo_nfs (budget b)) fev (run k0 ks0 o' l fsd0 evs)) as [F1 F2].
  fold (ncalls (fo_st (final_phase o' (bo_nfs (budget b)) fev (run k0 ks0 o' l fsd0 evs)))).
  destruct (is_noisy (bo_level (budget b))) eqn:En.
  - destruct (reserve_exact b En) as (R1 & R2 & R3 & R4). destruct (R4 Hpre Hnfs) as [R5 R6].
    assert (Hloop : ncalls (run k0 ks0 o' l fsd0 evs) <= o_maxfe o').
    { apply loop_calls_within_loop_budget. rewrite W1. lia. }
    rewrite W1 in Hloop. lia.
  - destruct (budget_det b En) as (D1 & D2 & D3).
    assert (Hloop : ncalls (run k0 ks0 o' l fsd0 evs) <= o_maxfe o').
    { apply loop_calls_within_loop_budget. rewrite W1, D2. lia. }
    rewrite W1, D2 in Hloop. rewrite F2 by exact W2. exact Hloop.
Qed.

(* deterministic runs: nothing is reserved and the final phase evaluates nothing *)
Theorem det_reserves_nothing :
  forall (b : binp) (k0 ks0 : Z) (o : opts) (l : list init_call) (fsd0 : Q) (evs : list iter_ev) (fev : final_ev),
    is_noisy (bo_level (budget b)) = false ->
    bo_maxfe (budget b) = bi_mfe b /\ bo_nfs (budget b) = bi_nfs b /\ bo_stall (budget b) = bi_stall b /\
    fo_st (whole_run b k0 ks0 o l fsd0 evs fev) = run k0 ks0 (with_budget b o) l fsd0 evs /\
    fo_sampled (whole_run b k0 ks0 o l fsd0 evs fev) = false.
Proof.
  intros b k0 ks0 o l fsd0 evs fev En.
  destruct (budget_det b En) as (D1 & D2 & D3).
  destruct (with_budget_fields b o) as (W1 & W2 & W3 & W4).
  split; [exact D2|]. split; [exact D1|]. split; [exact D3|].
  unfold whole_run, run_full, final_phase. rewrite W2, En. cbn [negb]. rewrite orb_true_r. cbn [orb fo_st fo_sampled].
  split; reflexivity.
Qed.

(* noisy runs: when the re-sampling runs to completion it spends exactly the reserve, and a run that was stopped by
   the budget then ends with func_count = the USER's max_fun_evals *)
Theorem resampling_spends_the_reserve :
  forall (b : binp) (k0 ks0 : Z) (o : opts) (l : list init_call) (fsd0 : Q) (evs : list iter_ev) (fev : final_ev),
    let f := whole_run b k0 ks0 o l fsd0 evs fev in
    let s := run k0 ks0 (with_budget b o) l fsd0 evs in
    fo_sampled f = true -> exn (fo_st f) = false -> final_obs_ok (bo_nfs (budget b)) fev = true ->
    is_noisy (bo_level (budget b)) = true /\
    bo_nfs (budget b) = Z.min (bi_nfs b) (bi_mfe b - bo_init_calls (budget b)) /\
    fc (fo_st f) = fc s + bo_nfs (budget b) /\
    (bo_maxfe (budget b) <= fc s -> bi_mfe b <= fc (fo_st f)).
Proof.
  intros b k0 ks0 o l fsd0 evs fev f s Hs Hx Hobs.
  destruct (with_budget_fields b o) as (W1 & W2 & W3 & W4).
  assert (En : is_noisy (bo_level (budget b)) = true).
  { destruct (is_noisy (bo_level (budget b))) eqn:E; [reflexivity|].
    destruct (det_reserves_nothing b k0 ks0 o l fsd0 evs fev E) as (_ & _ & _ & _ & C). fold f in C. congruence. }
  destruct (reserve_exact b En) as (R1 & R2 & R3 & _).
  destruct (last_calls_at_x (with_budget b o) (bo_nfs (budget b)) fev s Hs Hx Hobs) as (_ & _ & _ & L4 & _).
  change (final_phase (with_budget b o) (bo_nfs (budget b)) fev s) with f in L4.
  split; [exact En|]. split; [exact R1|]. split; [exact L4|]. intros Hb. rewrite L4. lia.
Qed.

(* the message "max_fun_evals reached" in the USER's terms: the loop stopped at the user's budget minus the reserve *)
Theorem budget_message_in_user_terms :
  forall (b : binp) (o : opts) (s : st) (ev : iter_ev),
    fin s = false -> exn s = false ->
    let s' := step_iter (with_budget b o) s ev in
    fin s' = true -> msg s' = 1 ->
    (is_noisy (bo_level (budget b)) = false -> bi_mfe b <= fc s') /\
    (is_noisy (bo_level (budget b)) = true -> bi_mfe b - bo_nfs (budget b) <= fc s').
Proof.
  intros b o s ev Hf Hx s' Hf' Hm.
  destruct (with_budget_fields b o) as (W1 & _).
  pose proof (msg_truthful (with_budget b o) s ev Hf Hx Hf') as T. fold s' in T.
  assert (Hb : bo_maxfe (budget b) <= fc s').
  { destruct T as [(M & T)|[(M & _)|[(M & _)|(M & _)]]]; [rewrite W1 in T; exact T | lia | lia | lia]. }
  split; intros En.
  - destruct (budget_det b En) as (_ & D2 & _). lia.
  - destruct (reserve_exact b En) as (_ & R2 & _). lia.
Qed.

(* ================================================================== *)
(* 5. what is false outside the precondition (witnesses replayed on the real code by props/C03.py)   *)
(* ================================================================== *)
(* declared noise, D = 2, max_fun_evals = 25, defaults otherwise: the design has 32 rows *)
Definition wit_design : binp := mkBI 2 25 2 10 5 1 false 32.

Theorem design_exceeds_budget_refuted :
  exists b : binp, 2 <= bi_mfe b /\ 0 <= bi_nfs b /\ bo_crash (budget b) = false /\
    0 <= bi_survive b <= bo_rows (budget b) /\
    bi_mfe b < bo_init_calls (budget b) /\          (* 33 initial calls for a budget of 25 *)
    bo_nfs (budget b) < 0 /\                         (* the reserve is negative ... *)
    bi_mfe b < bo_maxfe (budget b).                  (* ... and inflates the loop budget *)
Proof. exists wit_design. vm_compute. repeat split; try reflexivity; intros C; discriminate C. Qed.

(* a negative noise_final_samples: the precondition on the design holds, the total exceeds the user's budget *)
Definition wit_negnfs : binp := mkBI 2 40 2 (-10) 5 1 false 32.
Definition wit_opts : opts := mkO 2 0 50 0 (-20) true 3 5 true 0 1 0 2 11 true (1 # 1000) true false.
Definition wit_eval (i : Z) : eval := mkE [inject_Z i; 0%Q] false 1 1 0 0 true.
Definition wit_init (n : nat) : list init_call := map (fun i => mkIC (wit_eval (Z.of_nat i)) true) (seq 0 n).
Definition wit_poll_iter (base : Z) : iter_ev :=
  mkIE 0 (mkSE None 0) (mkPE 4 [wit_eval base; wit_eval (base + 1); wit_eval (base + 2); wit_eval (base + 3)] None) None None.
Definition wit_fev : final_ev := mkFE 1 0 0 [] 0 0.

Theorem negative_nfs_exceeds_budget_refuted :
  exists (b : binp) (k0 ks0 : Z) (o : opts) (l : list init_call) (fsd0 : Q) (evs : list iter_ev) (fev : final_ev),
    Z.of_nat (List.length l) = bo_init_calls (budget b) /\ bo_init_calls (budget b) <= bi_mfe b /\
    bi_nfs b < 0 /\ bi_mfe b < total_calls (whole_run b k0 ks0 o l fsd0 evs fev).
Proof.
  exists wit_negnfs, 0, (-11), wit_opts, (wit_init 33), 1%Q,
         [wit_poll_iter 100; wit_poll_iter 200; wit_poll_iter 300], wit_fev.
  vm_compute. repeat split; try reflexivity; intros C; discriminate C.
Qed.

(* the message: precondition satisfied, the loop stops in iteration 0 with "max_fun_evals reached", the reserve is never
   spent: the run ends with FEWER calls than the user's max_fun_evals.  declared noise, D = 2, max_fun_evals = 36 *)
Definition wit_msg : binp := mkBI 2 36 2 10 5 1 false 32.
Definition wit_idle_iter : iter_ev := mkIE 0 (mkSE None 0) (mkPE 4 [] None) None None.

Theorem budget_message_unspent_reserve_refuted :
  exists (b : binp) (k0 ks0 : Z) (o : opts) (l : list init_call) (fsd0 : Q) (evs : list iter_ev) (fev : final_ev),
    let f := whole_run b k0 ks0 o l fsd0 evs fev in
    Z.of_nat (List.length l) = bo_init_calls (budget b) /\ bo_init_calls (budget b) <= bi_mfe b /\ 0 <= bi_nfs b /\
    fin (fo_st f) = true /\ msg (fo_st f) = 1 /\ exn (fo_st f) = false /\
    0 < bo_nfs (budget b) /\ fo_sampled f = false /\
    total_calls f < bi_mfe b.
Proof.
  exists wit_msg, 0, (-11), wit_opts, (wit_init 33), 1%Q, [wit_idle_iter], wit_fev.
  vm_compute. repeat split; try reflexivity; intros C; discriminate C.
Qed.

(* ================================================================== *)
(* 6. non-vacuity                                                      *)
(* ================================================================== *)
(* auto-detected noise, D = 2, max_fun_evals = 45: 34 initial calls, reserve 10, loop budget 35 *)
Theorem budget_example : exists b : binp,
  is_noisy (bo_level (budget b)) = true /\ bo_init_calls (budget b) = 34 /\ bo_init_calls (budget b) <= bi_mfe b /\
  bo_nfs (budget b) = 10 /\ bo_maxfe (budget b) = 35 /\ bo_rows (budget b) = 32 /\ design_runs b = true.
Proof. exists (mkBI 2 45 2 10 5 0 true 32). vm_compute. repeat split; try reflexivity; intros C; discriminate C. Qed.
