(* SkeletonCtrl.v — every proof behind Props/C03.v (termination, budget, counting, message) and
   Props/C13.v (mesh exponent updates).  Model: Model/Skeleton.v; side conditions: Model/SkeletonValid.v. *)
From Coq Require Import ZArith QArith List Bool Lia Lqa.
From PV Require Import Model.Val Model.Skeleton Model.SkeletonValid.
Import ListNotations.
Open Scope Z_scope.

Ltac prj := cbn [k ks scount ssucc spree piter fc nrows cur calls hist fin msg exn
                 set_ctrl set_cur p_s p_best p_inc p_cnt fst snd].

Tactic Notation "prj_in" hyp(H) :=
  cbn [k ks scount ssucc spree piter fc nrows cur calls hist fin msg exn
       set_ctrl set_cur p_s p_best p_inc p_cnt fst snd] in H.
Ltac splits := repeat match goal with |- _ /\ _ => split end.

(* ================================================================== *)
(* 1. comparisons                                                      *)
(* ================================================================== *)
Lemma qltb_true : forall a b, qltb a b = true -> (a < b)%Q.
Proof.
  intros a b H. unfold qltb in H. apply negb_true_iff in H.
  apply Qnot_le_lt. intros C. apply Qle_bool_iff in C. congruence.
Qed.

Lemma qltb_false : forall a b, qltb a b = false -> (b <= a)%Q.
Proof.
  intros a b H. unfold qltb in H. apply negb_false_iff in H. apply Qle_bool_iff. exact H.
Qed.

(* ================================================================== *)
(* 2. frame facts per phase                                            *)
(* ================================================================== *)

(* s' differs from s only by evaluations: control fields equal, fc/nrows grow *)
Definition frame (s s' : st) : Prop :=
  k s' = k s /\ ks s' = ks s /\ scount s' = scount s /\ ssucc s' = ssucc s /\ spree s' = spree s /\
  piter s' = piter s /\ cur s' = cur s /\ hist s' = hist s /\ fin s' = fin s /\ msg s' = msg s /\
  fc s <= fc s' /\ nrows s <= nrows s'.

Lemma frame_refl : forall s, frame s s.
Proof. intros s. unfold frame. repeat split; try reflexivity; lia. Qed.

Lemma frame_trans : forall a b c, frame a b -> frame b c -> frame a c.
Proof.
  intros a b c H1 H2. unfold frame in *.
  destruct H1 as (A1 & A2 & A3 & A4 & A5 & A6 & A7 & A8 & A9 & A10 & A11 & A12).
  destruct H2 as (B1 & B2 & B3 & B4 & B5 & B6 & B7 & B8 & B9 & B10 & B11 & B12).
  repeat split; try congruence; lia.
Qed.

Lemma do_eval_frame : forall s e, frame s (do_eval s e).
Proof.
  intros s e. unfold frame, do_eval. destruct (e_fault e); prj.
  - repeat split; try reflexivity; lia.
  - repeat split; try reflexivity; try lia. destruct (e_newrow e); lia.
Qed.

Lemma do_eval_exn : forall s e, exn (do_eval s e) = e_fault e.
Proof. intros s e. unfold do_eval. destruct (e_fault e); reflexivity. Qed.

Lemma do_eval_fc : forall s e, fc (do_eval s e) = if e_fault e then fc s else fc s + 1.
Proof. intros s e. unfold do_eval. destruct (e_fault e); reflexivity. Qed.

Lemma do_eval_calls : forall s e,
  calls (do_eval s e) = calls s ++ [(e_u e, if e_fault e then None else Some (e_y e))].
Proof. intros s e. unfold do_eval. destruct (e_fault e); reflexivity. Qed.

(* lock_ks only touches ks *)
Lemma lock_ks_spec : forall o s, let s' := lock_ks o s in
  k s' = k s /\ scount s' = scount s /\ ssucc s' = ssucc s /\ spree s' = spree s /\
  piter s' = piter s /\ cur s' = cur s /\ hist s' = hist s /\ fin s' = fin s /\ msg s' = msg s /\
  exn s' = exn s /\ fc s' = fc s /\ nrows s' = nrows s /\ calls s' = calls s.
Proof.
  intros o s. cbv zeta. unfold lock_ks. destruct (o_locked o); prj; repeat split; reflexivity.
Qed.

Lemma want_search_lock : forall o s, want_search o (lock_ks o s) = want_search o s.
Proof.
  intros o s. unfold want_search.
  destruct (lock_ks_spec o s) as (_ & H2 & _ & _ & _ & _ & _ & _ & _ & _ & _ & H12 & _).
  rewrite H2, H12. reflexivity.
Qed.

(* search phase *)
Lemma search_phase_spec : forall o SI ev s, let s' := search_phase o SI ev s in
  k s' = k s /\ ks s' = ks s /\ scount s' = scount s + 1 /\ spree s' = spree s /\
  piter s' = piter s /\ hist s' = hist s /\ fin s' = fin s /\ msg s' = msg s /\
  fc s <= fc s' <= fc s + 1 /\ nrows s <= nrows s' /\
  ssucc s <= ssucc s' /\ ssucc s' - ssucc s <= fc s' - fc s.
Proof.
  intros o SI ev [k0 ks0 sc ss sp pit f n c cl h fi m ex]. cbv zeta.
  unfold search_phase, do_eval. prj.
  destruct (se_eval ev) as [e|]; [|prj; repeat split; try reflexivity; lia].
  destruct (e_fault e); prj; [repeat split; try reflexivity; lia|].
  destruct (qltb SI (e_impr e)); destruct (qltb 0 (e_impr e) && o_sloppy o); cbn [orb]; prj;
    destruct (e_newrow e); repeat split; try reflexivity; lia.
Qed.

(* honest counting invariant *)
Definition J (s : st) : Prop :=
  fc s = n_valid (calls s) /\
  Z.of_nat (List.length (calls s)) = fc s + (if exn s then 1 else 0).

Lemma n_valid_app : forall c p,
  n_valid (c ++ [p]) = n_valid c + match snd p with Some _ => 1 | None => 0 end.
Proof.
  intros c p. unfold n_valid. rewrite filter_app, app_length, Nat2Z.inj_add.
  cbn [filter]. destruct (snd p); reflexivity.
Qed.

Lemma J_do_eval : forall s e, exn s = false -> J s -> J (do_eval s e).
Proof.
  intros s e Hex [H1 H2]. unfold J. rewrite do_eval_calls, do_eval_fc, do_eval_exn.
  rewrite n_valid_app, app_length, Nat2Z.inj_add. rewrite Hex in H2. cbn [snd List.length].
  destruct (e_fault e); split; lia.
Qed.

Lemma J_same : forall s s', calls s' = calls s -> fc s' = fc s -> exn s' = exn s -> J s -> J s'.
Proof. intros s s' Hc Hf He H. unfold J in *. rewrite Hc, Hf, He. exact H. Qed.

Lemma J_search_phase : forall o SI ev s, exn s = false -> J s -> J (search_phase o SI ev s).
Proof.
  intros o SI ev s Hex HJ. unfold search_phase.
  set (s1 := set_ctrl s (k s) (ks s) (scount s + 1) (ssucc s) (spree s)).
  assert (HJ1 : J s1) by (apply (J_same s); [reflexivity | reflexivity | reflexivity | exact HJ]).
  assert (Hex1 : exn s1 = false) by exact Hex.
  destruct (se_eval ev) as [e|]; [|exact HJ1]. cbv zeta.
  pose proof (J_do_eval s1 e Hex1 HJ1) as HJ2.
  set (s2 := do_eval s1 e) in *.
  destruct (exn s2); [exact HJ2|].
  destruct (qltb 0 (e_impr e) && o_sloppy o || qltb (SI) (e_impr e)); [|exact HJ2].
  destruct (qltb SI (e_impr e)); (apply (J_same s2); [reflexivity | reflexivity | reflexivity | exact HJ2]).
Qed.

(* poll decision *)
Lemma poll_decision_spec : forall o s,
  let s2 := fst (poll_decision o s) in let dp := snd (poll_decision o s) in
  ks s2 = ks s /\ piter s2 = piter s /\ cur s2 = cur s /\ hist s2 = hist s /\ fin s2 = fin s /\
  msg s2 = msg s /\ exn s2 = exn s /\ fc s2 = fc s /\ nrows s2 = nrows s /\ calls s2 = calls s /\
  (o_sme o = 0 -> k s2 = k s) /\
  (dp = true -> k s2 = k s) /\
  (k s <= o_maxgrid o -> k s <= k s2 <= o_maxgrid o) /\
  ((dp = true /\ scount s2 = 0 /\ ssucc s2 = 0) \/
   (dp = false /\ 0 < ssucc s /\ scount s2 = 0 /\ ssucc s2 = 0) \/
   (dp = false /\ s2 = s /\ scount s <> 0 /\ scount s <> o_ntry o)).
Proof.
  intros o s. cbv zeta. unfold poll_decision.
  destruct ((scount s =? 0) || (scount s =? o_ntry o)) eqn:Ed.
  - destruct ((0 <? ssucc s) && o_skip o) eqn:Esk; prj.
    + apply andb_true_iff in Esk. destruct Esk as [Esk _]. apply Z.ltb_lt in Esk.
      splits; try reflexivity.
      * intros Hsme. rewrite Hsme. rewrite Z.ltb_irrefl. reflexivity.
      * intros Hc; discriminate Hc.
      * intros Hk.
        destruct ((0 <? o_sme o) && ((spree s + 1) mod o_sme o =? 0) && (0 <? o_smi o)) eqn:Ek; [|lia].
        apply andb_true_iff in Ek. destruct Ek as [_ Ek]. apply Z.ltb_lt in Ek. lia.
      * right. left. splits; try reflexivity. exact Esk.
    + splits; first [reflexivity | lia | (left; splits; reflexivity)].
  - prj. apply orb_false_iff in Ed. destruct Ed as [Ed1 Ed2].
    apply Z.eqb_neq in Ed1. apply Z.eqb_neq in Ed2.
    splits; first [reflexivity | lia | (intros Hc; discriminate Hc)
                   | (right; right; splits; try reflexivity; assumption)].
Qed.

(* poll loop *)
Lemma poll_guard_true : forall o n a, poll_guard o n a = true ->
  fc (p_s a) < o_maxfe o /\ exn (p_s a) = false.
Proof.
  intros o n a H. unfold poll_guard in H.
  apply andb_true_iff in H. destruct H as [H H4].
  apply andb_true_iff in H. destruct H as [H _].
  apply andb_true_iff in H. destruct H as [H _].
  apply Z.ltb_lt in H. apply negb_true_iff in H4. split; assumption.
Qed.

Lemma poll_loop_frame : forall o n evs a, frame (p_s a) (p_s (poll_loop o n evs a)).
Proof.
  intros o n evs. induction evs as [|e r IH]; intros a; cbn [poll_loop].
  - apply frame_refl.
  - destruct (poll_guard o n a); [|apply frame_refl].
    destruct (exn (do_eval (p_s a) e)); [prj; apply do_eval_frame|].
    eapply frame_trans; [apply (do_eval_frame (p_s a) e)|].
    destruct (qltb (p_best a) (e_impr e)); exact (IH (mkP _ _ _ _)).
Qed.

Lemma poll_loop_exn_in : forall o n evs a, exn (p_s a) = true -> poll_loop o n evs a = a.
Proof.
  intros o n evs a Hex. destruct evs as [|e r]; cbn [poll_loop]; [reflexivity|].
  unfold poll_guard. rewrite Hex. cbn [negb]. rewrite andb_false_r. reflexivity.
Qed.

Lemma poll_loop_budget : forall o n evs a,
  fc (p_s a) <= o_maxfe o -> fc (p_s (poll_loop o n evs a)) <= o_maxfe o.
Proof.
  intros o n evs. induction evs as [|e r IH]; intros a Hle; cbn [poll_loop].
  - exact Hle.
  - destruct (poll_guard o n a) eqn:G; [|exact Hle].
    apply poll_guard_true in G. destruct G as [G _].
    assert (Hle' : fc (do_eval (p_s a) e) <= o_maxfe o).
    { rewrite do_eval_fc. destruct (e_fault e); lia. }
    destruct (exn (do_eval (p_s a) e)); [prj; exact Hle'|].
    destruct (qltb (p_best a) (e_impr e)); apply IH; prj; exact Hle'.
Qed.

Lemma poll_loop_J : forall o n evs a, J (p_s a) -> J (p_s (poll_loop o n evs a)).
Proof.
  intros o n evs. induction evs as [|e r IH]; intros a HJ; cbn [poll_loop].
  - exact HJ.
  - destruct (poll_guard o n a) eqn:G; [|exact HJ].
    apply poll_guard_true in G. destruct G as [_ G].
    pose proof (J_do_eval (p_s a) e G HJ) as HJ'.
    destruct (exn (do_eval (p_s a) e)); [prj; exact HJ'|].
    destruct (qltb (p_best a) (e_impr e)); apply IH; prj; exact HJ'.
Qed.

Lemma poll_loop_best : forall o n evs a0, let a := poll_loop o n evs a0 in
  (p_best a0 <= p_best a)%Q /\
  (p_best a = p_best a0 \/ exists e, In e evs /\ p_best a = e_impr e) /\
  (forall u y, In (u, Some y) (calls (p_s a)) ->
     In (u, Some y) (calls (p_s a0)) \/
     exists e, In e evs /\ e_u e = u /\ e_y e = y /\ (e_impr e <= p_best a)%Q).
Proof.
  intros o n evs. induction evs as [|e r IH]; intros a0; cbv zeta; cbn [poll_loop].
  - splits; [apply Qle_refl | left; reflexivity | intros u y Hin; left; exact Hin].
  - destruct (poll_guard o n a0) eqn:G.
    2:{ splits; [apply Qle_refl | left; reflexivity | intros u y Hin; left; exact Hin]. }
    destruct (exn (do_eval (p_s a0) e)) eqn:Ex.
    + prj. splits; [apply Qle_refl | left; reflexivity |].
      intros u y Hin. left. rewrite do_eval_calls in Hin. rewrite do_eval_exn in Ex. rewrite Ex in Hin.
      apply in_app_or in Hin. destruct Hin as [Hin|Hin]; [exact Hin|].
      cbn [In] in Hin. destruct Hin as [Hin|[]]. discriminate Hin.
    + rewrite do_eval_exn in Ex.
      assert (Hcalls : calls (do_eval (p_s a0) e) = calls (p_s a0) ++ [(e_u e, Some (e_y e))]).
      { rewrite do_eval_calls, Ex. reflexivity. }
      destruct (qltb (p_best a0) (e_impr e)) eqn:Eq.
      * apply qltb_true in Eq.
        specialize (IH (mkP (do_eval (p_s a0) e) (e_impr e) (inc_of e) (p_cnt a0 + 1))).
        cbv zeta in IH. prj_in IH.
        set (a := poll_loop o n r _) in *.
        destruct IH as (I1 & I2 & I3). splits.
        -- apply Qlt_le_weak in Eq. eapply Qle_trans; [exact Eq | exact I1].
        -- right. destruct I2 as [I2|[e' [I2 I2']]].
           ++ exists e. split; [left; reflexivity | exact I2].
           ++ exists e'. split; [right; exact I2 | exact I2'].
        -- intros u y Hin. apply I3 in Hin. destruct Hin as [Hin|[e' (H1 & H2 & H3 & H4)]].
           ++ rewrite Hcalls in Hin. apply in_app_or in Hin. destruct Hin as [Hin|Hin]; [left; exact Hin|].
              cbn [In] in Hin. destruct Hin as [Hin|[]]. injection Hin as Hu Hy.
              right. exists e. splits; [left; reflexivity | exact Hu | exact Hy | exact I1].
           ++ right. exists e'. splits; [right; exact H1 | exact H2 | exact H3 | exact H4].
      * apply qltb_false in Eq.
        specialize (IH (mkP (do_eval (p_s a0) e) (p_best a0) (p_inc a0) (p_cnt a0 + 1))).
        cbv zeta in IH. prj_in IH.
        set (a := poll_loop o n r _) in *.
        destruct IH as (I1 & I2 & I3). splits.
        -- exact I1.
        -- destruct I2 as [I2|[e' [I2 I2']]].
           ++ left. exact I2.
           ++ right. exists e'. split; [right; exact I2 | exact I2'].
        -- intros u y Hin. apply I3 in Hin. destruct Hin as [Hin|[e' (H1 & H2 & H3 & H4)]].
           ++ rewrite Hcalls in Hin. apply in_app_or in Hin. destruct Hin as [Hin|Hin]; [left; exact Hin|].
              cbn [In] in Hin. destruct Hin as [Hin|[]]. injection Hin as Hu Hy.
              right. exists e. splits; [left; reflexivity | exact Hu | exact Hy |].
              eapply Qle_trans; [exact Eq | exact I1].
           ++ right. exists e'. splits; [right; exact H1 | exact H2 | exact H3 | exact H4].
Qed.

(* poll phase *)
Definition accel_hit (o : opts) (ev : poll_ev) (s : st) : Prop :=
  o_accel o = true /\ o_accel_steps o < piter s /\
  exists h, pe_hist ev = Some h /\ (h < o_tolfun o)%Q.

Lemma poll_phase_spec : forall o SI ev s,
  let a := poll_loop o (pe_ncand ev) (pe_evals ev) (mkP s 0 (cur s) 0) in
  let s' := poll_phase o SI ev s in
  scount s' = scount s /\ ssucc s' = ssucc s /\ spree s' = spree s /\ piter s' = piter s /\
  hist s' = hist s /\ fin s' = fin s /\ msg s' = msg s /\
  fc s' = fc (p_s a) /\ nrows s' = nrows (p_s a) /\ calls s' = calls (p_s a) /\ exn s' = exn (p_s a) /\
  (exn s' = true -> k s' = k s /\ ks s' = ks s) /\
  (exn s' = false ->
     (qltb SI (p_best a) = true /\ k s' = Z.min (k s + 1) (o_maxgrid o) /\ ks s' = ks s) \/
     (qltb SI (p_best a) = false /\ ks s' = Z.min (ks s) (k s' * o_sgm o - o_sgn o) /\
      ((k s' = k s - 2 /\ accel_hit o ev s) \/ (k s' = k s - 1 /\ ~ accel_hit o ev s)))).
Proof.
  intros o SI ev s. cbv zeta. unfold poll_phase. cbv zeta.
  pose proof (poll_loop_frame o (pe_ncand ev) (pe_evals ev) (mkP s 0 (cur s) 0)) as F.
  prj_in F.
  set (a := poll_loop o (pe_ncand ev) (pe_evals ev) (mkP s 0 (cur s) 0)) in *.
  destruct F as (F1 & F2 & F3 & F4 & F5 & F6 & F7 & F8 & F9 & F10 & F11 & F12).
  destruct (exn (p_s a)) eqn:Ex.
  { rewrite Ex. splits; try assumption; try reflexivity.
    - intros _. split; assumption.
    - intros Hc; discriminate Hc. }
  set (moved := qltb 0 (p_best a) && o_sloppy o || qltb SI (p_best a)).
  set (s2 := if moved then set_cur (p_s a) (p_inc a) else p_s a).
  assert (E2 : k s2 = k (p_s a) /\ ks s2 = ks (p_s a) /\ scount s2 = scount (p_s a) /\
               ssucc s2 = ssucc (p_s a) /\ spree s2 = spree (p_s a) /\ piter s2 = piter (p_s a) /\
               hist s2 = hist (p_s a) /\ fin s2 = fin (p_s a) /\ msg s2 = msg (p_s a) /\
               fc s2 = fc (p_s a) /\ nrows s2 = nrows (p_s a) /\ calls s2 = calls (p_s a) /\
               exn s2 = exn (p_s a)).
  { subst s2. destruct moved; prj; splits; reflexivity. }
  clearbody s2. clear moved.
  destruct E2 as (G1 & G2 & G3 & G4 & G5 & G6 & G7 & G8 & G9 & G10 & G11 & G12 & G13).
  destruct (qltb SI (p_best a)) eqn:Eg; prj.
  - splits; try congruence.
    intros _. left. splits; [reflexivity | congruence | congruence].
  - splits; try congruence.
    intros _. right. split; [reflexivity|]. split; [congruence|].
    rewrite G1, G6, F1, F6. unfold accel_hit.
    destruct (o_accel o) eqn:Ea; cbn [andb].
    2:{ right. split; [reflexivity|]. intros (Hc & _). discriminate Hc. }
    destruct (o_accel_steps o <? piter s) eqn:Est.
    2:{ right. split; [reflexivity|]. apply Z.ltb_ge in Est. intros (_ & Hc & _). lia. }
    apply Z.ltb_lt in Est.
    destruct (pe_hist ev) as [h|] eqn:Eh.
    2:{ right. split; [reflexivity|]. intros (_ & _ & h & Hc & _). discriminate Hc. }
    destruct (qltb h (o_tolfun o)) eqn:Eq.
    + left. apply qltb_true in Eq. split; [lia|]. splits; [reflexivity | exact Est |].
      exists h. split; [reflexivity | exact Eq].
    + right. apply qltb_false in Eq. split; [reflexivity|].
      intros (_ & _ & h' & Hc & Hlt). injection Hc as Hc. subst h'.
      apply Qlt_not_le in Hlt. apply Hlt. exact Eq.
Qed.

(* termination tests *)
Lemma terminate_spec : forall o kobs stall s,
  let f := fst (terminate o kobs stall s) in let m := snd (terminate o kobs stall s) in
  (f = false /\ m = 0 /\ fc s < o_maxfe o /\ piter s < o_maxiter o - 1 /\ o_tolmesh o <= kobs) \/
  (f = true /\
   ((m = 1 /\ o_maxfe o <= fc s) \/ (m = 2 /\ o_maxiter o - 1 <= piter s) \/
    (m = 3 /\ kobs < o_tolmesh o) \/
    (m = 4 /\ o_stall o - 1 < piter s /\ exists h, stall = Some h /\ (h < o_tolfun o)%Q))).
Proof.
  intros o kobs stall s. cbv zeta. unfold terminate. cbv zeta.
  assert (T3 : let t3 := if kobs <? o_tolmesh o then (true, 3)
                         else if o_maxiter o - 1 <=? piter s then (true, 2)
                         else if o_maxfe o <=? fc s then (true, 1) else (false, 0) in
          (fst t3 = false /\ snd t3 = 0 /\ fc s < o_maxfe o /\ piter s < o_maxiter o - 1 /\ o_tolmesh o <= kobs) \/
          (fst t3 = true /\
           ((snd t3 = 1 /\ o_maxfe o <= fc s) \/ (snd t3 = 2 /\ o_maxiter o - 1 <= piter s) \/
            (snd t3 = 3 /\ kobs < o_tolmesh o)))).
  { cbv zeta.
    destruct (kobs <? o_tolmesh o) eqn:E3; [apply Z.ltb_lt in E3 | apply Z.ltb_ge in E3]; prj.
    { right. split; [reflexivity|]. right. right. split; [reflexivity | exact E3]. }
    destruct (o_maxiter o - 1 <=? piter s) eqn:E2; [apply Z.leb_le in E2 | apply Z.leb_gt in E2]; prj.
    { right. split; [reflexivity|]. right. left. split; [reflexivity | exact E2]. }
    destruct (o_maxfe o <=? fc s) eqn:E1; [apply Z.leb_le in E1 | apply Z.leb_gt in E1]; prj.
    { right. split; [reflexivity|]. left. split; [reflexivity | exact E1]. }
    left. splits; try reflexivity; lia. }
  cbv zeta in T3.
  set (t3 := if kobs <? o_tolmesh o then (true, 3)
             else if o_maxiter o - 1 <=? piter s then (true, 2)
             else if o_maxfe o <=? fc s then (true, 1) else (false, 0)) in *.
  assert (W : fst t3 = false /\ snd t3 = 0 /\ fc s < o_maxfe o /\ piter s < o_maxiter o - 1 /\ o_tolmesh o <= kobs \/
              fst t3 = true /\
              (snd t3 = 1 /\ o_maxfe o <= fc s \/ snd t3 = 2 /\ o_maxiter o - 1 <= piter s \/
               snd t3 = 3 /\ kobs < o_tolmesh o \/
               snd t3 = 4 /\ o_stall o - 1 < piter s /\ exists h, stall = Some h /\ (h < o_tolfun o)%Q)).
  { destruct T3 as [T3|[T3 T3']]; [left; exact T3|]. right. split; [exact T3|].
    destruct T3' as [T|[T|T]]; [left; exact T | right; left; exact T | right; right; left; exact T]. }
  destruct (o_stall o - 1 <? piter s) eqn:E4; [apply Z.ltb_lt in E4 | exact W].
  destruct stall as [h|]; [|exact W].
  destruct (qltb h (o_tolfun o)) eqn:Eq; [|exact W].
  apply qltb_true in Eq. prj. right. split; [reflexivity|]. right. right. right.
  splits; [reflexivity | exact E4 |]. exists h. split; [reflexivity | exact Eq].
Qed.

(* ================================================================== *)
(* 3. one iteration, decomposed                                        *)
(* ================================================================== *)
Definition it_s1 (o : opts) (s : st) (ev : iter_ev) : st :=
  if want_search o (lock_ks o s) then search_phase o (ie_SI ev) (ie_search ev) (lock_ks o s)
  else lock_ks o s.

Definition it_s3 (o : opts) (ev : iter_ev) (s1 : st) : st :=
  if snd (poll_decision o s1) then poll_phase o (ie_SI ev) (ie_poll ev) (fst (poll_decision o s1))
  else fst (poll_decision o s1).

Lemma step_iter_final : forall o s ev, fin s = true \/ exn s = true -> step_iter o s ev = s.
Proof.
  intros o s ev H. unfold step_iter.
  destruct H as [H|H]; rewrite H; [|rewrite orb_true_r]; reflexivity.
Qed.

Lemma run_loop_final : forall o evs s, fin s = true \/ exn s = true -> run_loop o s evs = s.
Proof.
  intros o evs. induction evs as [|ev r IH]; intros s H; cbn [run_loop fold_left]; [reflexivity|].
  rewrite step_iter_final by exact H. apply IH. exact H.
Qed.

Lemma step_iter_cases : forall o s ev, fin s = false -> exn s = false ->
  let s1 := it_s1 o s ev in
  let s3 := it_s3 o ev s1 in
  let dp := snd (poll_decision o s1) in
  let kobs := if dp then k s3 else k s in
  let tm := terminate o kobs (ie_stall ev) s3 in
  let s' := step_iter o s ev in
  (exn s1 = true /\ s' = s1) \/
  (exn s1 = false /\ exn s3 = true /\ s' = s3) \/
  (exn s1 = false /\ exn s3 = false /\ exn s' = false /\ fin s' = fst tm /\ msg s' = snd tm /\
   k s' = k s3 /\ ks s' = ks s3 /\ scount s' = scount s3 /\ ssucc s' = ssucc s3 /\
   spree s' = spree s3 /\ fc s' = fc s3 /\ nrows s' = nrows s3 /\ calls s' = calls s3 /\
   piter s' = (if negb (fst tm) && dp then piter s3 + 1 else piter s3)).
Proof.
  intros o s ev Hfin Hexn. cbv zeta. unfold step_iter, it_s3, it_s1.
  rewrite Hfin, Hexn. cbn [orb]. cbv zeta.
  set (s1 := if want_search o (lock_ks o s) then _ else _).
  destruct (exn s1) eqn:E1; [left; split; reflexivity|].
  right. destruct (poll_decision o s1) as [s2 dp]. cbn [fst snd].
  set (s3 := if dp then _ else s2).
  destruct (exn s3) eqn:E3; [left; splits; reflexivity|].
  right.
  assert (Hk : k (lock_ks o s) = k s) by (destruct (lock_ks_spec o s) as (Hk & _); exact Hk).
  rewrite Hk.
  destruct (terminate o (if dp then k s3 else k s) (ie_stall ev) s3) as [f m]. prj.
  splits; reflexivity.
Qed.

Lemma it_s1_spec : forall o s ev, let s1 := it_s1 o s ev in
  k s1 = k s /\ spree s1 = spree s /\ piter s1 = piter s /\ hist s1 = hist s /\
  fin s1 = fin s /\ msg s1 = msg s /\
  scount s1 = scount s + (if want_search o s then 1 else 0) /\
  fc s <= fc s1 <= fc s + (if want_search o s then 1 else 0) /\ nrows s <= nrows s1 /\
  ssucc s <= ssucc s1 /\ ssucc s1 - ssucc s <= fc s1 - fc s /\
  (ks s1 = ks s \/ ks s1 = Z.min 0 (k s * o_sgm o - o_sgn o)).
Proof.
  intros o s ev. cbv zeta. unfold it_s1. rewrite want_search_lock.
  destruct (lock_ks_spec o s) as (L1 & L2 & L3 & L4 & L5 & L6 & L7 & L8 & L9 & L10 & L11 & L12 & L13).
  assert (Lks : ks (lock_ks o s) = ks s \/ ks (lock_ks o s) = Z.min 0 (k s * o_sgm o - o_sgn o)).
  { unfold lock_ks. destruct (o_locked o); prj; [right | left]; reflexivity. }
  destruct (want_search o s).
  - destruct (search_phase_spec o (ie_SI ev) (ie_search ev) (lock_ks o s))
      as (S1 & S2 & S3 & S4 & S5 & S6 & S7 & S8 & S9 & S10 & S11 & S12).
    rewrite S2. splits; first [congruence | lia | exact Lks].
  - splits; first [congruence | lia | exact Lks].
Qed.

Lemma J_it_s1 : forall o s ev, exn s = false -> J s -> J (it_s1 o s ev).
Proof.
  intros o s ev Hex HJ. unfold it_s1.
  destruct (lock_ks_spec o s) as (L1 & L2 & L3 & L4 & L5 & L6 & L7 & L8 & L9 & L10 & L11 & L12 & L13).
  assert (HJ0 : J (lock_ks o s)) by (apply (J_same s); assumption).
  destruct (want_search o (lock_ks o s)); [|exact HJ0].
  apply J_search_phase; [congruence | exact HJ0].
Qed.

Lemma it_s3_spec : forall o ev s1, let s3 := it_s3 o ev s1 in let dp := snd (poll_decision o s1) in
  piter s3 = piter s1 /\ hist s3 = hist s1 /\ fin s3 = fin s1 /\ msg s3 = msg s1 /\
  spree s3 = spree (fst (poll_decision o s1)) /\
  fc s1 <= fc s3 /\ nrows s1 <= nrows s3 /\ (fc s1 <= o_maxfe o -> fc s3 <= o_maxfe o) /\
  (o_sme o = 0 -> dp = false -> k s3 = k s1) /\
  ((dp = true /\ scount s3 = 0 /\ ssucc s3 = 0) \/
   (dp = false /\ 0 < ssucc s1 /\ scount s3 = 0 /\ ssucc s3 = 0 /\ fc s3 = fc s1 /\ nrows s3 = nrows s1) \/
   (dp = false /\ s3 = s1 /\ scount s1 <> 0 /\ scount s1 <> o_ntry o)).
Proof.
  intros o ev s1. cbv zeta. unfold it_s3.
  destruct (poll_decision_spec o s1) as (D1 & D2 & D3 & D4 & D5 & D6 & D7 & D8 & D9 & D10 & D11 & D12 & D13 & D14).
  set (s2 := fst (poll_decision o s1)) in *.
  destruct (snd (poll_decision o s1)) eqn:Edp.
  - destruct (poll_phase_spec o (ie_SI ev) (ie_poll ev) s2)
      as (P1 & P2 & P3 & P4 & P5 & P6 & P7 & P8 & P9 & P10 & P11 & P12 & P13).
    pose proof (poll_loop_frame o (pe_ncand (ie_poll ev)) (pe_evals (ie_poll ev)) (mkP s2 0 (cur s2) 0)) as F.
    pose proof (poll_loop_budget o (pe_ncand (ie_poll ev)) (pe_evals (ie_poll ev)) (mkP s2 0 (cur s2) 0)) as B.
    prj_in F. prj_in B.
    set (a := poll_loop o (pe_ncand (ie_poll ev)) (pe_evals (ie_poll ev)) (mkP s2 0 (cur s2) 0)) in *.
    destruct F as (F1 & F2 & F3 & F4 & F5 & F6 & F7 & F8 & F9 & F10 & F11 & F12).
    splits; first [congruence | lia].
  - splits; try congruence; try lia.
    right. destruct D14 as [(Hc & _)|[(_ & E1 & E2 & E3)|(_ & E1 & E2 & E3)]]; try discriminate Hc.
      * left. splits; try assumption; reflexivity.
      * right. splits; try assumption; reflexivity.
Qed.

Lemma J_it_s3 : forall o ev s1, J s1 -> J (it_s3 o ev s1).
Proof.
  intros o ev s1 HJ. unfold it_s3.
  destruct (poll_decision_spec o s1) as (D1 & D2 & D3 & D4 & D5 & D6 & D7 & D8 & D9 & D10 & _).
  set (s2 := fst (poll_decision o s1)) in *.
  assert (HJ2 : J s2) by (apply (J_same s1); assumption).
  destruct (snd (poll_decision o s1)); [|exact HJ2].
  destruct (poll_phase_spec o (ie_SI ev) (ie_poll ev) s2)
    as (P1 & P2 & P3 & P4 & P5 & P6 & P7 & P8 & P9 & P10 & P11 & _).
  pose proof (poll_loop_J o (pe_ncand (ie_poll ev)) (pe_evals (ie_poll ev)) (mkP s2 0 (cur s2) 0) HJ2) as HJa.
  apply (J_same _ _ P10 P8 P11). exact HJa.
Qed.

Lemma run_loop_inv : forall (P : st -> Prop) o,
  (forall s ev, P s -> P (step_iter o s ev)) -> forall evs s, P s -> P (run_loop o s evs).
Proof.
  intros P o Hstep evs. induction evs as [|ev r IH]; intros s Hs; cbn [run_loop fold_left]; [exact Hs|].
  apply IH. apply Hstep. exact Hs.
Qed.

(* ================================================================== *)
(* 4. initial design                                                   *)
(* ================================================================== *)
Lemma init_calls_frame : forall l s recd, frame s (fst (init_calls s recd l)).
Proof.
  induction l as [|c r IH]; intros s recd; cbn [init_calls].
  - apply frame_refl.
  - destruct (exn s); [apply frame_refl|].
    destruct (exn (do_eval s (ic_eval c))); [apply do_eval_frame|].
    eapply frame_trans; [apply do_eval_frame | apply IH].
Qed.

Lemma init_calls_J : forall l s recd, J s -> J (fst (init_calls s recd l)).
Proof.
  induction l as [|c r IH]; intros s recd HJ; cbn [init_calls].
  - exact HJ.
  - destruct (exn s) eqn:Ex; [exact HJ|].
    pose proof (J_do_eval s (ic_eval c) Ex HJ) as HJ'.
    destruct (exn (do_eval s (ic_eval c))); [exact HJ'|].
    apply IH. exact HJ'.
Qed.

Lemma init_phase_spec : forall k0 ks0 o l fsd0, let s := init_phase k0 ks0 o l fsd0 in
  k s = k0 /\ ks s = ks0 /\ scount s = o_ntry o /\ ssucc s = 0 /\ piter s = 0 /\ fin s = false /\
  0 <= fc s /\ J s.
Proof.
  intros k0 ks0 o l fsd0. cbv zeta. unfold init_phase.
  pose proof (init_calls_frame l (init_state k0 ks0 o) []) as F.
  assert (HJ0 : J (init_state k0 ks0 o)) by (unfold J, init_state; prj; split; reflexivity).
  pose proof (init_calls_J l (init_state k0 ks0 o) [] HJ0) as HJ.
  destruct (init_calls (init_state k0 ks0 o) [] l) as [s recd]. cbn [fst] in F, HJ.
  destruct F as (F1 & F2 & F3 & F4 & F5 & F6 & F7 & F8 & F9 & F10 & F11 & F12).
  unfold init_state in F1, F2, F3, F4, F5, F6, F7, F8, F9, F10, F11, F12.
  prj_in F1. prj_in F2. prj_in F3. prj_in F4. prj_in F6. prj_in F9. prj_in F11.
  destruct (argmin_rows None recd) as [[u y]|]; prj.
  - splits; first [assumption | apply (J_same s); [reflexivity | reflexivity | reflexivity | exact HJ]].
  - splits; assumption.
Qed.

(* ================================================================== *)
(* 5. C03: finished is final, budget, iterations, counting, message    *)
(* ================================================================== *)
Theorem finished_is_final :
  forall (o : opts) (s : st) (evs : list iter_ev),
    fin s = true \/ exn s = true -> run_loop o s evs = s.
Proof. intros o s evs H. apply run_loop_final. exact H. Qed.

Lemma not_final_cases : forall s, (fin s = true \/ exn s = true) \/ (fin s = false /\ exn s = false).
Proof. intros s. destruct (fin s); destruct (exn s); auto. Qed.

(* budget *)
Definition Bud (o : opts) (s : st) : Prop :=
  fc s <= o_maxfe o /\
  (fin s = false -> exn s = false -> want_search o s = true -> fc s < o_maxfe o).

Lemma Bud_step : forall o s ev, Bud o s -> Bud o (step_iter o s ev).
Proof.
  intros o s ev HB.
  destruct (not_final_cases s) as [Hf|[Hfin Hexn]]; [rewrite step_iter_final by exact Hf; exact HB|].
  destruct HB as [B1 B2]. specialize (B2 Hfin Hexn).
  pose proof (step_iter_cases o s ev Hfin Hexn) as C. cbv zeta in C.
  destruct (it_s1_spec o s ev) as (A1 & A2 & A3 & A4 & A5 & A6 & A7 & A8 & A9 & A10 & A11 & A12).
  destruct (it_s3_spec o ev (it_s1 o s ev)) as (T1 & T2 & T3 & T4 & T5 & T6 & T7 & T8 & T9 & T10).
  set (s1 := it_s1 o s ev) in *. set (s3 := it_s3 o ev s1) in *.
  assert (H1 : fc s1 <= o_maxfe o).
  { destruct (want_search o s); [specialize (B2 eq_refl)|]; lia. }
  specialize (T8 H1).
  destruct C as [(E1 & Es)|[(E1 & E3 & Es)|(E1 & E3 & Ex & Ef & Em & Ek & Eks & Esc & Ess & Esp & Efc & Enr & Ecl & Epi)]].
  - rewrite Es. split; [exact H1|]. intros _ Hc. congruence.
  - rewrite Es. split; [exact T8|]. intros _ Hc. congruence.
  - unfold Bud. rewrite Efc. split; [exact T8|]. intros Hf' _ _. rewrite Ef in Hf'.
    destruct (terminate_spec o (if snd (poll_decision o s1) then k s3 else k s) (ie_stall ev) s3)
      as [(U1 & U2 & U3 & U4 & U5)|(U1 & _)]; [exact U3 | congruence].
Qed.

Theorem budget_respected :
  forall (k0 ks0 : Z) (o : opts) (l : list init_call) (fsd0 : Q) (evs : list iter_ev),
    fc (init_phase k0 ks0 o l fsd0) <= o_maxfe o ->
    fc (run k0 ks0 o l fsd0 evs) <= o_maxfe o.
Proof.
  intros k0 ks0 o l fsd0 evs Hinit. unfold run.
  destruct (init_phase_spec k0 ks0 o l fsd0) as (I1 & I2 & I3 & I4 & I5 & I6 & I7 & I8).
  assert (HB : Bud o (run_loop o (init_phase k0 ks0 o l fsd0) evs)).
  { apply (run_loop_inv (Bud o)); [intros s ev; apply Bud_step|].
    split; [exact Hinit|]. intros _ _ Hw. unfold want_search in Hw. rewrite I3 in Hw.
    rewrite Z.ltb_irrefl in Hw. discriminate Hw. }
  destruct HB as [HB _]. exact HB.
Qed.

(* iterations *)
Lemma piter_step : forall o s ev,
  piter s <= o_maxiter o - 1 -> piter (step_iter o s ev) <= o_maxiter o - 1.
Proof.
  intros o s ev HP.
  destruct (not_final_cases s) as [Hf|[Hfin Hexn]]; [rewrite step_iter_final by exact Hf; exact HP|].
  pose proof (step_iter_cases o s ev Hfin Hexn) as C. cbv zeta in C.
  destruct (it_s1_spec o s ev) as (A1 & A2 & A3 & A4 & A5 & A6 & A7 & A8 & A9 & A10 & A11 & A12).
  destruct (it_s3_spec o ev (it_s1 o s ev)) as (T1 & T2 & T3 & T4 & T5 & T6 & T7 & T8 & T9 & T10).
  set (s1 := it_s1 o s ev) in *. set (s3 := it_s3 o ev s1) in *.
  destruct C as [(E1 & Es)|[(E1 & E3 & Es)|(E1 & E3 & Ex & Ef & Em & Ek & Eks & Esc & Ess & Esp & Efc & Enr & Ecl & Epi)]].
  - rewrite Es. lia.
  - rewrite Es. lia.
  - rewrite Epi.
    destruct (terminate_spec o (if snd (poll_decision o s1) then k s3 else k s) (ie_stall ev) s3)
      as [(U1 & U2 & U3 & U4 & U5)|(U1 & _)]; rewrite U1; cbn [negb andb]; [|lia].
    destruct (snd (poll_decision o s1)); lia.
Qed.

Theorem maxiter_respected :
  forall (k0 ks0 : Z) (o : opts) (l : list init_call) (fsd0 : Q) (evs : list iter_ev),
    1 <= o_maxiter o ->
    piter (run k0 ks0 o l fsd0 evs) <= o_maxiter o - 1.
Proof.
  intros k0 ks0 o l fsd0 evs Hmi. unfold run.
  destruct (init_phase_spec k0 ks0 o l fsd0) as (I1 & I2 & I3 & I4 & I5 & I6 & I7 & I8).
  apply (run_loop_inv (fun s => piter s <= o_maxiter o - 1)); [intros s ev; apply piter_step|].
  rewrite I5. lia.
Qed.

(* honest counting *)
Lemma J_step : forall o s ev, J s -> J (step_iter o s ev).
Proof.
  intros o s ev HJ.
  destruct (not_final_cases s) as [Hf|[Hfin Hexn]]; [rewrite step_iter_final by exact Hf; exact HJ|].
  pose proof (step_iter_cases o s ev Hfin Hexn) as C. cbv zeta in C.
  pose proof (J_it_s1 o s ev Hexn HJ) as HJ1.
  pose proof (J_it_s3 o ev (it_s1 o s ev) HJ1) as HJ3.
  set (s1 := it_s1 o s ev) in *. set (s3 := it_s3 o ev s1) in *.
  destruct C as [(E1 & Es)|[(E1 & E3 & Es)|(E1 & E3 & Ex & Ef & Em & Ek & Eks & Esc & Ess & Esp & Efc & Enr & Ecl & Epi)]].
  - rewrite Es. exact HJ1.
  - rewrite Es. exact HJ3.
  - apply (J_same s3); [exact Ecl | exact Efc | congruence | exact HJ3].
Qed.

Theorem func_count_exact_run :
  forall (k0 ks0 : Z) (o : opts) (l : list init_call) (fsd0 : Q) (evs : list iter_ev),
    let s := run k0 ks0 o l fsd0 evs in
    fc s = n_valid (calls s) /\
    Z.of_nat (List.length (calls s)) = fc s + (if exn s then 1 else 0).
Proof.
  intros k0 ks0 o l fsd0 evs. cbv zeta. unfold run.
  destruct (init_phase_spec k0 ks0 o l fsd0) as (I1 & I2 & I3 & I4 & I5 & I6 & I7 & I8).
  apply (run_loop_inv J); [intros s ev; apply J_step | exact I8].
Qed.

(* message *)
Theorem msg_truthful :
  forall (o : opts) (s : st) (ev : iter_ev),
    fin s = false -> exn s = false ->
    let s' := step_iter o s ev in
    fin s' = true ->
    (msg s' = 1 /\ o_maxfe o <= fc s') \/
    (msg s' = 2 /\ o_maxiter o - 1 <= piter s') \/
    (msg s' = 3 /\ exists kobs, kobs < o_tolmesh o /\ (o_sme o = 0 -> kobs = k s')) \/
    (msg s' = 4 /\ o_stall o - 1 < piter s' /\ exists h, ie_stall ev = Some h /\ (h < o_tolfun o)%Q).
Proof.
  intros o s ev Hfin Hexn. cbv zeta. intros Hfin'.
  pose proof (step_iter_cases o s ev Hfin Hexn) as C. cbv zeta in C.
  destruct (it_s1_spec o s ev) as (A1 & A2 & A3 & A4 & A5 & A6 & A7 & A8 & A9 & A10 & A11 & A12).
  destruct (it_s3_spec o ev (it_s1 o s ev)) as (T1 & T2 & T3 & T4 & T5 & T6 & T7 & T8 & T9 & T10).
  set (s1 := it_s1 o s ev) in *. set (s3 := it_s3 o ev s1) in *.
  destruct C as [(E1 & Es)|[(E1 & E3 & Es)|(E1 & E3 & Ex & Ef & Em & Ek & Eks & Esc & Ess & Esp & Efc & Enr & Ecl & Epi)]].
  - rewrite Es in Hfin'. congruence.
  - rewrite Es in Hfin'. congruence.
  - rewrite Ef in Hfin'. rewrite Hfin' in Epi. cbn [negb andb] in Epi.
    rewrite Em, Epi, Efc.
    destruct (terminate_spec o (if snd (poll_decision o s1) then k s3 else k s) (ie_stall ev) s3)
      as [(U1 & _)|(_ & U)]; [congruence|].
    destruct U as [U|[U|[(U1 & U2)|U]]].
    + left. exact U.
    + right. left. exact U.
    + right. right. left. split; [exact U1|].
      exists (if snd (poll_decision o s1) then k s3 else k s). split; [exact U2|].
      intros Hsme. rewrite Ek.
      destruct (snd (poll_decision o s1)) eqn:Edp; [reflexivity|].
      rewrite (T9 Hsme eq_refl). congruence.
    + right. right. right. exact U.
Qed.

(* ================================================================== *)
(* 6. C03: termination for every oracle stream                         *)
(* ================================================================== *)
(* scount leaves {0, ntry} only through a search, and once a search was possible it stays possible *)
Definition Inv (o : opts) (s : st) : Prop :=
  scount s = o_ntry o \/ scount s = 0 \/ want_search o s = true.

(* potential: remaining non-finishing polls, remaining evaluation credit, steps to the next decision *)
Definition PA (o : opts) (s : st) : Z := Z.max 0 (o_maxiter o - 1 - piter s).
Definition PC (o : opts) (s : st) : Z := Z.max 0 (o_maxfe o - 1 - fc s) + Z.max 0 (ssucc s).
Definition PR (o : opts) (s : st) : Z := if want_search o s then o_ntry o - scount s - 1 else 0.
Definition Phi (o : opts) (s : st) : Z := (PA o s + PC o s) * Z.max 1 (o_ntry o) + PR o s.

Lemma lex_dec : forall W a c r a' c' r', 1 <= W -> 0 <= r -> 0 <= r' ->
  (a' + c' < a + c /\ r' <= W - 1) \/ (a' + c' <= a + c /\ r' < r) ->
  (a' + c') * W + r' < (a + c) * W + r.
Proof. intros W a c r a' c' r' HW Hr Hr' H. nia. Qed.

Lemma want_search_true : forall o s, want_search o s = true -> scount s < o_ntry o /\ o_D o < nrows s.
Proof.
  intros o s H. unfold want_search in H. apply andb_true_iff in H. destruct H as [H1 H2].
  apply Z.ltb_lt in H1. apply Z.ltb_lt in H2. split; assumption.
Qed.

Lemma want_search_intro : forall o s, scount s < o_ntry o -> o_D o < nrows s -> want_search o s = true.
Proof.
  intros o s H1 H2. unfold want_search. apply andb_true_iff. split; apply Z.ltb_lt; assumption.
Qed.

Lemma PR_bounds : forall o s,
  0 <= PR o s /\ (scount s = 0 -> PR o s <= Z.max 1 (o_ntry o) - 1).
Proof.
  intros o s. unfold PR. destruct (want_search o s) eqn:E; [|lia].
  apply want_search_true in E. lia.
Qed.

Lemma Phi_nonneg : forall o s, 0 <= Phi o s.
Proof.
  intros o s. unfold Phi. destruct (PR_bounds o s) as [R0 _].
  assert (0 <= PA o s + PC o s) by (unfold PA, PC; lia).
  assert (1 <= Z.max 1 (o_ntry o)) by lia. nia.
Qed.

Lemma step_progress : forall o s ev,
  Inv o s -> fin s = false -> exn s = false ->
  fin (step_iter o s ev) = false -> exn (step_iter o s ev) = false ->
  Inv o (step_iter o s ev) /\ Phi o (step_iter o s ev) < Phi o s.
Proof.
  intros o s ev HI Hfin Hexn Hfin' Hexn'.
  pose proof (step_iter_cases o s ev Hfin Hexn) as C. cbv zeta in C.
  destruct (it_s1_spec o s ev) as (A1 & A2 & A3 & A4 & A5 & A6 & A7 & A8 & A9 & A10 & A11 & A12).
  destruct (it_s3_spec o ev (it_s1 o s ev)) as (T1 & T2 & T3 & T4 & T5 & T6 & T7 & T8 & T9 & T10).
  set (s1 := it_s1 o s ev) in *. set (s3 := it_s3 o ev s1) in *. set (s' := step_iter o s ev) in *.
  destruct C as [(E1 & Es)|[(E1 & E3 & Es)|(E1 & E3 & Ex & Ef & Em & Ek & Eks & Esc & Ess & Esp & Efc & Enr & Ecl & Epi)]].
  - rewrite Es in Hexn'. congruence.
  - rewrite Es in Hexn'. congruence.
  - rewrite Ef in Hfin'.
    destruct (terminate_spec o (if snd (poll_decision o s1) then k s3 else k s) (ie_stall ev) s3)
      as [(U1 & U2 & U3 & U4 & U5)|(U1 & _)]; [|congruence].
    rewrite Hfin' in Epi. cbn [negb andb] in Epi.
    destruct (PR_bounds o s) as [R0 _]. destruct (PR_bounds o s') as [R0' R1'].
    assert (HW : 1 <= Z.max 1 (o_ntry o)) by lia.
    destruct T10 as [(Dp & Z1 & Z2)|[(Dp & Z0 & Z1 & Z2 & Z3 & Z4)|(Dp & Z1 & Z2 & Z3)]];
      rewrite Dp in Epi.
    + (* poll *)
      split; [right; left; congruence|].
      unfold Phi. apply lex_dec; try assumption. left.
      split; [|apply R1'; congruence].
      unfold PA, PC. rewrite Epi, Efc, Ess. lia.
    + (* skipped poll after a successful search *)
      split; [right; left; congruence|].
      unfold Phi. apply lex_dec; try assumption. left.
      split; [|apply R1'; congruence].
      unfold PA, PC. rewrite Epi, Efc, Ess. lia.
    + (* in-between search *)
      destruct (want_search o s) eqn:Ews.
      2:{ exfalso. destruct HI as [HI|[HI|HI]]; [lia | lia | congruence]. }
      apply want_search_true in Ews. destruct Ews as [W1 W2].
      assert (Ews' : want_search o s' = true).
      { apply want_search_intro; rewrite ?Esc, ?Enr, Z1; lia. }
      split; [right; right; exact Ews'|].
      unfold Phi. apply lex_dec; try assumption. right.
      assert (Ews : want_search o s = true) by (apply want_search_intro; assumption).
      split.
      * unfold PA, PC. rewrite Epi, Efc, Ess, Z1. lia.
      * unfold PR. rewrite Ews, Ews', Esc, Z1. lia.
Qed.

Lemma bounded_run : forall o (stream : nat -> iter_ev) n start s,
  Inv o s -> Phi o s < Z.of_nat n ->
  exists m, (m <= n)%nat /\
    let s' := run_loop o s (map stream (seq start m)) in fin s' = true \/ exn s' = true.
Proof.
  intros o stream n. induction n as [|n IH]; intros start s HI HP.
  - pose proof (Phi_nonneg o s) as Hnn. lia.
  - destruct (not_final_cases s) as [Hf|[Hfin Hexn]].
    + exists 0%nat. split; [lia|]. cbn [seq map run_loop fold_left]. exact Hf.
    + destruct (not_final_cases (step_iter o s (stream start))) as [Hf'|[Hfin' Hexn']].
      * exists 1%nat. split; [lia|]. cbn [seq map run_loop fold_left]. exact Hf'.
      * destruct (step_progress o s (stream start) HI Hfin Hexn Hfin' Hexn') as [HI' HP'].
        destruct (IH (S start) (step_iter o s (stream start)) HI') as [m [Hm Hs]]; [lia|].
        exists (S m). split; [lia|]. cbn [seq map run_loop fold_left]. exact Hs.
Qed.

Theorem loop_terminates :
  forall (k0 ks0 : Z) (o : opts) (l : list init_call) (fsd0 : Q) (stream : nat -> iter_ev),
    1 <= o_maxiter o ->
    exists n : nat, (n <= iter_bound o)%nat /\
      let s := run k0 ks0 o l fsd0 (map stream (seq 0 n)) in fin s = true \/ exn s = true.
Proof.
  intros k0 ks0 o l fsd0 stream Hmi. unfold run.
  destruct (init_phase_spec k0 ks0 o l fsd0) as (I1 & I2 & I3 & I4 & I5 & I6 & I7 & I8).
  apply bounded_run.
  - left. exact I3.
  - unfold Phi, PA, PC, PR, want_search. rewrite I3, I4, I5, Z.ltb_irrefl. cbn [andb].
    unfold iter_bound.
    set (f0 := fc (init_phase k0 ks0 o l fsd0)) in *.
    assert (Ha : Z.max 0 (o_maxiter o - 1 - 0) = o_maxiter o - 1) by lia.
    assert (Hc : 0 <= Z.max 0 (o_maxfe o - 1 - f0) + Z.max 0 0 <= Z.max 0 (o_maxfe o)) by lia.
    assert (Hb : Z.max 1 (o_maxiter o) = o_maxiter o) by lia.
    rewrite Ha, Hb.
    set (c := Z.max 0 (o_maxfe o - 1 - f0) + Z.max 0 0) in *.
    set (F := Z.max 0 (o_maxfe o)) in *.
    set (W := Z.max 1 (o_ntry o)) in *.
    assert (HW : 1 <= W) by (subst W; lia).
    rewrite Z2Nat.id by nia. nia.
Qed.

(* non-vacuity: a concrete run that polls, then searches and polls, then stops on max_iter *)
Definition ex_opts : opts :=
  mkO 1 100 2 1 (-20) false 0 20 true 0 1 0 2 3 false (1 # 1000) false true.
Definition ex_eval (u y impr : Q) : eval := mkE [u] false y y 0 impr true.
Definition ex_init : list init_call :=
  [mkIC (ex_eval 0 5 0) true; mkIC (ex_eval 1 4 0) true].
Definition ex_iters : list iter_ev :=
  [mkIE (1 # 10) (mkSE None 0) (mkPE 2 [ex_eval 2 3 1; ex_eval (1 # 2) 6 (-2)] None) None None;
   mkIE (1 # 10) (mkSE (Some (ex_eval 3 (7 # 2) (-1 # 2))) 0) (mkPE 2 [ex_eval 4 9 (-6)] None) None None].

Theorem example_run_terminates : exists evs o l,
  fin (run 0 (-10) o l 0 evs) = true /\ 1 <= o_maxiter o /\ (2 <= List.length evs)%nat.
Proof.
  exists ex_iters, ex_opts, ex_init. split; [vm_compute; reflexivity|].
  split; [vm_compute; discriminate | cbn [ex_iters List.length]; lia].
Qed.

(* ================================================================== *)
(* 7. C13: mesh exponents                                              *)
(* ================================================================== *)
Definition M (o : opts) (s : st) : Prop := k s <= o_maxgrid o /\ ks s <= k s.

Lemma grid_le : forall o x, ctrl_sane o -> x <= o_maxgrid o -> x * o_sgm o - o_sgn o <= x.
Proof. intros o x (_ & H1 & H2 & H3) Hx. nia. Qed.

Lemma M_it_s1 : forall o s ev, ctrl_sane o -> M o s -> M o (it_s1 o s ev).
Proof.
  intros o s ev Hs [M1 M2].
  destruct (it_s1_spec o s ev) as (A1 & _ & _ & _ & _ & _ & _ & _ & _ & _ & _ & A12).
  pose proof (grid_le o (k s) Hs M1) as G.
  unfold M. rewrite A1. split; [exact M1|]. destruct A12 as [A12|A12]; rewrite A12; lia.
Qed.

Lemma M_it_s3 : forall o ev s1, ctrl_sane o -> M o s1 -> M o (it_s3 o ev s1).
Proof.
  intros o ev s1 Hs [M1 M2]. unfold it_s3.
  destruct (poll_decision_spec o s1) as (D1 & _ & _ & _ & _ & _ & _ & _ & _ & _ & _ & _ & D13 & _).
  specialize (D13 M1).
  set (s2 := fst (poll_decision o s1)) in *.
  assert (HM2 : M o s2) by (unfold M; lia).
  destruct (snd (poll_decision o s1)); [|exact HM2].
  destruct (poll_phase_spec o (ie_SI ev) (ie_poll ev) s2)
    as (_ & _ & _ & _ & _ & _ & _ & _ & _ & _ & _ & P12 & P13).
  set (s3 := poll_phase o (ie_SI ev) (ie_poll ev) s2) in *.
  unfold M. destruct (exn s3).
  - destruct (P12 eq_refl) as [Q1 Q2]. lia.
  - destruct (P13 eq_refl) as [(_ & Q1 & Q2)|(_ & Q2 & Q1)]; [lia|].
    assert (Hk : k s3 <= k s2) by (destruct Q1 as [(Q1 & _)|(Q1 & _)]; lia).
    assert (Hk' : k s3 <= o_maxgrid o) by lia.
    pose proof (grid_le o (k s3) Hs Hk') as G. lia.
Qed.

Lemma M_step : forall o s ev, ctrl_sane o -> M o s -> M o (step_iter o s ev).
Proof.
  intros o s ev Hs HM.
  destruct (not_final_cases s) as [Hf|[Hfin Hexn]]; [rewrite step_iter_final by exact Hf; exact HM|].
  pose proof (step_iter_cases o s ev Hfin Hexn) as C. cbv zeta in C.
  pose proof (M_it_s1 o s ev Hs HM) as HM1.
  pose proof (M_it_s3 o ev (it_s1 o s ev) Hs HM1) as HM3.
  set (s1 := it_s1 o s ev) in *. set (s3 := it_s3 o ev s1) in *.
  destruct C as [(E1 & Es)|[(E1 & E3 & Es)|(E1 & E3 & Ex & Ef & Em & Ek & Eks & _)]].
  - rewrite Es. exact HM1.
  - rewrite Es. exact HM3.
  - unfold M in *. rewrite Ek, Eks. exact HM3.
Qed.

Theorem mesh_invariant :
  forall (k0 ks0 : Z) (o : opts) (l : list init_call) (fsd0 : Q) (evs : list iter_ev),
    ctrl_sane o -> k0 <= o_maxgrid o -> ks0 <= k0 ->
    let s := run k0 ks0 o l fsd0 evs in
    k s <= o_maxgrid o /\ ks s <= k s.
Proof.
  intros k0 ks0 o l fsd0 evs Hs Hk Hks. cbv zeta. unfold run.
  destruct (init_phase_spec k0 ks0 o l fsd0) as (I1 & I2 & _).
  apply (run_loop_inv (M o)); [intros s ev; apply M_step; exact Hs|].
  unfold M. rewrite I1, I2. split; assumption.
Qed.

Theorem poll_update :
  forall (o : opts) (SI : Q) (ev : poll_ev) (s : st),
    let a := poll_loop o (pe_ncand ev) (pe_evals ev) (mkP s 0 (cur s) 0) in
    let s' := poll_phase o SI ev s in
    exn s' = false ->
    (qltb SI (p_best a) = true /\ k s' = Z.min (k s + 1) (o_maxgrid o)) \/
    (qltb SI (p_best a) = false /\
     ((k s' = k s - 2 /\ o_accel o = true /\ o_accel_steps o < piter s /\
       exists h, pe_hist ev = Some h /\ (h < o_tolfun o)%Q) \/
      (k s' = k s - 1 /\ ~ (o_accel o = true /\ o_accel_steps o < piter s /\
                            exists h, pe_hist ev = Some h /\ (h < o_tolfun o)%Q)))).
Proof.
  intros o SI ev s. cbv zeta. intros Hex.
  destruct (poll_phase_spec o SI ev s) as (_ & _ & _ & _ & _ & _ & _ & _ & _ & _ & _ & _ & P13).
  destruct (P13 Hex) as [(Q1 & Q2 & _)|(Q1 & _ & Q2)].
  - left. split; assumption.
  - right. split; [exact Q1|]. exact Q2.
Qed.

Theorem poll_best_is_max :
  forall (o : opts) (ev : poll_ev) (s : st),
    let a := poll_loop o (pe_ncand ev) (pe_evals ev) (mkP s 0 (cur s) 0) in
    (0 <= p_best a)%Q /\
    (p_best a == 0 \/ exists e, In e (pe_evals ev) /\ p_best a = e_impr e)%Q /\
    (forall u y, In (u, Some y) (calls (p_s a)) -> In (u, Some y) (calls s) \/
                 exists e, In e (pe_evals ev) /\ e_u e = u /\ e_y e = y /\ (e_impr e <= p_best a)%Q).
Proof.
  intros o ev s. cbv zeta.
  destruct (poll_loop_best o (pe_ncand ev) (pe_evals ev) (mkP s 0 (cur s) 0)) as (B1 & B2 & B3).
  prj_in B1. prj_in B2. prj_in B3.
  splits.
  - exact B1.
  - destruct B2 as [B2|B2]; [left; rewrite B2; apply Qeq_refl | right; exact B2].
  - exact B3.
Qed.

Theorem only_polls_change_mesh :
  forall (o : opts) (s : st) (ev : iter_ev),
    o_sme o = 0 ->
    let s0 := lock_ks o s in
    let s1 := if want_search o s0 then search_phase o (ie_SI ev) (ie_search ev) s0 else s0 in
    k s1 = k s /\ (snd (poll_decision o s1) = false -> k (step_iter o s ev) = k s).
Proof.
  intros o s ev Hsme s0 s1.
  assert (E : s1 = it_s1 o s ev) by reflexivity. clearbody s1. clear s0. subst s1.
  destruct (it_s1_spec o s ev) as (A1 & _).
  split; [exact A1|]. intros Hdp.
  destruct (not_final_cases s) as [Hf|[Hfin Hexn]]; [rewrite step_iter_final by exact Hf; reflexivity|].
  pose proof (step_iter_cases o s ev Hfin Hexn) as C. cbv zeta in C.
  destruct (it_s3_spec o ev (it_s1 o s ev)) as (_ & _ & _ & _ & _ & _ & _ & _ & T9 & _).
  specialize (T9 Hsme Hdp).
  set (s1 := it_s1 o s ev) in *. set (s3 := it_s3 o ev s1) in *.
  destruct C as [(E1 & Es)|[(E1 & E3 & Es)|(E1 & E3 & Ex & Ef & Em & Ek & _)]].
  - rewrite Es. exact A1.
  - rewrite Es. congruence.
  - congruence.
Qed.

Definition ex13_opts : opts :=
  mkO 1 100 50 3 (-20) false 0 20 true 1 1 0 2 3 false (1 # 1000) false true.
Definition ex13_st : st :=
  mkSt (-3) (-8) 0 1 0 4 10 0 (mkI [0%Q] 1 1 0) [] [] false 0 false.
Definition ex13_ev : iter_ev := mkIE (1 # 10) (mkSE None 0) (mkPE 0 [] None) None None.

Theorem spree_expansion_exists : exists o s ev,
  0 < o_sme o /\ snd (poll_decision o s) = false /\ k (step_iter o s ev) = k s + 1.
Proof.
  exists ex13_opts, ex13_st, ex13_ev.
  split; [vm_compute; reflexivity|]. split; vm_compute; reflexivity.
Qed.

Theorem tolmesh_msg :
  forall (o : opts) (s : st) (ev : iter_ev),
    o_sme o = 0 -> fin s = false -> exn s = false ->
    exn (step_iter o s ev) = false ->
    msg (step_iter o s ev) = 3 -> k (step_iter o s ev) < o_tolmesh o.
Proof.
  intros o s ev Hsme Hfin Hexn Hexn' Hmsg.
  pose proof (step_iter_cases o s ev Hfin Hexn) as C. cbv zeta in C.
  destruct (it_s1_spec o s ev) as (A1 & _).
  destruct (it_s3_spec o ev (it_s1 o s ev)) as (_ & _ & _ & _ & _ & _ & _ & _ & T9 & _).
  specialize (T9 Hsme).
  set (s1 := it_s1 o s ev) in *. set (s3 := it_s3 o ev s1) in *. set (s' := step_iter o s ev) in *.
  destruct C as [(E1 & Es)|[(E1 & E3 & Es)|(E1 & E3 & Ex & Ef & Em & Ek & _)]].
  - rewrite Es in Hexn'. congruence.
  - rewrite Es in Hexn'. congruence.
  - rewrite Em in Hmsg.
    destruct (terminate_spec o (if snd (poll_decision o s1) then k s3 else k s) (ie_stall ev) s3)
      as [(_ & U2 & _)|(_ & U)]; [lia|].
    destruct U as [(U1 & _)|[(U1 & _)|[(_ & U2)|(U1 & _)]]]; try lia.
    rewrite Ek. destruct (snd (poll_decision o s1)); [exact U2|].
    rewrite (T9 eq_refl). lia.
Qed.

(* run-level version: on every reachable state the message 3 is truthful about the FINAL exponent
   (a non-finished reachable state carries message 0, so a propagating exception cannot fake it) *)
Definition Msg3 (o : opts) (s : st) : Prop :=
  (fin s = false -> msg s = 0) /\ (msg s = 3 -> k s < o_tolmesh o).

Lemma Msg3_step : forall o s ev, o_sme o = 0 -> Msg3 o s -> Msg3 o (step_iter o s ev).
Proof.
  intros o s ev Hsme HM.
  destruct (not_final_cases s) as [Hf|[Hfin Hexn]]; [rewrite step_iter_final by exact Hf; exact HM|].
  destruct HM as [M1 M2]. specialize (M1 Hfin).
  pose proof (step_iter_cases o s ev Hfin Hexn) as C. cbv zeta in C.
  destruct (it_s1_spec o s ev) as (A1 & A2 & A3 & A4 & A5 & A6 & _).
  destruct (it_s3_spec o ev (it_s1 o s ev)) as (T1 & T2 & T3 & T4 & _).
  pose proof (tolmesh_msg o s ev Hsme Hfin Hexn) as HT.
  set (s1 := it_s1 o s ev) in *. set (s3 := it_s3 o ev s1) in *. set (s' := step_iter o s ev) in *.
  destruct C as [(E1 & Es)|[(E1 & E3 & Es)|(E1 & E3 & Ex & Ef & Em & _)]].
  - rewrite Es. unfold Msg3. rewrite A6, M1. split; [reflexivity | intros Hc; discriminate Hc].
  - rewrite Es. unfold Msg3. rewrite T4, A6, M1. split; [reflexivity | intros Hc; discriminate Hc].
  - split; [|exact (HT Ex)]. intros Hf'. rewrite Ef in Hf'. rewrite Em.
    destruct (terminate_spec o (if snd (poll_decision o s1) then k s3 else k s) (ie_stall ev) s3)
      as [(_ & U2 & _)|(U1 & _)]; [exact U2 | congruence].
Qed.

Theorem tolmesh_msg_run :
  forall (k0 ks0 : Z) (o : opts) (l : list init_call) (fsd0 : Q) (evs : list iter_ev),
    o_sme o = 0 ->
    let s := run k0 ks0 o l fsd0 evs in
    msg s = 3 -> fin s = true /\ k s < o_tolmesh o.
Proof.
  intros k0 ks0 o l fsd0 evs Hsme. cbv zeta. unfold run. intros Hmsg.
  assert (HM : Msg3 o (run_loop o (init_phase k0 ks0 o l fsd0) evs)).
  { apply (run_loop_inv (Msg3 o)); [intros s ev; apply Msg3_step; exact Hsme|].
    assert (Hm0 : msg (init_phase k0 ks0 o l fsd0) = 0).
    { unfold init_phase.
      pose proof (init_calls_frame l (init_state k0 ks0 o) []) as F.
      destruct (init_calls (init_state k0 ks0 o) [] l) as [s recd]. cbn [fst] in F.
      destruct F as (_ & _ & _ & _ & _ & _ & _ & _ & _ & F10 & _).
      destruct (argmin_rows None recd) as [[u y]|]; prj; exact F10. }
    unfold Msg3. rewrite Hm0. split; [reflexivity | intros Hc; discriminate Hc]. }
  destruct HM as [M1 M2]. split; [|exact (M2 Hmsg)].
  destruct (fin (run_loop o (init_phase k0 ks0 o l fsd0) evs)); [reflexivity|].
  rewrite (M1 eq_refl) in Hmsg. discriminate Hmsg.
Qed.
