(* SkeletonBoxR.v — the real-number half of Props/C01.v, kept apart from Proofs/SkeletonBox.v so that
   the rational/list lemmas there stay closed under the global context.
   [original_space_clamp] is the third conjunct of [outputs_in_box_all] (Proofs/TransformProofs.v, the
   lemma closing C11_outputs_in_box): the last operation of inverse_transf is the clamp to [lb, ub].
   Depends on the standard real-number axioms, like every theorem of C11. *)
From Coq Require Import Reals Bool.
From Coquelicot Require Import Rbar.
From PV Require Import Proofs.TransformProofs.

Lemma original_space_clamp :
  forall (a : arm) (l : bool) (lb : Rbar) (plb pub : R) (ub : Rbar),
    arm_ok a l -> valid_box l lb plb pub ub ->
    forall y : Rbar, Rbar_le lb (inverse_transf a l lb plb pub ub y) /\
                     Rbar_le (inverse_transf a l lb plb pub ub y) ub.
Proof.
  intros a l lb plb pub ub Hok Hv.
  exact (proj2 (proj2 (outputs_in_box_all a l lb plb pub ub Hok Hv))).
Qed.
