(* SkeletonInc.v — proofs behind Props/C04.v (deterministic targets: the incumbent is the best
   evaluated point) and Props/C10.v (target faults surface immediately), over Model/Skeleton.v. *)
From Coq Require Import ZArith QArith List String Bool Lia Lqa Arith.
From PV Require Import Model.Val Model.Skeleton Model.SkeletonValid Model.Logger.
Import ListNotations.
Open Scope Z_scope.

(* ================================================================== *)
(* 0. comparisons                                                      *)
(* ================================================================== *)
Lemma qltb_true : forall a b : Q, qltb a b = true -> (a < b)%Q.
Proof.
  intros a b H. unfold qltb in H. apply negb_true_iff in H.
  apply Qnot_le_lt. intro C. apply Qle_bool_iff in C. rewrite C in H. discriminate.
Qed.

Lemma qltb_false : forall a b : Q, qltb a b = false -> (b <= a)%Q.
Proof.
  intros a b H. unfold qltb in H. apply negb_false_iff in H. apply Qle_bool_iff. exact H.
Qed.

Lemma qltb_lt : forall a b : Q, (a < b)%Q -> qltb a b = true.
Proof.
  intros a b H. destruct (qltb a b) eqn:E; [reflexivity|].
  apply qltb_false in E. lra.
Qed.

(* ================================================================== *)
(* 1. projections through the state transformers                       *)
(* ================================================================== *)
Lemma do_eval_fault : forall s e, e_fault e = true ->
  exn (do_eval s e) = true /\ calls (do_eval s e) = calls s ++ [(e_u e, None)] /\
  fc (do_eval s e) = fc s /\ cur (do_eval s e) = cur s /\ hist (do_eval s e) = hist s.
Proof. intros s e H. unfold do_eval. rewrite H. cbn. repeat split; reflexivity. Qed.

Lemma do_eval_ok : forall s e, e_fault e = false ->
  exn (do_eval s e) = false /\ calls (do_eval s e) = calls s ++ [(e_u e, Some (e_y e))] /\
  fc (do_eval s e) = fc s + 1 /\ cur (do_eval s e) = cur s /\ hist (do_eval s e) = hist s.
Proof. intros s e H. unfold do_eval. rewrite H. cbn. repeat split; reflexivity. Qed.

Lemma do_eval_exn : forall s e, exn (do_eval s e) = e_fault e.
Proof. intros s e. unfold do_eval. destruct (e_fault e); reflexivity. Qed.

(* [same s s']: the five fields the proofs look at coincide *)
Definition same (s s' : st) : Prop :=
  calls s' = calls s /\ fc s' = fc s /\ exn s' = exn s /\ cur s' = cur s /\ hist s' = hist s.

Lemma same_refl : forall s, same s s.
Proof. intros s. unfold same. repeat split; reflexivity. Qed.

Lemma same_set_ctrl : forall s a b c d e, same s (set_ctrl s a b c d e).
Proof. intros. unfold same. cbn. repeat split; reflexivity. Qed.

Lemma same_lock_ks : forall o s, same s (lock_ks o s).
Proof.
  intros o s. unfold lock_ks. destruct (o_locked o); [apply same_set_ctrl | apply same_refl].
Qed.

Lemma same_poll_decision : forall o s, same s (fst (poll_decision o s)).
Proof.
  intros o s. unfold poll_decision.
  destruct ((scount s =? 0) || (scount s =? o_ntry o)); [|apply same_refl].
  destruct ((0 <? ssucc s) && o_skip o); cbn [fst]; apply same_set_ctrl.
Qed.

(* ================================================================== *)
(* 2. C10: faults                                                      *)
(* ================================================================== *)
Definition valid_entry (p : list Q * option Q) : Prop := snd p <> None.

Definition J (s : st) : Prop :=
  (exn s = false /\ Forall valid_entry (calls s) /\ fc s = Z.of_nat (List.length (calls s)))
  \/ (exn s = true /\ exists pre u, calls s = pre ++ [(u, None)] /\ Forall valid_entry pre /\
                                    fc s = Z.of_nat (List.length pre)).

Lemma J_proj : forall s s', calls s' = calls s -> fc s' = fc s -> exn s' = exn s -> J s -> J s'.
Proof.
  intros s s' Hc Hf He HJ. unfold J in *. rewrite Hc, Hf, He. exact HJ.
Qed.

Lemma J_same : forall s s', same s s' -> J s -> J s'.
Proof.
  intros s s' (Hc & Hf & He & _ & _) HJ. exact (J_proj s s' Hc Hf He HJ).
Qed.

Lemma J_do_eval : forall s e, exn s = false -> J s -> J (do_eval s e).
Proof.
  intros s e Hx HJ. destruct HJ as [(_ & Hall & Hfc) | (Hx' & _)]; [|congruence].
  destruct (e_fault e) eqn:Ef.
  - destruct (do_eval_fault s e Ef) as (E1 & E2 & E3 & _ & _).
    right. split; [exact E1|]. exists (calls s), (e_u e).
    split; [exact E2|]. split; [exact Hall|]. rewrite E3. exact Hfc.
  - destruct (do_eval_ok s e Ef) as (E1 & E2 & E3 & _ & _).
    left. split; [exact E1|]. split.
    + rewrite E2. apply Forall_app. split; [exact Hall|].
      constructor; [|constructor]. unfold valid_entry. cbn [snd]. discriminate.
    + rewrite E2, E3, app_length, Hfc. cbn [List.length]. lia.
Qed.

Lemma J_search : forall o SI ev s, exn s = false -> J s -> J (search_phase o SI ev s).
Proof.
  intros o SI ev s Hx HJ. unfold search_phase.
  pose proof (same_set_ctrl s (k s) (ks s) (scount s + 1) (ssucc s) (spree s)) as Hs1.
  set (s1 := set_ctrl s (k s) (ks s) (scount s + 1) (ssucc s) (spree s)) in *.
  assert (HJ1 : J s1) by (exact (J_same _ _ Hs1 HJ)).
  assert (Hx1 : exn s1 = false) by (destruct Hs1 as (_ & _ & E & _); rewrite E; exact Hx).
  destruct (se_eval ev) as [e|]; [|exact HJ1].
  pose proof (J_do_eval s1 e Hx1 HJ1) as HJ2.
  destruct (exn (do_eval s1 e)) eqn:Ex2; [exact HJ2|].
  destruct (qltb 0 (e_impr e) && o_sloppy o || qltb SI (e_impr e)); [|exact HJ2].
  destruct (qltb SI (e_impr e)).
  - apply (J_proj (do_eval s1 e)); [reflexivity | reflexivity | reflexivity | exact HJ2].
  - apply (J_proj (do_eval s1 e)); [reflexivity | reflexivity | reflexivity | exact HJ2].
Qed.

Lemma J_poll_loop : forall o ncand evs a, J (p_s a) -> J (p_s (poll_loop o ncand evs a)).
Proof.
  intros o ncand evs. induction evs as [|e r IH]; intros a HJ; cbn [poll_loop]; [exact HJ|].
  destruct (poll_guard o ncand a) eqn:G; [|exact HJ].
  assert (Hx : exn (p_s a) = false).
  { unfold poll_guard in G. apply andb_true_iff in G. destruct G as [_ G].
    apply negb_true_iff in G. exact G. }
  pose proof (J_do_eval (p_s a) e Hx HJ) as HJ2.
  destruct (exn (do_eval (p_s a) e)) eqn:Ex2; [cbn [p_s]; exact HJ2|].
  apply IH. destruct (qltb (p_best a) (e_impr e)); cbn [p_s]; exact HJ2.
Qed.

Lemma J_poll : forall o SI ev s, J s -> J (poll_phase o SI ev s).
Proof.
  intros o SI ev s HJ. unfold poll_phase.
  set (a := poll_loop o (pe_ncand ev) (pe_evals ev) (mkP s 0 (cur s) 0)).
  assert (HJa : J (p_s a)) by (apply J_poll_loop; cbn [p_s]; exact HJ).
  destruct (exn (p_s a)) eqn:Ex; [exact HJa|].
  destruct (qltb 0 (p_best a) && o_sloppy o || qltb SI (p_best a));
    destruct (qltb SI (p_best a));
    (apply (J_proj (p_s a)); [reflexivity | reflexivity | reflexivity | exact HJa]).
Qed.

Lemma J_step : forall o s ev, J s -> J (step_iter o s ev).
Proof.
  intros o s ev HJ. unfold step_iter.
  destruct (fin s || exn s) eqn:Efx; [exact HJ|].
  apply orb_false_iff in Efx. destruct Efx as [_ Hx].
  pose proof (same_lock_ks o s) as Hs0.
  set (s0 := lock_ks o s) in *.
  assert (HJ0 : J s0) by (exact (J_same _ _ Hs0 HJ)).
  assert (Hx0 : exn s0 = false) by (destruct Hs0 as (_ & _ & E & _); rewrite E; exact Hx).
  set (s1 := if want_search o s0 then search_phase o (ie_SI ev) (ie_search ev) s0 else s0).
  assert (HJ1 : J s1).
  { unfold s1. destruct (want_search o s0); [apply J_search; assumption | exact HJ0]. }
  destruct (exn s1) eqn:Ex1; [exact HJ1|].
  pose proof (same_poll_decision o s1) as Hs2.
  destruct (poll_decision o s1) as [s2 dopoll] eqn:Epd. cbn [fst] in Hs2.
  assert (HJ2 : J s2) by (exact (J_same _ _ Hs2 HJ1)).
  set (s3 := if dopoll then poll_phase o (ie_SI ev) (ie_poll ev) s2 else s2).
  assert (HJ3 : J s3).
  { unfold s3. destruct dopoll; [apply J_poll; exact HJ2 | exact HJ2]. }
  destruct (exn s3) eqn:Ex3; [exact HJ3|].
  destruct (terminate o (if dopoll then k s3 else k s0) (ie_stall ev) s3) as [f m].
  apply (J_proj s3); [reflexivity | reflexivity | cbn [exn]; symmetry; exact Ex3 | exact HJ3].
Qed.

Lemma J_run_loop : forall o evs s, J s -> J (run_loop o s evs).
Proof.
  intros o evs. unfold run_loop.
  induction evs as [|e r IH]; intros s HJ; cbn [fold_left]; [exact HJ|].
  apply IH. apply J_step. exact HJ.
Qed.

Lemma J_init_calls : forall l s recd, J s -> J (fst (init_calls s recd l)).
Proof.
  induction l as [|c r IH]; intros s recd HJ; cbn [init_calls]; [exact HJ|].
  destruct (exn s) eqn:Hx; [exact HJ|].
  pose proof (J_do_eval s (ic_eval c) Hx HJ) as HJ2.
  destruct (exn (do_eval s (ic_eval c))) eqn:Ex2; [exact HJ2|].
  apply IH. exact HJ2.
Qed.

Lemma J_init_state : forall k0 ks0 o, J (init_state k0 ks0 o).
Proof.
  intros. left. cbn. split; [reflexivity|]. split; [constructor | reflexivity].
Qed.

Lemma J_init_phase : forall k0 ks0 o l fsd0, J (init_phase k0 ks0 o l fsd0).
Proof.
  intros k0 ks0 o l fsd0. unfold init_phase.
  pose proof (J_init_calls l (init_state k0 ks0 o) [] (J_init_state k0 ks0 o)) as HJ.
  destruct (init_calls (init_state k0 ks0 o) [] l) as [s recd]. cbn [fst] in HJ.
  destruct (argmin_rows None recd) as [[u y]|]; [|exact HJ].
  apply (J_proj s); [reflexivity | reflexivity | reflexivity | exact HJ].
Qed.

Lemma J_run : forall k0 ks0 o l fsd0 evs, J (run k0 ks0 o l fsd0 evs).
Proof. intros. unfold run. apply J_run_loop. apply J_init_phase. Qed.

Lemma valid_not_none : forall (l : list (list Q * option Q)) i u,
  Forall valid_entry l -> nth_error l i = Some (u, None) -> False.
Proof.
  intros l i u Hall Hn. apply nth_error_In in Hn.
  rewrite Forall_forall in Hall. apply Hall in Hn. unfold valid_entry in Hn. cbn [snd] in Hn.
  apply Hn. reflexivity.
Qed.

Theorem fault_is_last_call :
  forall (k0 ks0 : Z) (o : opts) (l : list init_call) (fsd0 : Q) (evs : list iter_ev),
    let s := run k0 ks0 o l fsd0 evs in
    forall (i : nat) (u : list Q), nth_error (calls s) i = Some (u, None) ->
      S i = List.length (calls s) /\ exn s = true /\ fc s = Z.of_nat i.
Proof.
  intros k0 ks0 o l fsd0 evs s i u Hn.
  pose proof (J_run k0 ks0 o l fsd0 evs) as HJ. fold s in HJ.
  destruct HJ as [(_ & Hall & _) | (Hx & pre & u' & Hc & Hall & Hfc)].
  - exfalso. exact (valid_not_none _ _ _ Hall Hn).
  - rewrite Hc in Hn. rewrite Hc, app_length. cbn [List.length].
    destruct (lt_eq_lt_dec i (List.length pre)) as [[Hlt | Heq] | Hgt].
    + rewrite nth_error_app1 in Hn by exact Hlt.
      exfalso. exact (valid_not_none _ _ _ Hall Hn).
    + subst i. split; [lia|]. split; [exact Hx | exact Hfc].
    + exfalso. assert (Hnone : nth_error (pre ++ [(u', None)]) i = None).
      { apply nth_error_None. rewrite app_length. cbn [List.length]. lia. }
      rewrite Hnone in Hn. discriminate.
Qed.

Lemma step_iter_exn : forall o s ev, exn s = true -> step_iter o s ev = s.
Proof.
  intros o s ev Hx. unfold step_iter. rewrite Hx, orb_true_r. reflexivity.
Qed.

Theorem exception_absorbing :
  forall (o : opts) (s : st) (evs : list iter_ev), exn s = true -> run_loop o s evs = s.
Proof.
  intros o s evs Hx. unfold run_loop.
  induction evs as [|e r IH]; cbn [fold_left]; [reflexivity|].
  rewrite step_iter_exn by exact Hx. exact IH.
Qed.

Theorem exception_only_from_fault :
  forall (k0 ks0 : Z) (o : opts) (l : list init_call) (fsd0 : Q) (evs : list iter_ev),
    let s := run k0 ks0 o l fsd0 evs in
    exn s = true -> exists u, last (calls s) ([], Some 0%Q) = (u, None).
Proof.
  intros k0 ks0 o l fsd0 evs s Hx.
  pose proof (J_run k0 ks0 o l fsd0 evs) as HJ. fold s in HJ.
  destruct HJ as [(Hx' & _) | (_ & pre & u' & Hc & _)]; [congruence|].
  exists u'. rewrite Hc. apply last_last.
Qed.

Theorem logger_fault_transparent :
  forall (s : lstate) (x xo : list Q) (oc : outcome) (recordp : bool),
    (match oc with
     | Raise _ => True | BadVal _ => True
     | OkVal _ sd => he_flag s = true /\ sd_ok sd = false
     end) ->
    fst (step s (Call x xo oc recordp)) = s /\
    (exists cls, snd (step s (Call x xo oc recordp)) = Exn cls) /\
    (forall e, oc = Raise e -> snd (step s (Call x xo oc recordp)) = Exn e).
Proof.
  intros s x xo oc recordp H. unfold step, step_with.
  destruct oc as [y sd | e0 | kd].
  - destruct H as [Hhe Hsd]. rewrite Hhe, Hsd. cbn [fst snd].
    split; [reflexivity|]. split; [eexists; reflexivity|]. intros e He. discriminate.
  - cbn [fst snd]. split; [reflexivity|]. split; [eexists; reflexivity|].
    intros e He. inversion He. reflexivity.
  - cbn [fst snd]. split; [reflexivity|]. split; [eexists; reflexivity|]. intros e He. discriminate.
Qed.

Definition ex_opts (sloppy : bool) : opts :=
  mkO 1 100 10 2 (-10) false 0 5 false 0 0 0 1 0 false (1 # 1000) sloppy true.

Theorem fault_example : exists k0 ks0 o l fsd0 evs,
  exn (run k0 ks0 o l fsd0 evs) = true /\ (2 <= List.length (calls (run k0 ks0 o l fsd0 evs)))%nat.
Proof.
  exists 0, 0, (ex_opts true), [mkIC (mkE [0%Q] false 1 1 0 0 true) true], 0%Q,
    [mkIE 1 (mkSE None 0) (mkPE 2 [mkE [1 # 2] true 0 0 0 0 false] None) None None].
  split; [vm_compute; reflexivity|]. apply Nat.leb_le. vm_compute. reflexivity.
Qed.

(* ================================================================== *)
(* 3. C04: deterministic targets                                       *)
(* ================================================================== *)
Definition FY (c : inc) : Prop := (i_f c == i_y c)%Q.

Definition EvIn (c : inc) (cl : list (list Q * option Q)) : Prop :=
  exists y, In (i_u c, Some y) cl /\ (y == i_y c)%Q.

Definition Good (c : inc) (cl : list (list Q * option Q)) : Prop :=
  EvIn c cl /\ (i_f c == i_y c)%Q /\ (i_s c == 0)%Q /\
  (forall u y, In (u, Some y) cl -> (i_y c <= y)%Q).

Lemma EvIn_app_l : forall c l l', EvIn c l -> EvIn c (l ++ l').
Proof.
  intros c l l' (y & Hin & Hy). exists y. split; [apply in_or_app; left; exact Hin | exact Hy].
Qed.

Lemma EvIn_app_r : forall c l l', EvIn c l' -> EvIn c (l ++ l').
Proof.
  intros c l l' (y & Hin & Hy). exists y. split; [apply in_or_app; right; exact Hin | exact Hy].
Qed.

(* [adv s s']: s' is reached from s by evaluating [new]; when no fault is pending, the incumbent of s'
   is either that of s or a strictly better newly evaluated point, and is a lower bound of [new] *)
Definition adv (s s' : st) : Prop :=
  hist s' = hist s /\ fc s <= fc s' /\
  exists new, calls s' = calls s ++ new /\
    (exn s' = false ->
       (forall u y, In (u, Some y) new -> (i_y (cur s') <= y)%Q) /\
       (cur s' = cur s \/
        (EvIn (cur s') new /\ FY (cur s') /\ (i_s (cur s') == 0)%Q /\ (i_y (cur s') < i_y (cur s))%Q))).

Lemma adv_refl : forall s, adv s s.
Proof.
  intros s. split; [reflexivity|]. split; [lia|]. exists []. split; [rewrite app_nil_r; reflexivity|].
  intros _. split; [intros u y []| left; reflexivity].
Qed.

Lemma adv_same_r : forall s s' s'', adv s s' -> same s' s'' -> adv s s''.
Proof.
  intros s s' s'' Hadv (Hc & Hf & He & Hcu & Hh). unfold adv in *.
  rewrite Hc, Hf, He, Hcu, Hh. exact Hadv.
Qed.

Lemma adv_same_l : forall s s0 s', same s s0 -> adv s0 s' -> adv s s'.
Proof.
  intros s s0 s' (Hc & Hf & He & Hcu & Hh) Hadv. unfold adv in *.
  rewrite Hc, Hf, Hcu, Hh in Hadv. exact Hadv.
Qed.

Lemma adv_le : forall s s', adv s s' -> exn s' = false -> (i_y (cur s') <= i_y (cur s))%Q.
Proof.
  intros s s' (_ & _ & new & _ & Hv) Hx. destruct (Hv Hx) as [_ [E | (_ & _ & _ & Hlt)]].
  - rewrite E. apply Qle_refl.
  - apply Qlt_le_weak. exact Hlt.
Qed.

Lemma adv_FY : forall s s', adv s s' -> exn s' = false -> FY (cur s) -> FY (cur s').
Proof.
  intros s s' (_ & _ & new & _ & Hv) Hx Hfy. destruct (Hv Hx) as [_ [E | (_ & Hfy' & _)]].
  - rewrite E. exact Hfy.
  - exact Hfy'.
Qed.

Lemma adv_hist : forall s s', adv s s' -> hist s' = hist s.
Proof. intros s s' (H & _). exact H. Qed.

Lemma adv_fc : forall s s', adv s s' -> fc s <= fc s'.
Proof. intros s s' (_ & H & _). exact H. Qed.

Lemma adv_incl : forall s s' p, adv s s' -> In p (calls s) -> In p (calls s').
Proof.
  intros s s' p (_ & _ & new & Hc & _) Hin. rewrite Hc. apply in_or_app. left. exact Hin.
Qed.

Lemma adv_trans : forall s s' s'', adv s s' -> exn s' = false -> adv s' s'' -> adv s s''.
Proof.
  intros s s' s'' Hadv1 Hx' Hadv2.
  pose proof (adv_le s s' Hadv1 Hx') as Hle1.
  destruct Hadv1 as (Hh1 & Hf1 & new1 & Hc1 & Hv1).
  destruct Hadv2 as (Hh2 & Hf2 & new2 & Hc2 & Hv2).
  split; [congruence|]. split; [lia|]. exists (new1 ++ new2).
  split; [rewrite Hc2, Hc1, app_assoc; reflexivity|].
  intros Hx''. destruct (Hv1 Hx') as [Hmin1 Hd1]. destruct (Hv2 Hx'') as [Hmin2 Hd2].
  assert (Hle2 : (i_y (cur s'') <= i_y (cur s'))%Q).
  { destruct Hd2 as [E | (_ & _ & _ & Hlt)]; [rewrite E; apply Qle_refl | apply Qlt_le_weak; exact Hlt]. }
  split.
  - intros u y Hin. apply in_app_or in Hin. destruct Hin as [Hin | Hin].
    + eapply Qle_trans; [exact Hle2 | exact (Hmin1 u y Hin)].
    + exact (Hmin2 u y Hin).
  - destruct Hd2 as [E | (Hev & Hfy & Hs & Hlt)].
    + rewrite E. destruct Hd1 as [E1 | (Hev1 & Hfy1 & Hs1 & Hlt1)]; [left; exact E1|].
      right. split; [apply EvIn_app_l; exact Hev1|]. split; [exact Hfy1|]. split; [exact Hs1 | exact Hlt1].
    + right. split; [apply EvIn_app_r; exact Hev|]. split; [exact Hfy|]. split; [exact Hs|].
      eapply Qlt_le_trans; [exact Hlt | exact Hle1].
Qed.

Lemma adv_Good : forall s s', adv s s' -> exn s' = false ->
  Good (cur s) (calls s) -> Good (cur s') (calls s').
Proof.
  intros s s' Hadv Hx (Hev & Hfy & Hs & Hmin).
  pose proof (adv_le s s' Hadv Hx) as Hle.
  destruct Hadv as (_ & _ & new & Hc & Hv). destruct (Hv Hx) as [Hminn Hd].
  assert (Hmin' : forall u y, In (u, Some y) (calls s') -> (i_y (cur s') <= y)%Q).
  { intros u y Hin. rewrite Hc in Hin. apply in_app_or in Hin. destruct Hin as [Hin | Hin].
    - eapply Qle_trans; [exact Hle | exact (Hmin u y Hin)].
    - exact (Hminn u y Hin). }
  destruct Hd as [E | (Hev' & Hfy' & Hs' & _)].
  - rewrite E in *. split; [rewrite Hc; apply EvIn_app_l; exact Hev|].
    split; [exact Hfy|]. split; [exact Hs | exact Hmin'].
  - split; [rewrite Hc; apply EvIn_app_r; exact Hev'|].
    split; [exact Hfy'|]. split; [exact Hs' | exact Hmin'].
Qed.

Lemma eval_det_ok_elim : forall best ybest e, eval_det_ok best ybest e = true -> e_fault e = false ->
  (e_fmu e == e_y e)%Q /\ (e_fs e == 0)%Q /\ qltb best (e_impr e) = qltb (e_y e) ybest.
Proof.
  intros best ybest e H Hf. unfold eval_det_ok in H. rewrite Hf in H. cbn [orb] in H.
  apply andb_true_iff in H. destruct H as [H H3]. apply andb_true_iff in H. destruct H as [H1 H2].
  split; [apply Qeq_bool_iff; exact H1|]. split; [apply Qeq_bool_iff; exact H2|].
  apply eqb_prop. exact H3.
Qed.

(* ---- search ---- *)
Lemma search_exn : forall o SI ev s,
  exn (search_phase o SI ev s) = match se_eval ev with None => exn s | Some e => e_fault e end.
Proof.
  intros o SI ev s. unfold search_phase. cbv zeta.
  set (s1 := set_ctrl s (k s) (ks s) (scount s + 1) (ssucc s) (spree s)).
  destruct (se_eval ev) as [e|]; [|reflexivity].
  destruct (e_fault e) eqn:Ef.
  - destruct (do_eval_fault s1 e Ef) as (E1 & _). rewrite E1. exact E1.
  - destruct (do_eval_ok s1 e Ef) as (E1 & _). rewrite E1.
    destruct (qltb 0 (e_impr e) && o_sloppy o || qltb SI (e_impr e));
      [destruct (qltb SI (e_impr e))|]; exact E1.
Qed.

Lemma adv_search : forall o SI ev s, o_sloppy o = true ->
  (exn (search_phase o SI ev s) = false -> (0 <= SI)%Q) ->
  search_det_ok ev s = true -> exn s = false -> FY (cur s) ->
  adv s (search_phase o SI ev s).
Proof.
  intros o SI ev s Hsl HSI Hok Hx Hfy. rewrite search_exn in HSI.
  unfold search_phase. unfold search_det_ok in Hok.
  pose proof (same_set_ctrl s (k s) (ks s) (scount s + 1) (ssucc s) (spree s)) as Hs1.
  set (s1 := set_ctrl s (k s) (ks s) (scount s + 1) (ssucc s) (spree s)) in *.
  destruct (se_eval ev) as [e|].
  2:{ eapply adv_same_r; [apply adv_refl | exact Hs1]. }
  cbv zeta. apply (adv_same_l s s1); [exact Hs1|].
  assert (Hcur1 : cur s1 = cur s) by reflexivity.
  destruct (e_fault e) eqn:Ef.
  - destruct (do_eval_fault s1 e Ef) as (E1 & E2 & E3 & E4 & E5). rewrite E1.
    split; [exact E5|]. split; [rewrite E3; lia|]. exists [(e_u e, None)]. split; [exact E2|].
    intros C. congruence.
  - destruct (do_eval_ok s1 e Ef) as (E1 & E2 & E3 & E4 & E5). rewrite E1.
    specialize (HSI eq_refl).
    destruct (eval_det_ok_elim 0 (i_f (cur s)) e Hok Ef) as (Hfmu & Hfs & Hq).
    rewrite Hsl, andb_true_r.
    destruct (qltb 0 (e_impr e)) eqn:E0; cbn [orb].
    + symmetry in Hq. apply qltb_true in Hq. unfold FY in Hfy.
      assert (Hadv : adv s1 (set_cur (do_eval s1 e) (inc_of e))).
      { split; [exact E5|]. split; [change (fc s1 <= fc (do_eval s1 e)); rewrite E3; lia|].
        exists [(e_u e, Some (e_y e))]. split; [exact E2|]. intros _.
        cbn [set_cur cur inc_of i_y i_u i_f i_s]. split.
        - intros u y [Heq | []]. inversion Heq. apply Qle_refl.
        - right. split.
          + exists (e_y e). cbn [i_u i_y]. split; [left; reflexivity | apply Qeq_refl].
          + split; [unfold FY; cbn [i_f i_y]; exact Hfmu|]. split; [exact Hfs|].
            rewrite Hcur1. lra. }
      destruct (qltb SI (e_impr e)); [|exact Hadv].
      eapply adv_same_r; [exact Hadv | apply same_set_ctrl].
    + apply qltb_false in E0.
      destruct (qltb SI (e_impr e)) eqn:ES.
      { apply qltb_true in ES. exfalso. lra. }
      symmetry in Hq. apply qltb_false in Hq. unfold FY in Hfy.
      split; [exact E5|]. split; [rewrite E3; lia|].
      exists [(e_u e, Some (e_y e))]. split; [exact E2|]. intros _. rewrite E4, Hcur1. split.
      * intros u y [Heq | []]. inversion Heq. subst y. lra.
      * left. reflexivity.
Qed.

(* ---- poll ---- *)
Definition PInv (s0 : st) (a : pacc) : Prop :=
  hist (p_s a) = hist s0 /\ fc s0 <= fc (p_s a) /\ cur (p_s a) = cur s0 /\
  exists new, calls (p_s a) = calls s0 ++ new /\
    (exn (p_s a) = false ->
       (0 <= p_best a)%Q /\
       (forall u y, In (u, Some y) new -> (i_y (p_inc a) <= y)%Q) /\
       (p_inc a = cur s0 \/
        ((0 < p_best a)%Q /\ EvIn (p_inc a) new /\ FY (p_inc a) /\ (i_s (p_inc a) == 0)%Q /\
         (i_y (p_inc a) < i_y (cur s0))%Q))).

Lemma poll_loop_inv : forall o ncand s0 evs a,
  poll_det_ok o ncand evs a = true -> PInv s0 a -> PInv s0 (poll_loop o ncand evs a).
Proof.
  intros o ncand s0 evs. induction evs as [|e r IH]; intros a Hok HP; cbn [poll_loop poll_det_ok] in *;
    [exact HP|].
  destruct (poll_guard o ncand a) eqn:G; [|exact HP].
  assert (Hx : exn (p_s a) = false).
  { unfold poll_guard in G. apply andb_true_iff in G. destruct G as [_ G].
    apply negb_true_iff in G. exact G. }
  apply andb_true_iff in Hok. destruct Hok as [Hev Hrest].
  destruct HP as (Hh & Hf & Hcu & new & Hc & Hv).
  destruct (Hv Hx) as (H0 & Hmin & Hd).
  destruct (e_fault e) eqn:Ef.
  - destruct (do_eval_fault (p_s a) e Ef) as (E1 & E2 & E3 & E4 & E5). rewrite E1.
    unfold PInv. cbn [p_s p_best p_inc].
    split; [congruence|]. split; [lia|]. split; [congruence|].
    exists (new ++ [(e_u e, None)]). split; [rewrite E2, Hc, app_assoc; reflexivity|].
    intros C. congruence.
  - destruct (do_eval_ok (p_s a) e Ef) as (E1 & E2 & E3 & E4 & E5). rewrite E1 in *.
    destruct (eval_det_ok_elim _ _ e Hev Ef) as (Hfmu & Hfs & Hq).
    assert (Hle0 : (i_y (p_inc a) <= i_y (cur s0))%Q).
    { destruct Hd as [E | (_ & _ & _ & _ & Hlt)]; [rewrite E; apply Qle_refl | apply Qlt_le_weak; exact Hlt]. }
    destruct (qltb (p_best a) (e_impr e)) eqn:Eq; apply IH; try exact Hrest.
    + symmetry in Hq. apply qltb_true in Hq. apply qltb_true in Eq.
      unfold PInv. cbn [p_s p_best p_inc].
      split; [congruence|]. split; [lia|]. split; [congruence|].
      exists (new ++ [(e_u e, Some (e_y e))]). split; [rewrite E2, Hc, app_assoc; reflexivity|].
      intros _. cbn [inc_of i_y i_u i_f i_s]. split; [lra|]. split.
      * intros u y Hin. apply in_app_or in Hin. destruct Hin as [Hin | [Heq | []]].
        -- pose proof (Hmin u y Hin). lra.
        -- inversion Heq. apply Qle_refl.
      * right. split; [lra|]. split.
        -- exists (e_y e). cbn [i_u i_y]. split; [apply in_or_app; right; left; reflexivity | apply Qeq_refl].
        -- split; [unfold FY; cbn [i_f i_y]; exact Hfmu|]. split; [exact Hfs | lra].
    + symmetry in Hq. apply qltb_false in Hq.
      unfold PInv. cbn [p_s p_best p_inc].
      split; [congruence|]. split; [lia|]. split; [congruence|].
      exists (new ++ [(e_u e, Some (e_y e))]). split; [rewrite E2, Hc, app_assoc; reflexivity|].
      intros _. split; [exact H0|]. split.
      * intros u y Hin. apply in_app_or in Hin. destruct Hin as [Hin | [Heq | []]].
        -- exact (Hmin u y Hin).
        -- inversion Heq. subst y. exact Hq.
      * destruct Hd as [E | (Hb & Hev' & Hfy' & Hs' & Hlt)]; [left; exact E|].
        right. split; [exact Hb|]. split; [apply EvIn_app_l; exact Hev'|].
        split; [exact Hfy'|]. split; [exact Hs' | exact Hlt].
Qed.

Lemma adv_poll : forall o SI ev s, o_sloppy o = true -> (0 <= SI)%Q ->
  poll_det_ok o (pe_ncand ev) (pe_evals ev) (mkP s 0 (cur s) 0) = true ->
  adv s (poll_phase o SI ev s).
Proof.
  intros o SI ev s Hsl HSI Hok. unfold poll_phase.
  assert (HP0 : PInv s (mkP s 0 (cur s) 0)).
  { unfold PInv. cbn [p_s p_best p_inc]. split; [reflexivity|]. split; [lia|]. split; [reflexivity|].
    exists []. split; [rewrite app_nil_r; reflexivity|]. intros _.
    split; [apply Qle_refl|]. split; [intros u y []| left; reflexivity]. }
  pose proof (poll_loop_inv o (pe_ncand ev) s (pe_evals ev) _ Hok HP0) as HP.
  set (a := poll_loop o (pe_ncand ev) (pe_evals ev) (mkP s 0 (cur s) 0)) in *.
  cbv zeta. destruct HP as (Hh & Hf & Hcu & new & Hc & Hv).
  destruct (exn (p_s a)) eqn:Ex.
  - split; [exact Hh|]. split; [exact Hf|]. exists new. split; [exact Hc|]. intros C. congruence.
  - destruct (Hv eq_refl) as (H0 & Hmin & Hd).
    rewrite Hsl, andb_true_r.
    set (s2 := if qltb 0 (p_best a) || qltb SI (p_best a) then set_cur (p_s a) (p_inc a) else p_s a).
    assert (Hadv : adv s s2).
    { unfold s2. destruct (qltb 0 (p_best a) || qltb SI (p_best a)) eqn:Em.
      - split; [exact Hh|]. split; [exact Hf|]. exists new. split; [exact Hc|]. intros _.
        cbn [set_cur cur]. split; [exact Hmin|].
        destruct Hd as [E | (_ & Hev' & Hfy' & Hs' & Hlt)]; [left; exact E|].
        right. split; [exact Hev'|]. split; [exact Hfy'|]. split; [exact Hs' | exact Hlt].
      - apply orb_false_iff in Em. destruct Em as [Em _]. apply qltb_false in Em.
        split; [exact Hh|]. split; [exact Hf|]. exists new. split; [exact Hc|]. intros _.
        destruct Hd as [E | (Hb & _)]; [|exfalso; lra].
        rewrite Hcu. split; [|left; reflexivity]. rewrite <- E. exact Hmin. }
    destruct (qltb SI (p_best a)); (eapply adv_same_r; [exact Hadv | apply same_set_ctrl]).
Qed.

(* ---- one iteration ---- *)
Lemma step_iter_adv : forall o s ev, o_det o = true -> o_sloppy o = true -> iter_det_ok o s ev = true ->
  exn s = false -> FY (cur s) ->
  exists s3, adv s s3 /\
    ((exn s3 = true /\ step_iter o s ev = s3) \/
     (exn s3 = false /\ exn (step_iter o s ev) = false /\ cur (step_iter o s ev) = cur s3 /\
      calls (step_iter o s ev) = calls s3 /\ fc (step_iter o s ev) = fc s3 /\
      (hist (step_iter o s ev) = hist s3 \/
       exists kk, hist (step_iter o s ev) = hist s3 ++ [mkH (cur s3) (fc s3) kk]))).
Proof.
  intros o s ev Hdet Hsl Hok Hx Hfy. unfold step_iter, iter_det_ok in *. cbv zeta in *.
  destruct (fin s || exn s) eqn:Efx.
  { exists s. split; [apply adv_refl|]. right. split; [exact Hx|]. split; [exact Hx|].
    split; [reflexivity|]. split; [reflexivity|]. split; [reflexivity|]. left. reflexivity. }
  pose proof (same_lock_ks o s) as Hs0.
  set (s0 := lock_ks o s) in *.
  assert (Hx0 : exn s0 = false) by (destruct Hs0 as (_ & _ & E & _); rewrite E; exact Hx).
  assert (Hfy0 : FY (cur s0)) by (destruct Hs0 as (_ & _ & _ & E & _); rewrite E; exact Hfy).
  set (okS := if want_search o s0 then search_det_ok (ie_search ev) s0 else true) in *.
  set (s1 := if want_search o s0 then search_phase o (ie_SI ev) (ie_search ev) s0 else s0) in *.
  assert (Hadv1 : okS = true -> (exn s1 = false -> (0 <= ie_SI ev)%Q) -> adv s s1).
  { intros HokS HSI. apply (adv_same_l s s0); [exact Hs0|]. unfold s1, okS in *.
    destruct (want_search o s0); [|apply adv_refl].
    apply adv_search; assumption. }
  destruct (exn s1) eqn:Ex1.
  { exists s1. split; [apply Hadv1; [exact Hok | intros C; discriminate]|].
    left. split; [exact Ex1 | reflexivity]. }
  pose proof (same_poll_decision o s1) as Hs2.
  destruct (poll_decision o s1) as [s2 dopoll] eqn:Epd. cbn [fst] in Hs2.
  apply andb_true_iff in Hok. destruct Hok as [Hok HSI].
  apply andb_true_iff in Hok. destruct Hok as [HokS HokP].
  apply Qle_bool_iff in HSI.
  specialize (Hadv1 HokS (fun _ => HSI)).
  set (s3 := if dopoll then poll_phase o (ie_SI ev) (ie_poll ev) s2 else s2) in *.
  assert (Hadv3 : adv s s3).
  { apply (adv_trans s s1 s3 Hadv1 Ex1). apply (adv_same_l s1 s2); [exact Hs2|].
    unfold s3. destruct dopoll; [|apply adv_refl].
    apply adv_poll; assumption. }
  exists s3. split; [exact Hadv3|].
  destruct (exn s3) eqn:Ex3.
  { left. split; reflexivity. }
  right. split; [reflexivity|].
  destruct (terminate _ _ _ _) as [f m].
  rewrite Hdet. cbn [negb andb exn cur calls fc hist].
  split; [reflexivity|]. split; [reflexivity|]. split; [reflexivity|]. split; [reflexivity|].
  destruct (dopoll || f); [right; eexists; reflexivity | left; reflexivity].
Qed.

(* ---- history ---- *)
Definition Mono (h : list hrow) : Prop :=
  forall (i j : nat) (a b : hrow), (i <= j)%nat ->
    nth_error h i = Some a -> nth_error h j = Some b -> (i_f (h_inc b) <= i_f (h_inc a))%Q.

Lemma Mono_nil : Mono [].
Proof. intros i j a b _ Ha _. destruct i; discriminate. Qed.

Lemma nth_error_snoc_last : forall (h : list hrow) r i x, (List.length h <= i)%nat ->
  nth_error (h ++ [r]) i = Some x -> x = r /\ i = List.length h.
Proof.
  intros h r i x Hle Hn. rewrite nth_error_app2 in Hn by exact Hle.
  destruct (i - List.length h)%nat as [|n] eqn:En; cbn [nth_error] in Hn.
  - inversion Hn. split; [reflexivity | lia].
  - destruct n; discriminate.
Qed.

Lemma Mono_snoc : forall h r, Mono h ->
  (forall x, In x h -> (i_f (h_inc r) <= i_f (h_inc x))%Q) -> Mono (h ++ [r]).
Proof.
  intros h r HM Hb i j a b Hij Ha Hb'.
  destruct (lt_dec j (List.length h)) as [Hj | Hj].
  - rewrite nth_error_app1 in Ha by lia. rewrite nth_error_app1 in Hb' by lia.
    exact (HM i j a b Hij Ha Hb').
  - destruct (nth_error_snoc_last h r j b) as [Eb Ej]; [lia | exact Hb' |]. subst b.
    destruct (lt_dec i (List.length h)) as [Hi | Hi].
    + rewrite nth_error_app1 in Ha by lia. apply Hb. eapply nth_error_In. exact Ha.
    + destruct (nth_error_snoc_last h r i a) as [Ea _]; [lia | exact Ha |]. subst a. apply Qle_refl.
Qed.

Definition InvM (s : st) : Prop :=
  Mono (hist s) /\
  (exn s = false -> FY (cur s) /\ forall h, In h (hist s) -> (i_f (cur s) <= i_f (h_inc h))%Q).

Lemma InvM_step : forall o s ev, o_det o = true -> o_sloppy o = true -> iter_det_ok o s ev = true ->
  InvM s -> InvM (step_iter o s ev).
Proof.
  intros o s ev Hdet Hsl Hok (HM & Hc).
  destruct (exn s) eqn:Hx.
  { rewrite step_iter_exn by exact Hx. split; [exact HM|]. intros C. congruence. }
  destruct (Hc eq_refl) as [Hfy Hbound].
  destruct (step_iter_adv o s ev Hdet Hsl Hok Hx Hfy)
    as (s3 & Hadv & [(Ex3 & Es) | (Ex3 & Ex' & Ec & Ecl & Efc & Hh)]).
  - rewrite Es. split; [rewrite (adv_hist _ _ Hadv); exact HM|]. intros C. congruence.
  - pose proof (adv_FY _ _ Hadv Ex3 Hfy) as Hfy3.
    pose proof (adv_le _ _ Hadv Ex3) as Hle.
    pose proof (adv_hist _ _ Hadv) as Hh3.
    assert (Hlef : (i_f (cur s3) <= i_f (cur s))%Q) by (unfold FY in *; lra).
    assert (Hbound3 : forall x, In x (hist s) -> (i_f (cur s3) <= i_f (h_inc x))%Q).
    { intros x Hin. eapply Qle_trans; [exact Hlef | exact (Hbound x Hin)]. }
    unfold InvM. rewrite Ec. split.
    + destruct Hh as [E | (kk & E)]; rewrite E, Hh3; [exact HM|].
      apply Mono_snoc; [exact HM|]. intros x Hin. cbn [h_inc]. exact (Hbound3 x Hin).
    + intros _. split; [exact Hfy3|]. intros h Hin.
      destruct Hh as [E | (kk & E)]; rewrite E, Hh3 in Hin.
      * exact (Hbound3 h Hin).
      * apply in_app_or in Hin. destruct Hin as [Hin | [Heq | []]]; [exact (Hbound3 h Hin)|].
        subst h. cbn [h_inc]. apply Qle_refl.
Qed.

Lemma InvM_run : forall o evs s, o_det o = true -> o_sloppy o = true -> run_det_ok o s evs = true ->
  InvM s -> InvM (run_loop o s evs).
Proof.
  intros o evs. unfold run_loop.
  induction evs as [|e r IH]; intros s Hdet Hsl Hok HI; cbn [fold_left run_det_ok] in *; [exact HI|].
  apply andb_true_iff in Hok. destruct Hok as [Hok1 Hok2].
  apply IH; [exact Hdet | exact Hsl | exact Hok2|]. apply InvM_step; assumption.
Qed.

Definition InvE (s : st) : Prop :=
  (forall h, In h (hist s) -> EvIn (h_inc h) (calls s) /\ h_fc h <= fc s) /\
  (exn s = false -> Good (cur s) (calls s)).

Lemma EvIn_incl : forall c (l l' : list (list Q * option Q)),
  (forall p, In p l -> In p l') -> EvIn c l -> EvIn c l'.
Proof. intros c l l' Hincl (y & Hin & Hy). exists y. split; [apply Hincl; exact Hin | exact Hy]. Qed.

Lemma InvE_step : forall o s ev, o_det o = true -> o_sloppy o = true -> iter_det_ok o s ev = true ->
  InvE s -> InvE (step_iter o s ev) /\ (forall p, In p (calls s) -> In p (calls (step_iter o s ev))).
Proof.
  intros o s ev Hdet Hsl Hok (HH & Hc).
  destruct (exn s) eqn:Hx.
  { rewrite step_iter_exn by exact Hx. split; [|intros p Hp; exact Hp].
    split; [exact HH|]. intros C. congruence. }
  pose proof (Hc eq_refl) as Hgood.
  assert (Hfy : FY (cur s)) by (destruct Hgood as (_ & Hf & _); exact Hf).
  destruct (step_iter_adv o s ev Hdet Hsl Hok Hx Hfy)
    as (s3 & Hadv & [(Ex3 & Es) | (Ex3 & Ex' & Ec & Ecl & Efc & Hh)]).
  - rewrite Es. split; [|intros p Hp; exact (adv_incl _ _ p Hadv Hp)]. split.
    + intros h Hin. rewrite (adv_hist _ _ Hadv) in Hin. destruct (HH h Hin) as [Hev Hfc].
      split; [exact (EvIn_incl _ _ _ (fun p => adv_incl _ _ p Hadv) Hev)|].
      pose proof (adv_fc _ _ Hadv). lia.
    + intros C. congruence.
  - pose proof (adv_Good _ _ Hadv Ex3 Hgood) as Hgood3.
    pose proof (adv_hist _ _ Hadv) as Hh3. pose proof (adv_fc _ _ Hadv) as Hfc3.
    assert (Hold : forall h, In h (hist s) -> EvIn (h_inc h) (calls s3) /\ h_fc h <= fc s3).
    { intros h Hin. destruct (HH h Hin) as [Hev Hfc].
      split; [exact (EvIn_incl _ _ _ (fun p => adv_incl _ _ p Hadv) Hev) | lia]. }
    split; [|intros p Hp; rewrite Ecl; exact (adv_incl _ _ p Hadv Hp)].
    unfold InvE. rewrite Ec, Ecl, Efc. split; [|intros _; exact Hgood3].
    intros h Hin. destruct Hh as [E | (kk & E)]; rewrite E, Hh3 in Hin.
    + exact (Hold h Hin).
    + apply in_app_or in Hin. destruct Hin as [Hin | [Heq | []]]; [exact (Hold h Hin)|].
      subst h. cbn [h_inc h_fc]. split; [|lia]. destruct Hgood3 as (Hev & _). exact Hev.
Qed.

Lemma InvE_run : forall o evs s, o_det o = true -> o_sloppy o = true -> run_det_ok o s evs = true ->
  InvE s -> InvE (run_loop o s evs) /\ (forall p, In p (calls s) -> In p (calls (run_loop o s evs))).
Proof.
  intros o evs. unfold run_loop.
  induction evs as [|e r IH]; intros s Hdet Hsl Hok HI; cbn [fold_left run_det_ok] in *.
  { split; [exact HI | intros p Hp; exact Hp]. }
  apply andb_true_iff in Hok. destruct Hok as [Hok1 Hok2].
  destruct (InvE_step o s e Hdet Hsl Hok1 HI) as [HI1 Hincl1].
  destruct (IH (step_iter o s e) Hdet Hsl Hok2 HI1) as [HI2 Hincl2].
  split; [exact HI2|]. intros p Hp. apply Hincl2. apply Hincl1. exact Hp.
Qed.

(* ---- initial design ---- *)
Lemma argmin_spec : forall l best,
  match argmin_rows best l with
  | None => best = None /\ l = []
  | Some (u, y) =>
      (best = Some (u, y) \/ In (u, y) l) /\
      (forall ub yb, best = Some (ub, yb) -> (y <= yb)%Q) /\
      (forall u' y', In (u', y') l -> (y <= y')%Q)
  end.
Proof.
  induction l as [|[u0 y0] r IH]; intros best; cbn [argmin_rows].
  - destruct best as [[u y]|].
    + split; [left; reflexivity|]. split; [|intros u' y' []].
      intros ub yb E. inversion E. apply Qle_refl.
    + split; reflexivity.
  - destruct best as [[ub0 yb0]|].
    + destruct (qltb y0 yb0) eqn:Eq.
      * apply qltb_true in Eq. specialize (IH (Some (u0, y0))).
        destruct (argmin_rows (Some (u0, y0)) r) as [[u y]|]; [|destruct IH as [C _]; discriminate].
        destruct IH as (Hin & Hb & Hmin).
        pose proof (Hb u0 y0 eq_refl) as Hy0.
        split; [right; destruct Hin as [E | Hin]; [left; inversion E; reflexivity | right; exact Hin]|].
        split.
        -- intros ub yb E. inversion E. subst yb. lra.
        -- intros u' y' [E | Hin']; [inversion E; subst y'; exact Hy0 | exact (Hmin u' y' Hin')].
      * apply qltb_false in Eq. specialize (IH (Some (ub0, yb0))).
        destruct (argmin_rows (Some (ub0, yb0)) r) as [[u y]|]; [|destruct IH as [C _]; discriminate].
        destruct IH as (Hin & Hb & Hmin).
        pose proof (Hb ub0 yb0 eq_refl) as Hyb.
        split; [destruct Hin as [E | Hin]; [left; exact E | right; right; exact Hin]|].
        split; [exact Hb|].
        intros u' y' [E | Hin']; [inversion E; subst y'; lra | exact (Hmin u' y' Hin')].
    + specialize (IH (Some (u0, y0))).
      destruct (argmin_rows (Some (u0, y0)) r) as [[u y]|]; [|destruct IH as [C _]; discriminate].
      destruct IH as (Hin & Hb & Hmin).
      pose proof (Hb u0 y0 eq_refl) as Hy0.
      split; [right; destruct Hin as [E | Hin]; [left; inversion E; reflexivity | right; exact Hin]|].
      split; [intros ub yb E; discriminate|].
      intros u' y' [E | Hin']; [inversion E; subst y'; exact Hy0 | exact (Hmin u' y' Hin')].
Qed.

Lemma init_calls_struct : forall l s recd,
  hist (fst (init_calls s recd l)) = hist s /\ cur (fst (init_calls s recd l)) = cur s.
Proof.
  induction l as [|c r IH]; intros s recd; cbn [init_calls]; [split; reflexivity|].
  destruct (exn s); [split; reflexivity|].
  assert (Hd : hist (do_eval s (ic_eval c)) = hist s /\ cur (do_eval s (ic_eval c)) = cur s).
  { destruct (e_fault (ic_eval c)) eqn:Ef.
    - destruct (do_eval_fault s _ Ef) as (_ & _ & _ & E4 & E5). split; assumption.
    - destruct (do_eval_ok s _ Ef) as (_ & _ & _ & E4 & E5). split; assumption. }
  destruct (exn (do_eval s (ic_eval c))); [exact Hd|].
  destruct Hd as [Hd1 Hd2].
  match goal with |- context [init_calls ?s' ?rc r] => destruct (IH s' rc) as [I1 I2] end.
  split; congruence.
Qed.

Definition icond (y0 : Q) (c : init_call) : bool :=
  e_fault (ic_eval c) ||
  (Qeq_bool (e_fmu (ic_eval c)) (e_y (ic_eval c)) && Qeq_bool (e_fs (ic_eval c)) 0 &&
   (ic_record c || Qeq_bool (e_y (ic_eval c)) y0)).

Definition IInv (y0 : Q) (s : st) (recd : list (list Q * Q)) : Prop :=
  (forall u y, In (u, y) recd -> In (u, Some y) (calls s)) /\
  (forall u y, In (u, Some y) (calls s) -> In (u, y) recd \/ (y == y0)%Q).

Lemma init_calls_inv : forall y0 l s recd, forallb (icond y0) l = true -> IInv y0 s recd ->
  exn (fst (init_calls s recd l)) = false ->
  IInv y0 (fst (init_calls s recd l)) (snd (init_calls s recd l)) /\
  (forall p, In p recd -> In p (snd (init_calls s recd l))).
Proof.
  intros y0. induction l as [|c r IH]; intros s recd Hall HI Hx; cbn [init_calls forallb] in *.
  { split; [exact HI | intros p Hp; exact Hp]. }
  destruct (exn s) eqn:Hxs; [cbn [fst] in Hx; congruence|].
  apply andb_true_iff in Hall. destruct Hall as [Hc Hall].
  destruct (e_fault (ic_eval c)) eqn:Ef.
  { destruct (do_eval_fault s _ Ef) as (E1 & _). rewrite E1 in Hx. cbn [fst] in Hx. congruence. }
  destruct (do_eval_ok s _ Ef) as (E1 & E2 & _). rewrite E1 in *.
  unfold icond in Hc. rewrite Ef in Hc. cbn [orb] in Hc.
  apply andb_true_iff in Hc. destruct Hc as [_ Hrec].
  destruct HI as [HI1 HI2].
  set (recd' := if ic_record c then recd ++ [(e_u (ic_eval c), e_y (ic_eval c))] else recd) in *.
  assert (Hincl : forall p, In p recd -> In p recd').
  { intros p Hp. unfold recd'. destruct (ic_record c); [apply in_or_app; left; exact Hp | exact Hp]. }
  assert (HI' : IInv y0 (do_eval s (ic_eval c)) recd').
  { split.
    - intros u y Hin. rewrite E2. apply in_or_app. unfold recd' in Hin.
      destruct (ic_record c).
      + apply in_app_or in Hin. destruct Hin as [Hin | [Heq | []]].
        * left. exact (HI1 u y Hin).
        * right. left. inversion Heq. reflexivity.
      + left. exact (HI1 u y Hin).
    - intros u y Hin. rewrite E2 in Hin. apply in_app_or in Hin. destruct Hin as [Hin | [Heq | []]].
      + destruct (HI2 u y Hin) as [H | H]; [left; apply Hincl; exact H | right; exact H].
      + inversion Heq. subst u y. unfold recd'. destruct (ic_record c); cbn [orb] in Hrec.
        * left. apply in_or_app. right. left. reflexivity.
        * right. apply Qeq_bool_iff. exact Hrec. }
  destruct (IH (do_eval s (ic_eval c)) recd' Hall HI' Hx) as [IH1 IH2].
  split; [exact IH1|]. intros p Hp. apply IH2. apply Hincl. exact Hp.
Qed.

Lemma init_phase_struct : forall k0 ks0 o l fsd0,
  hist (init_phase k0 ks0 o l fsd0) = [] /\ FY (cur (init_phase k0 ks0 o l fsd0)).
Proof.
  intros k0 ks0 o l fsd0. unfold init_phase.
  destruct (init_calls_struct l (init_state k0 ks0 o) []) as [Hh Hc].
  destruct (init_calls (init_state k0 ks0 o) [] l) as [s recd]. cbn [fst] in *.
  destruct (argmin_rows None recd) as [[u y]|].
  - split; [exact Hh|]. unfold FY. cbn [set_cur cur i_f i_y]. apply Qeq_refl.
  - split; [exact Hh|]. rewrite Hc. unfold FY. cbn [init_state cur i_f i_y]. apply Qeq_refl.
Qed.

Lemma init_good : forall k0 ks0 o c0 r fsd0, init_det_ok (c0 :: r) = true -> (fsd0 == 0)%Q ->
  let s := init_phase k0 ks0 o (c0 :: r) fsd0 in
  exn s = false ->
  Good (cur s) (calls s) /\ In (e_u (ic_eval c0), Some (e_y (ic_eval c0))) (calls s).
Proof.
  intros k0 ks0 o c0 r fsd0 Hok Hfsd s Hx. unfold s, init_phase in *. clear s.
  unfold init_det_ok in Hok. apply andb_true_iff in Hok. destruct Hok as [Hall Hrec0].
  change (forallb (icond (e_y (ic_eval c0))) (c0 :: r) = true) in Hall.
  cbn [forallb] in Hall. apply andb_true_iff in Hall. destruct Hall as [_ Hall].
  cbn [init_calls] in *.
  change (exn (init_state k0 ks0 o)) with false in *. cbv iota in *.
  set (s0 := init_state k0 ks0 o) in *.
  set (y0 := e_y (ic_eval c0)) in *. set (u0 := e_u (ic_eval c0)) in *.
  rewrite Hrec0 in *. cbn [app] in *.
  destruct (e_fault (ic_eval c0)) eqn:Ef.
  { exfalso. destruct (do_eval_fault s0 _ Ef) as (E1 & _). rewrite E1 in Hx.
    destruct (argmin_rows None []) as [[u y]|]; cbn [set_cur exn] in Hx; congruence. }
  destruct (do_eval_ok s0 _ Ef) as (E1 & E2 & _). rewrite E1 in *.
  fold u0 y0 in E2. change (calls s0) with (@nil (list Q * option Q)) in E2. cbn [app] in E2.
  assert (HI : IInv y0 (do_eval s0 (ic_eval c0)) [(u0, y0)]).
  { split.
    - intros u y [Heq | []]. inversion Heq. rewrite E2. left. reflexivity.
    - intros u y Hin. rewrite E2 in Hin. destruct Hin as [Heq | []]. inversion Heq. left. left. reflexivity. }
  pose proof (init_calls_inv y0 r (do_eval s0 (ic_eval c0)) [(u0, y0)] Hall HI) as Hinv.
  destruct (init_calls (do_eval s0 (ic_eval c0)) [(u0, y0)] r) as [sf recd]. cbn [fst snd] in Hinv.
  pose proof (argmin_spec recd None) as Harg.
  destruct (argmin_rows None recd) as [[u y]|].
  - cbn [set_cur exn cur calls] in *. specialize (Hinv Hx).
    destruct Hinv as [[HI1 HI2] Hincl]. destruct Harg as ([C | Hin] & _ & Hmin); [discriminate|].
    assert (Hin0 : In (u0, y0) recd) by (apply Hincl; left; reflexivity).
    split; [|exact (HI1 u0 y0 Hin0)].
    split; [exists y; cbn [i_u i_y]; split; [exact (HI1 u y Hin) | apply Qeq_refl]|].
    cbn [i_f i_y i_s]. split; [apply Qeq_refl|]. split; [exact Hfsd|].
    intros u' y' Hin'. destruct (HI2 u' y' Hin') as [H | H].
    + exact (Hmin u' y' H).
    + pose proof (Hmin u0 y0 Hin0). lra.
  - exfalso. specialize (Hinv Hx). destruct Hinv as [_ Hincl]. destruct Harg as [_ Hnil].
    subst recd. exact (Hincl (u0, y0) (or_introl eq_refl)).
Qed.

Lemma det_ok_elim : forall k0 ks0 o l fsd0 evs, det_ok k0 ks0 o l fsd0 evs = true ->
  o_det o = true /\ (fsd0 == 0)%Q /\ init_det_ok l = true /\
  run_det_ok o (init_phase k0 ks0 o l fsd0) evs = true.
Proof.
  intros k0 ks0 o l fsd0 evs H. unfold det_ok in H.
  apply andb_true_iff in H. destruct H as [H H4].
  apply andb_true_iff in H. destruct H as [H H3].
  apply andb_true_iff in H. destruct H as [H1 H2].
  split; [exact H1|]. split; [apply Qeq_bool_iff; exact H2|]. split; assumption.
Qed.

Lemma InvE_init : forall k0 ks0 o l fsd0, init_det_ok l = true -> (fsd0 == 0)%Q -> l <> [] ->
  InvE (init_phase k0 ks0 o l fsd0).
Proof.
  intros k0 ks0 o l fsd0 Hok Hfsd Hne. destruct l as [|c0 r]; [congruence|].
  destruct (init_phase_struct k0 ks0 o (c0 :: r) fsd0) as [Hh _].
  split; [rewrite Hh; intros h []|].
  intros Hx. destruct (init_good k0 ks0 o c0 r fsd0 Hok Hfsd Hx) as [Hg _]. exact Hg.
Qed.

Lemma InvM_init : forall k0 ks0 o l fsd0, InvM (init_phase k0 ks0 o l fsd0).
Proof.
  intros k0 ks0 o l fsd0. destruct (init_phase_struct k0 ks0 o l fsd0) as [Hh Hfy].
  split; [rewrite Hh; apply Mono_nil|]. intros _. split; [exact Hfy|]. rewrite Hh. intros h [].
Qed.

Lemma recorded_nonempty : forall (l : list init_call),
  (exists c, In c l /\ ic_record c = true /\ e_fault (ic_eval c) = false) -> l <> [].
Proof. intros l (c & Hin & _) E. subst l. exact Hin. Qed.

Lemma InvE_final : forall k0 ks0 o l fsd0 evs, o_sloppy o = true -> det_ok k0 ks0 o l fsd0 evs = true ->
  l <> [] ->
  InvE (run k0 ks0 o l fsd0 evs) /\
  (forall p, In p (calls (init_phase k0 ks0 o l fsd0)) -> In p (calls (run k0 ks0 o l fsd0 evs))).
Proof.
  intros k0 ks0 o l fsd0 evs Hsl Hok Hne.
  destruct (det_ok_elim _ _ _ _ _ _ Hok) as (Hdet & Hfsd & Hinit & Hrun).
  unfold run. apply InvE_run; [exact Hdet | exact Hsl | exact Hrun|].
  apply InvE_init; assumption.
Qed.

(* ---- the theorems of Props/C04.v ---- *)
Theorem result_is_best_evaluated :
  forall (k0 ks0 : Z) (o : opts) (l : list init_call) (fsd0 : Q) (evs : list iter_ev),
    o_sloppy o = true -> det_ok k0 ks0 o l fsd0 evs = true ->
    let s := run k0 ks0 o l fsd0 evs in
    exn s = false ->
    calls s <> [] -> (exists c, In c l /\ ic_record c = true /\ e_fault (ic_eval c) = false) ->
    (exists y, In (i_u (cur s), Some y) (calls s) /\ (y == i_y (cur s))%Q) /\
    (i_f (cur s) == i_y (cur s))%Q /\ (i_s (cur s) == 0)%Q /\
    (forall u y, In (u, Some y) (calls s) -> (i_y (cur s) <= y)%Q).
Proof.
  intros k0 ks0 o l fsd0 evs Hsl Hok s Hx _ HR.
  destruct (InvE_final k0 ks0 o l fsd0 evs Hsl Hok (recorded_nonempty l HR)) as [[_ Hg] _].
  exact (Hg Hx).
Qed.

Theorem history_monotone :
  forall (k0 ks0 : Z) (o : opts) (l : list init_call) (fsd0 : Q) (evs : list iter_ev),
    o_sloppy o = true -> det_ok k0 ks0 o l fsd0 evs = true ->
    let s := run k0 ks0 o l fsd0 evs in
    forall (i j : nat) (a b : hrow), (i <= j)%nat ->
      nth_error (hist s) i = Some a -> nth_error (hist s) j = Some b ->
      (i_f (h_inc b) <= i_f (h_inc a))%Q.
Proof.
  intros k0 ks0 o l fsd0 evs Hsl Hok s.
  destruct (det_ok_elim _ _ _ _ _ _ Hok) as (Hdet & Hfsd & Hinit & Hrun).
  destruct (InvM_run o evs _ Hdet Hsl Hrun (InvM_init k0 ks0 o l fsd0)) as [HM _].
  exact HM.
Qed.

Theorem history_rows_evaluated :
  forall (k0 ks0 : Z) (o : opts) (l : list init_call) (fsd0 : Q) (evs : list iter_ev),
    o_sloppy o = true -> det_ok k0 ks0 o l fsd0 evs = true ->
    (exists c, In c l /\ ic_record c = true /\ e_fault (ic_eval c) = false) ->
    let s := run k0 ks0 o l fsd0 evs in
    forall h, In h (hist s) ->
      (exists y, In (i_u (h_inc h), Some y) (calls s) /\ (y == i_y (h_inc h))%Q) /\ h_fc h <= fc s.
Proof.
  intros k0 ks0 o l fsd0 evs Hsl Hok HR s h Hin.
  destruct (InvE_final k0 ks0 o l fsd0 evs Hsl Hok (recorded_nonempty l HR)) as [[HH _] _].
  exact (HH h Hin).
Qed.

Theorem never_worse_than_start :
  forall (k0 ks0 : Z) (o : opts) (l : list init_call) (fsd0 : Q) (evs : list iter_ev) (c0 : init_call) (r : list init_call),
    o_sloppy o = true -> det_ok k0 ks0 o l fsd0 evs = true ->
    l = c0 :: r -> e_fault (ic_eval c0) = false ->
    let s := run k0 ks0 o l fsd0 evs in
    exn s = false -> (i_f (cur s) <= e_y (ic_eval c0))%Q.
Proof.
  intros k0 ks0 o l fsd0 evs c0 r Hsl Hok Hl Hf0 s Hx. subst l.
  destruct (det_ok_elim _ _ _ _ _ _ Hok) as (Hdet & Hfsd & Hinit & Hrun).
  assert (Hne : c0 :: r <> []) by discriminate.
  destruct (InvE_final k0 ks0 o (c0 :: r) fsd0 evs Hsl Hok Hne) as [[_ Hg] Hincl].
  assert (Hx0 : exn (init_phase k0 ks0 o (c0 :: r) fsd0) = false).
  { destruct (exn (init_phase k0 ks0 o (c0 :: r) fsd0)) eqn:E; [|reflexivity].
    unfold s, run in Hx. rewrite (exception_absorbing o _ evs E) in Hx. congruence. }
  destruct (init_good k0 ks0 o c0 r fsd0 Hinit Hfsd Hx0) as [_ Hin0].
  apply Hincl in Hin0. fold s in Hin0, Hg.
  destruct (Hg Hx) as (_ & Hfy & _ & Hmin).
  pose proof (Hmin _ _ Hin0). lra.
Qed.

Definition ex_init : list init_call :=
  [mkIC (mkE [0%Q] false 1 1 0 0 true) true; mkIC (mkE [1%Q] false 2 2 0 0 true) true].

Definition ex_evs : list iter_ev :=
  [mkIE 1 (mkSE None 0) (mkPE 2 [mkE [1 # 2] false (1 # 2) (1 # 2) 0 (1 # 2) true] None) None None].

Theorem nondefault_refuted :
  exists k0 ks0 o l fsd0 evs,
    o_sloppy o = false /\ o_det o = true /\
    let s := run k0 ks0 o l fsd0 evs in
    exists u y, In (u, Some y) (calls s) /\ (y < i_y (cur s))%Q.
Proof.
  exists 0, 0, (ex_opts false), ex_init, 0%Q, ex_evs.
  split; [reflexivity|]. split; [reflexivity|]. cbv zeta.
  exists [1 # 2], (1 # 2). split.
  - vm_compute. right. right. left. reflexivity.
  - vm_compute. reflexivity.
Qed.

Theorem premises_satisfiable_c04 : exists k0 ks0 o l fsd0 evs,
  o_sloppy o = true /\ det_ok k0 ks0 o l fsd0 evs = true /\ (3 <= List.length (calls (run k0 ks0 o l fsd0 evs)))%nat /\
  (1 <= List.length evs)%nat.
Proof.
  exists 0, 0, (ex_opts true), ex_init, 0%Q, ex_evs.
  split; [reflexivity|]. split; [vm_compute; reflexivity|].
  split; apply Nat.leb_le; vm_compute; reflexivity.
Qed.

(* Why [result_is_best_evaluated] carries the premise [exn s = false]: a fault in the middle of a poll
   step propagates before the incumbent is updated, so an earlier, better poll value sits in [calls]. *)
Definition ex_evs_fault : list iter_ev :=
  [mkIE 1 (mkSE None 0)
        (mkPE 2 [mkE [1 # 2] false (1 # 2) (1 # 2) 0 (1 # 2) true; mkE [3 # 2] true 0 0 0 0 false] None)
        None None].

Theorem best_evaluated_needs_no_fault :
  exists k0 ks0 o l fsd0 evs,
    o_sloppy o = true /\ det_ok k0 ks0 o l fsd0 evs = true /\
    let s := run k0 ks0 o l fsd0 evs in
    exn s = true /\ calls s <> [] /\
    (exists c, In c l /\ ic_record c = true /\ e_fault (ic_eval c) = false) /\
    exists u y, In (u, Some y) (calls s) /\ (y < i_y (cur s))%Q.
Proof.
  exists 0, 0, (ex_opts true), ex_init, 0%Q, ex_evs_fault.
  split; [reflexivity|]. split; [vm_compute; reflexivity|]. cbv zeta.
  split; [vm_compute; reflexivity|]. split; [vm_compute; discriminate|].
  split.
  - exists (mkIC (mkE [0%Q] false 1 1 0 0 true) true).
    split; [left; reflexivity|]. split; reflexivity.
  - exists [1 # 2], (1 # 2). split.
    + vm_compute. right. right. left. reflexivity.
    + vm_compute. reflexivity.
Qed.
