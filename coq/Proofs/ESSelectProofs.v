(* ESSelectProofs.v — all proofs about Model/ESSelect.v used by Props/C18.v. *)
From Coq Require Import ZArith QArith List String Bool Lia Lqa.
From PV Require Import Model.Val Model.ESSelect.
Import ListNotations.
Open Scope Z_scope.

(* ================================================================== generic helpers *)

Lemma Qle_bool_false_lt (a b : Q) : Qle_bool a b = false -> (b < a)%Q.
Proof.
  intro H. apply Qnot_le_lt. intro C. apply Qle_bool_iff in C. congruence.
Qed.

Lemma nth_error_nil_none {A} (n : nat) : nth_error (@nil A) n = None.
Proof. destruct n; reflexivity. Qed.

(* ================================================================== (b) argsort / ES loop *)

(* the order of np.argsort on floats (numbers by value, NaN last) is a total preorder *)
Lemma zle_bool_iff (a b : zv) : zle_bool a b = true <-> zle a b.
Proof.
  destruct a as [x|], b as [y|]; cbn [zle_bool zle].
  - apply Qle_bool_iff.
  - tauto.
  - split; [discriminate|tauto].
  - tauto.
Qed.

Lemma zle_refl (a : zv) : zle a a.
Proof. destruct a as [x|]; cbn [zle]; [apply Qle_refl|exact I]. Qed.

Lemma zle_trans (a b c : zv) : zle a b -> zle b c -> zle a c.
Proof.
  destruct a as [x|], b as [y|], c as [z|]; cbn [zle]; try tauto.
  apply Qle_trans.
Qed.

Lemma zle_bool_false (a b : zv) : zle_bool a b = false -> zle b a.
Proof.
  destruct a as [x|], b as [y|]; cbn [zle_bool zle]; try discriminate; try tauto.
  intro H. apply Qlt_le_weak. apply Qle_bool_false_lt. exact H.
Qed.

Lemma ins_In (x a : zv * nat) (l : list (zv * nat)) : In x (ins a l) <-> x = a \/ In x l.
Proof.
  induction l as [|y r IH]; cbn [ins].
  - cbn [In]. intuition.
  - destruct (zle_bool (fst a) (fst y)).
    + cbn [In]. intuition.
    + cbn [In]. rewrite IH. intuition.
Qed.

Lemma sort_pairs_In (x : zv * nat) (l : list (zv * nat)) : In x (sort_pairs l) <-> In x l.
Proof.
  unfold sort_pairs. induction l as [|a r IH]; cbn [fold_right].
  - tauto.
  - rewrite ins_In, IH. cbn [In]. intuition.
Qed.

Definition hd_min (l : list (zv * nat)) : Prop :=
  match l with
  | [] => True
  | y :: _ => forall x, In x l -> zle (fst y) (fst x)
  end.

Lemma ins_hd_min (a : zv * nat) (l : list (zv * nat)) : hd_min l -> hd_min (ins a l).
Proof.
  destruct l as [|y r]; cbn [ins hd_min].
  - intros _ x [Hx|[]]. subst. apply zle_refl.
  - intro H. destruct (zle_bool (fst a) (fst y)) eqn:E.
    + apply zle_bool_iff in E. intros x [Hx|Hx].
      * subst. apply zle_refl.
      * eapply zle_trans; [exact E | apply H; exact Hx].
    + apply zle_bool_false in E. intros x Hx.
      change (In x (y :: ins a r)) in Hx. destruct Hx as [Hx|Hx].
      * subst. apply zle_refl.
      * apply ins_In in Hx. destruct Hx as [Hx|Hx].
        -- subst. exact E.
        -- apply H. right. exact Hx.
Qed.

Lemma sort_hd_min (l : list (zv * nat)) : hd_min (sort_pairs l).
Proof.
  unfold sort_pairs. induction l as [|a r IH]; cbn [fold_right].
  - exact I.
  - apply ins_hd_min. exact IH.
Qed.

Lemma In_combine_seq (z : list zv) : forall (s : nat) (q : zv) (i : nat),
  In (q, i) (combine z (seq s (List.length z))) <-> (s <= i)%nat /\ nth_error z (i - s) = Some q.
Proof.
  induction z as [|x r IH]; intros s q i; cbn [List.length seq combine In].
  - split; [tauto|]. intros [_ H]. rewrite nth_error_nil_none in H. discriminate.
  - rewrite IH. split.
    + intros [H|[H1 H2]].
      * inversion H; subst. split; [lia|]. replace (i - i)%nat with 0%nat by lia. reflexivity.
      * split; [lia|]. replace (i - s)%nat with (S (i - S s)) by lia. exact H2.
    + intros [H1 H2]. destruct (Nat.eq_dec s i) as [->|Hne].
      * left. replace (i - i)%nat with 0%nat in H2 by lia. cbn in H2. congruence.
      * right. split; [lia|]. replace (i - s)%nat with (S (i - S s)) in H2 by lia. exact H2.
Qed.

(* the first index returned by argsort points at a minimal element *)
Lemma argsort_head (z : list zv) :
  z <> [] ->
  exists (i0 : nat) (rest : list nat) (q0 : zv),
    argsort z = i0 :: rest /\ nth_error z i0 = Some q0 /\
    forall (j : nat) (q : zv), nth_error z j = Some q -> zle q0 q.
Proof.
  intro Hne. unfold argsort.
  set (l := combine z (seq 0 (List.length z))).
  pose proof (sort_hd_min l) as Hmin.
  destruct (sort_pairs l) as [|[q0 i0] rest] eqn:E.
  - exfalso. destruct z as [|x r]; [congruence|].
    assert (In (x, 0%nat) (sort_pairs l)) as Hin.
    { apply sort_pairs_In. unfold l. apply In_combine_seq. split; [lia|]. reflexivity. }
    rewrite E in Hin. exact Hin.
  - exists i0, (map snd rest), q0. split; [reflexivity|].
    assert (In (q0, i0) l) as Hin.
    { apply sort_pairs_In. rewrite E. left. reflexivity. }
    unfold l in Hin. apply In_combine_seq in Hin. destruct Hin as [_ Hn].
    rewrite Nat.sub_0_r in Hn. split; [exact Hn|].
    intros j q Hj. cbn [hd_min] in Hmin.
    specialize (Hmin (q, j)). cbn [fst] in Hmin. apply Hmin.
    rewrite <- E. apply sort_pairs_In. unfold l. apply In_combine_seq.
    split; [lia|]. rewrite Nat.sub_0_r. exact Hj.
Qed.

Section ESProofs.
  Variable row : Type.
  Notation cand := (row * zv)%type.

  (* what the loop selects from the accumulated list *)
  Definition sel_idx (lamb : nat) (A : list cand) : list nat :=
    firstn (Nat.min (List.length (map fst A)) lamb) (argsort (map snd A)).

  (* the state is a function of the accumulated survivors A (both arrays stay in step) *)
  Definition aligned (lamb : nat) (st : es_state row) (A : list cand) : Prop :=
    usc st = map fst A /\ zc st = map snd A /\
    us st = gather (map fst A) (sel_idx lamb A) /\ zs st = gather (map snd A) (sel_idx lamb A).

  Lemma aligned_unique (lamb : nat) (st st' : es_state row) (A : list cand) :
    aligned lamb st A -> aligned lamb st' A -> st = st'.
  Proof.
    intros (H1 & H2 & H3 & H4) (G1 & G2 & G3 & G4).
    destruct st as [a b c d], st' as [a' b' c' d']. cbn [usc zc us zs] in *. congruence.
  Qed.

  Lemma es_init_aligned (lamb : nat) : aligned lamb (es_init row) [].
  Proof. unfold aligned, es_init, sel_idx. cbn. repeat split. Qed.

  Lemma es_step_first (lamb : nat) (st : es_state row) (g : list cand) :
    aligned lamb (es_step row true lamb st g) g.
  Proof. unfold aligned, es_step, sel_idx. cbn. repeat split. Qed.

  (* also for a generation without survivors: nothing is appended, the selection is redone on A *)
  Lemma es_step_next (lamb : nat) (st : es_state row) (A g : list cand) :
    aligned lamb st A -> aligned lamb (es_step row false lamb st g) (A ++ g).
  Proof.
    intros (H1 & H2 & _ & _). unfold aligned, es_step, sel_idx.
    cbn [usc zc us zs]. rewrite H1, H2. rewrite !map_app. repeat split.
  Qed.

  Lemma es_loop_aligned (lamb : nat) : forall (gens : list (list cand)) (st : es_state row) (A : list cand),
    aligned lamb st A ->
    aligned lamb (es_loop row false lamb st gens) (A ++ List.concat gens).
  Proof.
    induction gens as [|g r IH]; intros st A Hal; cbn [es_loop List.concat].
    - rewrite app_nil_r. exact Hal.
    - rewrite app_assoc. apply IH. apply es_step_next. exact Hal.
  Qed.

  Lemma es_run_aligned (lamb : nat) (gens : list (list cand)) :
    aligned lamb (es_loop row true lamb (es_init row) gens) (List.concat gens).
  Proof.
    destruct gens as [|g r]; cbn [es_loop List.concat].
    - apply es_init_aligned.
    - apply es_loop_aligned. apply es_step_first.
  Qed.

  (* the result depends on the generations only through the accumulated survivors *)
  Theorem es_run_concat (lamb : nat) (gens gens' : list (list cand)) :
    List.concat gens = List.concat gens' -> es_run row lamb gens = es_run row lamb gens'.
  Proof.
    intro H. unfold es_run. f_equal.
    apply (aligned_unique lamb _ _ (List.concat gens)); [apply es_run_aligned|].
    rewrite H. apply es_run_aligned.
  Qed.

  Lemma aligned_result (lamb : nat) (st : es_state row) (A : list cand) :
    (1 <= lamb)%nat -> A <> [] -> aligned lamb st A ->
    exists (u : row) (z : zv),
      es_result row st = ESPoint u z /\ In (u, z) A /\
      forall c : cand, In c A -> zle z (snd c).
  Proof.
    intros Hl HA (_ & _ & Hus & Hzs).
    assert (map snd A <> []) as Hz. { destruct A; [congruence|discriminate]. }
    destruct (argsort_head (map snd A) Hz) as (i0 & rest & q0 & Hs & Hn & Hmin).
    unfold sel_idx in *. rewrite Hs in *.
    assert (exists n, Nat.min (List.length (map fst A)) lamb = S n) as [n Hn'].
    { destruct A as [|c A']; [congruence|]. cbn [map List.length].
      exists (Nat.min (List.length (map fst A')) (lamb - 1)). lia. }
    rewrite Hn' in *. rewrite firstn_cons in *.
    rewrite nth_error_map in Hn. destruct (nth_error A i0) as [[u0 z0]|] eqn:EA; [|discriminate].
    cbn [option_map snd] in Hn. inversion Hn; subst z0.
    unfold gather in Hus, Hzs. cbn [flat_map] in Hus, Hzs.
    rewrite nth_error_map, EA in Hus. rewrite nth_error_map, EA in Hzs.
    cbn [option_map fst snd app] in Hus, Hzs.
    exists u0, q0. split; [|split].
    - unfold es_result. rewrite Hus, Hzs. reflexivity.
    - eapply nth_error_In. exact EA.
    - intros [u z] Hin. cbn [snd]. apply In_nth_error in Hin. destruct Hin as [j Hj].
      apply (Hmin j z). rewrite nth_error_map, Hj. reflexivity.
  Qed.

  Lemma exists_nonempty_concat (gens : list (list cand)) :
    Exists (fun g => g <> []) gens -> List.concat gens <> [].
  Proof.
    induction 1 as [g r Hg|g r _ IH]; cbn [List.concat].
    - destruct g; [congruence|discriminate].
    - intro H. apply app_eq_nil in H. tauto.
  Qed.

  Theorem es_returns_min (lamb : nat) (gens : list (list cand)) :
    (1 <= lamb)%nat -> Exists (fun g => g <> []) gens ->
    exists (u : row) (z : zv),
      es_run row lamb gens = ESPoint u z /\ In (u, z) (List.concat gens) /\
      forall c : cand, In c (List.concat gens) -> zle z (snd c).
  Proof.
    intros Hl Hex. unfold es_run.
    apply aligned_result with (lamb := lamb) (A := List.concat gens);
      [exact Hl|apply exists_nonempty_concat; exact Hex|apply es_run_aligned].
  Qed.

  (* as soon as one survivor carries a NUMBER, the returned value is a number: the least one *)
  Theorem es_returns_min_number (lamb : nat) (gens : list (list cand)) (u0 : row) (q0 : Q) :
    (1 <= lamb)%nat -> In (u0, Some q0) (List.concat gens) ->
    exists (u : row) (q : Q),
      es_run row lamb gens = ESPoint u (Some q) /\ In (u, Some q) (List.concat gens) /\
      (forall (u' : row) (q' : Q), In (u', Some q') (List.concat gens) -> (q <= q')%Q) /\
      (forall u' : row, In (u', None) (List.concat gens) -> es_run row lamb gens <> ESPoint u' None).
  Proof.
    intros Hl Hin.
    assert (Exists (fun g => g <> []) gens) as Hex.
    { apply in_concat in Hin. destruct Hin as (g & Hg & Hin). apply Exists_exists.
      exists g. split; [exact Hg|]. intro E. rewrite E in Hin. exact Hin. }
    destruct (es_returns_min lamb gens Hl Hex) as (u & z & Hr & Hm & Hmin).
    destruct z as [q|].
    - exists u, q. split; [exact Hr|]. split; [exact Hm|]. split.
      + intros u' q' H'. exact (Hmin (u', Some q') H').
      + intros u' _. rewrite Hr. discriminate.
    - exfalso. exact (Hmin (u0, Some q0) Hin).
  Qed.

  (* a generation without survivors changes nothing: earlier (and later) survivors are kept *)
  Theorem es_empty_generation_skipped (lamb : nat) (gens1 gens2 : list (list cand)) :
    es_run row lamb (gens1 ++ [] :: gens2) = es_run row lamb (gens1 ++ gens2) /\
    ((1 <= lamb)%nat -> List.concat gens1 <> [] -> es_run row lamb (gens1 ++ [] :: gens2) <> ESEmpty).
  Proof.
    split.
    - apply es_run_concat. rewrite !concat_app. reflexivity.
    - intros Hl Hne.
      assert (Exists (fun g => g <> []) (gens1 ++ [] :: gens2)) as Hex.
      { apply Exists_app. left. clear - Hne. induction gens1 as [|g r IH]; cbn [List.concat] in Hne; [congruence|].
        destruct g as [|c g'].
        - right. apply IH. exact Hne.
        - left. discriminate. }
      destruct (es_returns_min lamb _ Hl Hex) as (u & z & Hr & _). rewrite Hr. discriminate.
  Qed.

  (* whatever the populations, a returned pair is never invented: it is an accumulated survivor *)
  Theorem es_result_is_survivor (lamb : nat) (gens : list (list cand)) (u : row) (z : zv) :
    es_run row lamb gens = ESPoint u z -> In u (map fst (List.concat gens)).
  Proof.
    intro H.
    destruct (List.concat gens) as [|c A] eqn:EA.
    - exfalso. unfold es_run in H. pose proof (es_run_aligned lamb gens) as (_ & _ & Hus & _).
      rewrite EA in Hus. unfold es_result in H. rewrite Hus in H. cbn in H. discriminate.
    - assert (Exists (fun g => g <> []) gens) as Hex.
      { assert (In c (List.concat gens)) as Hc by (rewrite EA; left; reflexivity).
        apply in_concat in Hc. destruct Hc as (g & Hg & Hin). apply Exists_exists.
        exists g. split; [exact Hg|]. intro E. rewrite E in Hin. exact Hin. }
      destruct lamb as [|l].
      + exfalso. unfold es_run in H. pose proof (es_run_aligned 0 gens) as (_ & _ & Hus & _).
        unfold sel_idx in Hus. rewrite Nat.min_0_r in Hus. cbn [firstn gather flat_map] in Hus.
        unfold es_result in H. rewrite Hus in H. discriminate.
      + destruct (es_returns_min (S l) gens ltac:(lia) Hex) as (u1 & z1 & Hr & Hm & _).
        rewrite Hr in H. inversion H; subst u1 z1. rewrite <- EA.
        apply in_map_iff. exists (u, z). split; [reflexivity|exact Hm].
  Qed.

  (* z[0] never fails once us is non-empty: us and z are gathered with the same in-range indices *)
  Lemma gather_length {A} (l : list A) : forall idx : list nat,
    (forall i, In i idx -> (i < List.length l)%nat) -> List.length (gather l idx) = List.length idx.
  Proof.
    induction idx as [|i r IH]; intro H; [reflexivity|].
    unfold gather in *. cbn [flat_map]. rewrite app_length, IH by (intros k Hk; apply H; right; exact Hk).
    destruct (nth_error l i) eqn:E; [reflexivity|].
    apply nth_error_None in E. specialize (H i (or_introl eq_refl)). lia.
  Qed.

  Lemma argsort_range (z : list zv) (i : nat) : In i (argsort z) -> (i < List.length z)%nat.
  Proof.
    unfold argsort. intro H. apply in_map_iff in H. destruct H as ([q j] & Hj & Hin). cbn in Hj. subst j.
    apply (proj1 (sort_pairs_In _ _)) in Hin. apply (proj1 (In_combine_seq _ _ _ _)) in Hin. destruct Hin as [_ Hn].
    apply nth_error_Some. rewrite Nat.sub_0_r in Hn. congruence.
  Qed.

  Theorem es_never_stuck (lamb : nat) (gens : list (list cand)) : es_run row lamb gens <> ESStuck.
  Proof.
    unfold es_run, es_result.
    pose proof (es_run_aligned lamb gens) as (_ & _ & Hus & Hzs).
    set (A := List.concat gens) in *.
    assert (forall i, In i (sel_idx lamb A) -> (i < List.length A)%nat) as Hr.
    { intros i Hi. unfold sel_idx in Hi.
      rewrite <- (map_length snd A). apply argsort_range.
      rewrite <- (firstn_skipn (Nat.min (List.length (map fst A)) lamb) (argsort (map snd A))).
      apply in_or_app. left. exact Hi. }
    assert (List.length (us (es_loop row true lamb (es_init row) gens)) =
            List.length (zs (es_loop row true lamb (es_init row) gens))) as H.
    { rewrite Hus, Hzs. rewrite !gather_length; [reflexivity| |];
        intros i Hi; rewrite map_length; apply Hr; exact Hi. }
    destruct (us (es_loop row true lamb (es_init row) gens)); [discriminate|].
    destruct (zs (es_loop row true lamb (es_init row) gens)); [cbn in H; lia|discriminate].
  Qed.

  (* every generation filtered out completely -> the empty search set *)
  Lemma all_empty_concat (gens : list (list cand)) : Forall (fun g => g = []) gens -> List.concat gens = [].
  Proof.
    induction 1 as [|g r Hg _ IH]; cbn [List.concat]; [reflexivity|]. rewrite Hg, IH. reflexivity.
  Qed.

  Theorem es_all_filtered_empty (lamb : nat) (gens : list (list cand)) :
    Forall (fun g => g = []) gens -> es_run row lamb gens = ESEmpty.
  Proof.
    intro H. unfold es_run, es_result.
    pose proof (es_run_aligned lamb gens) as (_ & _ & Hus & _).
    rewrite (all_empty_concat gens H) in Hus. rewrite Hus. reflexivity.
  Qed.

  (* and conversely: the empty search set is returned ONLY when no generation had a survivor *)
  Theorem es_empty_only_if_all_filtered (lamb : nat) (gens : list (list cand)) :
    (1 <= lamb)%nat -> es_run row lamb gens = ESEmpty -> Forall (fun g => g = []) gens.
  Proof.
    intros Hl He. apply Forall_forall. intros g Hg.
    destruct g as [|c g']; [reflexivity|]. exfalso.
    assert (Exists (fun g => g <> []) gens) as Hex.
    { apply Exists_exists. exists (c :: g'). split; [exact Hg|discriminate]. }
    destruct (es_returns_min lamb gens Hl Hex) as (u & z & Hr & _). rewrite Hr in He. discriminate.
  Qed.

  Theorem es_result_sound (lamb : nat) (gens : list (list cand)) :
    es_run row lamb gens <> ESStuck /\
    forall (u : row) (z : zv), es_run row lamb gens = ESPoint u z -> In u (map fst (List.concat gens)).
  Proof. split; [apply es_never_stuck|apply es_result_is_survivor]. Qed.

  Theorem es_all_filtered_failed_search (lamb : nat) (gens : list (list cand)) :
    Forall (fun g => g = []) gens ->
    es_run row lamb gens = ESEmpty /\ forall z : list Q, search_trace row [] z = [].
  Proof. intro H. split; [apply es_all_filtered_empty; exact H|reflexivity]. Qed.

  (* ================================================================ (c) argmin / search step *)

  Lemma argmin_from_spec : forall (rest pre : list Q) (bi : nat) (b : Q),
    nth_error pre bi = Some b ->
    (forall j q, nth_error pre j = Some q -> (b <= q)%Q) ->
    (forall j q, (j < bi)%nat -> nth_error pre j = Some q -> (b < q)%Q) ->
    let k := argmin_from (List.length pre) bi b rest in
    exists m : Q, nth_error (pre ++ rest) k = Some m /\
      (forall j q, nth_error (pre ++ rest) j = Some q -> (m <= q)%Q) /\
      (forall j q, (j < k)%nat -> nth_error (pre ++ rest) j = Some q -> (m < q)%Q).
  Proof.
    induction rest as [|x r IH]; intros pre bi b Hb Hle Hlt; cbn [argmin_from].
    - rewrite app_nil_r. exists b. auto.
    - assert (List.length (pre ++ [x]) = S (List.length pre)) as Hlen by (rewrite app_length; cbn; lia).
      assert (bi < List.length pre)%nat as Hbi by (apply nth_error_Some; congruence).
      replace (pre ++ x :: r) with ((pre ++ [x]) ++ r) by (rewrite <- app_assoc; reflexivity).
      destruct (Qle_bool b x) eqn:E.
      + apply Qle_bool_iff in E. rewrite <- Hlen. apply IH.
        * rewrite nth_error_app1 by exact Hbi. exact Hb.
        * intros j q Hj. destruct (Nat.lt_ge_cases j (List.length pre)) as [Hj'|Hj'].
          -- rewrite nth_error_app1 in Hj by exact Hj'. eapply Hle; exact Hj.
          -- rewrite nth_error_app2 in Hj by exact Hj'.
             destruct (j - List.length pre)%nat as [|n]; cbn in Hj.
             ++ inversion Hj; subst. exact E.
             ++ rewrite nth_error_nil_none in Hj. discriminate.
        * intros j q Hj1 Hj. rewrite nth_error_app1 in Hj by lia. eapply Hlt; eassumption.
      + apply Qle_bool_false_lt in E. rewrite <- Hlen. apply IH.
        * rewrite nth_error_app2 by lia. rewrite Nat.sub_diag. reflexivity.
        * intros j q Hj. destruct (Nat.lt_ge_cases j (List.length pre)) as [Hj'|Hj'].
          -- rewrite nth_error_app1 in Hj by exact Hj'. apply Qlt_le_weak.
             eapply Qlt_le_trans; [exact E|]. eapply Hle; exact Hj.
          -- rewrite nth_error_app2 in Hj by exact Hj'.
             destruct (j - List.length pre)%nat as [|n]; cbn in Hj.
             ++ inversion Hj; subst. apply Qle_refl.
             ++ rewrite nth_error_nil_none in Hj. discriminate.
        * intros j q Hj1 Hj. rewrite nth_error_app1 in Hj by exact Hj1.
          eapply Qlt_le_trans; [exact E|]. eapply Hle; exact Hj.
  Qed.

  Lemma argmin_spec (z : list Q) :
    z <> [] ->
    exists (i : nat) (m : Q), argmin z = Some i /\ nth_error z i = Some m /\
      (forall j q, nth_error z j = Some q -> (m <= q)%Q) /\
      (forall j q, (j < i)%nat -> nth_error z j = Some q -> (m < q)%Q).
  Proof.
    intro Hne. destruct z as [|x r]; [congruence|]. cbn [argmin].
    pose proof (argmin_from_spec r [x] 0%nat x) as H. cbn [List.length app] in H.
    destruct H as (m & H1 & H2 & H3).
    - reflexivity.
    - intros j q Hj. destruct j; cbn in Hj; [inversion Hj; apply Qle_refl|].
      rewrite nth_error_nil_none in Hj. discriminate.
    - intros j q Hj. lia.
    - exists (argmin_from 1 0 x r), m. auto.
  Qed.

  Theorem search_argmin (set : list row) (z : list Q) :
    List.length z = List.length set -> set <> [] ->
    exists (i : nat) (u : row) (m : Q),
      search_eval row set z = Some u /\ nth_error set i = Some u /\ nth_error z i = Some m /\
      (forall j q, nth_error z j = Some q -> (m <= q)%Q) /\
      (forall j q, (j < i)%nat -> nth_error z j = Some q -> (m < q)%Q) /\
      acq_guard_fires (argmin z) = false.
  Proof.
    intros Hlen Hne.
    assert (z <> []) as Hz. { destruct z; [destruct set; [congruence|discriminate]|discriminate]. }
    destruct (argmin_spec z Hz) as (i & m & Ha & Hn & Hmin & Hfirst).
    assert (i < List.length set)%nat as Hi. { rewrite <- Hlen. apply nth_error_Some. congruence. }
    destruct (nth_error set i) as [u|] eqn:Eu; [|apply nth_error_None in Eu; lia].
    exists i, u, m. unfold search_eval. destruct set as [|s0 sr]; [congruence|].
    rewrite Ha. cbn [acq_guard_fires]. repeat split; auto.
  Qed.

  Theorem search_one_eval (set : list row) (z : list Q) :
    (List.length (search_trace row set z) <= 1)%nat /\
    (set = [] -> search_trace row set z = []) /\
    (List.length z = List.length set -> set <> [] ->
       exists u, search_trace row set z = [Call u] /\ search_eval row set z = Some u).
  Proof.
    unfold search_trace. split; [|split].
    - destruct (search_eval row set z); cbn; lia.
    - intros ->. reflexivity.
    - intros Hlen Hne. destruct (search_argmin set z Hlen Hne) as (i & u & m & H & _).
      exists u. rewrite H. split; reflexivity.
  Qed.
End ESProofs.

(* ================================================================== projection of the filter *)

Lemma qmin_le_r (a b : Q) : (qmin a b <= b)%Q.
Proof.
  unfold qmin. destruct (Qle_bool a b) eqn:E.
  - apply Qle_bool_iff. exact E.
  - apply Qle_refl.
Qed.

Lemma qmax_bounds (a l h : Q) : (l <= h)%Q -> (a <= h)%Q -> (l <= qmax a l)%Q /\ (qmax a l <= h)%Q.
Proof.
  intros Hlh Hah. unfold qmax. destruct (Qle_bool a l) eqn:E.
  - split; [apply Qle_refl|exact Hlh].
  - apply Qle_bool_false_lt in E. split; [apply Qlt_le_weak; exact E|exact Hah].
Qed.

Lemma clamp_in_box : forall (u lb ub : list Q),
  Forall2 Qle lb ub -> List.length u = List.length lb -> in_box (clamp_row u lb ub) lb ub.
Proof.
  induction u as [|x r IH]; intros lb ub HF Hlen.
  - destruct lb; [|discriminate]. inversion HF; subst. exact I.
  - destruct lb as [|l ls]; [discriminate|]. inversion HF as [|? h ? hs Hlh HF']; subst.
    cbn [clamp_row in_box].
    destruct (qmax_bounds (qmin x h) l h Hlh (qmin_le_r x h)) as [H1 H2].
    split; [exact H1|]. split; [exact H2|]. apply IH; [exact HF'|]. cbn in Hlen. lia.
Qed.

(* contraints_check(proj=True) first clamps every row, every later stage only SELECTS rows
   (np.unique(return_index) / boolean masks): whatever it selects lies in the box. *)
Theorem survivors_in_box (U survivors : list (list Q)) (lb ub : list Q) :
  Forall2 Qle lb ub ->
  (forall u, In u U -> List.length u = List.length lb) ->
  (forall s, In s survivors -> In s (map (fun u => clamp_row u lb ub) U)) ->
  forall s, In s survivors -> in_box s lb ub.
Proof.
  intros HF Hlen Hsub s Hs. apply Hsub in Hs. apply in_map_iff in Hs.
  destruct Hs as (u & <- & Hu). apply clamp_in_box; [exact HF|]. apply Hlen. exact Hu.
Qed.

(* ================================================================== (d) hedge *)

Lemma qsum_ext (f g : Q -> Q) (l : list Q) :
  (forall x, f x == g x)%Q -> (qsum (map f l) == qsum (map g l))%Q.
Proof.
  intro H. induction l as [|x r IH]; cbn [map qsum fold_right].
  - reflexivity.
  - fold (qsum (map f r)). fold (qsum (map g r)). rewrite IH, H. reflexivity.
Qed.

Lemma qsum_affine (e : list Q) (k g : Q) :
  (qsum (map (fun x => x * k + g) e) == qsum e * k + inject_Z (Z.of_nat (List.length e)) * g)%Q.
Proof.
  induction e as [|x r IH].
  - cbn. ring.
  - cbn [map qsum fold_right List.length].
    fold (qsum (map (fun x => (x * k + g)%Q) r)). fold (qsum r).
    rewrite IH. rewrite Nat2Z.inj_succ. unfold Z.succ. rewrite inject_Z_plus. ring.
Qed.

Lemma qsum_nonneg (e : list Q) : Forall (fun x => 0 < x)%Q e -> (0 <= qsum e)%Q.
Proof.
  induction 1 as [|x r Hx Hr IH]; cbn [qsum fold_right].
  - apply Qle_refl.
  - fold (qsum r). lra.
Qed.

Lemma qsum_pos (e : list Q) : e <> [] -> Forall (fun x => 0 < x)%Q e -> (0 < qsum e)%Q.
Proof.
  intros Hne H. destruct H as [|x r Hx Hr]; [congruence|].
  cbn [qsum fold_right]. fold (qsum r). pose proof (qsum_nonneg r Hr). lra.
Qed.

Theorem hedge_sum_one (e : list Q) (gamma : Q) :
  e <> [] -> Forall (fun x => 0 < x)%Q e -> (qsum (hedge_probs e gamma) == 1)%Q.
Proof.
  intros Hne Hpos. unfold hedge_probs.
  set (s := qsum e). set (n := inject_Z (Z.of_nat (List.length e))).
  assert (0 < s)%Q as Hs by (apply qsum_pos; assumption).
  rewrite (qsum_ext _ (fun x => x * (/ s * (1 - n * gamma)) + gamma)%Q).
  - rewrite qsum_affine. fold s. fold n. field. lra.
  - intro x. field. lra.
Qed.

Theorem hedge_floor (e : list Q) (gamma p : Q) :
  Forall (fun x => 0 < x)%Q e ->
  (inject_Z (Z.of_nat (List.length e)) * gamma <= 1)%Q ->
  In p (hedge_probs e gamma) -> (gamma <= p)%Q.
Proof.
  intros Hpos Hng Hin. unfold hedge_probs in Hin. apply in_map_iff in Hin.
  destruct Hin as (ei & <- & Hei).
  set (s := qsum e) in *. set (n := inject_Z (Z.of_nat (List.length e))) in *.
  assert (0 <= s)%Q as Hs by (apply qsum_nonneg; exact Hpos).
  assert (0 < ei)%Q as Hei' by (rewrite Forall_forall in Hpos; apply Hpos; exact Hei).
  assert (0 <= ei / s * (1 - n * gamma))%Q as Ht.
  { apply Qmult_le_0_compat; [|lra]. unfold Qdiv. apply Qmult_le_0_compat; [lra|].
    apply Qinv_le_0_compat. exact Hs. }
  set (t := (ei / s * (1 - n * gamma))%Q) in *. lra.
Qed.

Lemma first_below_spec : forall (p : list Q) (rand acc : Q) (i : nat),
  (acc <= rand)%Q -> (rand < acc + qsum p)%Q ->
  exists k : nat, first_below rand acc i p = Some (i + k)%nat /\ (k < List.length p)%nat /\
    (acc + qsum (firstn k p) <= rand)%Q /\ (rand < acc + qsum (firstn (S k) p))%Q.
Proof.
  induction p as [|x r IH]; intros rand acc i Hle Hlt.
  - cbn in Hlt. lra.
  - cbn [first_below]. cbn [qsum fold_right] in Hlt. fold (qsum r) in Hlt.
    destruct (Qle_bool (acc + x) rand) eqn:E.
    + apply Qle_bool_iff in E.
      destruct (IH rand (acc + x)%Q (S i) E) as (k & H1 & H2 & H3 & H4); [lra|].
      exists (S k). split; [rewrite H1; f_equal; lia|]. split; [cbn; lia|].
      rewrite !firstn_cons. unfold qsum in *. cbn [fold_right].
      split; lra.
    + apply Qle_bool_false_lt in E. exists 0%nat.
      split; [f_equal; lia|]. split; [cbn; lia|].
      rewrite firstn_cons. cbn [firstn qsum fold_right]. split; lra.
Qed.

Theorem hedge_choice_exists (p : list Q) (rand : Q) :
  (0 <= rand)%Q -> (rand < qsum p)%Q ->
  exists k : nat, hedge_choice rand p = Some k /\ (k < List.length p)%nat /\
    (qsum (firstn k p) <= rand)%Q /\ (rand < qsum (firstn (S k) p))%Q.
Proof.
  intros H0 H1. destruct (first_below_spec p rand 0%Q 0%nat) as (k & Ha & Hb & Hc & Hd); [lra|lra|].
  exists k. unfold hedge_choice. rewrite Ha. split; [reflexivity|]. split; [exact Hb|]. split; lra.
Qed.

(* ================================================================== (a) selection mask *)

Definition nonneg (w : list Z) : Prop := Forall (fun x => 0 <= x) w.
Fixpoint noninc (w : list Z) : Prop :=
  match w with
  | x :: r => match r with y :: _ => y <= x | [] => True end /\ noninc r
  | [] => True
  end.

Lemma zsum_cons (x : Z) (r : list Z) : zsum (x :: r) = x + zsum r.
Proof. reflexivity. Qed.

Lemma count_pos_cons (x : Z) (r : list Z) : count_pos (x :: r) = (if 0 <? x then 1 else 0) + count_pos r.
Proof. reflexivity. Qed.

Lemma pos_sum_cons (x : Z) (r : list Z) : pos_sum (x :: r) = Z.max 0 x + pos_sum r.
Proof. reflexivity. Qed.

Lemma count_pos_bounds (w : list Z) : 0 <= count_pos w <= Z.of_nat (List.length w).
Proof.
  induction w as [|x r IH].
  - cbn. lia.
  - rewrite count_pos_cons. cbn [List.length]. rewrite Nat2Z.inj_succ. destruct (0 <? x); lia.
Qed.

Lemma pos_sum_nonneg (w : list Z) : 0 <= pos_sum w.
Proof. induction w as [|x r IH]; [cbn; lia|]. rewrite pos_sum_cons. lia. Qed.

Lemma noninc_tail (x : Z) (r : list Z) : noninc (x :: r) -> noninc r.
Proof. cbn [noninc]. tauto. Qed.

Lemma noninc_le_head : forall (r : list Z) (x : Z), noninc (x :: r) -> forall y, In y r -> y <= x.
Proof.
  induction r as [|z r IH]; intros x H y Hy; [destruct Hy|].
  destruct H as [Hzx Hr]. destruct Hy as [->|Hy]; [exact Hzx|].
  pose proof (IH z Hr y Hy). lia.
Qed.

Lemma count_pos_zero_of_le (w : list Z) : (forall y, In y w -> y <= 0) -> count_pos w = 0.
Proof.
  induction w as [|x r IH]; intro H; [reflexivity|].
  rewrite count_pos_cons, IH by (intros y Hy; apply H; right; exact Hy).
  destruct (0 <? x) eqn:E; [|reflexivity]. apply Z.ltb_lt in E.
  specialize (H x (or_introl eq_refl)). lia.
Qed.

Lemma count_pos_all (w : list Z) : (forall y, In y w -> 1 <= y) -> count_pos w = Z.of_nat (List.length w).
Proof.
  induction w as [|x r IH]; intro H; [reflexivity|].
  rewrite count_pos_cons, IH by (intros y Hy; apply H; right; exact Hy).
  cbn [List.length]. rewrite Nat2Z.inj_succ.
  destruct (0 <? x) eqn:E; [lia|]. apply Z.ltb_ge in E.
  specialize (H x (or_introl eq_refl)). lia.
Qed.

Lemma zsum_ge2 (w : list Z) : (forall y, In y w -> 2 <= y) -> 2 * Z.of_nat (List.length w) <= zsum w.
Proof.
  induction w as [|x r IH]; intro H; [cbn; lia|].
  rewrite zsum_cons. cbn [List.length]. rewrite Nat2Z.inj_succ.
  specialize (H x (or_introl eq_refl)) as Hx.
  assert (2 * Z.of_nat (List.length r) <= zsum r) by (apply IH; intros y Hy; apply H; right; exact Hy).
  lia.
Qed.

Lemma last_cons2 (x y : Z) (r : list Z) : last (x :: y :: r) 0 = last (y :: r) 0.
Proof. reflexivity. Qed.

Lemma last_In : forall w : list Z, w <> [] -> In (last w 0) w.
Proof.
  induction w as [|a l IH]; intro H; [congruence|].
  destruct l as [|b l']; [left; reflexivity|]. rewrite last_cons2. right. apply IH. discriminate.
Qed.

Lemma count_pos_last (w : list Z) : w <> [] -> last w 0 <= 0 -> count_pos w <= Z.of_nat (List.length w) - 1.
Proof.
  induction w as [|x r IH]; intros Hne Hl; [congruence|].
  destruct r as [|y r'].
  - cbn [last] in Hl. rewrite count_pos_cons. destruct (0 <? x) eqn:E; [apply Z.ltb_lt in E; lia|]. cbn. lia.
  - rewrite last_cons2 in Hl. rewrite count_pos_cons.
    assert (count_pos (y :: r') <= Z.of_nat (List.length (y :: r')) - 1) by (apply IH; [discriminate|exact Hl]).
    change (List.length (x :: y :: r')) with (S (List.length (y :: r'))). rewrite Nat2Z.inj_succ.
    destruct (0 <? x); lia.
Qed.

Lemma noninc_ge_last : forall (w : list Z), noninc w -> forall x, In x w -> last w 0 <= x.
Proof.
  induction w as [|a r IH]; intros H x Hx; [destruct Hx|].
  destruct r as [|b r'].
  - destruct Hx as [->|[]]. cbn. lia.
  - rewrite last_cons2. destruct H as [Hba Hr].
    destruct Hx as [->|Hx]; [|apply IH; assumption].
    pose proof (IH Hr b (or_introl eq_refl)). lia.
Qed.

Lemma zsum_last_split (w : list Z) : nonneg w -> 0 <= zsum w - last w 0.
Proof.
  induction 1 as [|x r Hx Hr IH]; [cbn; lia|].
  destruct r as [|y r'].
  - cbn. lia.
  - rewrite last_cons2, zsum_cons. lia.
Qed.

(* ---- dec0 *)
Lemma dec0_length (w : list Z) : List.length (dec0 w) = List.length w.
Proof. apply map_length. Qed.

Lemma dec0_nonneg (w : list Z) : nonneg (dec0 w).
Proof. unfold nonneg, dec0. apply Forall_forall. intros y Hy. apply in_map_iff in Hy. destruct Hy as (x & <- & _). lia. Qed.

Lemma dec0_noninc (w : list Z) : noninc w -> noninc (dec0 w).
Proof.
  induction w as [|x r IH]; intro H; [exact I|].
  destruct H as [H1 H2]. destruct r as [|y r'].
  - cbn. tauto.
  - split; [cbn [dec0 map]; lia|]. apply IH. exact H2.
Qed.

Lemma zsum_dec0 (w : list Z) : nonneg w -> zsum (dec0 w) = zsum w - count_pos w.
Proof.
  induction 1 as [|x r Hx Hr IH]; [reflexivity|].
  change (dec0 (x :: r)) with (Z.max 0 (x - 1) :: dec0 r).
  rewrite !zsum_cons, count_pos_cons, IH.
  destruct (0 <? x) eqn:E; [apply Z.ltb_lt in E|apply Z.ltb_ge in E]; lia.
Qed.

Lemma pos_sum_dec0 (w : list Z) : pos_sum (dec0 w) = pos_sum w - count_pos w.
Proof.
  induction w as [|x r IH]; [reflexivity|].
  change (dec0 (x :: r)) with (Z.max 0 (x - 1) :: dec0 r).
  rewrite !pos_sum_cons, count_pos_cons, IH.
  destruct (0 <? x) eqn:E; [apply Z.ltb_lt in E|apply Z.ltb_ge in E]; lia.
Qed.

Lemma dec0_all_zero (w : list Z) : count_pos w = 0 -> zsum (dec0 w) = 0 /\ count_pos (dec0 w) = 0.
Proof.
  induction w as [|x r IH]; intro H; [split; reflexivity|].
  rewrite count_pos_cons in H. pose proof (count_pos_bounds r) as Hb.
  destruct (0 <? x) eqn:E; [lia|]. apply Z.ltb_ge in E.
  destruct IH as [I1 I2]; [lia|].
  change (dec0 (x :: r)) with (Z.max 0 (x - 1) :: dec0 r).
  rewrite zsum_cons, count_pos_cons, I1, I2.
  replace (Z.max 0 (x - 1)) with 0 by lia. split; reflexivity.
Qed.

(* ---- the while loop *)
Lemma shrink_loop_stop (fuel : nat) (w : list Z) (lamb : Z) :
  zsum w - lamb <= count_pos w -> shrink_loop fuel w lamb = w.
Proof.
  intro H. destruct fuel; cbn [shrink_loop]; [reflexivity|].
  destruct (count_pos w <? zsum w - lamb) eqn:E; [apply Z.ltb_lt in E; lia|reflexivity].
Qed.

Lemma shrink_loop_inv (P : list Z -> Prop) (lamb : Z) :
  (forall w, P w -> count_pos w < zsum w - lamb -> P (dec0 w)) ->
  forall (fuel : nat) (w : list Z), P w -> P (shrink_loop fuel w lamb).
Proof.
  intros Hstep. induction fuel as [|f IH]; intros w Hw; cbn [shrink_loop]; [exact Hw|].
  destruct (count_pos w <? zsum w - lamb) eqn:E; [|exact Hw].
  apply Z.ltb_lt in E. apply IH. apply Hstep; assumption.
Qed.

Lemma shrink_loop_exit (lamb : Z) : 0 <= lamb ->
  forall (fuel : nat) (w : list Z), pos_sum w < Z.of_nat fuel ->
    zsum (shrink_loop fuel w lamb) - lamb <= count_pos (shrink_loop fuel w lamb).
Proof.
  intros Hl. induction fuel as [|f IH]; intros w Hf.
  - pose proof (pos_sum_nonneg w). lia.
  - cbn [shrink_loop]. destruct (count_pos w <? zsum w - lamb) eqn:E.
    + apply Z.ltb_lt in E. destruct (Z.eq_dec (count_pos w) 0) as [H0|H0].
      * destruct (dec0_all_zero w H0) as [Hz Hc]. rewrite shrink_loop_stop; lia.
      * apply IH. rewrite pos_sum_dec0. pose proof (count_pos_bounds w). lia.
    + apply Z.ltb_ge in E. lia.
Qed.

(* The fuel of [shrink] is enough: for every weight vector and every lamb >= 0 the model's loop
   stops because the loop condition became false, not because the fuel ran out. *)
Theorem shrink_fuel_suffices (w : list Z) (lamb : Z) :
  0 <= lamb -> zsum (shrink w lamb) - lamb <= count_pos (shrink w lamb).
Proof.
  intro Hl. unfold shrink. apply shrink_loop_exit; [exact Hl|].
  pose proof (pos_sum_nonneg w). rewrite Nat2Z.inj_succ, Z2Nat.id by lia. lia.
Qed.

(* ---- argwhere(w > 0)[-1] on a sorted vector *)
Lemma last_pos_from_sorted : forall (w : list Z) (i : Z) (acc : option Z),
  nonneg w -> noninc w ->
  last_pos_from i w acc = if count_pos w =? 0 then acc else Some (i + count_pos w - 1).
Proof.
  induction w as [|x r IH]; intros i acc Hnn Hni; cbn [last_pos_from]; [reflexivity|].
  inversion Hnn as [|? ? Hx Hr]; subst.
  rewrite count_pos_cons, IH by (try exact Hr; eapply noninc_tail; exact Hni).
  pose proof (count_pos_bounds r) as Hb.
  destruct (0 <? x) eqn:E.
  - destruct (count_pos r =? 0) eqn:E2.
    + apply Z.eqb_eq in E2. rewrite E2. cbn. f_equal. lia.
    + apply Z.eqb_neq in E2. destruct (1 + count_pos r =? 0) eqn:E3; [apply Z.eqb_eq in E3; lia|].
      f_equal. lia.
  - apply Z.ltb_ge in E.
    assert (count_pos r = 0) as ->.
    { apply count_pos_zero_of_le. intros y Hy. pose proof (noninc_le_head r x Hni y Hy). lia. }
    reflexivity.
Qed.

(* ---- the slice decrement *)
Lemma dec_slice_length : forall (w : list Z) (i strt stop : Z), List.length (dec_slice i strt stop w) = List.length w.
Proof. induction w as [|x r IH]; intros; cbn [dec_slice List.length]; [reflexivity|]. rewrite IH. reflexivity. Qed.

Lemma zsum_dec_slice : forall (w : list Z) (i strt stop : Z),
  zsum (dec_slice i strt stop w) =
  zsum w - Z.max 0 (Z.min stop (i + Z.of_nat (List.length w)) - Z.max strt i).
Proof.
  induction w as [|x r IH]; intros i strt stop; cbn [dec_slice List.length].
  - cbn. lia.
  - rewrite !zsum_cons, IH, Nat2Z.inj_succ.
    destruct ((strt <=? i) && (i <? stop)) eqn:E.
    + apply andb_true_iff in E. destruct E as [E1 E2]. apply Z.leb_le in E1. apply Z.ltb_lt in E2. lia.
    + apply andb_false_iff in E. destruct E as [E|E]; [apply Z.leb_gt in E|apply Z.ltb_ge in E]; lia.
Qed.

Lemma nonneg_dec_slice : forall (w : list Z) (i strt stop : Z),
  nonneg w -> noninc w -> stop <= i + count_pos w -> nonneg (dec_slice i strt stop w).
Proof.
  induction w as [|x r IH]; intros i strt stop Hnn Hni Hstop; cbn [dec_slice]; [constructor|].
  inversion Hnn as [|? ? Hx Hr]; subst. rewrite count_pos_cons in Hstop.
  pose proof (count_pos_bounds r) as Hb.
  assert (0 <? x = false -> count_pos r = 0) as Hzero.
  { intro E. apply Z.ltb_ge in E. apply count_pos_zero_of_le. intros y Hy.
    pose proof (noninc_le_head r x Hni y Hy). lia. }
  constructor.
  - destruct ((strt <=? i) && (i <? stop)) eqn:E; [|exact Hx].
    apply andb_true_iff in E. destruct E as [_ E2]. apply Z.ltb_lt in E2.
    destruct (0 <? x) eqn:E3; [apply Z.ltb_lt in E3; lia|]. specialize (Hzero eq_refl). lia.
  - apply IH; [exact Hr|eapply noninc_tail; exact Hni|].
    destruct (0 <? x) eqn:E3; [lia|]. specialize (Hzero eq_refl). lia.
Qed.

Lemma last_dec_slice : forall (w : list Z) (i strt stop : Z), w <> [] ->
  last (dec_slice i strt stop w) 0 =
  last w 0 - (if (strt <=? i + Z.of_nat (List.length w) - 1) && (i + Z.of_nat (List.length w) - 1 <? stop)
              then 1 else 0).
Proof.
  induction w as [|x r IH]; intros i strt stop Hne; [congruence|].
  destruct r as [|y r'].
  - cbn [dec_slice last List.length]. replace (i + Z.of_nat 1 - 1) with i by lia.
    destruct ((strt <=? i) && (i <? stop)); lia.
  - change (dec_slice i strt stop (x :: y :: r'))
      with ((if (strt <=? i) && (i <? stop) then x - 1 else x) :: dec_slice (i + 1) strt stop (y :: r')).
    assert (exists a l, dec_slice (i + 1) strt stop (y :: r') = a :: l) as (a & l & Hd) by (cbn [dec_slice]; eauto).
    rewrite Hd, last_cons2, <- Hd, last_cons2. rewrite IH by discriminate.
    change (List.length (x :: y :: r')) with (S (List.length (y :: r'))). rewrite Nat2Z.inj_succ.
    replace (i + 1 + Z.of_nat (List.length (y :: r')) - 1) with (i + Z.succ (Z.of_nat (List.length (y :: r'))) - 1) by lia.
    reflexivity.
Qed.

(* ---- cw = cumsum(w) - w + 1 is the exclusive prefix sum + 1 *)
Fixpoint ecs (acc : Z) (w : list Z) : list Z :=
  match w with
  | [] => []
  | x :: r => (acc + 1) :: ecs (acc + x) r
  end.

Lemma cw_of_ecs_from : forall (w : list Z) (acc : Z),
  zip_with (fun c x => c - x + 1) (cumsum_from acc w) w = ecs acc w.
Proof.
  induction w as [|x r IH]; intro acc; cbn [cumsum_from zip_with ecs]; [reflexivity|].
  f_equal; [lia|apply IH].
Qed.

Lemma ecs_bounds : forall (w : list Z) (acc : Z), nonneg w ->
  forall p, In p (ecs acc w) -> acc + 1 <= p <= acc + zsum w - last w 0 + 1.
Proof.
  induction w as [|x r IH]; intros acc Hnn p Hp; [destruct Hp|].
  inversion Hnn as [|? ? Hx Hr]; subst. pose proof (zsum_last_split (x :: r) Hnn) as Hs.
  destruct Hp as [<-|Hp]; [lia|].
  destruct r as [|y r']; [destruct Hp|].
  specialize (IH (acc + x) Hr p Hp). rewrite last_cons2. rewrite zsum_cons. lia.
Qed.

Lemma ecs_max_in : forall (w : list Z) (acc : Z), w <> [] -> In (acc + zsum w - last w 0 + 1) (ecs acc w).
Proof.
  induction w as [|x r IH]; intros acc Hne; [congruence|].
  destruct r as [|y r'].
  - left. cbn. lia.
  - right. rewrite last_cons2, zsum_cons.
    replace (acc + (x + zsum (y :: r')) - last (y :: r') 0 + 1) with (acc + x + zsum (y :: r') - last (y :: r') 0 + 1) by lia.
    apply IH. discriminate.
Qed.

Lemma fold_max_spec : forall (r : list Z) (x : Z),
  (fold_left Z.max r x = x \/ In (fold_left Z.max r x) r) /\ x <= fold_left Z.max r x /\
  forall y, In y r -> y <= fold_left Z.max r x.
Proof.
  induction r as [|y r IH]; intro x; cbn [fold_left].
  - split; [left; reflexivity|]. split; [lia|]. intros y [].
  - destruct (IH (Z.max x y)) as (H1 & H2 & H3). split; [|split].
    + destruct H1 as [H1|H1]; [|right; right; exact H1].
      destruct (Z.max_spec x y) as [[_ Hm]|[_ Hm]].
      * right. left. rewrite H1. symmetry. exact Hm.
      * left. rewrite H1. exact Hm.
    + lia.
    + intros z [<-|Hz]; [lia|apply H3; exact Hz].
Qed.

Lemma zmax_list_unique (l : list Z) (M : Z) :
  In M l -> (forall x, In x l -> x <= M) -> zmax_list l = Some M.
Proof.
  intros HM Hub. destruct l as [|x r]; [destruct HM|]. cbn [zmax_list]. f_equal.
  destruct (fold_max_spec r x) as (H1 & H2 & H3).
  assert (In (fold_left Z.max r x) (x :: r)) as Hin by (destruct H1 as [->|H1]; [left; reflexivity|right; exact H1]).
  assert (M <= fold_left Z.max r x) by (destruct HM as [<-|HM]; [exact H2|apply H3; exact HM]).
  specialize (Hub _ Hin). lia.
Qed.

Lemma norm_all_id (len : Z) : forall ps : list Z, (forall p, In p ps -> 0 <= p < len) -> norm_all len ps = Some ps.
Proof.
  induction ps as [|p r IH]; intro H; [reflexivity|]. cbn [norm_all].
  rewrite IH by (intros q Hq; apply H; right; exact Hq).
  specialize (H p (or_introl eq_refl)). unfold norm_index.
  replace (0 <=? p) with true by (symmetry; apply Z.leb_le; lia).
  replace (p <? len) with true by (symmetry; apply Z.ltb_lt; lia). reflexivity.
Qed.

(* ---- the cumulated 0/1 vector *)
Lemma cumsum_from_length : forall (l : list Z) (acc : Z), List.length (cumsum_from acc l) = List.length l.
Proof. induction l as [|x r IH]; intro acc; cbn [cumsum_from List.length]; [reflexivity|]. rewrite IH. reflexivity. Qed.

Definition bits01 (l : list Z) : Prop := Forall (fun b => b = 0 \/ b = 1) l.

Lemma idx_bits_01 (ps : list Z) (n : Z) : bits01 (idx_bits ps n).
Proof.
  unfold bits01, idx_bits. apply Forall_forall. intros b Hb. apply in_map_iff in Hb.
  destruct Hb as (j & <- & _). destruct (mem_z j ps); auto.
Qed.

Lemma idx_bits_length (ps : list Z) (n : Z) : List.length (idx_bits ps n) = Z.to_nat n.
Proof. unfold idx_bits, zrange. rewrite !map_length, seq_length. reflexivity. Qed.

Lemma mem_z_false (j : Z) (ps : list Z) : ~ In j ps -> mem_z j ps = false.
Proof.
  intro H. unfold mem_z. destruct (existsb (Z.eqb j) ps) eqn:E; [|reflexivity].
  apply existsb_exists in E. destruct E as (x & Hx & Hxe). apply Z.eqb_eq in Hxe. subst. contradiction.
Qed.

Lemma idx_bits_head (ps : list Z) (n : Z) : 1 <= n -> ~ In 0 ps -> exists r, idx_bits ps n = 0 :: r.
Proof.
  intros Hn H0. unfold idx_bits, zrange.
  destruct (Z.to_nat n) as [|k] eqn:E; [lia|]. cbn [seq map].
  change (Z.of_nat 0) with 0. rewrite (mem_z_false 0 ps H0). eauto.
Qed.

Lemma cumsum_steps : forall (bits : list Z) (acc : Z) (j : nat) (a b : Z),
  bits01 bits ->
  nth_error (cumsum_from acc bits) j = Some a -> nth_error (cumsum_from acc bits) (S j) = Some b ->
  b = a \/ b = a + 1.
Proof.
  induction bits as [|x r IH]; intros acc j a b H01 Ha Hb; [cbn [cumsum_from] in Ha; rewrite nth_error_nil_none in Ha; discriminate|].
  inversion H01 as [|? ? Hx Hr]; subst. cbn [cumsum_from] in Ha, Hb.
  destruct j as [|j'].
  - cbn [nth_error] in Ha, Hb. inversion Ha; subst a.
    destruct r as [|y r']; [discriminate|]. cbn [cumsum_from nth_error] in Hb. inversion Hb; subst b.
    inversion Hr as [|? ? Hy _]; subst. lia.
  - cbn [nth_error] in Ha. change (nth_error (cumsum_from (acc + x) r) (S j') = Some b) in Hb.
    eapply IH; eassumption.
Qed.

(* shape of a valid mask: lamb+1 entries, starts at 0, every step is 0 or 1 *)
Definition mask_shape (lamb : Z) (m : list Z) : Prop :=
  Z.of_nat (List.length m) = lamb + 1 /\ nth_error m 0 = Some 0 /\
  forall (j : nat) (a b : Z), nth_error m j = Some a -> nth_error m (S j) = Some b -> b = a \/ b = a + 1.

Lemma mask_shape_le_index (lamb : Z) (m : list Z) : mask_shape lamb m ->
  forall (j : nat) (a : Z), nth_error m j = Some a -> 0 <= a <= Z.of_nat j.
Proof.
  intros (_ & H0 & Hstep). induction j as [|j IH]; intros a Ha.
  - rewrite H0 in Ha. inversion Ha. lia.
  - destruct (nth_error m j) as [a'|] eqn:E.
    + specialize (IH a' eq_refl). specialize (Hstep j a' a E Ha). lia.
    + apply nth_error_None in E. assert (nth_error m (S j) = None) as Hn by (apply nth_error_None; lia).
      congruence.
Qed.

Definition mask_premises (mu lamb : Z) (w0 : list Z) : Prop :=
  1 <= mu /\ 1 <= lamb /\ Z.of_nat (List.length w0) = mu + lamb /\
  (forall x, In x w0 -> 1 <= x) /\ noninc w0.

Definition minv (tot lamb : Z) (w : list Z) : Prop :=
  nonneg w /\ noninc w /\ Z.of_nat (List.length w) = tot /\ 1 <= zsum w - lamb.

Lemma minv_init (mu lamb : Z) (w0 : list Z) : mask_premises mu lamb w0 -> minv (mu + lamb) lamb w0.
Proof.
  intros (Hmu & Hl & Hlen & Hge & Hni). unfold minv. split; [|split; [exact Hni|split; [exact Hlen|]]].
  - apply Forall_forall. intros x Hx. specialize (Hge x Hx). lia.
  - assert (Z.of_nat (List.length w0) <= zsum w0) as H.
    { clear -Hge. induction w0 as [|x r IH]; [cbn; lia|].
      rewrite zsum_cons. cbn [List.length]. rewrite Nat2Z.inj_succ.
      specialize (Hge x (or_introl eq_refl)) as Hx.
      assert (Z.of_nat (List.length r) <= zsum r) by (apply IH; intros y Hy; apply Hge; right; exact Hy). lia. }
    lia.
Qed.

Lemma minv_step (tot lamb : Z) (w : list Z) :
  minv tot lamb w -> count_pos w < zsum w - lamb -> minv tot lamb (dec0 w).
Proof.
  intros (H1 & H2 & H3 & H4) Hc. unfold minv. split; [apply dec0_nonneg|].
  split; [apply dec0_noninc; exact H2|]. split; [rewrite dec0_length; exact H3|].
  rewrite zsum_dec0 by exact H1. lia.
Qed.

Theorem mask_valid (mu lamb : Z) (w0 : list Z) :
  mask_premises mu lamb w0 ->
  exists m : list Z, selection_mask w0 lamb = MOk m /\ mask_shape lamb m.
Proof.
  intro Hp. pose proof Hp as (Hmu & Hl & Hlen0 & _ & _).
  unfold selection_mask.
  set (w1 := shrink w0 lamb).
  assert (minv (mu + lamb) lamb w1) as (Hnn & Hni & Hlen & Hd1).
  { unfold w1, shrink. apply shrink_loop_inv; [intros w; apply minv_step|apply minv_init; exact Hp]. }
  assert (zsum w1 - lamb <= count_pos w1) as Hexit by (apply shrink_fuel_suffices; lia).
  set (delta := zsum w1 - lamb) in *. set (c := count_pos w1) in *.
  pose proof (count_pos_bounds w1) as Hcb. fold c in Hcb.
  assert (w1 <> []) as Hne. { intro E. rewrite E in Hlen. cbn in Hlen. lia. }
  unfold last_pos. rewrite last_pos_from_sorted by assumption. fold c.
  destruct (c =? 0) eqn:Ec; [apply Z.eqb_eq in Ec; lia|]. clear Ec.
  replace (0 + c - 1 - delta + 1) with (c - delta) by lia.
  replace (0 + c - 1 + 1) with c by lia.
  replace (Z.max 0 (c - delta)) with (c - delta) by lia.
  set (w2 := dec_slice 0 (c - delta) c w1).
  assert (nonneg w2) as Hnn2 by (apply nonneg_dec_slice; [exact Hnn|exact Hni|fold c; lia]).
  assert (zsum w2 = lamb) as Hsum2. { unfold w2. rewrite zsum_dec_slice. lia. }
  assert (w2 <> []) as Hne2.
  { intro E. apply (f_equal (@List.length Z)) in E. unfold w2 in E. rewrite dec_slice_length in E.
    destruct w1; [congruence|discriminate]. }
  assert (last w2 0 = 0) as Hlast2.
  { unfold w2. rewrite last_dec_slice by exact Hne. rewrite Hlen.
    assert (0 <= last w1 0) as Hl0.
    { unfold nonneg in Hnn. rewrite Forall_forall in Hnn. apply Hnn. apply last_In. exact Hne. }
    destruct (Z.eq_dec (last w1 0) 0) as [Hz|Hnz].
    - pose proof (count_pos_last w1 Hne ltac:(lia)) as Hcl. fold c in Hcl. rewrite Hlen in Hcl.
      replace (0 + (mu + lamb) - 1 <? c) with false by (symmetry; apply Z.ltb_ge; lia).
      rewrite andb_false_r. lia.
    - assert (c = mu + lamb) as Hc.
      { unfold c. rewrite count_pos_all; [exact Hlen|]. intros y Hy. pose proof (noninc_ge_last w1 Hni y Hy). lia. }
      assert (last w1 0 = 1) as H1.
      { destruct (Z_le_gt_dec (last w1 0) 1) as [Hle|Hgt]; [lia|]. exfalso.
        assert (2 * Z.of_nat (List.length w1) <= zsum w1) as H2.
        { apply zsum_ge2. intros y Hy. pose proof (noninc_ge_last w1 Hni y Hy). lia. }
        unfold delta in Hexit. lia. }
      replace (c - delta <=? 0 + (mu + lamb) - 1) with true by (symmetry; apply Z.leb_le; lia).
      replace (0 + (mu + lamb) - 1 <? c) with true by (symmetry; apply Z.ltb_lt; lia).
      cbn [andb]. lia. }
  unfold cw_of, cumsum. rewrite cw_of_ecs_from.
  assert (zmax_list (ecs 0 w2) = Some (lamb + 1)) as Hmax.
  { apply zmax_list_unique.
    - pose proof (ecs_max_in w2 0 Hne2) as Hin. rewrite Hsum2, Hlast2 in Hin.
      replace (0 + lamb - 0 + 1) with (lamb + 1) in Hin by lia. exact Hin.
    - intros x Hx. pose proof (ecs_bounds w2 0 Hnn2 x Hx) as Hb. rewrite Hsum2, Hlast2 in Hb. lia. }
  rewrite Hmax.
  destruct (lamb + 1 + 1 <? 0) eqn:E; [apply Z.ltb_lt in E; lia|]. clear E.
  assert (forall p, In p (ecs 0 w2) -> 1 <= p <= lamb + 1) as Hrange.
  { intros p Hpin. pose proof (ecs_bounds w2 0 Hnn2 p Hpin) as Hb. rewrite Hsum2, Hlast2 in Hb. lia. }
  rewrite norm_all_id by (intros p Hpin; specialize (Hrange p Hpin); lia).
  eexists. split; [reflexivity|].
  unfold mask_shape, cumsum. split; [|split].
  - rewrite cumsum_from_length, idx_bits_length. lia.
  - destruct (idx_bits_head (ecs 0 w2) (lamb + 1)) as [r Hr]; [lia| |].
    + intro H0. specialize (Hrange 0 H0). lia.
    + rewrite Hr. reflexivity.
  - intros j a b. apply cumsum_steps. apply idx_bits_01.
Qed.

(* ---- index safety of us[selection_mask[0:ll]] *)
Lemma nth_error_firstn_some {A} : forall (n : nat) (l : list A) (j : nat) (x : A),
  nth_error (firstn n l) j = Some x -> (j < n)%nat /\ nth_error l j = Some x.
Proof.
  induction n as [|n IH]; intros l j x H.
  - cbn in H. rewrite nth_error_nil_none in H. discriminate.
  - destruct l as [|a l']; [cbn in H; rewrite nth_error_nil_none in H; discriminate|].
    rewrite firstn_cons in H. destruct j as [|j']; cbn [nth_error] in *.
    + split; [lia|exact H].
    + apply IH in H. split; [lia|tauto].
Qed.

Lemma gather_z_ok {A} (l : list A) : forall idx : list Z,
  (forall i, In i idx -> 0 <= i < Z.of_nat (List.length l)) ->
  exists xs, gather_z l idx = Some xs /\ List.length xs = List.length idx /\
    forall x, In x xs -> In x l.
Proof.
  induction idx as [|i r IH]; intro H.
  - exists []. repeat split. intros x [].
  - destruct IH as (xs & Hxs & Hlen & Hsub); [intros k Hk; apply H; right; exact Hk|].
    specialize (H i (or_introl eq_refl)). cbn [gather_z]. unfold norm_index.
    replace (0 <=? i) with true by (symmetry; apply Z.leb_le; lia).
    replace (i <? Z.of_nat (List.length l)) with true by (symmetry; apply Z.ltb_lt; lia).
    cbn [andb]. destruct (nth_error l (Z.to_nat i)) as [x|] eqn:E.
    + rewrite Hxs. exists (x :: xs). split; [reflexivity|]. split; [cbn; lia|].
      intros y [<-|Hy]; [eapply nth_error_In; exact E|apply Hsub; exact Hy].
    + apply nth_error_None in E. lia.
Qed.

Theorem parents_defined {A} (us : list A) (lamb : nat) (m : list Z) :
  mask_shape (Z.of_nat lamb) m ->
  exists ps : list A, parents us m lamb = Some ps /\
    List.length ps = Nat.min lamb (List.length us) /\ forall x, In x ps -> In x us.
Proof.
  intro Hs. pose proof Hs as (Hlen & _ & _). unfold parents.
  set (ll := Nat.min lamb (List.length us)).
  destruct (gather_z_ok us (firstn ll m)) as (ps & H1 & H2 & H3).
  - intros i Hi. apply In_nth_error in Hi. destruct Hi as [j Hj].
    apply nth_error_firstn_some in Hj. destruct Hj as [Hjl Hj].
    pose proof (mask_shape_le_index _ m Hs j i Hj). lia.
  - exists ps. split; [exact H1|]. split; [|exact H3].
    rewrite H2, firstn_length. lia.
Qed.

(* ================================================================== statements as used by Props/C18.v *)

Lemma noninc_of_nth : forall w : list Z,
  (forall (i : nat) (a b : Z), nth_error w i = Some a -> nth_error w (S i) = Some b -> b <= a) -> noninc w.
Proof.
  induction w as [|x r IH]; intro H; [exact I|]. split.
  - destruct r as [|y r']; [exact I|]. apply (H 0%nat x y); reflexivity.
  - apply IH. intros i a b Ha Hb. apply (H (S i) a b); assumption.
Qed.

Theorem mask_valid_full (mu lamb : Z) (w0 : list Z) :
  1 <= mu -> 1 <= lamb -> Z.of_nat (List.length w0) = mu + lamb ->
  (forall x, In x w0 -> 1 <= x) ->
  (forall (i : nat) (a b : Z), nth_error w0 i = Some a -> nth_error w0 (S i) = Some b -> b <= a) ->
  exists m : list Z,
    selection_mask w0 lamb = MOk m /\
    Z.of_nat (List.length m) = lamb + 1 /\
    nth_error m 0 = Some 0 /\
    (forall (j : nat) (a b : Z), nth_error m j = Some a -> nth_error m (S j) = Some b -> b = a \/ b = a + 1) /\
    (forall (j : nat) (a : Z), nth_error m j = Some a -> 0 <= a <= Z.of_nat j).
Proof.
  intros Hmu Hl Hlen Hge Hni.
  destruct (mask_valid mu lamb w0) as (m & Hm & Hs).
  - unfold mask_premises. repeat split; try assumption. apply noninc_of_nth. exact Hni.
  - exists m. pose proof Hs as (H1 & H2 & H3). repeat split; try assumption;
      apply (mask_shape_le_index lamb m Hs j a); assumption.
Qed.

Theorem mask_index_safe {A} (us : list A) (lamb : nat) (w0 : list Z) :
  (1 <= List.length us)%nat -> (1 <= lamb)%nat ->
  List.length w0 = (List.length us + lamb)%nat ->
  (forall x, In x w0 -> 1 <= x) ->
  (forall (i : nat) (a b : Z), nth_error w0 i = Some a -> nth_error w0 (S i) = Some b -> b <= a) ->
  exists (m : list Z) (ps : list A),
    selection_mask w0 (Z.of_nat lamb) = MOk m /\ parents us m lamb = Some ps /\
    List.length ps = Nat.min lamb (List.length us) /\ forall x, In x ps -> In x us.
Proof.
  intros Hmu Hl Hlen Hge Hni.
  destruct (mask_valid (Z.of_nat (List.length us)) (Z.of_nat lamb) w0) as (m & Hm & Hs).
  - unfold mask_premises. repeat split; try assumption; try lia. apply noninc_of_nth. exact Hni.
  - destruct (parents_defined us lamb m Hs) as (ps & H1 & H2 & H3).
    exists m, ps. auto.
Qed.

Theorem hedge_distribution (e : list Q) (gamma : Q) :
  e <> [] -> Forall (fun x => 0 < x)%Q e ->
  (inject_Z (Z.of_nat (List.length e)) * gamma <= 1)%Q ->
  (qsum (hedge_probs e gamma) == 1)%Q /\
  (forall p, In p (hedge_probs e gamma) -> (gamma <= p)%Q) /\
  List.length (hedge_probs e gamma) = List.length e /\
  forall rand : Q, (0 <= rand)%Q -> (rand < 1)%Q ->
    exists k : nat, hedge_choice rand (hedge_probs e gamma) = Some k /\ (k < List.length e)%nat /\
      (qsum (firstn k (hedge_probs e gamma)) <= rand)%Q /\
      (rand < qsum (firstn (S k) (hedge_probs e gamma)))%Q.
Proof.
  intros Hne Hpos Hng. pose proof (hedge_sum_one e gamma Hne Hpos) as Hsum.
  split; [exact Hsum|]. split; [intros p Hp; eapply hedge_floor; eassumption|].
  assert (List.length (hedge_probs e gamma) = List.length e) as Hlen by (unfold hedge_probs; apply map_length).
  split; [exact Hlen|]. intros rand H0 H1.
  destruct (hedge_choice_exists (hedge_probs e gamma) rand H0) as (k & Ha & Hb & Hc & Hd).
  - rewrite Hsum. exact H1.
  - exists k. rewrite <- Hlen. auto.
Qed.

(* concrete instances (non-vacuity and the stuck cases), by computation *)
Example es_example_ok :
  es_run nat 2 [[(1%nat, Some (3#1)); (2%nat, Some (1#1)); (3%nat, Some (5#2))]; [(4%nat, Some (2#1)); (5%nat, Some (1#2))]]
  = ESPoint 5%nat (Some (1#2)).
Proof. vm_compute. reflexivity. Qed.

Example es_example_all_filtered :
  es_run nat 2 [[]; []] = ESEmpty.
Proof. vm_compute. reflexivity. Qed.

(* a later generation without survivors, then a population whose acquisition values are NaN:
   the best earlier survivor is still returned *)
Example es_example_later_generation_empty :
  es_run nat 2 [[(1%nat, Some (3#1)); (2%nat, Some (1#1))]; []] = ESPoint 2%nat (Some (1#1)) /\
  es_run nat 2 [[(1%nat, Some (3#1)); (2%nat, Some (1#1))]; []; [(3%nat, None); (4%nat, None)]] = ESPoint 2%nat (Some (1#1)).
Proof. vm_compute. split; reflexivity. Qed.

Example mask_example :
  selection_mask [2; 1; 1; 1; 1; 1; 1; 1] 5 = MOk [0; 1; 1; 2; 3; 4] /\
  parents [10; 11; 12] [0; 1; 1; 2; 3; 4] 5 = Some [10; 11; 11].
Proof. vm_compute. split; reflexivity. Qed.

Example hedge_example :
  hedge_choice (9#10) (hedge_probs [1#1; 1#3] (1#8)) = Some 1%nat /\
  hedge_choice 1 [1#2; 1#2] = None.
Proof. vm_compute. split; reflexivity. Qed.

Example search_example :
  search_trace nat [7%nat; 8%nat; 9%nat] [3#1; 1#1; 1#1] = [Call 8%nat] /\ search_trace nat [] [] = [].
Proof. vm_compute. split; reflexivity. Qed.
