(* GridProofs.v — proofs about the mesh / grid arithmetic of pybads AS REGENERATED FROM THE SOURCE on every run
   (gen/Src_grid.v, emitted by translate/grid.py from grid_functions.py, bads.py, constraints_check.py), and the
   equalities that tie the hand-written definitions of Model/SkeletonBox.v, Model/Filter.v and Model/Skeleton.v
   to those source expressions.  Rationals and integers only: every lemma here is closed under the global
   context.  The real-number half (tol_mesh snapping, forcing function, _eval_improvement_ with SDs) is in
   Proofs/GridProofsR.v.

   If a source expression changes, gen/Src_grid.v changes and the lemma about it stops checking (or the
   translator refuses the source): ./check reports a broken proof obligation and searches for a concrete input. *)
From Coq Require Import ZArith QArith Qround Qpower Qabs List Bool Lia Lqa.
From PV Require Import gen.Src_grid.
From PV Require Import Model.Val Model.Skeleton Model.SkeletonValid Model.Filter Model.SkeletonBox.
From PV Require Import Proofs.FilterProofs Proofs.SkeletonCtrl.
Import ListNotations.
Open Scope Z_scope.

(* ================================================================== *)
(* 0. the NumPy primitives of the prelude                              *)
(* ================================================================== *)
Lemma Qltb_true : forall a b, Qltb a b = true <-> (a < b)%Q.
Proof.
  intros a b. unfold Qltb. split.
  - intros H. apply negb_true_iff in H. apply Qnot_le_lt. intro C. apply Qle_bool_iff in C. congruence.
  - intros H. apply negb_true_iff. destruct (Qle_bool b a) eqn:E; [|reflexivity].
    apply Qle_bool_iff in E. exfalso. exact (Qlt_not_le _ _ H E).
Qed.

Lemma Qltb_false : forall a b, Qltb a b = false <-> (b <= a)%Q.
Proof.
  intros a b. unfold Qltb. rewrite negb_false_iff. apply Qle_bool_iff.
Qed.

(* np.round of the generated prelude IS the rounding of Model/Filter.v *)
Lemma np_round_is_Qround_even : forall x, np_round x = Qround_even x.
Proof. intros x. reflexivity. Qed.

Lemma np_round_comp : forall x y, (x == y)%Q -> np_round x = np_round y.
Proof. intros x y E. rewrite !np_round_is_Qround_even. exact (Qround_even_comp x y E). Qed.

Lemma np_round_near : forall x,
  (inject_Z (np_round x) - (1 # 2) <= x)%Q /\ (x <= inject_Z (np_round x) + (1 # 2))%Q.
Proof. intros x. rewrite np_round_is_Qround_even. exact (Qround_even_near x). Qed.

Lemma Qfloor_inject_Z : forall z, Qfloor (inject_Z z) = z.
Proof. intros z. unfold Qfloor, inject_Z. apply Z.div_1_r. Qed.

(* an integer is its own rounding *)
Lemma np_round_inject_Z : forall z, np_round (inject_Z z) = z.
Proof.
  intros z. unfold np_round. cbv zeta. rewrite Qfloor_inject_Z.
  assert (E : (inject_Z z - inject_Z z == 0)%Q) by ring.
  rewrite (Qcompare_comp _ _ E _ _ (Qeq_refl (1 # 2))). reflexivity.
Qed.

(* the rounded value is A nearest integer: no integer is closer *)
Lemma np_round_nearest : forall x z, (Qabs (inject_Z (np_round x) - x) <= Qabs (inject_Z z - x))%Q.
Proof.
  intros x z. destruct (np_round_near x) as [N1 N2].
  set (r := np_round x) in *.
  destruct (Z.eq_dec z r) as [E|NE]; [subst z; apply Qle_refl|].
  assert (Hr : (Qabs (inject_Z r - x) <= 1 # 2)%Q).
  { apply Qabs_Qle_condition. split; lra. }
  eapply Qle_trans; [exact Hr|].
  destruct (Z_lt_le_dec z r) as [L|G].
  - assert (L' : z + 1 <= r) by lia.
    assert (Q1 : (inject_Z (z + 1) <= inject_Z r)%Q) by (rewrite <- Zle_Qle; exact L').
    rewrite inject_Z_plus in Q1. change (inject_Z 1) with 1%Q in Q1.
    rewrite <- Qabs_opp. eapply Qle_trans; [|apply Qle_Qabs]. lra.
  - assert (G' : r + 1 <= z) by lia.
    assert (Q1 : (inject_Z (r + 1) <= inject_Z z)%Q) by (rewrite <- Zle_Qle; exact G').
    rewrite inject_Z_plus in Q1. change (inject_Z 1) with 1%Q in Q1.
    eapply Qle_trans; [|apply Qle_Qabs]. lra.
Qed.

(* ================================================================== *)
(* 1. force_to_grid                                                     *)
(* ================================================================== *)
(* the hand-written rounding to the grid of Model/SkeletonBox.v is the source expression *)
Lemma to_grid_is_src : forall x m, to_grid x m = src_force_to_grid x m.
Proof. intros x m. reflexivity. Qed.

Definition on_grid (m g : Q) : Prop := exists z : Z, (g == inject_Z z * m)%Q.

Lemma ftg_div : forall x m, (0 < m)%Q -> (m * (x / m) == x)%Q.
Proof. intros x m Hm. apply Qmult_div_r. intro C. rewrite C in Hm. discriminate Hm. Qed.

Lemma force_to_grid_on_grid : forall x m, on_grid m (src_force_to_grid x m).
Proof.
  intros x m. exists (np_round (x / m)). unfold src_force_to_grid, src_force_to_grid_tol. ring.
Qed.

Lemma force_to_grid_near : forall x m, (0 < m)%Q ->
  (src_force_to_grid x m - (1 # 2) * m <= x)%Q /\ (x <= src_force_to_grid x m + (1 # 2) * m)%Q.
Proof.
  intros x m Hm. unfold src_force_to_grid, src_force_to_grid_tol.
  destruct (np_round_near (x / m)) as [N1 N2].
  set (r := inject_Z (np_round (x / m))) in *.
  pose proof (ftg_div x m Hm) as Hq.
  assert (Hm0 : (0 <= m)%Q) by (apply Qlt_le_weak; exact Hm).
  pose proof (Qmult_le_compat_r _ _ m N1 Hm0) as M1.
  pose proof (Qmult_le_compat_r _ _ m N2 Hm0) as M2.
  set (q := (x / m)%Q) in *.
  split; lra.
Qed.

Lemma force_to_grid_within_half : forall x m, (0 < m)%Q ->
  (Qabs (src_force_to_grid x m - x) <= m / (2 # 1))%Q.
Proof.
  intros x m Hm. destruct (force_to_grid_near x m Hm) as [A B].
  apply Qabs_Qle_condition.
  assert (E : (m / (2 # 1) == (1 # 2) * m)%Q) by (field).
  rewrite E. split; lra.
Qed.

(* x on the grid is left where it is; hence idempotence *)
Lemma force_to_grid_fixes_grid : forall z m, (0 < m)%Q ->
  (src_force_to_grid (inject_Z z * m) m == inject_Z z * m)%Q.
Proof.
  intros z m Hm. unfold src_force_to_grid, src_force_to_grid_tol.
  assert (E : (inject_Z z * m / m == inject_Z z)%Q).
  { field. intro C. rewrite C in Hm. discriminate Hm. }
  rewrite (np_round_comp _ _ E), np_round_inject_Z. ring.
Qed.

Lemma force_to_grid_comp : forall x y m, (x == y)%Q -> (src_force_to_grid x m == src_force_to_grid y m)%Q.
Proof.
  intros x y m E. unfold src_force_to_grid, src_force_to_grid_tol.
  assert (E2 : (x / m == y / m)%Q) by (rewrite E; reflexivity).
  rewrite (np_round_comp _ _ E2). reflexivity.
Qed.

Lemma force_to_grid_idempotent : forall x m, (0 < m)%Q ->
  (src_force_to_grid (src_force_to_grid x m) m == src_force_to_grid x m)%Q.
Proof.
  intros x m Hm. destruct (force_to_grid_on_grid x m) as [z Hz].
  rewrite (force_to_grid_comp _ _ m Hz). rewrite Hz. exact (force_to_grid_fixes_grid z m Hm).
Qed.

(* no grid point is closer to x *)
Lemma force_to_grid_nearest : forall x m z, (0 < m)%Q ->
  (Qabs (src_force_to_grid x m - x) <= Qabs (inject_Z z * m - x))%Q.
Proof.
  intros x m z Hm. unfold src_force_to_grid, src_force_to_grid_tol.
  pose proof (np_round_nearest (x / m) z) as N.
  pose proof (ftg_div x m Hm) as Hq.
  assert (Hm0 : (0 <= m)%Q) by (apply Qlt_le_weak; exact Hm).
  assert (A : forall r : Q, (Qabs (r * m - x) == Qabs (r - x / m) * m)%Q).
  { intros r.
    assert (E1 : ((r - x / m) * m == r * m - x)%Q).
    { setoid_replace ((r - x / m) * m)%Q with (r * m - m * (x / m))%Q by ring. rewrite Hq. reflexivity. }
    rewrite <- E1, Qabs_Qmult, (Qabs_pos m Hm0). reflexivity. }
  setoid_replace (m * inject_Z (np_round (x / m)))%Q with (inject_Z (np_round (x / m)) * m)%Q by ring.
  rewrite !A. apply Qmult_le_compat_r; [exact N | exact Hm0].
Qed.

(* ================================================================== *)
(* 2. the inward-rounded search box (_update_search_bounds_ and its copy in _init_optim_state_) *)
(* ================================================================== *)
Lemma lb_search1_is_src : forall lb m, lb_search1 lb m = src_usb_lb_search lb m.
Proof.
  intros lb m. unfold lb_search1, src_usb_lb_search, Qltb. cbv zeta. rewrite to_grid_is_src.
  destruct (Qle_bool lb (src_force_to_grid lb m)); reflexivity.
Qed.

Lemma ub_search1_is_src : forall ub m, ub_search1 ub m = src_usb_ub_search ub m.
Proof.
  intros ub m. unfold ub_search1, src_usb_ub_search, Qltb. cbv zeta. rewrite to_grid_is_src.
  destruct (Qle_bool (src_force_to_grid ub m) ub); reflexivity.
Qed.

(* the three places that compute the search box compute the same function *)
Lemma init_search_box_is_usb : forall b m,
  src_init_lb_search b m = src_usb_lb_search b m /\ src_init_ub_search b m = src_usb_ub_search b m /\
  src_loop_lb_search b m = src_usb_lb_search b m /\ src_loop_ub_search b m = src_usb_ub_search b m.
Proof. intros b m. repeat split; reflexivity. Qed.

Lemma on_grid_plus : forall m g, on_grid m g -> on_grid m (g + m).
Proof. intros m g [z Hz]. exists (z + 1). rewrite inject_Z_plus, Hz. change (inject_Z 1) with 1%Q. ring. Qed.

Lemma on_grid_minus : forall m g, on_grid m g -> on_grid m (g - m).
Proof. intros m g [z Hz]. exists (z + (-1)). rewrite inject_Z_plus, Hz. change (inject_Z (-1)) with (- (1))%Q. ring. Qed.

Lemma lb_search_spec : forall lb m, (0 < m)%Q ->
  on_grid m (src_usb_lb_search lb m) /\ (lb <= src_usb_lb_search lb m)%Q /\ (src_usb_lb_search lb m < lb + m)%Q.
Proof.
  intros lb m Hm. unfold src_usb_lb_search. cbv zeta.
  destruct (force_to_grid_near lb m Hm) as [L1 L2]. pose proof (force_to_grid_on_grid lb m) as G.
  set (g := src_force_to_grid lb m) in *.
  destruct (Qltb g lb) eqn:E.
  - apply Qltb_true in E. split; [exact (on_grid_plus m g G)|]. split; lra.
  - apply Qltb_false in E. split; [exact G|]. split; lra.
Qed.

Lemma ub_search_spec : forall ub m, (0 < m)%Q ->
  on_grid m (src_usb_ub_search ub m) /\ (src_usb_ub_search ub m <= ub)%Q /\ (ub - m < src_usb_ub_search ub m)%Q.
Proof.
  intros ub m Hm. unfold src_usb_ub_search. cbv zeta.
  destruct (force_to_grid_near ub m Hm) as [L1 L2]. pose proof (force_to_grid_on_grid ub m) as G.
  set (g := src_force_to_grid ub m) in *.
  destruct (Qltb ub g) eqn:E.
  - apply Qltb_true in E. split; [exact (on_grid_minus m g G)|]. split; lra.
  - apply Qltb_false in E. split; [exact G|]. split; lra.
Qed.

(* two grid points less than one step apart in the strict sense are ordered as their indices *)
Lemma grid_lt_le : forall (a b : Z) (m : Q), (0 < m)%Q -> (inject_Z a * m < inject_Z b * m + m)%Q -> (inject_Z a * m <= inject_Z b * m)%Q.
Proof.
  intros a b m Hm H.
  assert (H1 : (inject_Z a * m < inject_Z (b + 1) * m)%Q).
  { rewrite inject_Z_plus. change (inject_Z 1) with 1%Q. lra. }
  assert (H2 : (inject_Z a < inject_Z (b + 1))%Q).
  { destruct (Qlt_le_dec (inject_Z a) (inject_Z (b + 1))) as [L|G]; [exact L|].
    exfalso. apply (Qlt_not_le _ _ H1). apply Qmult_le_compat_r; [exact G | apply Qlt_le_weak; exact Hm]. }
  rewrite <- Zlt_Qlt in H2. assert (H3 : a <= b) by lia.
  apply Qmult_le_compat_r; [rewrite <- Zle_Qle; exact H3 | apply Qlt_le_weak; exact Hm].
Qed.

(* lb_search is THE least grid point >= lb, ub_search THE greatest grid point <= ub *)
Lemma lb_search_least : forall lb m z, (0 < m)%Q -> (lb <= inject_Z z * m)%Q -> (src_usb_lb_search lb m <= inject_Z z * m)%Q.
Proof.
  intros lb m z Hm H. destruct (lb_search_spec lb m Hm) as ([a Ha] & A1 & A2).
  rewrite Ha in *. apply grid_lt_le; [exact Hm|]. lra.
Qed.

Lemma ub_search_greatest : forall ub m z, (0 < m)%Q -> (inject_Z z * m <= ub)%Q -> (inject_Z z * m <= src_usb_ub_search ub m)%Q.
Proof.
  intros ub m z Hm H. destruct (ub_search_spec ub m Hm) as ([a Ha] & A1 & A2).
  rewrite Ha in *. apply grid_lt_le; [exact Hm|]. lra.
Qed.

Lemma search_box_inside_src :
  forall (lb ub m : Q), (0 < m)%Q ->
    (lb <= src_usb_lb_search lb m)%Q /\ (src_usb_lb_search lb m < lb + m)%Q /\
    (src_usb_ub_search ub m <= ub)%Q /\ (ub - m < src_usb_ub_search ub m)%Q /\
    on_grid m (src_usb_lb_search lb m) /\ on_grid m (src_usb_ub_search ub m).
Proof.
  intros lb ub m Hm. destruct (lb_search_spec lb m Hm) as (A0 & A1 & A2). destruct (ub_search_spec ub m Hm) as (B0 & B1 & B2).
  repeat split; assumption.
Qed.

(* a box at least one mesh step wide contains a grid point *)
Lemma search_box_nonempty_wide :
  forall (lb ub m : Q), (0 < m)%Q -> (lb + m <= ub)%Q -> (src_usb_lb_search lb m <= src_usb_ub_search ub m)%Q.
Proof.
  intros lb ub m Hm Hw. destruct (lb_search_spec lb m Hm) as ([a Ha] & A1 & A2).
  rewrite Ha. apply ub_search_greatest; [exact Hm|]. rewrite <- Ha. lra.
Qed.

Lemma search_box_inside_wide :
  forall (lb ub m : Q), (0 < m)%Q ->
    (lb <= src_usb_lb_search lb m)%Q /\ (src_usb_lb_search lb m < lb + m)%Q /\
    (src_usb_ub_search ub m <= ub)%Q /\ (ub - m < src_usb_ub_search ub m)%Q /\
    (lb + m <= ub -> src_usb_lb_search lb m <= src_usb_ub_search ub m)%Q.
Proof.
  intros lb ub m Hm. destruct (search_box_inside_src lb ub m Hm) as (A & B & C & D & _).
  repeat (split; [assumption|]). exact (search_box_nonempty_wide lb ub m Hm).
Qed.

(* exactly when the rounded box is non-empty: iff some grid point lies in [lb, ub] *)
Lemma search_box_nonempty_iff :
  forall (lb ub m : Q), (0 < m)%Q ->
    ((src_usb_lb_search lb m <= src_usb_ub_search ub m)%Q <-> exists z : Z, (lb <= inject_Z z * m)%Q /\ (inject_Z z * m <= ub)%Q).
Proof.
  intros lb ub m Hm. destruct (lb_search_spec lb m Hm) as ([a Ha] & A1 & A2). destruct (ub_search_spec ub m Hm) as (B0 & B1 & B2).
  split.
  - intros H. exists a. rewrite <- Ha. split; [exact A1|]. lra.
  - intros [z [Z1 Z2]]. eapply Qle_trans; [exact (lb_search_least lb m z Hm Z1) | exact (ub_search_greatest ub m z Hm Z2)].
Qed.

(* ... and a narrower one need not: lb = 1/4 <= ub = 1/2, mesh 1 gives the "box" [1, 0] *)
Lemma search_box_nonempty_refuted :
  exists lb ub m : Q, (0 < m)%Q /\ (lb <= ub)%Q /\ (src_usb_ub_search ub m < src_usb_lb_search lb m)%Q.
Proof. exists (1 # 4)%Q, (1 # 2)%Q, 1%Q. vm_compute. repeat split; intro; discriminate. Qed.

(* ================================================================== *)
(* 3. the gridised and nudged starting point                           *)
(* ================================================================== *)
Lemma init_u0_same : forall x lb ub m, src_init_self_u x lb ub m = src_init_u0 x lb ub m.
Proof. intros. reflexivity. Qed.

Lemma init_u0_on_grid : forall x lb ub m, on_grid m (src_init_u0 x lb ub m).
Proof.
  intros x lb ub m. unfold src_init_u0. cbv zeta. pose proof (force_to_grid_on_grid x m) as G.
  set (g := src_force_to_grid x m) in *.
  destruct (Qltb g lb); [pose proof (on_grid_plus m g G) as G1 | pose proof G as G1];
    match goal with |- context [Qltb ub ?u] => destruct (Qltb ub u) end;
    try exact G1; try (exact (on_grid_minus m _ G1)).
Qed.

(* the starting point is moved by less than a step and a half at most; with x inside a box at least one step wide it stays inside *)
Lemma init_u0_in_box : forall x lb ub m, (0 < m)%Q -> (lb <= x)%Q -> (x <= ub)%Q -> (lb + m <= ub)%Q ->
  (lb <= src_init_u0 x lb ub m)%Q /\ (src_init_u0 x lb ub m <= ub)%Q.
Proof.
  intros x lb ub m Hm Hl Hu Hw. unfold src_init_u0. cbv zeta.
  destruct (force_to_grid_near x m Hm) as [N1 N2]. set (g := src_force_to_grid x m) in *.
  destruct (Qltb g lb) eqn:E1.
  - apply Qltb_true in E1. destruct (Qltb ub (g + m)) eqn:E2.
    + apply Qltb_true in E2. exfalso. lra.
    + apply Qltb_false in E2. split; lra.
  - apply Qltb_false in E1. destruct (Qltb ub g) eqn:E2.
    + apply Qltb_true in E2. split; lra.
    + apply Qltb_false in E2. split; lra.
Qed.

(* the re-check of the constructor rejects exactly the coordinates outside [lb, ub] *)
Lemma init_u0_rejected_iff : forall u0 lb ub, src_init_u0_rejected u0 lb ub = false <-> (lb <= u0)%Q /\ (u0 <= ub)%Q.
Proof.
  intros u0 lb ub. unfold src_init_u0_rejected. rewrite orb_false_iff, !Qltb_false. tauto.
Qed.

Lemma init_u0_accepted_wide : forall x lb ub m, (0 < m)%Q -> (lb <= x)%Q -> (x <= ub)%Q -> (lb + m <= ub)%Q ->
  src_init_u0_rejected (src_init_u0 x lb ub m) lb ub = false.
Proof. intros x lb ub m Hm Hl Hu Hw. apply init_u0_rejected_iff. exact (init_u0_in_box x lb ub m Hm Hl Hu Hw). Qed.

(* BADS's own geometry: the plausible box is mapped to [-1, 1], so the internal hard box contains it, and the
   search mesh never exceeds 1: the premises above always hold *)
Lemma init_u0_in_box_unit : forall x lb ub m, (0 < m)%Q -> (m <= 1)%Q -> (lb <= - (1))%Q -> (1 <= ub)%Q -> (lb <= x)%Q -> (x <= ub)%Q ->
  (lb <= src_init_u0 x lb ub m)%Q /\ (src_init_u0 x lb ub m <= ub)%Q /\ (src_usb_lb_search lb m <= src_usb_ub_search ub m)%Q.
Proof.
  intros x lb ub m Hm H1 Hl Hu Hxl Hxu.
  assert (Hw : (lb + m <= ub)%Q) by lra.
  destruct (init_u0_in_box x lb ub m Hm Hxl Hxu Hw) as [A B].
  split; [exact A|]. split; [exact B|]. exact (search_box_nonempty_wide lb ub m Hm Hw).
Qed.

(* ... and in that geometry the nudges never fire at all: 1 and -1 are grid points of every mesh 2^ks, ks <= 0, the transformed
   x0 lies in the plausible box [-1, 1] (the constructor widens the plausible box to contain x0), so the nearest grid point does too *)
Lemma one_on_pow2_grid : forall ks : Z, ks <= 0 -> on_grid (Qpower (2 # 1) ks) 1.
Proof.
  intros ks Hk. exists (2 ^ (- ks)). rewrite (Zpower_Qpower 2 (- ks)) by lia.
  change (inject_Z 2) with (2 # 1)%Q. rewrite <- Qpower_plus by (intro C; discriminate C).
  replace (- ks + ks) with 0 by lia. reflexivity.
Qed.

Lemma force_to_grid_in_unit : forall x m, (0 < m)%Q -> on_grid m 1 -> (- (1) <= x)%Q -> (x <= 1)%Q ->
  (- (1) <= src_force_to_grid x m)%Q /\ (src_force_to_grid x m <= 1)%Q.
Proof.
  intros x m Hm [z Hz] Hl Hu.
  pose proof (force_to_grid_nearest x m z Hm) as N1. pose proof (force_to_grid_nearest x m (- z) Hm) as N2.
  rewrite inject_Z_opp in N2.
  setoid_replace (- inject_Z z * m)%Q with (- (1))%Q in N2 by (rewrite Hz; ring).
  rewrite <- Hz in N1. set (g := src_force_to_grid x m) in *.
  rewrite (Qabs_pos (1 - x)) in N1 by lra.
  assert (E : (Qabs (- (1) - x) == x + 1)%Q).
  { rewrite <- Qabs_opp. setoid_replace (- (- (1) - x))%Q with (x + 1)%Q by ring. apply Qabs_pos. lra. }
  rewrite E in N2.
  pose proof (Qle_Qabs (g - x)) as A1.
  assert (A2 : (- (g - x) <= Qabs (g - x))%Q) by (rewrite <- Qabs_opp; apply Qle_Qabs).
  split; lra.
Qed.

Lemma init_u0_unit_no_nudge : forall x lb ub m, (0 < m)%Q -> on_grid m 1 -> (lb <= - (1))%Q -> (1 <= ub)%Q -> (- (1) <= x)%Q -> (x <= 1)%Q ->
  (src_init_u0 x lb ub m == src_force_to_grid x m)%Q /\ (- (1) <= src_init_u0 x lb ub m)%Q /\ (src_init_u0 x lb ub m <= 1)%Q.
Proof.
  intros x lb ub m Hm Hg Hl Hu Hx1 Hx2. destruct (force_to_grid_in_unit x m Hm Hg Hx1 Hx2) as [A B].
  unfold src_init_u0. cbv zeta. set (g := src_force_to_grid x m) in *.
  assert (E1 : Qltb g lb = false) by (apply Qltb_false; lra). rewrite E1.
  assert (E2 : Qltb ub g = false) by (apply Qltb_false; lra). rewrite E2.
  split; [reflexivity|]. split; assumption.
Qed.

Lemma start_no_nudge_unit :
  forall (x lb ub : Q) (ks : Z), ks <= 0 -> (lb <= - (1))%Q -> (1 <= ub)%Q -> (- (1) <= x)%Q -> (x <= 1)%Q ->
    let m := src_init_search_mesh_size (2 # 1) ks in
    (src_init_u0 x lb ub m == src_force_to_grid x m)%Q /\ (- (1) <= src_init_u0 x lb ub m)%Q /\ (src_init_u0 x lb ub m <= 1)%Q.
Proof.
  intros x lb ub ks Hk Hl Hu Hx1 Hx2. cbv zeta. unfold src_init_search_mesh_size. cbv zeta.
  apply init_u0_unit_no_nudge; try assumption; [apply Qpower_0_lt; reflexivity | exact (one_on_pow2_grid ks Hk)].
Qed.

(* a box narrower than a step can reject a start that is inside it: lb = 1/4 <= x = 3/8 <= ub = 1/2, mesh 1 *)
Lemma init_u0_narrow_rejected :
  exists x lb ub m : Q, (0 < m)%Q /\ (lb <= x)%Q /\ (x <= ub)%Q /\ src_init_u0_rejected (src_init_u0 x lb ub m) lb ub = true.
Proof. exists (3 # 8)%Q, (1 # 4)%Q, (1 # 2)%Q, 1%Q. vm_compute. repeat split; intro; discriminate. Qed.

(* dropping a bound: an unbounded coordinate (None) is a fixed point of the search-box code; lifted definitions *)
Definition lb_search_x (lb : bnd) (m : Q) : bnd := option_map (fun l => src_usb_lb_search l m) lb.
Definition ub_search_x (ub : bnd) (m : Q) : bnd := option_map (fun u => src_usb_ub_search u m) ub.

Lemma search_box_within_hard : forall (lb ub : bnd) (m : Q), (0 < m)%Q ->
  lo_within (lb_search_x lb m) lb = true /\ hi_within (ub_search_x ub m) ub = true.
Proof.
  intros lb ub m Hm. split.
  - destruct lb as [l|]; cbn [lb_search_x option_map lo_within]; [|reflexivity].
    apply Qle_bool_iff. exact (proj1 (proj2 (lb_search_spec l m Hm))).
  - destruct ub as [u|]; cbn [ub_search_x option_map hi_within]; [|reflexivity].
    apply Qle_bool_iff. exact (proj1 (proj2 (ub_search_spec u m Hm))).
Qed.

(* whole boxes: the rounded search box of every dimension lies within the hard box (premise of C01_filter_output_in_hard_box) *)
Lemma search_box_withinb : forall (LB UB : list bnd) (m : Q), (0 < m)%Q -> List.length LB = List.length UB ->
  box_withinb (map (fun l => lb_search_x l m) LB) (map (fun u => ub_search_x u m) UB) LB UB = true.
Proof.
  intros LB. induction LB as [|l LB IH]; intros [|u UB] m Hm HL; try discriminate HL; [reflexivity|].
  cbn [map box_withinb hd tl]. destruct (search_box_within_hard l u m Hm) as [A B]. rewrite A, B. cbn [andb].
  apply IH; [exact Hm|]. injection HL as HL. exact HL.
Qed.

(* ================================================================== *)
(* 4. mesh sizes are powers of the multiplier; exponents                *)
(* ================================================================== *)
Lemma mesh_size_is_power : forall (p : Q) (k : Z),
  src_loop_mesh_size p k = Qpower p k /\ src_init_mesh_size p k = Qpower p k /\ src_poll_mesh_size p k = Qpower p k /\
  src_loop_search_mesh_size p k = Qpower p k /\ src_init_search_mesh_size p k = Qpower p k.
Proof. intros p k. repeat split; reflexivity. Qed.

Lemma mesh_size_pos : forall (p : Q) (k : Z), (0 < p)%Q -> (0 < src_loop_mesh_size p k)%Q.
Proof. intros p k Hp. apply Qpower_0_lt. exact Hp. Qed.

Lemma mesh_size_le_one : forall (p : Q) (k : Z), (1 <= p)%Q -> k <= 0 -> (src_loop_mesh_size p k <= 1)%Q.
Proof.
  intros p k Hp Hk. unfold src_loop_mesh_size. cbv zeta.
  rewrite <- (Qpower_0_r p). apply Qpower_le_compat_l; assumption.
Qed.

Lemma mesh_size_lt_iff : forall (p : Q) (a b : Z), (1 < p)%Q -> ((src_loop_mesh_size p a < src_loop_mesh_size p b)%Q <-> a < b).
Proof.
  intros p a b Hp. unfold src_loop_mesh_size. cbv zeta. split.
  - intros H. exact (Qpower_lt_compat_l_inv p a b H Hp).
  - intros H. exact (Qpower_lt_compat_l p a b H Hp).
Qed.

(* the termination test of optimize() on mesh = p^k against a snapped tolerance p^t is the exponent comparison of Model/Skeleton.v *)
Lemma tolmesh_stop_is_exponent_test : forall (p : Q) (k t : Z), (1 < p)%Q ->
  src_loop_tolmesh_stop (src_loop_mesh_size p k) (Qpower p t) = (k <? t).
Proof.
  intros p k t Hp. unfold src_loop_tolmesh_stop.
  destruct (k <? t) eqn:E.
  - apply Z.ltb_lt in E. apply Qltb_true. apply (mesh_size_lt_iff p k t Hp). exact E.
  - apply Z.ltb_ge in E. apply Qltb_false. unfold src_loop_mesh_size. cbv zeta.
    apply Qpower_le_compat_l; [exact E | apply Qlt_le_weak; exact Hp].
Qed.

(* exponent of the search mesh: the three source expressions *)
Lemma init_search_size_integer_spec : forall k sgm sgn, src_init_search_size_integer k sgm sgn = Z.min 0 (k * sgm - sgn).
Proof. intros. reflexivity. Qed.

Lemma loop_search_size_integer_spec : forall locked ks_in k sgm sgn,
  src_loop_search_size_integer locked ks_in k sgm sgn = if locked then Z.min 0 (k * sgm - sgn) else ks_in.
Proof. intros. reflexivity. Qed.

Lemma poll_search_size_integer_spec : forall ks_in k sgm sgn, src_poll_search_size_integer ks_in k sgm sgn = Z.min ks_in (k * sgm - sgn).
Proof. intros. reflexivity. Qed.

(* the hand-written controller of Model/Skeleton.v uses exactly these expressions *)
Lemma lock_ks_is_src : forall o s, ks (lock_ks o s) = src_loop_search_size_integer (o_locked o) (ks s) (k s) (o_sgm o) (o_sgn o) /\ k (lock_ks o s) = k s.
Proof. intros o s. unfold lock_ks. destruct (o_locked o); split; reflexivity. Qed.

Lemma poll_phase_ks_is_src : forall o SI ev s,
  let a := poll_loop o (pe_ncand ev) (pe_evals ev) (mkP s 0 (cur s) 0) in
  let s' := poll_phase o SI ev s in
  exn s' = false ->
  (qltb SI (p_best a) = true -> ks s' = ks s) /\
  (qltb SI (p_best a) = false -> ks s' = src_poll_search_size_integer (ks s) (k s') (o_sgm o) (o_sgn o)).
Proof.
  intros o SI ev s. cbv zeta. intros He.
  pose proof (poll_phase_spec o SI ev s) as H. cbv zeta in H.
  destruct H as (_ & _ & _ & _ & _ & _ & _ & _ & _ & _ & _ & _ & H). specialize (H He).
  destruct H as [(Hg & _ & Hks) | (Hg & Hks & _)]; rewrite Hg; split; intros C; try discriminate C.
  - exact Hks.
  - rewrite poll_search_size_integer_spec. exact Hks.
Qed.

Lemma terminate_mesh_test_is_src : forall (kobs t : Z), (kobs <? t) = src_loop_tolmesh_stop (src_loop_mesh_size (2 # 1) kobs) (Qpower (2 # 1) t).
Proof. intros kobs t. symmetry. apply tolmesh_stop_is_exponent_test. reflexivity. Qed.

(* the search mesh never exceeds the poll mesh (documented premises: multiplier >= 1, cap <= 0, search_grid_multiplier >= 1, search_grid_number >= 0) *)
Lemma search_exponent_le : forall k sgm sgn, k <= 0 -> 1 <= sgm -> 0 <= sgn -> Z.min 0 (k * sgm - sgn) <= k.
Proof.
  intros k sgm sgn Hk Hm Hn. apply Z.le_trans with (k * sgm - sgn); [apply Z.le_min_r|].
  assert (H : k * (sgm - 1) <= 0) by (apply Z.mul_nonpos_nonneg; lia). lia.
Qed.

Lemma search_mesh_le_poll_mesh_locked : forall (p : Q) (ks_in k sgm sgn : Z),
  (1 <= p)%Q -> k <= 0 -> 1 <= sgm -> 0 <= sgn ->
  (src_loop_search_mesh_size p (src_loop_search_size_integer true ks_in k sgm sgn) <= src_loop_mesh_size p k)%Q /\
  (src_init_search_mesh_size p (src_init_search_size_integer k sgm sgn) <= src_init_mesh_size p k)%Q.
Proof.
  intros p ks_in k sgm sgn Hp Hk Hm Hn.
  pose proof (search_exponent_le k sgm sgn Hk Hm Hn) as E.
  split; (apply Qpower_le_compat_l; [exact E | exact Hp]).
Qed.

Lemma search_mesh_le_poll_mesh_unlocked : forall (p : Q) (ks_in k sgm sgn : Z),
  (1 <= p)%Q -> ks_in <= k ->
  (src_loop_search_mesh_size p (src_loop_search_size_integer false ks_in k sgm sgn) <= src_loop_mesh_size p k)%Q.
Proof. intros p ks_in k sgm sgn Hp Hk. apply Qpower_le_compat_l; [exact Hk | exact Hp]. Qed.

Lemma poll_search_exponent_le : forall ks_in k sgm sgn, k <= 0 -> 1 <= sgm -> 0 <= sgn ->
  src_poll_search_size_integer ks_in k sgm sgn <= ks_in /\ src_poll_search_size_integer ks_in k sgm sgn <= k.
Proof.
  intros ks_in k sgm sgn Hk Hm Hn. rewrite poll_search_size_integer_spec. split; [apply Z.le_min_l|].
  apply Z.le_trans with (k * sgm - sgn); [apply Z.le_min_r|].
  assert (H : k * (sgm - 1) <= 0) by (apply Z.mul_nonpos_nonneg; lia). lia.
Qed.

(* ================================================================== *)
(* 5. _eval_improvement_ without SDs                                   *)
(* ================================================================== *)
Lemma impr_none_spec : forall fb fn : Q,
  (src_impr_none fb fn == fb - fn)%Q /\ ((0 < src_impr_none fb fn)%Q <-> (fn < fb)%Q) /\ ((src_impr_none fb fn <= 0)%Q <-> (fb <= fn)%Q).
Proof.
  intros fb fn. unfold src_impr_none. cbv zeta. split; [reflexivity|]. split; split; intros H; lra.
Qed.

(* ================================================================== *)
(* 6. the rounding key of the duplicate test of contraints_check       *)
(* ================================================================== *)
Lemma cc_keys_same_rounding : forall x tol, src_cc_key_candidate x tol = src_cc_key_logged x tol.
Proof. intros. reflexivity. Qed.

Lemma cc_tol_is_half : forall tol, (src_cc_tol tol == half_tol tol)%Q.
Proof. intros tol. unfold src_cc_tol, half_tol. cbv zeta. rewrite Qred_correct. reflexivity. Qed.

Lemma cc_key_is_src : forall x tol, inject_Z (Qround_even (x / half_tol tol)) = src_cc_key_candidate x tol.
Proof.
  intros x tol. unfold src_cc_key_candidate. cbv zeta. f_equal. change np_round with Qround_even.
  apply Qround_even_comp. unfold half_tol. rewrite Qred_correct. reflexivity.
Qed.

Lemma rkey_is_src : forall tol r, map inject_Z (rkey (half_tol tol) r) = map (fun x => src_cc_key_candidate x tol) r.
Proof.
  intros tol r. unfold rkey. rewrite map_map. apply map_ext. intros x. apply cc_key_is_src.
Qed.

(* two rows have the same key in the model iff the source's rounded rows are equal *)
Lemma rkey_eq_iff_src : forall tol a b,
  rkey (half_tol tol) a = rkey (half_tol tol) b <->
  map (fun x => src_cc_key_candidate x tol) a = map (fun x => src_cc_key_logged x tol) b.
Proof.
  intros tol a b. rewrite <- !rkey_is_src. split.
  - intros H. rewrite H. reflexivity.
  - revert b. generalize (rkey (half_tol tol) a) as ka. intros ka b. generalize (rkey (half_tol tol) b) as kb.
    induction ka as [|x ka IH]; intros [|y kb] H; try discriminate H; [reflexivity|].
    cbn [map] in H. injection H as H1 H2. f_equal; [|exact (IH kb H2)].
    unfold inject_Z in H1. congruence.
Qed.

(* ================================================================== *)
(* 7. the statements as exported to Props/C01grid.v                    *)
(* ================================================================== *)
Lemma force_to_grid_all :
  forall (x m : Q), (0 < m)%Q ->
    (exists z : Z, src_force_to_grid x m == inject_Z z * m)%Q /\
    (Qabs (src_force_to_grid x m - x) <= m / (2 # 1))%Q /\
    (forall z : Z, Qabs (src_force_to_grid x m - x) <= Qabs (inject_Z z * m - x))%Q /\
    (src_force_to_grid (src_force_to_grid x m) m == src_force_to_grid x m)%Q.
Proof.
  exact (fun x m Hm => conj (force_to_grid_on_grid x m)
          (conj (force_to_grid_within_half x m Hm)
             (conj (fun z => force_to_grid_nearest x m z Hm) (force_to_grid_idempotent x m Hm)))).
Qed.

Lemma search_box_extreme_all :
  forall (lb ub m : Q), (0 < m)%Q ->
    (lb <= src_usb_lb_search lb m)%Q /\ (src_usb_lb_search lb m < lb + m)%Q /\
    (src_usb_ub_search ub m <= ub)%Q /\ (ub - m < src_usb_ub_search ub m)%Q /\
    (exists z : Z, src_usb_lb_search lb m == inject_Z z * m)%Q /\
    (exists z : Z, src_usb_ub_search ub m == inject_Z z * m)%Q /\
    (forall z : Z, lb <= inject_Z z * m -> src_usb_lb_search lb m <= inject_Z z * m)%Q /\
    (forall z : Z, inject_Z z * m <= ub -> inject_Z z * m <= src_usb_ub_search ub m)%Q.
Proof.
  exact (fun lb ub m Hm =>
    match search_box_inside_src lb ub m Hm with
    | conj A (conj B (conj C (conj D (conj E F)))) =>
        conj A (conj B (conj C (conj D (conj E (conj F
          (conj (fun z => lb_search_least lb m z Hm) (fun z => ub_search_greatest ub m z Hm)))))))
    end).
Qed.

Lemma search_box_nonempty_all :
  forall (lb ub m : Q), (0 < m)%Q ->
    ((src_usb_lb_search lb m <= src_usb_ub_search ub m)%Q <-> exists z : Z, (lb <= inject_Z z * m)%Q /\ (inject_Z z * m <= ub)%Q) /\
    ((lb + m <= ub)%Q -> (src_usb_lb_search lb m <= src_usb_ub_search ub m)%Q).
Proof.
  exact (fun lb ub m Hm => conj (search_box_nonempty_iff lb ub m Hm) (search_box_nonempty_wide lb ub m Hm)).
Qed.

Lemma start_nudged_all :
  forall (x lb ub m : Q), (0 < m)%Q ->
    (exists z : Z, src_init_u0 x lb ub m == inject_Z z * m)%Q /\
    src_init_self_u x lb ub m = src_init_u0 x lb ub m /\
    ((lb <= x)%Q -> (x <= ub)%Q -> (lb + m <= ub)%Q ->
       (lb <= src_init_u0 x lb ub m)%Q /\ (src_init_u0 x lb ub m <= ub)%Q /\
       src_init_u0_rejected (src_init_u0 x lb ub m) lb ub = false).
Proof.
  exact (fun x lb ub m Hm => conj (init_u0_on_grid x lb ub m) (conj (init_u0_same x lb ub m)
    (fun Hl Hu Hw => match init_u0_in_box x lb ub m Hm Hl Hu Hw with
                     | conj A B => conj A (conj B (init_u0_accepted_wide x lb ub m Hm Hl Hu Hw)) end))).
Qed.

Lemma hand_model_is_source :
  forall (x m : Q), to_grid x m = src_force_to_grid x m /\ lb_search1 x m = src_usb_lb_search x m /\ ub_search1 x m = src_usb_ub_search x m.
Proof.
  exact (fun x m => conj (to_grid_is_src x m) (conj (lb_search1_is_src x m) (ub_search1_is_src x m))).
Qed.

(* ... and to Props/C13grid.v *)
Lemma mesh_order_all :
  forall (p : Q) (a b : Z), (1 < p)%Q ->
    (0 < src_loop_mesh_size p a)%Q /\ (a <= 0 -> (src_loop_mesh_size p a <= 1)%Q) /\
    ((src_loop_mesh_size p a < src_loop_mesh_size p b)%Q <-> a < b).
Proof.
  intros p a b Hp. assert (H0 : (0 < p)%Q) by lra. assert (H1 : (1 <= p)%Q) by lra.
  split; [exact (mesh_size_pos p a H0)|]. split; [exact (mesh_size_le_one p a H1) | exact (mesh_size_lt_iff p a b Hp)].
Qed.

Lemma search_exponent_is_source :
  (forall k sgm sgn, src_init_search_size_integer k sgm sgn = Z.min 0 (k * sgm - sgn)) /\
  (forall o s, ks (lock_ks o s) = src_loop_search_size_integer (o_locked o) (ks s) (k s) (o_sgm o) (o_sgn o) /\ k (lock_ks o s) = k s) /\
  (forall o SI ev s,
     let a := poll_loop o (pe_ncand ev) (pe_evals ev) (mkP s 0 (cur s) 0) in
     let s' := poll_phase o SI ev s in
     exn s' = false ->
     (qltb SI (p_best a) = true -> ks s' = ks s) /\
     (qltb SI (p_best a) = false -> ks s' = src_poll_search_size_integer (ks s) (k s') (o_sgm o) (o_sgn o))).
Proof.
  split; [exact init_search_size_integer_spec|]. split; [exact lock_ks_is_src | exact poll_phase_ks_is_src].
Qed.

Lemma search_mesh_le_poll_mesh_all :
  forall (p : Q) (ks_in k sgm sgn : Z), (1 <= p)%Q ->
    (k <= 0 -> 1 <= sgm -> 0 <= sgn ->
       (src_loop_search_mesh_size p (src_loop_search_size_integer true ks_in k sgm sgn) <= src_loop_mesh_size p k)%Q /\
       (src_init_search_mesh_size p (src_init_search_size_integer k sgm sgn) <= src_init_mesh_size p k)%Q /\
       src_poll_search_size_integer ks_in k sgm sgn <= ks_in /\ src_poll_search_size_integer ks_in k sgm sgn <= k) /\
    (ks_in <= k ->
       (src_loop_search_mesh_size p (src_loop_search_size_integer false ks_in k sgm sgn) <= src_loop_mesh_size p k)%Q).
Proof.
  intros p ks_in k sgm sgn Hp. split.
  - intros Hk Hm Hn. destruct (search_mesh_le_poll_mesh_locked p ks_in k sgm sgn Hp Hk Hm Hn) as [A B].
    destruct (poll_search_exponent_le ks_in k sgm sgn Hk Hm Hn) as [C D].
    split; [exact A|]. split; [exact B|]. split; [exact C | exact D].
  - intros Hk. exact (search_mesh_le_poll_mesh_unlocked p ks_in k sgm sgn Hp Hk).
Qed.

(* ... and to Props/C17grid.v *)
Lemma rounding_key_is_source :
  (forall x : Q, np_round x = Qround_even x) /\
  (forall tol : Q, (src_cc_tol tol == half_tol tol)%Q) /\
  (forall (tol : Q) (r : qrow), map inject_Z (rkey (half_tol tol) r) = map (fun x => src_cc_key_candidate x tol) r).
Proof. split; [exact np_round_is_Qround_even|]. split; [exact cc_tol_is_half | exact rkey_is_src]. Qed.

Lemma same_key_iff_source :
  forall (tol : Q) (a b : qrow),
    (forall x : Q, src_cc_key_candidate x tol = src_cc_key_logged x tol) /\
    (rkey (half_tol tol) a = rkey (half_tol tol) b <->
     map (fun x => src_cc_key_candidate x tol) a = map (fun x => src_cc_key_logged x tol) b).
Proof. intros tol a b. split; [intros x; reflexivity | exact (rkey_eq_iff_src tol a b)]. Qed.

Lemma same_key_within_half_tol :
  forall (tol x y : Q), (0 < tol)%Q -> (src_cc_key_candidate x tol == src_cc_key_logged y tol)%Q -> (Qabs (x - y) <= tol / (2 # 1))%Q.
Proof.
  intros tol x y Ht H. unfold src_cc_key_candidate, src_cc_key_logged in H. cbv zeta in H.
  set (h := (tol / (2 # 1))%Q) in *.
  assert (Hh : (0 < h)%Q) by (unfold h; apply Qlt_shift_div_l; [reflexivity | lra]).
  destruct (np_round_near (x / h)) as [A1 A2]. destruct (np_round_near (y / h)) as [B1 B2].
  rewrite H in A1, A2. set (r := inject_Z (np_round (y / h))) in *.
  pose proof (ftg_div x h Hh) as Ex. pose proof (ftg_div y h Hh) as Ey.
  assert (Hh0 : (0 <= h)%Q) by (apply Qlt_le_weak; exact Hh).
  assert (D1 : (x / h - y / h <= 1)%Q) by lra. assert (D2 : (- (1) <= x / h - y / h)%Q) by lra.
  pose proof (Qmult_le_compat_r _ _ h D1 Hh0) as M1. pose proof (Qmult_le_compat_r _ _ h D2 Hh0) as M2.
  apply Qabs_Qle_condition.
  assert (E : ((x / h - y / h) * h == x - y)%Q).
  { setoid_replace ((x / h - y / h) * h)%Q with (h * (x / h) - h * (y / h))%Q by ring. rewrite Ex, Ey. reflexivity. }
  rewrite E in M1, M2. split; lra.
Qed.
