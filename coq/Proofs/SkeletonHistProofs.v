(* SkeletonHistProofs.v — what the side condition hist_ok (Model/SkeletonHist.v) buys: the stall message
   and the accelerated mesh reduction are statements about RECORDED HISTORY VALUES, not about an opaque
   oracle number. *)
From Coq Require Import ZArith QArith Qabs List Bool Lia.
From PV Require Import Model.Val Model.Skeleton Model.SkeletonHist Proofs.SkeletonCtrl.
Import ListNotations.
Open Scope Z_scope.

Lemma hist_f_app : forall s s' i r, hist s' = hist s ++ [r] -> forall fb, hist_f s i = Some fb -> hist_f s' i = Some fb.
Proof.
  intros s s' i r Hh fb H. unfold hist_f in *. destruct (i <? 0); [discriminate|].
  rewrite Hh. destruct (nth_error (hist s) (Z.to_nat i)) eqn:E; [|discriminate].
  rewrite nth_error_app1; [rewrite E; exact H|]. apply nth_error_Some. rewrite E. discriminate.
Qed.

Lemma hist_f_range : forall s i fb, hist_f s i = Some fb -> 0 <= i < Z.of_nat (List.length (hist s)).
Proof.
  intros s i fb H. unfold hist_f in H. destruct (i <? 0) eqn:E; [discriminate|]. apply Z.ltb_ge in E.
  destruct (nth_error (hist s) (Z.to_nat i)) eqn:En; [|discriminate].
  assert (Hn : (Z.to_nat i < List.length (hist s))%nat) by (apply nth_error_Some; rewrite En; discriminate).
  lia.
Qed.

(* The run is reported as stalled (message 4) only if the recorded incumbent value tol_stall_iters poll
   iterations ago minus the current incumbent value is, up to one binary64 rounding, below tol_fun. *)
Lemma stall_message_in_history_terms : forall o s ev,
  fin s = false -> exn s = false -> o_det o = true -> iter_hist_ok o s ev = true ->
  let s' := step_iter o s ev in
  fin s' = true -> exn s' = false -> msg s' = 4 ->
  exists h fb, ie_stall ev = Some h /\ (h < o_tolfun o)%Q /\
               hist_f s' (piter s' - o_stall o) = Some fb /\ approx_sub h fb (i_f (cur s')) = true /\
               0 <= piter s' - o_stall o < Z.of_nat (List.length (hist s')) - 1.
Proof.
  intros o s ev Hfin Hexn Hdet Hok. cbv zeta. unfold step_iter, iter_hist_ok in *.
  rewrite Hfin, Hexn in *. cbn [orb] in *. cbv zeta in *.
  set (s0 := lock_ks o s) in *.
  set (s1 := if want_search o s0 then search_phase o (ie_SI ev) (ie_search ev) s0 else s0) in *.
  destruct (exn s1) eqn:E1.
  { intros _ Hx. rewrite E1 in Hx. discriminate. }
  destruct (poll_decision o s1) as [s2 dp].
  set (s3 := if dp then poll_phase o (ie_SI ev) (ie_poll ev) s2 else s2) in *.
  destruct (exn s3) eqn:E3.
  { intros _ Hx. rewrite E3 in Hx. discriminate. }
  pose proof (terminate_spec o (if dp then k s3 else k s0) (ie_stall ev) s3) as T. cbv zeta in T.
  destruct (terminate o (if dp then k s3 else k s0) (ie_stall ev) s3) as [f m]. cbn [fst snd] in T.
  cbn [fin msg exn cur piter hist]. intros Hf _ Hm. subst f m.
  destruct T as [(T & _)|(_ & T)]; [discriminate|].
  destruct T as [(T & _)|[(T & _)|[(T & _)|(_ & Hst & h & Hh & Hlt)]]]; try discriminate.
  apply andb_true_iff in Hok. destruct Hok as [_ HokT].
  assert (Hlt' : (o_stall o - 1 <? piter s3) = true) by (apply Z.ltb_lt; exact Hst).
  rewrite Hlt' in HokT. unfold base_ok in HokT. rewrite Hh in HokT.
  destruct (hist_f s3 (piter s3 - o_stall o)) as [fb|] eqn:Ef; [|discriminate].
  exists h, fb. rewrite Hdet. cbn [negb andb].
  replace (dp || true) with true by (destruct dp; reflexivity).
  replace (negb true && dp) with false by reflexivity.
  set (r := mkH (cur s3) (fc s3) (if dp then k s3 else k s0)).
  set (sF := mkSt (k s3) (ks s3) (scount s3) (ssucc s3) (spree s3) (piter s3) (fc s3) (nrows s3) (cur s3) (calls s3) (hist s3 ++ [r]) true 4 false).
  assert (HhF : hist sF = hist s3 ++ [r]) by reflexivity.
  split; [exact Hh|]. split; [exact Hlt|].
  split. { exact (hist_f_app s3 sF _ r HhF fb Ef). }
  split. { exact HokT. }
  rewrite app_length. cbn [List.length].
  pose proof (hist_f_range s3 _ fb Ef). lia.
Qed.

(* An accelerated (quartering) mesh reduction happens only if the recorded incumbent value accelerate_mesh_steps poll
   iterations ago minus the current incumbent value is, up to one binary64 rounding, below tol_fun. *)
Lemma quarter_in_history_terms : forall o SI ev s,
  poll_hist_ok o SI ev s = true -> k s <= o_maxgrid o ->
  let s' := poll_phase o SI ev s in
  exn s' = false -> k s' = k s - 2 ->
  exists h fb, pe_hist ev = Some h /\ (h < o_tolfun o)%Q /\ o_accel o = true /\ o_accel_steps o < piter s' /\
               hist_f s' (piter s' - o_accel_steps o) = Some fb /\ approx_sub h fb (i_f (cur s')) = true.
Proof.
  intros o SI ev s Hok Hk. cbv zeta. intros Hx Hq.
  pose proof (poll_update o SI ev s Hx) as U. cbv zeta in U.
  pose proof (poll_phase_spec o SI ev s) as PS. cbv zeta in PS.
  destruct PS as (_ & _ & _ & Hpi & _).
  unfold poll_hist_ok in Hok. cbv zeta in Hok. rewrite Hx in Hok.
  destruct U as [(Hg & Hk')|(Hg & [(Hk' & Hac & Hst & h & Hh & Hlt)|(Hk' & _)])]; [lia| |lia].
  rewrite Hg in Hok. cbn [negb andb] in Hok. rewrite Hac in Hok. cbn [andb] in Hok.
  assert (Hst' : (o_accel_steps o <? piter (poll_phase o SI ev s)) = true) by (apply Z.ltb_lt; rewrite Hpi; exact Hst).
  rewrite Hst' in Hok. unfold base_ok in Hok. rewrite Hh in Hok.
  destruct (hist_f (poll_phase o SI ev s) (piter (poll_phase o SI ev s) - o_accel_steps o)) as [fb|] eqn:Ef; [|discriminate].
  exists h, fb. split; [exact Hh|]. split; [exact Hlt|]. split; [exact Hac|]. split; [rewrite Hpi; exact Hst|].
  split; [reflexivity | exact Hok].
Qed.
